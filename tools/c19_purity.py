"""C19: mutation-capability analysis of the C++ bodies of script functions registered side-effect-free.

Question answered per function body: can it change an object that existed before the call (anything reachable from its
parameters, from `this`/the current script frame, or any global / registry / file)?  The answer "pure" is given only if EVERY
use in the body is on a whitelist; everything that is not recognised counts as "possibly mutating".

Abstraction (token level, flow-insensitive, one body at a time):

* locals are classified by their declared type:
    SCALAR    - numbers, bool, String, enums ...: copies, can not alias a shared object;
    OWN       - value containers with their own storage (ArrayData, std::set<Value>, std::vector<..>, std::ostringstream, ...):
                may be modified freely; values taken OUT of them are treated as shared again;
    POINTER   - everything else (X::Ptr, Value, const T&, T*, auto, iterator ...): is an ALIAS of pre-existing state unless EVERY
                initialiser / assignment of that name in the body is a *fresh* expression (`new T`, `x->ShallowClone()`, `x->Clone()`,
                Array::FromSet/FromVector, Reverse()/Unique(), a literal).  So `Array::Ptr arr1 = arguments[0];` makes arr1 an alias,
                and so does a second assignment `arr1 = result` somewhere else NOT un-alias it (flow-insensitive).
  parameters of non-scalar type are aliases.  A non-const reference or raw pointer declared from an alias is itself reported.
* every method call in an access chain that starts at an alias (`a->M(..)`, `a.f.M(..)`, `a[i].M(..)`) must be a READ method
  (GetLength, Get, Contains, ShallowClone, ... - table READ_METHODS); `Begin()/End()/begin()/end()` of an alias additionally must
  be an argument of a non-modifying std algorithm (or, for algorithms with an output iterator, not in the output position);
  an assignment / ++ / -- whose left side is such a chain (`a->x = ..`, `a[i] = ..`, `*a = ..`) is a write.
* an alias (or a chain starting at one) that is passed as an ARGUMENT is accepted only if the callee is a READ method of an alias,
  any method of a fresh/OWN local (the value is stored into a container this call created), a cast, or a function on
  the table PURE_CALLEES; `std::back_inserter(alias)`, `std::sort(alias->Begin(), ..)`, `x->CopyTo(alias)`, `helper(alias)` are
  therefore reported.
* EVERY call in the body, with or without alias arguments, must be recognised: a READ method, a method of a fresh/OWN local, a cast /
  constructor of a value type, or on PURE_CALLEES.  This covers globals, registries, files and processes (ScriptGlobal::Set,
  Application::Exit, Utility::Glob, ... are simply not on the table).
* assignments to names that are neither locals nor parameters (globals, members) are writes; `const_cast` is reported.

What is TRUSTED (stated in notes/C19.md): the tables READ_METHODS / PURE_CALLEES / FRESH_METHODS below (the READ methods of the container
classes are cross-checked: they must be declared `const` in their header, see const_methods()); that a declaration is recognised as
`<type tokens> <name> (= | ( | { | ; | : | ,)`; macros are not expanded; no inter-procedural analysis beyond the tables.
"""
import re

KEYWORDS = {'if', 'else', 'for', 'while', 'do', 'switch', 'case', 'default', 'break', 'continue', 'return', 'throw', 'try', 'catch',
            'new', 'delete', 'sizeof', 'const', 'static', 'auto', 'typename', 'template', 'struct', 'class', 'enum', 'using',
            'namespace', 'true', 'false', 'nullptr', 'this', 'goto', 'volatile', 'unsigned', 'signed', 'operator', 'typedef',
            'inline', 'virtual', 'override', 'noexcept', 'mutable', 'constexpr', 'decltype'}
SCALAR_TYPES = {'double', 'int', 'long', 'bool', 'size_t', 'unsigned', 'char', 'float', 'short', 'String', 'MatchType', 'LogSeverity',
                'DebugInfo', 'boost::regex', 'boost::smatch', 'std::string', 'String::SizeType', 'Array::SizeType', 'SizeType',
                'std::vector<Value>::size_type', 'std::vector<String>', 'time_t', 'tm', 'DWORD', 'TCHAR', 'intptr_t', 'uint64_t',
                'int64_t', 'uint32_t', 'int32_t', 'std::size_t', 'ObjectLock', 'std::ostringstream', 'std::stringstream',
                'std::istringstream', 'std::unique_lock<std::mutex>', 'std::mt19937', 'std::uniform_real_distribution<double>'}
OWN_TYPES = {'ArrayData', 'DictionaryData', 'std::set<Value>', 'std::vector<Value>', 'std::map<String,Value>',
             'std::vector<Value>::size_type'}
# methods that do not modify their receiver (the container/object ones are cross-checked against `const` in the headers)
READ_METHODS = {
    'GetLength', 'Get', 'Contains', 'ShallowClone', 'Clone', 'Join', 'Reverse', 'Unique', 'ToString', 'GetReflectionType', 'GetKeys',
    'IsObjectType', 'IsObject', 'IsString', 'IsEmpty', 'IsNumber', 'IsBoolean', 'ToBool', 'GetType', 'GetTypeName', 'IsSideEffectFree',
    'Invoke', 'InvokeThis', 'GetName', 'IsAbstract', 'GetDebugInfo', 'GetData', 'CStr', 'SubStr', 'Split', 'Find', 'FindFirstOf', 'Trim',
    'size', 'empty', 'at', 'get', 'GetObject', 'GetObjects', 'GetFieldId', 'GetFieldCount', 'GetFieldInfo', 'GetBaseType',
    'IsAssignableFrom', 'GetParent', 'GetIndex', 'OwnsLock', 'Begin', 'End', 'begin', 'end', 'cbegin', 'cend', 'rbegin', 'rend',
    'find', 'count', 'GetItems', 'load', 'filename', 'parent_path', 'string', 'GetResult', 'GetActive', 'IsActive', 'Format', 'GetValue', 'Compare', 'c_str', 'str', 'GetFieldByName',
}
ITER_METHODS = {'Begin', 'End', 'begin', 'end'}
# (receiver, method) pairs on non-local receivers that are accepted: the per-thread seed of the random number generator is not protected state
TRUSTED_MEMBER_CALLS = {('m_RandSeed', 'reset'), ('m_RandSeed', 'get')}
# methods of a FRESH / OWN local that may receive an alias as argument: they store or compare the value, they do not write into it
STORE_METHODS = {'push_back', 'emplace_back', 'insert', 'emplace', 'push_front', 'Add', 'Set', 'Insert', 'count', 'find', 'Contains',
                 'Get', 'at', 'append', 'Append', 'assign', 'reserve', 'Resize', 'operator<<', 'SetField'}
FRESH_METHODS = {'ShallowClone', 'Clone', 'Reverse', 'Unique', 'Join', 'ToString', 'Split', 'SubStr', 'Trim', 'GetLength', 'Contains',
                 'GetKeys', 'ToBool', 'size', 'empty', 'GetName', 'Format', 'IsAbstract', 'IsObjectType', 'IsObject', 'IsString',
                 'IsEmpty', 'Find', 'GetTypeName', 'GetType', 'IsSideEffectFree', 'str', 'GetValue'}
FRESH_CALLEES = {'Array::FromSet', 'Array::FromVector', 'Convert::ToString', 'Convert::ToDouble', 'Convert::ToLong', 'Convert::ToBool',
                 'JsonEncode', 'JsonDecode', 'GetTargetForTemplate', 'boost::to_upper_copy', 'boost::to_lower_copy', 'std::max', 'std::min'}
# std algorithms that only read through the iterators they are given; value = index of an OUTPUT iterator argument (or None)
NONMOD_ALGOS = {'std::find': None, 'std::find_if': None, 'std::count': None, 'std::count_if': None, 'std::any_of': None,
                'std::all_of': None, 'std::none_of': None, 'std::equal': None, 'std::includes': None, 'std::accumulate': None,
                'std::distance': None, 'std::max_element': None, 'std::min_element': None, 'std::binary_search': None,
                'std::lower_bound': None, 'std::upper_bound': None, 'std::is_sorted': None,
                'std::copy': 2, 'std::copy_if': 2, 'std::reverse_copy': 2, 'std::unique_copy': 2, 'std::transform': -1,
                'std::set_intersection': 4, 'std::set_union': 4, 'std::set_difference': 4, 'std::merge': 4}
CASTS = {'static_cast', 'dynamic_cast', 'dynamic_pointer_cast', 'static_pointer_cast'}
# functions known not to modify their arguments or any pre-existing state (TRUSTED by name)
PURE_CALLEES = set(FRESH_CALLEES) | set(NONMOD_ALGOS) | {
    'REQUIRE_NOT_NULL', 'BOOST_THROW_EXCEPTION', 'ASSERT', 'VERIFY', 'ScriptError', 'std::invalid_argument', 'std::runtime_error',
    'std::move', 'ObjectLock', 'String', 'Value', 'Array', 'Dictionary', 'Namespace', 'Function', 'Reference', 'DateTime',
    'ScriptFrame::GetCurrentFrame', 'Utility::Match', 'Utility::CidrMatch', 'boost::regex_search', 'boost::regex_match',
    'Type::GetByName', 'ConfigItem::GetByTypeAndName', 'ConfigItem::GetItems', 'DependencyGraph::GetChildren',
    'Utility::GetFromEnvironment', 'Utility::GetTime', 'Utility::Random', 'Utility::BaseName', 'Utility::DirName',
    'Utility::EscapeShellCmd', 'Utility::EscapeShellArg', 'Utility::EscapeCreateProcessArg', 'Utility::ValidateUTF8',
    'MsiGetProductCode', 'MsiGetComponentPath', 'getenv', 'dirname', 'basename', 'strdup', 'free', 'strlen',
    'std::fabs', 'std::acos', 'std::asin', 'std::atan', 'std::atan2', 'std::ceil', 'std::cos', 'std::exp', 'std::floor', 'std::log',
    'std::pow', 'std::rand', 'boost::math::isnan', 'boost::math::isinf', 'std::sin', 'std::sqrt', 'std::tan', 'std::isnan', 'std::isinf', 'boost::math::round', 'std::round', 'std::abs',
    'boost::algorithm::replace_all', 'boost::algorithm::split', 'boost::is_any_of', 'boost::algorithm::trim_copy',
    'std::distance', 'std::back_inserter', 'std::inserter', 'std::make_pair', 'std::to_string', 'std::begin', 'std::end',
    'sizeof', 'decltype', 'std::sort', 'std::unique', 'std::reverse', 'std::stable_sort',
    'ReadLockUnlessFrozen', 'GetPrototypeField', 'std::this_thread::get_id', 'Object::GetFieldByName', 'GetField',
    'boost::filesystem::path', 'nlohmann::json::sax_parse', 'rand', 'rand_r', 'GetSystemTimeAsFileTime', 'SystemTimeToFileTime',
    'CopyTo', 'gettimeofday', 'time', 'localtime_r', 'strftime', 'std::uniform_real_distribution', 'tm',
}
# ... of these, the ones that WRITE through an argument: accepted only when no argument is (derived from) an alias
WRITES_ARGS = {'std::sort': (0, 1), 'std::stable_sort': (0, 1), 'std::unique': (0, 1), 'std::reverse': (0, 1), 'std::back_inserter': (0,),
               'std::inserter': (0,), 'CopyTo': (0,), 'boost::algorithm::replace_all': (0,), 'boost::algorithm::split': (0,), 'std::move': (0,),
               'free': (0,), 'localtime_r': (1,), 'strftime': (0,), 'gettimeofday': (0,)}

TOKEN_RE = re.compile(r'"(?:\\.|[^"\\])*"|\'(?:\\.|[^\'\\])*\'|[A-Za-z_]\w*|\d[\w.]*|->\*?|::|<<=|>>=|\.\.\.|==|!=|<=|>=|&&|\|\||\+\+|--|'
                      r'\+=|-=|\*=|/=|%=|\|=|&=|\^=|<<|>>|\S')
ASSIGN_OPS = {'=', '+=', '-=', '*=', '/=', '%=', '|=', '&=', '^=', '<<=', '>>=', '++', '--'}


def strip_comments(s):
    return re.sub(r'/\*.*?\*/|//[^\n]*', '', s, flags=re.S)


def strip_pp(s):
    return re.sub(r'(?m)^[ \t]*#[^\n]*(\\\n[^\n]*)*', '', s)


def tokenize(s):
    return TOKEN_RE.findall(s)


def is_ident(t):
    return bool(re.match(r'^[A-Za-z_]\w*$', t)) and t not in KEYWORDS


def match_close(toks, i, op='(', cl=')'):
    """toks[i] == op -> index of the matching cl"""
    d = 0
    for j in range(i, len(toks)):
        if toks[j] == op:
            d += 1
        elif toks[j] == cl:
            d -= 1
            if d == 0:
                return j
    return len(toks) - 1


def find_defs(text, qname):
    """all definitions `... qname(params) [const] {body}` at brace depth 0/namespace level -> [(params, body, is_const)]"""
    out = []
    for m in re.finditer(r'(?<![\w:>.])(?:icinga::)?' + re.escape(qname) + r'\s*\(', text):
        # a definition: preceded (same statement) by a return type, i.e. not by an operator / `return` / `(` / `,` / `=`
        k = m.start() - 1
        while k >= 0 and text[k] in ' \t\n*&':
            k -= 1
        if k < 0 or not (text[k].isalnum() or text[k] in '_>'):
            continue
        w = re.search(r'([A-Za-z_]\w*)$', text[:k + 1])
        if w and w.group(1) in ('return', 'else', 'new', 'throw', 'case', 'delete', 'typename'):
            continue
        # parameters
        depth, j = 0, m.end() - 1
        while j < len(text):
            if text[j] == '(':
                depth += 1
            elif text[j] == ')':
                depth -= 1
                if depth == 0:
                    break
            j += 1
        params = text[m.end():j]
        rest = re.match(r'\s*(const)?\s*(?:noexcept\s*)?(?:override\s*)?\{', text[j + 1:])
        if not rest:
            continue
        b = j + 1 + rest.end() - 1
        depth, e = 0, b
        while e < len(text):
            c = text[e]
            if c == '"':
                e += 1
                while e < len(text) and text[e] != '"':
                    if text[e] == '\\':
                        e += 1
                    e += 1
            elif c == "'":
                e += 1
                while e < len(text) and text[e] != "'":
                    if text[e] == '\\':
                        e += 1
                    e += 1
            elif c == '{':
                depth += 1
            elif c == '}':
                depth -= 1
                if depth == 0:
                    break
            e += 1
        out.append((params, text[b + 1:e], bool(rest.group(1))))
    return out


def norm_type(toks):
    t = ''.join(x for x in toks if x not in ('const', 'static', 'typename', 'volatile', 'mutable', 'constexpr'))
    return t


def classify_type(ty, ref):
    """-> 'scalar' | 'own' | 'ptr'"""
    base = ty.rstrip('&*')
    if base in OWN_TYPES and not ref:
        return 'own'
    if base in SCALAR_TYPES or base.endswith('::SizeType') or base.endswith('::size_type'):
        return 'scalar'
    if base in OWN_TYPES:
        return 'ptr'            # a reference to somebody else's container
    if re.match(r'^std::(vector|set|map|list|deque|pair)<', base) and not ref:
        return 'own'
    return 'ptr'


def split_params(params):
    out, depth, cur = [], 0, ''
    for ch in params:
        if ch in '(<[{':
            depth += 1
        elif ch in ')>]}':
            depth -= 1
        if ch == ',' and depth == 0:
            out.append(cur)
            cur = ''
        else:
            cur += ch
    if cur.strip():
        out.append(cur)
    return out


class Body:
    def __init__(self, params, body, extra_roots=(), this_alias=False):
        self.toks = tokenize(strip_pp(body))
        self.problems = []
        self.invokes = False
        self.locals = {}        # name -> {'kind': scalar|own|ptr, 'inits': [token lists], 'nonconst_ref': bool, 'param': bool}
        for p in split_params(params):
            pt = tokenize(p.split('=')[0])
            if not pt:
                continue
            name = pt[-1] if is_ident(pt[-1]) else None
            if name is None:
                continue
            tyt = pt[:-1]
            ref = any(x in ('&', '*', '&&') for x in tyt)
            is_const = 'const' in tyt or not any(x in ('&', '&&') for x in tyt)
            ty = norm_type([x for x in tyt if x not in ('&', '*', '&&')])
            kind = classify_type(ty, ref)
            self.locals[name] = {'kind': kind, 'inits': [['<param>']], 'param': True, 'type': ty,
                                 'nonconst_ref': ref and not is_const and kind != 'scalar'}
            if ref and not is_const and kind != 'scalar':
                self.problems.append('parameter %s is a non-const reference/pointer' % name)
        self.extra_roots = set(extra_roots)
        self.this_alias = this_alias
        self.collect_decls()
        self.compute_alias()

    # ---- declarations: <type tokens> [&|*] name (= ( { ; : ,)
    def collect_decls(self):
        t = self.toks
        n = len(t)
        for i in range(1, n - 1):
            if not is_ident(t[i]) or t[i - 1] in ('.', '->', '::'):
                continue
            if t[i + 1] not in ('=', '(', '{', ';', ':', ',', ')', '['):
                continue
            # walk back over & * && to the end of a type
            j = i - 1
            ref = False
            amp = False
            while j >= 0 and t[j] in ('&', '*', '&&'):
                ref = True
                amp = amp or t[j] != '*'
                j -= 1
            if j < 0:
                continue
            # the type, right to left: ident | ident<...> , joined by ::
            e = j
            ok = True
            while True:
                if t[j] in ('>', '>>'):
                    d, k = 0, j
                    while k >= 0:
                        if t[k] in ('>', '>>'):
                            d += 2 if t[k] == '>>' else 1
                        elif t[k] == '<':
                            d -= 1
                            if d == 0:
                                break
                        k -= 1
                    j = k - 1
                    if j < 0 or not is_ident(t[j]):
                        ok = False
                        break
                elif not (is_ident(t[j]) or t[j] in ('auto', 'unsigned', 'int', 'long', 'double', 'bool', 'char', 'float')):
                    ok = False
                    break
                if j - 2 >= 0 and t[j - 1] == '::' and (is_ident(t[j - 2]) or t[j - 2] in ('>', '>>')):
                    j -= 2
                    continue
                break
            if not ok:
                continue
            tystart = j
            # what precedes the type must be a statement boundary (or const/static/for-paren)
            k = tystart - 1
            while k >= 0 and t[k] in ('const', 'static', 'unsigned', 'typename', 'constexpr'):
                k -= 1
            prev = t[k] if k >= 0 else ';'
            if prev not in (';', '{', '}', '(', ')', ':') :
                continue
            if prev == '(' and (k == 0 or t[k - 1] not in ('for', 'catch', 'if', 'while', ']')):
                continue
            if prev == ')' and not self._closes_control(k):
                continue
            if prev == ':' and t[i + 1] == ':':
                continue
            if t[i + 1] == ')' and prev != '(':
                continue
            is_const = any(x == 'const' for x in t[k + 1:i])
            ty = norm_type([x for x in t[tystart:e + 1]])
            if ty in ('return', 'else', 'throw', 'delete', 'new', 'case', 'goto') or ty in KEYWORDS - {'auto', 'unsigned'}:
                continue
            kind = classify_type(ty, ref)
            # initialiser tokens
            init = []
            if t[i + 1] == '=':
                e2 = self._stmt_end(i + 2)
                init = t[i + 2:e2]
            elif t[i + 1] in ('(', '{'):
                e2 = match_close(t, i + 1, t[i + 1], ')' if t[i + 1] == '(' else '}')
                init = t[i + 2:e2]
                if not init:
                    init = ['<default>']
            elif t[i + 1] == ':':
                e2 = self._paren_end(i + 2)
                init = ['<range>'] + t[i + 2:e2]
            else:
                init = ['<default>']
                e2 = i + 1 if t[i + 1] != '[' else match_close(t, i + 1, '[', ']') + 1
            self._add_local(t[i], kind, ty, ref, is_const or not amp, init)
            # further declarators of the same statement: `T a(x), b(y);`  `double s, e, inc;`
            nx = e2 + 1 if t[i + 1] in ('(', '{') else e2
            while nx + 1 < n and t[nx] == ',' and is_ident(t[nx + 1]) and nx + 2 < n and t[nx + 2] in ('(', '=', '{', ';', ',') and prev != '(':
                nm2 = t[nx + 1]
                if t[nx + 2] in ('(', '{'):
                    c2 = match_close(t, nx + 2, t[nx + 2], ')' if t[nx + 2] == '(' else '}')
                    self._add_local(nm2, kind, ty, ref, is_const or not amp, t[nx + 3:c2] or ['<default>'])
                    nx = c2 + 1
                elif t[nx + 2] == '=':
                    c2 = self._stmt_end(nx + 3)
                    self._add_local(nm2, kind, ty, ref, is_const or not amp, t[nx + 3:c2])
                    nx = c2
                else:
                    self._add_local(nm2, kind, ty, ref, is_const or not amp, ['<default>'])
                    nx = nx + 2
        # plain assignments `name = expr;` to known locals
        for i in range(1, n - 1):
            if t[i] in self.locals and t[i + 1] == '=' and t[i - 1] in (';', '{', '}', ')', 'else'):
                e2 = self._stmt_end(i + 2)
                self.locals[t[i]]['inits'].append(t[i + 2:e2])

    def _add_local(self, name, kind, ty, ref, is_const, init):
        d = self.locals.setdefault(name, {'kind': kind, 'inits': [], 'param': False, 'type': ty, 'nonconst_ref': False})
        if not d['param']:
            d['inits'].append(init)
            if ref and not is_const and kind != 'scalar':
                d['nonconst_ref'] = True

    def _closes_control(self, k):
        # t[k] == ')' : is it the parenthesis of if/for/while?
        t = self.toks
        d = 0
        for j in range(k, -1, -1):
            if t[j] == ')':
                d += 1
            elif t[j] == '(':
                d -= 1
                if d == 0:
                    return j > 0 and t[j - 1] in ('if', 'for', 'while')
        return False

    def _stmt_end(self, i):
        t = self.toks
        d = 0
        for j in range(i, len(t)):
            if t[j] in ('(', '{', '['):
                d += 1
            elif t[j] in (')', '}', ']'):
                if d == 0:
                    return j
                d -= 1
            elif t[j] in (';', ',') and d == 0:
                if t[j] == ';' or d == 0:
                    return j
        return len(t)

    def _paren_end(self, i):
        t = self.toks
        d = 0
        for j in range(i, len(t)):
            if t[j] == '(':
                d += 1
            elif t[j] == ')':
                if d == 0:
                    return j
                d -= 1
        return len(t)

    # ---- fresh expressions
    def is_fresh(self, init, aliases):
        if not init:
            return True
        if init[0] in ('<default>',):
            return True
        if init[0] == '<param>':
            return False
        if init[0] == '<range>':
            # the loop variable of a range-for over X: an element of X
            src = init[1:]
            heads = [x for k, x in enumerate(src) if is_ident(x) and (k == 0 or src[k - 1] not in ('.', '->', '::'))]
            return all((h in self.locals and self.locals[h]['kind'] == 'scalar') for h in heads) and bool(heads)
        if init[0] == 'new':
            return True
        if len(init) == 1 and (re.match(r'^[\d"\']', init[0]) or init[0] in ('nullptr', 'true', 'false', 'Empty')):
            return True
        # a call of a fresh callee / a chain ending in a fresh method
        s = ''.join(init)
        for c in FRESH_CALLEES:
            if s.startswith(c + '('):
                return True
        # chain ... ->Method( ... ) with nothing after the closing paren
        if init[-1] == ')':
            d = 0
            for j in range(len(init) - 1, -1, -1):
                if init[j] == ')':
                    d += 1
                elif init[j] == '(':
                    d -= 1
                    if d == 0:
                        if j >= 2 and init[j - 2] in ('.', '->') and init[j - 1] in FRESH_METHODS:
                            return True
                        break
        # an expression over scalar locals only (calls on private value copies included)
        heads0 = [x for k, x in enumerate(init) if is_ident(x) and (k == 0 or init[k - 1] not in ('.', '->', '::')) and
                  not (k + 1 < len(init) and init[k + 1] == '::')]
        if heads0 and all((h in self.locals and h not in aliases and self.locals[h]['kind'] == 'scalar') for h in heads0):
            return True
        # an expression over non-alias locals without calls / member access
        heads = [x for k, x in enumerate(init) if is_ident(x) and (k == 0 or init[k - 1] not in ('.', '->', '::'))]
        if '(' not in init and '[' not in init and '.' not in init and '->' not in init and \
                all((h in self.locals and h not in aliases) for h in heads):
            return True
        return False

    def compute_alias(self):
        aliases = set(self.extra_roots)
        for nme, d in self.locals.items():
            if d['param'] and d['kind'] == 'ptr':
                aliases.add(nme)
        changed = True
        while changed:
            changed = False
            for nme, d in self.locals.items():
                if nme in aliases or d['kind'] != 'ptr':
                    continue
                if any(not self.is_fresh(init, aliases) for init in d['inits']):
                    aliases.add(nme)
                    changed = True
        self.aliases = aliases

    # ---- uses
    def callee_of(self, i):
        """i = index of an opening '(' -> (kind, name, receiver) ; kind in method|free|cast|control|paren"""
        t = self.toks
        j = i - 1
        if j < 0:
            return ('paren', '', None)
        if t[j] in ('>', '>>'):
            d, k = 0, j
            while k >= 0:
                if t[k] in ('>', '>>'):
                    d += 2 if t[k] == '>>' else 1
                elif t[k] == '<':
                    d -= 1
                    if d <= 0:
                        break
                k -= 1
            if k >= 1 and (is_ident(t[k - 1]) or t[k - 1] in CASTS):
                nm = self.qualified(k - 1)
                if k - 2 >= 0 and t[k - 2] in ('.', '->'):
                    return ('method', t[k - 1], self.chain_root(k - 1))
                return ('cast' if nm[0] in CASTS or nm[0] in ('const_cast', 'reinterpret_cast') else 'free', nm[0], None)
            return ('paren', '', None)
        if t[j] in ('if', 'for', 'while', 'switch', 'catch', 'return', 'sizeof'):
            return ('control', t[j], None)
        if is_ident(t[j]):
            if j - 1 >= 0 and t[j - 1] in ('.', '->'):
                return ('method', t[j], self.chain_root(j))
            nm, start = self.qualified(j)
            # a declaration `Type name(args)`?
            if start - 1 >= 0 and (is_ident(t[start - 1]) or t[start - 1] in ('>', '&', '*')) and t[j] in self.locals and nm == t[j]:
                return ('decl', nm, None)
            return ('free', nm, None)
        return ('paren', '', None)

    def qualified(self, j):
        """token j is an identifier: join `A::B::j` -> (name, start index)"""
        t = self.toks
        nm = t[j]
        s = j
        while s - 2 >= 0 and t[s - 1] == '::' and (is_ident(t[s - 2]) or t[s - 2] == 'std'):
            nm = t[s - 2] + '::' + nm
            s -= 2
        return nm, s

    def chain_root(self, j):
        """token j is a member name after . or -> : walk left to the head identifier of the access chain (None if it is an expression)"""
        t = self.toks
        k = j
        while k - 1 >= 0 and t[k - 1] in ('.', '->'):
            k -= 2
            # skip call / index suffixes to the left: x(...)->m , x[...]->m
            while k >= 0 and t[k] in (')', ']'):
                op = '(' if t[k] == ')' else '['
                d = 0
                while k >= 0:
                    if t[k] in (')', ']'):
                        d += 1
                    elif t[k] in ('(', '['):
                        d -= 1
                        if d == 0:
                            break
                    k -= 1
                k -= 1
                if k >= 0 and t[k] in ('>',):
                    return None
            if k < 0 or not (is_ident(t[k]) or t[k] == 'this'):
                return None
        if k - 1 >= 0 and t[k - 1] == '::':
            return self.qualified(k)[0]
        return t[k]

    def enclosing_call(self, i):
        """innermost unmatched '(' to the left of token i (initializer-list braces are transparent) -> (index of '(', arg position)"""
        t = self.toks
        d = 0
        pos = 0
        for j in range(i - 1, -1, -1):
            if t[j] in (')', ']'):
                d += 1
            elif t[j] in ('(', '['):
                if d == 0:
                    if t[j] == '(':
                        return j, pos
                    return None, 0
                d -= 1
            elif t[j] == '}':
                d += 1
            elif t[j] == '{':
                if d == 0:
                    # initializer list `f({ a, b })` is transparent; a statement block is not
                    if j - 1 >= 0 and t[j - 1] in ('(', ',', '='):
                        continue
                    return None, 0
                d -= 1
            elif t[j] == ',' and d == 0:
                pos += 1
            elif t[j] == ';' and d == 0:
                return None, 0
        return None, 0

    def is_aliasish(self, name):
        return name in self.aliases or (self.this_alias and name == 'this')

    def check(self):
        t = self.toks
        n = len(t)
        P = self.problems
        # 1. every call
        for i in range(n):
            if t[i] != '(':
                continue
            kind, nm, root = self.callee_of(i)
            if kind in ('control', 'paren', 'decl'):
                continue
            if kind == 'cast':
                if nm in ('const_cast', 'reinterpret_cast'):
                    P.append('%s' % nm)
                continue
            close = match_close(t, i)
            args = t[i + 1:close]
            arg_alias = [x for k, x in enumerate(args) if self.is_aliasish(x) and (k == 0 or args[k - 1] not in ('.', '->', '::'))]
            if kind == 'method':
                if nm in ('Invoke', 'InvokeThis'):
                    self.invokes = True
                if root is not None and root in self.locals and not self.is_aliasish(root) and self.locals[root]['kind'] in ('own', 'ptr', 'scalar'):
                    # a method of a fresh / own local: free to modify it; but deeper calls in the same chain must be reads
                    if self._chain_depth(i) > 1 and nm not in READ_METHODS:
                        P.append('%s(): call on a value taken out of local %s' % (nm, root))
                    continue
                if nm in READ_METHODS:
                    if nm in ITER_METHODS and root is not None and self.is_aliasish(root):
                        self._check_iter(i, nm, root)
                    continue
                if nm == 'CopyTo':
                    # x->CopyTo(dest) const: reads x, appends to dest - fine iff dest is not (derived from) pre-existing state
                    if self._mentions_alias(args):
                        P.append('%s.CopyTo(%s): copies into pre-existing state' % (root, ' '.join(args)[:40]))
                    continue
                if (root, nm) in TRUSTED_MEMBER_CALLS:
                    continue
                P.append('%s.%s(): method not known to be non-modifying' % (root if root else '<expr>', nm))
                continue
            # free / qualified function, constructor, macro
            if nm in self.locals:
                continue            # functor call / declaration with parens
            if nm not in PURE_CALLEES:
                if nm in SCALAR_TYPES or nm in OWN_TYPES:
                    continue
                if self.this_alias and nm in READ_METHODS:
                    continue
                P.append('%s(): callee not known to be pure' % nm)
                continue
            if nm in WRITES_ARGS:
                parts = self._split_args(args)
                for wp in WRITES_ARGS[nm]:
                    if wp < len(parts) and self._mentions_alias(parts[wp]):
                        P.append('%s(%s): writes through an argument that may be pre-existing state' % (nm, ' '.join(parts[wp])[:60]))
            if nm in NONMOD_ALGOS and NONMOD_ALGOS[nm] is not None:
                parts = self._split_args(args)
                o = NONMOD_ALGOS[nm]
                outarg = parts[o] if -len(parts) <= o < len(parts) else []
                if self._mentions_alias(outarg):
                    P.append('%s: output iterator into pre-existing state' % nm)
        # 2. writes: assignment whose left side is a chain rooted at an alias, a dereferenced alias, or a non-local name
        for i in range(n):
            if t[i] not in ASSIGN_OPS:
                continue
            if t[i] in ('++', '--'):
                # prefix or postfix: look at both neighbours
                tgt = None
                if i + 1 < n and (is_ident(t[i + 1]) or t[i + 1] == '*'):
                    tgt = self._lhs_forward(i + 1)
                if tgt is None and i - 1 >= 0:
                    tgt = self._lhs_backward(i - 1)
            else:
                tgt = self._lhs_backward(i - 1)
            if tgt is None or tgt == 'decl':
                continue
            root, chained, deref = tgt
            if root is None:
                P.append('assignment through an expression')
                continue
            if root in self.locals or root in self.extra_roots:
                d = self.locals.get(root)
                if self.is_aliasish(root) and (chained or deref):
                    P.append('write through %s' % root)
                elif d is not None and d.get('nonconst_ref') and self.is_aliasish(root):
                    P.append('write through reference %s' % root)
                elif root in self.extra_roots and root not in self.locals:
                    P.append('write to %s' % root)
                continue
            if root == 'this':
                P.append('write to a member')
                continue
            P.append('write to non-local %s' % root)
        # 3. an alias passed as argument
        for i in range(n):
            if not (is_ident(t[i]) or t[i] == 'this') or not self.is_aliasish(t[i]):
                continue
            if i > 0 and t[i - 1] in ('.', '->', '::'):
                continue
            if i > 0 and t[i - 1] == '&' and (i < 2 or t[i - 2] in ('(', ',', '=', 'return')) and not (i >= 2 and t[i - 2] == '['):
                if not self._in_lambda_capture(i):
                    P.append('address of %s taken' % t[i])
            # whole-chain end: does the chain end in a call (then the call rule covers the receiver)
            j = i + 1
            last_is_call = False
            while j < n and t[j] in ('.', '->', '[', '('):
                if t[j] in ('.', '->'):
                    j += 2
                    last_is_call = False
                elif t[j] == '[':
                    j = match_close(t, j, '[', ']') + 1
                    last_is_call = False
                else:
                    j = match_close(t, j) + 1
                    last_is_call = True
            oi, pos = self.enclosing_call(i)
            if oi is None:
                continue
            kind, nm, root = self.callee_of(oi)
            if kind in ('control', 'paren', 'cast', 'decl'):
                continue
            if kind == 'method':
                if root is not None and root in self.locals and not self.is_aliasish(root) and (nm in STORE_METHODS or nm in READ_METHODS):
                    continue            # stored into / compared with a container this call created
                if nm in READ_METHODS and nm not in ('CopyTo',):
                    continue
                P.append('%s passed to %s.%s()' % (t[i], root, nm))
            else:
                if nm in self.locals:
                    continue
                if nm in PURE_CALLEES and nm not in WRITES_ARGS:
                    continue
                if nm in SCALAR_TYPES or nm in OWN_TYPES:
                    continue
                if last_is_call and nm in PURE_CALLEES:
                    # e.g. std::sort(a->Begin(), ..) is reported by rule 1 already
                    continue
                P.append('%s passed to %s()' % (t[i], nm))
        # de-duplicate, keep order
        seen, out = set(), []
        for p in P:
            if p not in seen:
                seen.add(p)
                out.append(p)
        self.problems = out
        return out

    def _in_lambda_capture(self, i):
        t = self.toks
        for j in range(i - 1, max(-1, i - 12), -1):
            if t[j] == '[':
                k = match_close(t, j, '[', ']')
                return k + 1 < len(t) and t[k + 1] in ('(', '{') and (j == 0 or not (is_ident(t[j - 1]) or t[j - 1] in (')', ']')))
            if t[j] in (';', '(', ')', '{', '}'):
                return False
        return False

    def _chain_depth(self, i):
        """number of calls in the access chain that ends with the call whose '(' is token i"""
        t = self.toks
        k = i - 1
        depth = 1
        while k - 1 >= 0 and t[k - 1] in ('.', '->'):
            k -= 2
            while k >= 0 and t[k] in (')', ']'):
                if t[k] == ')':
                    depth += 1
                d = 0
                while k >= 0:
                    if t[k] in (')', ']'):
                        d += 1
                    elif t[k] in ('(', '['):
                        d -= 1
                        if d == 0:
                            break
                    k -= 1
                k -= 1
        return depth

    def _split_args(self, args):
        out, d, cur = [], 0, []
        for x in args:
            if x in ('(', '[', '{'):
                d += 1
            elif x in (')', ']', '}'):
                d -= 1
            if x == ',' and d == 0:
                out.append(cur)
                cur = []
            else:
                cur.append(x)
        if cur:
            out.append(cur)
        return out

    def _mentions_alias(self, toks):
        for k, x in enumerate(toks):
            if (is_ident(x) or x == 'this') and (k == 0 or toks[k - 1] not in ('.', '->', '::')):
                if self.is_aliasish(x):
                    return True
                if x not in self.locals and x not in PURE_CALLEES and not re.match(r'^[A-Z][A-Za-z]*$', x) and x != 'std':
                    # a name that is neither a local nor a known function/constant: a member or global
                    if k + 1 < len(toks) and toks[k + 1] in ('.', '->', '['):
                        return True
        return False

    def _check_iter(self, i, nm, root):
        """`alias->Begin()` : must be an argument of a non-modifying algorithm, not in its output position"""
        oi, pos = self.enclosing_call(i - 2)
        if oi is None:
            # range-for header / comparison in a for statement
            return
        kind, callee, r2 = self.callee_of(oi)
        if kind == 'control':
            return
        if kind == 'free' and callee in NONMOD_ALGOS:
            o = NONMOD_ALGOS[callee]
            if o is None or (o >= 0 and pos != o) or o == -1:
                if o == -1:
                    close = match_close(self.toks, oi)
                    nargs = len(self._split_args(self.toks[oi + 1:close]))
                    if pos == nargs - 1:
                        self.problems.append('%s->%s() is the output of %s' % (root, nm, callee))
                return
            self.problems.append('%s->%s() is the output of %s' % (root, nm, callee))
            return
        self.problems.append('%s->%s() handed to %s (a mutable iterator into pre-existing state)' % (root, nm, callee or kind))

    def _lhs_backward(self, j):
        """token j is the last token of the left side of an assignment -> (root, chained, deref) or None if it is a declaration etc."""
        t = self.toks
        k = j
        chained = False
        while k >= 0:
            if t[k] == ']':
                d = 0
                while k >= 0:
                    if t[k] == ']':
                        d += 1
                    elif t[k] == '[':
                        d -= 1
                        if d == 0:
                            break
                    k -= 1
                k -= 1
                chained = True
                continue
            if t[k] == ')':
                d = 0
                while k >= 0:
                    if t[k] == ')':
                        d += 1
                    elif t[k] == '(':
                        d -= 1
                        if d == 0:
                            break
                    k -= 1
                k -= 1
                chained = True
                if k >= 0 and not (is_ident(t[k]) or t[k] == 'this'):
                    return (None, True, False)
                continue
            if is_ident(t[k]) or t[k] == 'this':
                if k - 1 >= 0 and t[k - 1] in ('.', '->'):
                    chained = True
                    k -= 2
                    continue
                root = t[k]
                if k - 1 >= 0 and t[k - 1] == '::':
                    root = self.qualified(k)[0]
                    k = self.qualified(k)[1]
                q = k - 1
                stars = 0
                while q >= 0 and t[q] in ('*', '&', '&&'):
                    stars += 1 if t[q] == '*' else 0
                    q -= 1
                typeish = q >= 0 and (is_ident(t[q]) or t[q] in ('>', '>>', 'auto', 'int', 'long', 'double', 'bool', 'char', 'float', 'unsigned'))
                if typeish and not chained:
                    return 'decl'
                deref = stars > 0 and not typeish
                return (root, chained, deref)
            return None
        return None

    def _lhs_forward(self, j):
        t = self.toks
        deref = False
        if t[j] == '*':
            deref = True
            j += 1
        if j < len(t) and (is_ident(t[j]) or t[j] == 'this'):
            chained = j + 1 < len(t) and t[j + 1] in ('.', '->', '[')
            return (t[j], chained, deref)
        return None


def analyse(params, body, extra_roots=(), this_alias=False):
    """-> (problems, invokes_a_function_argument)"""
    b = Body(params, body, extra_roots, this_alias)
    b.check()
    return b.problems, b.invokes


def const_methods(header_text, cls):
    """names of the member functions of `class cls` declared const in the header -> (const set, non-const set)"""
    h = strip_comments(header_text)
    m = re.search(r'class\s+' + cls + r'\b[^;{]*\{', h)
    if not m:
        return set(), set()
    d, e = 0, m.end() - 1
    while e < len(h):
        if h[e] == '{':
            d += 1
        elif h[e] == '}':
            d -= 1
            if d == 0:
                break
        e += 1
    cb = h[m.end():e]
    cs, ns = set(), set()
    for mm in re.finditer(r'\b([A-Za-z_]\w*)\s*\(([^()]|\([^()]*\))*\)\s*(const)?\s*(?:override\s*)?(?:;|\{|=)', cb):
        if mm.group(1) in KEYWORDS or mm.group(1) == cls:
            continue
        ls = cb.rfind('\n', 0, mm.start()) + 1
        if re.search(r'\bstatic\b', cb[ls:mm.start()]):
            continue
        (cs if mm.group(3) else ns).add(mm.group(1))
    return cs, ns


# ---- self-test, run with every fact generation: idioms that must be accepted / rejected
_ACCEPT = [
    ('const std::vector<Value>& arguments',
     'Array::Ptr result = new Array(); Array::Ptr arg1 = arguments[0]; if (!arg1) return result; Array::Ptr arr1 = arg1->ShallowClone();'
     ' { ObjectLock olock(arr1); std::sort(arr1->Begin(), arr1->End()); } result->Resize(arr1->GetLength()); arr1 = result; return result;'),
    ('const Value& value', 'if (value.IsObjectType<Dictionary>()) { Dictionary::Ptr dict = value; return dict->GetLength(); } return 0;'),
    ('const Object::Ptr& obj', 'ArrayData result; Dictionary::Ptr dict = dynamic_pointer_cast<Dictionary>(obj); if (dict) { ObjectLock olock(dict);'
     ' for (const Dictionary::Pair& kv : dict) { result.push_back(kv.first); } } return new Array(std::move(result));'),
    ('', 'ScriptFrame *vframe = ScriptFrame::GetCurrentFrame(); Array::Ptr self = static_cast<Array::Ptr>(vframe->Self); REQUIRE_NOT_NULL(self);'
     ' return self->Reverse();'),
    ('const Array::Ptr& a', 'Array::Ptr c = new Array(); a->CopyTo(c); ObjectLock olock(c); std::sort(c->Begin(), c->End()); return c;'),
]
_REJECT = [
    ('const std::vector<Value>& arguments', 'Array::Ptr arr1 = arguments[0]; ObjectLock olock(arr1); std::sort(arr1->Begin(), arr1->End()); return arr1;'),
    ('const std::vector<Value>& arguments', 'Array::Ptr arr1 = arguments[0]; Array::Ptr r = new Array(); arr1 = r; arr1->Clear(); return r;'),
    ('const std::vector<Value>& arguments', 'Value v = arguments[0]; Array::Ptr a = v; a->Add(1); return a;'),
    ('const Array::Ptr& a', 'Array::Ptr r = new Array(); r->CopyTo(a); return r;'),
    ('const Array::Ptr& a', 'ArrayData d; std::copy(d.begin(), d.end(), std::back_inserter(a->m_Data)); return a;'),
    ('const Array::Ptr& a', 'Helper(a); return a;'),
    ('const Array::Ptr& a', 'a->Resize(0); return a;'),
    ('const Array::Ptr& a', 'ObjectLock olock(a); auto it = a->Begin(); *it = 5; return a;'),
    ('const Array::Ptr& a', 'for (const Value& x : a) { Array::Ptr in = x; in->Add(1); } return a;'),
    ('const Array::Ptr& a', 'ObjectLock olock(a); for (Value& x : a) { x = 1; } return a;'),
    ('const Dictionary::Ptr& d', 'd->Set("k", 1); return d;'),
    ('const Value& v', 'ScriptGlobal::Set("x", v); return v;'),
    ('const Value& v', 'ScriptFrame *vframe = ScriptFrame::GetCurrentFrame(); vframe->Self = v; return v;'),
    ('const Object::Ptr& o', 'const_cast<Object *>(o.get())->SetField(0, 1); return o;'),
    ('const Array::Ptr& a', 'ObjectLock olock(a); std::unique(a->Begin(), a->End()); return a;'),
    ('const Array::Ptr& a', 'ObjectLock olock(a); a->m_Data.clear(); return a;'),
    ('const Array::Ptr& a', 'Array::Ptr b(a); b->Clear(); return b;'),
    ('const Array::Ptr& a', 'auto b = a; b->Remove(0); return b;'),
    ('const String& path', 'Utility::Remove(path); return path;'),
]


def selftest(log=None):
    ok = True
    for params, body in _ACCEPT:
        pr, _ = analyse(params, body)
        if pr:
            ok = False
            if log is not None:
                log.append('C19: purity self-test: pure idiom rejected: %s -> %s' % (body[:60], '; '.join(pr)))
    for params, body in _REJECT:
        pr, _ = analyse(params, body)
        if not pr:
            ok = False
            if log is not None:
                log.append('C19: purity self-test: mutating idiom accepted: %s' % body[:80])
    return ok


if __name__ == '__main__':
    l = []
    print(selftest(l), '\n'.join(l))


# ---------------------------------------------------------------- reflective READ capability of natives (C19 item "hidden reads")
ACCESSORS = ('GetFieldByName', 'GetField', 'GetOwnField', 'NavigateField', 'Serialize')
_SKIP_NAMES = set(ACCESSORS) | {'if', 'for', 'while', 'switch', 'return', 'sizeof', 'catch', 'BOOST_THROW_EXCEPTION', 'ObjectLock',
                                'REQUIRE_NOT_NULL', 'static_cast', 'dynamic_pointer_cast', 'static_pointer_cast', 'dynamic_cast',
                                'ASSERT', 'VERIFY', 'String', 'Value', 'Array', 'Dictionary', 'Log', 'push_back', 'insert', 'size',
                                'begin', 'end', 'Begin', 'End', 'empty', 'find', 'what', 'c_str', 'CStr', 'GetData', 'str'}


def all_function_bodies(texts):
    """every definition `[Class::]name(params) [const] {` in the given sources -> {simple name: [(qualified name, params, body)]}"""
    out = {}
    rx = re.compile(r'(?m)^[ \t]*(?:static\s+|inline\s+|template\s*<[^>]*>\s*)*[\w:<>\*&,\s]+?[\s\*&]((?:\w+::)*~?\w+)\s*\(')
    for rel, t in texts.items():
        for m in rx.finditer(t):
            q = m.group(1)
            if q.split('::')[-1] in ('if', 'for', 'while', 'switch', 'return', 'catch', 'else', 'sizeof', 'defined'):
                continue
            ds = find_defs(t[m.start():m.start() + 20000], q)
            if not ds:
                continue
            params, body, _c = ds[0]
            if t[m.start():].find(q) > 200:
                continue
            out.setdefault(q.split('::')[-1], []).append((q, params, body))
    # de-duplicate
    for k in out:
        seen, l = set(), []
        for q, p, b in out[k]:
            if (q, b) not in seen:
                seen.add((q, b))
                l.append((q, p, b))
        out[k] = l
    return out


def reflect_reach(name, params, body, bodies, depth=1):
    """reflective accessor calls reachable from this body through name-resolved callees -> sorted list of (where, accessor, how)"""
    found, seen = set(), set()

    def visit(q, b, d):
        toks = tokenize(strip_pp(b))
        for i, x in enumerate(toks):
            if i + 1 >= len(toks) or toks[i + 1] != '(' or not is_ident(x):
                continue
            if x in ACCESSORS:
                close = match_close(toks, i + 1)
                args, cur, dd = [], [], 0
                for y in toks[i + 2:close]:
                    if y in ('(', '[', '{'):
                        dd += 1
                    elif y in (')', ']', '}'):
                        dd -= 1
                    if y == ',' and dd == 0:
                        args.append(''.join(cur))
                        cur = []
                    else:
                        cur.append(y)
                if cur:
                    args.append(''.join(cur))
                how = x
                if x == 'GetFieldByName':
                    how = 'GetFieldByName:' + (args[1] if len(args) > 1 else '?')
                found.add((q, x, how))
                continue
            if d <= 0 or x in _SKIP_NAMES:
                continue
            for (q2, p2, b2) in bodies.get(x, []):
                if q2.split('::')[-1] in ACCESSORS:
                    continue
                if (q2, len(b2)) in seen:
                    continue
                seen.add((q2, len(b2)))
                visit(q2, b2, d - 1)
    visit(name, body, depth)
    return sorted(found)
