"""C18 facts: for every registered HTTP handler the permission string(s) it demands, and for the four handlers
that return/modify config objects (object query / modify / delete / actions) that the objects they touch come
from FilterUtility::GetFilterTargets (or, for target-less actions, follow CheckPermission) and that this call
precedes the first statement that reads or changes an object.  An unrecognised handler yields `None`
(= "compared only", logged); a recognised handler that touches objects first yields `Some false`."""
import re, os


def strip_comments(s):
    return re.sub(r'/\*.*?\*/|//[^\n]*', '', s, flags=re.S)


def handle_body(src):
    m = re.search(r'::HandleRequest\s*\(', src)
    if not m:
        return None
    i = src.find('{', src.find(')', m.end()))
    # the parameter list contains no braces; find the body start after the closing paren of the signature
    depth, j = 0, m.end()
    par = 1
    while j < len(src) and par:
        if src[j] == '(': par += 1
        elif src[j] == ')': par -= 1
        j += 1
    i = src.find('{', j)
    if i < 0:
        return None
    depth, k = 1, i + 1
    while k < len(src) and depth:
        if src[k] == '{': depth += 1
        elif src[k] == '}': depth -= 1
        k += 1
    return src[i + 1:k - 1]


def zl(s):
    return '[' + ';'.join(str(b) for b in s.encode()) + ']'


def run(rd, emit, log, enum_values, ti_default):
    body = 'Require Import Coq.Strings.String.\n\n'
    repo = os.environ.get('VERIF_REPO', '/repo')
    d = os.path.join(repo, 'lib/remote')
    table = []
    try:
        files = sorted(f for f in os.listdir(d) if f.endswith('.cpp'))
    except OSError:
        files = []
    for f in files:
        src = strip_comments(rd('lib/remote/' + f))
        m = re.search(r'REGISTER_URLHANDLER\s*\(\s*"([^"]*)"\s*,\s*(\w+)\s*\)', src)
        if not m:
            continue
        perms = re.findall(r'(?:CheckPermission\s*\(\s*user\s*,|qd\.Permission\s*=|String\s+permission\s*=)\s*"([^"]+)"', src)
        table.append((m.group(2), m.group(1), sorted(set(perms))))
    body += 'Definition f_pm_handlers : list (string * string * list string) := [\n%s\n].\n\n' % ';\n'.join(
        '  ("%s"%%string, "%s"%%string, [%s])' % (h, u, '; '.join('"%s"%%string' % p for p in ps)) for h, u, ps in table)

    def guard(name, fname, prefix_re, touch_res, targetless=False):
        nonlocal body
        src = strip_comments(rd('lib/remote/' + fname))
        b = handle_body(src)
        pref, ok = None, None
        if b:
            m = re.search(prefix_re, b)
            if m:
                pref = m.group(1)
            g = re.search(r'objs\s*=\s*FilterUtility::GetFilterTargets\s*\(\s*qd\s*,\s*params\s*,\s*user\s*\)', b)
            perm_set = re.search(r'qd\.Permission\s*=', b)
            other_src = [x for x in re.finditer(r'\bobjs\s*(?:=|\.push_back|\.emplace_back|\.insert)', b)]
            touches = [t.start() for r in touch_res for t in re.finditer(r, b)]
            if g and perm_set and touches:
                good = perm_set.start() < g.start() and all(g.start() < t for t in touches)
                # every other way objs gets content must be preceded by CheckPermission (target-less actions)
                for x in other_src:
                    if x.start() == g.start():
                        continue
                    c = re.search(r'FilterUtility::CheckPermission\s*\(\s*user\s*,\s*permission\s*\)', b[:x.start()])
                    if not (targetless and c and re.search(r'objs\.emplace_back\s*\(\s*nullptr\s*\)', b[x.start():x.start() + 40])):
                        good = False
                ok = good
        if pref is None:
            log.append('C18: permission prefix of %s not recognised (compared only)' % name)
        if ok is None:
            log.append('C18: GetFilterTargets-before-touch structure of %s not recognised (compared only)' % name)
        body += 'Definition f_pm_%s_prefix : option (list Z) := %s.\n' % (name, 'Some ' + zl(pref) if pref is not None else 'None')
        body += 'Definition f_pm_%s_guard : option bool := %s.\n' % (name, 'None' if ok is None else ('Some true' if ok else 'Some false'))

    guard('query', 'objectqueryhandler.cpp', r'qd\.Permission\s*=\s*"([^"]+)"\s*\+\s*type->GetName\(\)',
          [r'SerializeObjectAttrs\s*\(', r'DependencyGraph::GetChildren', r'->GetSourceLocation\('])
    guard('modify', 'modifyobjecthandler.cpp', r'qd\.Permission\s*=\s*"([^"]+)"\s*\+\s*type->GetName\(\)',
          [r'->ModifyAttribute\s*\(', r'->RestoreAttribute\s*\('])
    guard('delete', 'deleteobjecthandler.cpp', r'qd\.Permission\s*=\s*"([^"]+)"\s*\+\s*type->GetName\(\)',
          [r'ConfigObjectUtility::DeleteObject\s*\('])
    guard('actions', 'actionshandler.cpp', r'String\s+permission\s*=\s*"([^"]+)"\s*\+\s*actionName',
          [r'->Invoke\s*\('], targetless=True)

    # joins of the object query handler
    src = strip_comments(rd('lib/remote/objectqueryhandler.cpp'))
    b = handle_body(src)
    jp, jg = None, None
    if b:
        m = re.search(r'String\s+permission\s*=\s*"([^"]+)"\s*\+\s*reflectionType->GetName\(\)', b)
        if m:
            jp = m.group(1)
        hp = re.search(r'granted\s*=\s*FilterUtility::HasPermission\s*\(\s*user\s*,\s*permission\s*,\s*&permissionFilter\s*\)', b)
        ng = re.search(r'if\s*\(\s*!granted\s*\)\s*\{\s*continue;', b)
        ev = re.search(r'accessAllowed\s*=\s*FilterUtility::EvaluateFilter\s*\(\s*permissionFrame\s*,\s*permissionFilter\.get\(\)\s*,\s*joinedObj\s*\)', b)
        na = re.search(r'if\s*\(\s*!accessAllowed\s*\)\s*\{\s*continue;', b)
        ser = re.search(r'SerializeObjectAttrs\s*\(\s*joinedObj', b)
        if ser:
            if hp and ng and ev and na:
                jg = hp.start() < ng.start() < ev.start() < na.start() < ser.start()
            elif not (hp and ev):
                jg = False if (hp is None and ev is None) else None
    if jp is None: log.append('C18: joins permission prefix not recognised (compared only)')
    if jg is None: log.append('C18: joins guard structure not recognised (compared only)')
    body += 'Definition f_pm_join_prefix : option (list Z) := %s.\n' % ('Some ' + zl(jp) if jp is not None else 'None')
    body += 'Definition f_pm_join_guard : option bool := %s.\n' % ('None' if jg is None else ('Some true' if jg else 'Some false'))
    # ---- navigation fields of Host / Service (what EvaluateFilter binds besides obj and the type variable) and the
    # structure of its binding loop: every FANavigation field is Set - value or null -, no early `continue`
    def ti_navs(path, cls):
        src_ti = strip_comments(rd(path))
        m = re.search(r'class\s+(' + cls + r')\s*:\s*(\w+)', src_ti)
        if not m:
            return None, None
        src_ti = src_ti[m.end():]
        names = []
        for fm in re.finditer(r'\[([^\]]*)\]\s*(?:name\(\w+\)|[\w:]+)\s+(\w+)', src_ti):
            attrs = [x.strip() for x in fm.group(1).split(',')]
            nav = [x for x in attrs if x == 'navigation' or x.startswith('navigation(')]
            if nav:
                mm = re.match(r'navigation\((\w+)\)', nav[0])
                names.append(mm.group(1) if mm else fm.group(2))
        return m.group(2), names
    chain = {'Host': 'lib/icinga/host.ti', 'Service': 'lib/icinga/service.ti', 'Checkable': 'lib/icinga/checkable.ti',
             'CustomVarObject': 'lib/icinga/customvarobject.ti', 'ConfigObject': 'lib/base/configobject.ti'}
    def navs_of(cls):
        out, seen = [], 0
        cur = cls
        parts = []
        while cur in chain and seen < 6:
            base, names = ti_navs(chain[cur], cur)
            if names is None:
                return None
            parts.append(names)
            cur = base
            seen += 1
        if cur not in ('Object', 'ConfigObject') and cur in chain:
            return None
        for names in reversed(parts):      # base class fields first (field id order)
            out += names
        return out
    for cls in ('Host', 'Service'):
        nv = navs_of(cls)
        if nv is None:
            log.append('C18: navigation fields of %s not recognised (compared only)' % cls)
            body += 'Definition f_pm_nav_%s : option (list string) := None.\n' % cls.lower()
        else:
            body += 'Definition f_pm_nav_%s : option (list string) := Some [%s].\n' % (cls.lower(), '; '.join('"%s"%%string' % x for x in nv))
    fu = strip_comments(rd('lib/remote/filterutility.cpp'))
    bg = None
    m = re.search(r'bool\s+FilterUtility::EvaluateFilter\s*\(', fu)
    if m:
        i = fu.find('{', m.end())
        depth, k = 1, i + 1
        while k < len(fu) and depth:
            if fu[k] == '{': depth += 1
            elif fu[k] == '}': depth -= 1
            k += 1
        eb = fu[i + 1:k - 1]
        lm = re.search(r'for\s*\(\s*int\s+fid\s*=\s*0\s*;.*?fid\+\+\s*\)\s*\{', eb)
        if lm:
            depth, k = 1, lm.end()
            while k < len(eb) and depth:
                if eb[k] == '{': depth += 1
                elif eb[k] == '}': depth -= 1
                k += 1
            loop = eb[lm.end():k - 1]
            norm = re.sub(r'\s+', ' ', loop).strip()
            expected = ('Field field = type->GetFieldInfo(fid); if ((field.Attributes & FANavigation) == 0) continue; '
                        'Object::Ptr joinedObj = target->NavigateField(fid); if (field.NavigationName) '
                        'frameNS->Set(field.NavigationName, joinedObj); else frameNS->Set(field.Name, joinedObj);')
            sets_before = re.search(r'frameNS->Set\(\s*"obj"\s*,\s*target\s*\)\s*;\s*frameNS->Set\(\s*varName\s*,\s*target\s*\)\s*;', eb[:lm.start()])
            if norm == expected and sets_before:
                bg = True
            elif norm.count('continue') != 1 or re.search(r'if\s*\(\s*!?\s*joinedObj', norm) or not sets_before:
                bg = False      # recognisably different: a binding can be skipped
    if bg is None:
        log.append('C18: binding loop of EvaluateFilter not recognised (compared only)')
    body += 'Definition f_pm_bind_guard : option bool := %s.\n' % ('None' if bg is None else ('Some true' if bg else 'Some false'))
    # ---- the permission frame's namespace is private to EvaluateFilter: in GetFilterTargets it is only ever a
    # `new Namespace()`, the request's filter_vars are Set into the namespace of the USER's frame, and
    # FilteredAddTarget evaluates each filter through EvaluateFilter on its own frame
    pn = None
    m = re.search(r'FilterUtility::GetFilterTargets\s*\(', fu)
    if m:
        i = fu.find('{', m.end())
        depth, k = 1, i + 1
        while k < len(fu) and depth:
            if fu[k] == '{': depth += 1
            elif fu[k] == '}': depth -= 1
            k += 1
        gb = fu[i + 1:k - 1]
        decl = re.search(r'Namespace::Ptr\s+(\w+)\s*=\s*new\s+Namespace\s*\(\s*\)\s*;\s*ScriptFrame\s+permissionFrame\s*\(\s*false\s*,\s*(\w+)\s*\)\s*;', gb)
        decl2 = re.search(r'ScriptFrame\s+permissionFrame\s*\(\s*false\s*,\s*new\s+Namespace\s*\(\s*\)\s*\)\s*;', gb)
        assigns = re.findall(r'permissionFrame\s*\.\s*Self\s*=\s*([^;]*);', gb)
        um = re.search(r'ScriptFrame\s+frame\s*\(\s*false\s*,\s*(\w+)\s*\)\s*;', gb)
        uns = um.group(1) if um else None
        udecl = re.search(r'Namespace::Ptr\s+' + re.escape(uns) + r'\s*=\s*new\s+Namespace\s*\(\s*\)\s*;', gb) if uns else None
        fvset = re.findall(r'(\w+)\s*->\s*Set\s*\(\s*kv\.first\s*,\s*kv\.second\s*\)', gb)
        fa = re.search(r'static\s+void\s+FilteredAddTarget\s*\([^)]*\)\s*\{(.*?)\n\}', fu, flags=re.S)
        fab = re.sub(r'\s+', ' ', fa.group(1)) if fa else ''
        # every namespace the permission frame is given: `new Namespace()` itself, or a variable that holds a fresh one
        # and is used for nothing else.  Recognisably different: it is given the namespace of the user's frame / the one
        # the filter_vars are Set into.
        shared, odd = False, False
        for a_ in assigns:
            a_ = re.sub(r'\s+', '', a_)
            if a_ == 'newNamespace()':
                continue
            if re.fullmatch(r'\w+', a_):
                if a_ == uns or a_ in fvset:
                    shared = True
                elif not (re.search(r'Namespace::Ptr\s+' + re.escape(a_) + r'\s*=\s*new\s+Namespace\s*\(\s*\)\s*;', gb)
                          and len(re.findall(r'\b' + re.escape(a_) + r'\b', gb)) == 2):
                    odd = True
            else:
                odd = True
        if shared:
            pn = False
        elif odd or (fa and re.search(r'->\s*Evaluate\s*\(', fab)):
            pn = None
        elif (decl or decl2) and udecl and fvset and fa:
            pns = decl.group(1) if decl else None
            good = (decl is None or decl.group(1) == decl.group(2))
            good = good and all(x == uns for x in fvset)
            if pns:
                # the declared permission namespace is used for nothing but the frame's construction
                good = good and len(re.findall(r'\b' + re.escape(pns) + r'\b', gb)) == 2 and pns != uns
            good = good and bool(re.search(r'EvaluateFilter\(permissionFrame, permissionFilter, target, variableName\)', fab))
            good = good and bool(re.search(r'EvaluateFilter\(frame, ufilter, target, variableName\)', fab))
            # nothing but EvaluateFilter writes into a frame's namespace from here
            good = good and not re.search(r'permissionFrame\s*\.\s*Self\s*\.|permissionFrame\s*\.\s*Locals\s*=', gb)
            pn = good
    if pn is None:
        log.append('C18: privacy of the permission frame namespace in GetFilterTargets not recognised (compared only)')
    body += 'Definition f_pm_perm_ns_private : option bool := %s.\n' % ('None' if pn is None else ('Some true' if pn else 'Some false'))
    # ---- the two per-request caches of the joins loop are keyed by IDENTITY (the joined object's / its type's address),
    # joinAttrs is an ordered set.  Some true = recognised and as the model has it; Some false = recognisably keyed by
    # something that does not identify the object (a String / a name); None = not recognised (compared only).
    def cache_fact(var, value_re, good_keys):
        if not b:
            return None, None
        m = re.search(r'std::(?:unordered_)?map\s*<\s*([^,<>]+?)\s*,\s*' + value_re + r'\s*>\s*' + var + r'\s*;', b, flags=re.S)
        if not m:
            return None, None
        keyt = re.sub(r'\s+', '', m.group(1))
        finds = re.findall(var + r'\s*\.\s*find\s*\(\s*([^;]*?)\s*\)\s*;', b)
        ins = re.findall(var + r'\s*\.\s*(?:insert|emplace)\s*\(\s*\{?\s*([^,]*?)\s*,', b)
        uses = sorted(set(re.sub(r'\s+', '', x) for x in finds + ins))
        text = keyt + ' keyed by ' + '/'.join(uses)
        if re.fullmatch(r'(?:const)?(?:icinga::)?String', keyt) or any(re.search(r'GetName\(\)|Name\b', x) for x in uses):
            return False, text
        if re.fullmatch(r'(?:const)?(?:Object|ConfigObject|Type)(?:\*|::Ptr)', keyt) and uses and all(x in good_keys for x in uses):
            return True, text
        return None, text
    ck, ck_text = cache_fact('objectAccessAllowed', r'bool', ('joinedObj.get()', 'joinedObj'))
    tk, tk_text = cache_fact('typePermissions', r'std::pair\s*<\s*bool\s*,[^;]*', ('reflectionType.get()', 'reflectionType'))
    ja = None
    if b:
        m = re.search(r'(std::\w+\s*<\s*String\s*>)\s+joinAttrs\s*;', b)
        if m and re.sub(r'\s+', '', m.group(1)) == 'std::set<String>':
            ja = True
    for nm, val, what in (('f_pm_join_cache_by_identity', ck, 'key of objectAccessAllowed'), ('f_pm_join_type_cache_by_identity', tk, 'key of typePermissions'),
                          ('f_pm_join_attrs_sorted', ja, 'container of joinAttrs')):
        if val is None:
            log.append('C18: %s not recognised (compared only)' % what)
        body += 'Definition %s : option bool := %s.\n' % (nm, 'None' if val is None else ('Some true' if val else 'Some false'))
    body += 'Definition f_pm_join_cache_text : string := "%s"%%string.\n' % ('%s; %s' % (ck_text, tk_text)).replace('"', '')
    emit('Facts_c18.v', body)
