"""C18 facts: for every registered HTTP handler the permission string(s) it demands, and for the four handlers
that return/modify config objects (object query / modify / delete / actions) that the objects they touch come
from FilterUtility::GetFilterTargets (or, for target-less actions, follow CheckPermission) and that this call
precedes the first statement that reads or changes an object.  An unrecognised handler yields `None`
(= "compared only", logged); a recognised handler that touches objects first yields `Some false`."""
import re, os


def strip_comments(s):
    return re.sub(r'/\*.*?\*/|//[^\n]*', '', s, flags=re.S)


def handle_body(src):
    m = re.search(r'::HandleRequest\s*\(', src)
    if not m:
        return None
    i = src.find('{', src.find(')', m.end()))
    # the parameter list contains no braces; find the body start after the closing paren of the signature
    depth, j = 0, m.end()
    par = 1
    while j < len(src) and par:
        if src[j] == '(': par += 1
        elif src[j] == ')': par -= 1
        j += 1
    i = src.find('{', j)
    if i < 0:
        return None
    depth, k = 1, i + 1
    while k < len(src) and depth:
        if src[k] == '{': depth += 1
        elif src[k] == '}': depth -= 1
        k += 1
    return src[i + 1:k - 1]


def zl(s):
    return '[' + ';'.join(str(b) for b in s.encode()) + ']'


def run(rd, emit, log, enum_values, ti_default):
    body = 'Require Import Coq.Strings.String.\n\n'
    repo = os.environ.get('VERIF_REPO', '/repo')
    d = os.path.join(repo, 'lib/remote')
    table = []
    try:
        files = sorted(f for f in os.listdir(d) if f.endswith('.cpp'))
    except OSError:
        files = []
    for f in files:
        src = strip_comments(rd('lib/remote/' + f))
        m = re.search(r'REGISTER_URLHANDLER\s*\(\s*"([^"]*)"\s*,\s*(\w+)\s*\)', src)
        if not m:
            continue
        perms = re.findall(r'(?:CheckPermission\s*\(\s*user\s*,|qd\.Permission\s*=|String\s+permission\s*=)\s*"([^"]+)"', src)
        table.append((m.group(2), m.group(1), sorted(set(perms))))
    body += 'Definition f_pm_handlers : list (string * string * list string) := [\n%s\n].\n\n' % ';\n'.join(
        '  ("%s"%%string, "%s"%%string, [%s])' % (h, u, '; '.join('"%s"%%string' % p for p in ps)) for h, u, ps in table)

    def guard(name, fname, prefix_re, touch_res, targetless=False):
        nonlocal body
        src = strip_comments(rd('lib/remote/' + fname))
        b = handle_body(src)
        pref, ok = None, None
        if b:
            m = re.search(prefix_re, b)
            if m:
                pref = m.group(1)
            g = re.search(r'objs\s*=\s*FilterUtility::GetFilterTargets\s*\(\s*qd\s*,\s*params\s*,\s*user\s*\)', b)
            perm_set = re.search(r'qd\.Permission\s*=', b)
            other_src = [x for x in re.finditer(r'\bobjs\s*(?:=|\.push_back|\.emplace_back|\.insert)', b)]
            touches = [t.start() for r in touch_res for t in re.finditer(r, b)]
            if g and perm_set and touches:
                good = perm_set.start() < g.start() and all(g.start() < t for t in touches)
                # every other way objs gets content must be preceded by CheckPermission (target-less actions)
                for x in other_src:
                    if x.start() == g.start():
                        continue
                    c = re.search(r'FilterUtility::CheckPermission\s*\(\s*user\s*,\s*permission\s*\)', b[:x.start()])
                    if not (targetless and c and re.search(r'objs\.emplace_back\s*\(\s*nullptr\s*\)', b[x.start():x.start() + 40])):
                        good = False
                ok = good
        if pref is None:
            log.append('C18: permission prefix of %s not recognised (compared only)' % name)
        if ok is None:
            log.append('C18: GetFilterTargets-before-touch structure of %s not recognised (compared only)' % name)
        body += 'Definition f_pm_%s_prefix : option (list Z) := %s.\n' % (name, 'Some ' + zl(pref) if pref is not None else 'None')
        body += 'Definition f_pm_%s_guard : option bool := %s.\n' % (name, 'None' if ok is None else ('Some true' if ok else 'Some false'))

    guard('query', 'objectqueryhandler.cpp', r'qd\.Permission\s*=\s*"([^"]+)"\s*\+\s*type->GetName\(\)',
          [r'SerializeObjectAttrs\s*\(', r'DependencyGraph::GetChildren', r'->GetSourceLocation\('])
    guard('modify', 'modifyobjecthandler.cpp', r'qd\.Permission\s*=\s*"([^"]+)"\s*\+\s*type->GetName\(\)',
          [r'->ModifyAttribute\s*\(', r'->RestoreAttribute\s*\('])
    guard('delete', 'deleteobjecthandler.cpp', r'qd\.Permission\s*=\s*"([^"]+)"\s*\+\s*type->GetName\(\)',
          [r'ConfigObjectUtility::DeleteObject\s*\('])
    guard('actions', 'actionshandler.cpp', r'String\s+permission\s*=\s*"([^"]+)"\s*\+\s*actionName',
          [r'->Invoke\s*\('], targetless=True)

    # joins of the object query handler
    src = strip_comments(rd('lib/remote/objectqueryhandler.cpp'))
    b = handle_body(src)
    jp, jg = None, None
    if b:
        m = re.search(r'String\s+permission\s*=\s*"([^"]+)"\s*\+\s*reflectionType->GetName\(\)', b)
        if m:
            jp = m.group(1)
        hp = re.search(r'granted\s*=\s*FilterUtility::HasPermission\s*\(\s*user\s*,\s*permission\s*,\s*&permissionFilter\s*\)', b)
        ng = re.search(r'if\s*\(\s*!granted\s*\)\s*\{\s*continue;', b)
        ev = re.search(r'accessAllowed\s*=\s*FilterUtility::EvaluateFilter\s*\(\s*permissionFrame\s*,\s*permissionFilter\.get\(\)\s*,\s*joinedObj\s*\)', b)
        na = re.search(r'if\s*\(\s*!accessAllowed\s*\)\s*\{\s*continue;', b)
        ser = re.search(r'SerializeObjectAttrs\s*\(\s*joinedObj', b)
        if ser:
            if hp and ng and ev and na:
                jg = hp.start() < ng.start() < ev.start() < na.start() < ser.start()
            elif not (hp and ev):
                jg = False if (hp is None and ev is None) else None
    if jp is None: log.append('C18: joins permission prefix not recognised (compared only)')
    if jg is None: log.append('C18: joins guard structure not recognised (compared only)')
    body += 'Definition f_pm_join_prefix : option (list Z) := %s.\n' % ('Some ' + zl(jp) if jp is not None else 'None')
    body += 'Definition f_pm_join_guard : option bool := %s.\n' % ('None' if jg is None else ('Some true' if jg else 'Some false'))
    # ---- navigation fields of Host / Service (what EvaluateFilter binds besides obj and the type variable) and the
    # structure of its binding loop: every FANavigation field is Set - value or null -, no early `continue`
    def ti_navs(path, cls):
        src_ti = strip_comments(rd(path))
        m = re.search(r'class\s+(' + cls + r')\s*:\s*(\w+)', src_ti)
        if not m:
            return None, None
        src_ti = src_ti[m.end():]
        names = []
        for fm in re.finditer(r'\[([^\]]*)\]\s*(?:name\(\w+\)|[\w:]+)\s+(\w+)', src_ti):
            attrs = [x.strip() for x in fm.group(1).split(',')]
            nav = [x for x in attrs if x == 'navigation' or x.startswith('navigation(')]
            if nav:
                mm = re.match(r'navigation\((\w+)\)', nav[0])
                names.append(mm.group(1) if mm else fm.group(2))
        return m.group(2), names
    chain = {'Host': 'lib/icinga/host.ti', 'Service': 'lib/icinga/service.ti', 'Checkable': 'lib/icinga/checkable.ti',
             'CustomVarObject': 'lib/icinga/customvarobject.ti', 'ConfigObject': 'lib/base/configobject.ti'}
    def navs_of(cls):
        out, seen = [], 0
        cur = cls
        parts = []
        while cur in chain and seen < 6:
            base, names = ti_navs(chain[cur], cur)
            if names is None:
                return None
            parts.append(names)
            cur = base
            seen += 1
        if cur not in ('Object', 'ConfigObject') and cur in chain:
            return None
        for names in reversed(parts):      # base class fields first (field id order)
            out += names
        return out
    for cls in ('Host', 'Service'):
        nv = navs_of(cls)
        if nv is None:
            log.append('C18: navigation fields of %s not recognised (compared only)' % cls)
            body += 'Definition f_pm_nav_%s : option (list string) := None.\n' % cls.lower()
        else:
            body += 'Definition f_pm_nav_%s : option (list string) := Some [%s].\n' % (cls.lower(), '; '.join('"%s"%%string' % x for x in nv))
    fu = strip_comments(rd('lib/remote/filterutility.cpp'))
    bg = None
    m = re.search(r'bool\s+FilterUtility::EvaluateFilter\s*\(', fu)
    if m:
        i = fu.find('{', m.end())
        depth, k = 1, i + 1
        while k < len(fu) and depth:
            if fu[k] == '{': depth += 1
            elif fu[k] == '}': depth -= 1
            k += 1
        eb = fu[i + 1:k - 1]
        lm = re.search(r'for\s*\(\s*int\s+fid\s*=\s*0\s*;.*?fid\+\+\s*\)\s*\{', eb)
        if lm:
            depth, k = 1, lm.end()
            while k < len(eb) and depth:
                if eb[k] == '{': depth += 1
                elif eb[k] == '}': depth -= 1
                k += 1
            loop = eb[lm.end():k - 1]
            norm = re.sub(r'\s+', ' ', loop).strip()
            expected = ('Field field = type->GetFieldInfo(fid); if ((field.Attributes & FANavigation) == 0) continue; '
                        'Object::Ptr joinedObj = target->NavigateField(fid); if (field.NavigationName) '
                        'frameNS->Set(field.NavigationName, joinedObj); else frameNS->Set(field.Name, joinedObj);')
            sets_before = re.search(r'frameNS->Set\(\s*"obj"\s*,\s*target\s*\)\s*;\s*frameNS->Set\(\s*varName\s*,\s*target\s*\)\s*;', eb[:lm.start()])
            if norm == expected and sets_before:
                bg = True
            elif norm.count('continue') != 1 or re.search(r'if\s*\(\s*!?\s*joinedObj', norm) or not sets_before:
                bg = False      # recognisably different: a binding can be skipped
    if bg is None:
        log.append('C18: binding loop of EvaluateFilter not recognised (compared only)')
    body += 'Definition f_pm_bind_guard : option bool := %s.\n' % ('None' if bg is None else ('Some true' if bg else 'Some false'))
    # ---- the permission frame's namespace is private to EvaluateFilter: in GetFilterTargets it is only ever a
    # `new Namespace()`, the request's filter_vars are Set into the namespace of the USER's frame, and
    # FilteredAddTarget evaluates each filter through EvaluateFilter on its own frame
    pn = None
    m = re.search(r'FilterUtility::GetFilterTargets\s*\(', fu)
    if m:
        i = fu.find('{', m.end())
        depth, k = 1, i + 1
        while k < len(fu) and depth:
            if fu[k] == '{': depth += 1
            elif fu[k] == '}': depth -= 1
            k += 1
        gb = fu[i + 1:k - 1]
        decl = re.search(r'Namespace::Ptr\s+(\w+)\s*=\s*new\s+Namespace\s*\(\s*\)\s*;\s*ScriptFrame\s+permissionFrame\s*\(\s*false\s*,\s*(\w+)\s*\)\s*;', gb)
        decl2 = re.search(r'ScriptFrame\s+permissionFrame\s*\(\s*false\s*,\s*new\s+Namespace\s*\(\s*\)\s*\)\s*;', gb)
        assigns = re.findall(r'permissionFrame\s*\.\s*Self\s*=\s*([^;]*);', gb)
        um = re.search(r'ScriptFrame\s+frame\s*\(\s*false\s*,\s*(\w+)\s*\)\s*;', gb)
        uns = um.group(1) if um else None
        udecl = re.search(r'Namespace::Ptr\s+' + re.escape(uns) + r'\s*=\s*new\s+Namespace\s*\(\s*\)\s*;', gb) if uns else None
        fvset = re.findall(r'(\w+)\s*->\s*Set\s*\(\s*kv\.first\s*,\s*kv\.second\s*\)', gb)
        fa = re.search(r'static\s+void\s+FilteredAddTarget\s*\([^)]*\)\s*\{(.*?)\n\}', fu, flags=re.S)
        fab = re.sub(r'\s+', ' ', fa.group(1)) if fa else ''
        # every namespace the permission frame is given: `new Namespace()` itself, or a variable that holds a fresh one
        # and is used for nothing else.  Recognisably different: it is given the namespace of the user's frame / the one
        # the filter_vars are Set into.
        shared, odd = False, False
        for a_ in assigns:
            a_ = re.sub(r'\s+', '', a_)
            if a_ == 'newNamespace()':
                continue
            if re.fullmatch(r'\w+', a_):
                if a_ == uns or a_ in fvset:
                    shared = True
                elif not (re.search(r'Namespace::Ptr\s+' + re.escape(a_) + r'\s*=\s*new\s+Namespace\s*\(\s*\)\s*;', gb)
                          and len(re.findall(r'\b' + re.escape(a_) + r'\b', gb)) == 2):
                    odd = True
            else:
                odd = True
        if shared:
            pn = False
        elif odd or (fa and re.search(r'->\s*Evaluate\s*\(', fab)):
            pn = None
        elif (decl or decl2) and udecl and fvset and fa:
            pns = decl.group(1) if decl else None
            good = (decl is None or decl.group(1) == decl.group(2))
            good = good and all(x == uns for x in fvset)
            if pns:
                # the declared permission namespace is used for nothing but the frame's construction
                good = good and len(re.findall(r'\b' + re.escape(pns) + r'\b', gb)) == 2 and pns != uns
            good = good and bool(re.search(r'EvaluateFilter\(permissionFrame, permissionFilter, target, variableName\)', fab))
            good = good and bool(re.search(r'EvaluateFilter\(frame, ufilter, target, variableName\)', fab))
            # nothing but EvaluateFilter writes into a frame's namespace from here
            good = good and not re.search(r'permissionFrame\s*\.\s*Self\s*\.|permissionFrame\s*\.\s*Locals\s*=', gb)
            pn = good
    if pn is None:
        log.append('C18: privacy of the permission frame namespace in GetFilterTargets not recognised (compared only)')
    body += 'Definition f_pm_perm_ns_private : option bool := %s.\n' % ('None' if pn is None else ('Some true' if pn else 'Some false'))
    # ---- the two per-request caches of the joins loop are keyed by IDENTITY (the joined object's / its type's address),
    # joinAttrs is an ordered set.  Some true = recognised and as the model has it; Some false = recognisably keyed by
    # something that does not identify the object (a String / a name); None = not recognised (compared only).
    def cache_fact(var, value_re, good_keys):
        if not b:
            return None, None
        m = re.search(r'std::(?:unordered_)?map\s*<\s*([^,<>]+?)\s*,\s*' + value_re + r'\s*>\s*' + var + r'\s*;', b, flags=re.S)
        if not m:
            return None, None
        keyt = re.sub(r'\s+', '', m.group(1))
        finds = re.findall(var + r'\s*\.\s*find\s*\(\s*([^;]*?)\s*\)\s*;', b)
        ins = re.findall(var + r'\s*\.\s*(?:insert|emplace)\s*\(\s*\{?\s*([^,]*?)\s*,', b)
        uses = sorted(set(re.sub(r'\s+', '', x) for x in finds + ins))
        text = keyt + ' keyed by ' + '/'.join(uses)
        if re.fullmatch(r'(?:const)?(?:icinga::)?String', keyt) or any(re.search(r'GetName\(\)|Name\b', x) for x in uses):
            return False, text
        if re.fullmatch(r'(?:const)?(?:Object|ConfigObject|Type)(?:\*|::Ptr)', keyt) and uses and all(x in good_keys for x in uses):
            return True, text
        return None, text
    ck, ck_text = cache_fact('objectAccessAllowed', r'bool', ('joinedObj.get()', 'joinedObj'))
    tk, tk_text = cache_fact('typePermissions', r'std::pair\s*<\s*bool\s*,[^;]*', ('reflectionType.get()', 'reflectionType'))
    ja = None
    if b:
        m = re.search(r'(std::\w+\s*<\s*String\s*>)\s+joinAttrs\s*;', b)
        if m and re.sub(r'\s+', '', m.group(1)) == 'std::set<String>':
            ja = True
    for nm, val, what in (('f_pm_join_cache_by_identity', ck, 'key of objectAccessAllowed'), ('f_pm_join_type_cache_by_identity', tk, 'key of typePermissions'),
                          ('f_pm_join_attrs_sorted', ja, 'container of joinAttrs')):
        if val is None:
            log.append('C18: %s not recognised (compared only)' % what)
        body += 'Definition %s : option bool := %s.\n' % (nm, 'None' if val is None else ('Some true' if val else 'Some false'))
    # ---- round 5: the field tables SerializeObjectAttrs selects from (attribute dimension of the read path).  For every
    # type the object query can serialise in the model (primary: Host, Service; joined: + CheckCommand, EventCommand,
    # TimePeriod, Endpoint): all fields in field-id order (base class first) with the flags the handler tests -
    # (name, navigation name, (config, (state, (navigation, (no_user_view, getter returns another config object))))).
    import glob as _glob
    ti_classes = {}          # class -> (parent, [(name, navname, attrs, type)])
    def _strip_code(t):
        return re.sub(r'\{\{\{.*?\}\}\}', '', strip_comments(t), flags=re.S)
    for f in sorted(_glob.glob(os.path.join(repo, 'lib', '**', '*.ti'), recursive=True)):
        try:
            t = _strip_code(open(f, encoding='utf-8', errors='replace').read())
        except OSError:
            continue
        for m in re.finditer(r'\bclass\s+(\w+)\s*(?::\s*(\w+))?\s*(?:<\s*\w+\s*)?\{', t):
            depth, k = 1, m.end()
            while k < len(t) and depth:
                if t[k] == '{': depth += 1
                elif t[k] == '}': depth -= 1
                k += 1
            cb = t[m.end():k - 1]
            # statements at depth 0 of the class body
            stmts, cur, depth = [], '', 0
            for ch in cb:
                if ch == '{': depth += 1
                if ch == '}': depth -= 1
                if depth == 0 and ch in ';}':
                    if ch == ';' and cur.strip():
                        stmts.append(cur.strip())
                    elif ch == '}' and cur.strip():
                        stmts.append(re.sub(r'\{.*$', '', cur, flags=re.S).strip())
                    cur = ''
                else:
                    cur += ch
            fields = []
            for st in stmts:
                st = re.sub(r'\{.*$', '', st, flags=re.S).strip()
                fm = re.match(r'(?:\[([^\]]*)\]\s*)?((?:array\s*\(\s*)?(?:name\s*\(\s*\w+\s*\)|"[^"]*"|[\w:]+)(?:\s*\))?)\s+("?[\w*]+"?)\s*(?:\(\s*\w+\s*\))?$', st)
                if not fm or st.startswith(('load_after', 'activation_priority')):
                    continue
                attrs = [x.strip() for x in (fm.group(1) or '').split(',') if x.strip()]
                name = fm.group(3).strip('"')
                nav = [x for x in attrs if x == 'navigation' or x.startswith('navigation(')]
                navname = ''
                if nav:
                    mm = re.match(r'navigation\((\w+)\)', nav[0])
                    navname = mm.group(1) if mm else name
                fields.append((name, navname, attrs, re.sub(r'\s+', '', fm.group(2))))
            ti_classes[m.group(1)] = (m.group(2), fields)
    def _is_config_class(c):
        seen = 0
        while c and seen < 12:
            if c == 'ConfigObject':
                return True
            c = ti_classes.get(c, (None, []))[0]
            seen += 1
        return False
    def field_table(cls):
        chain_, cur, seen = [], cls, 0
        while cur in ti_classes and seen < 12:
            chain_.append(cur)
            cur = ti_classes[cur][0]
            seen += 1
        if not chain_ or chain_[-1] != 'ConfigObjectBase':
            return None
        out = []
        # the root of every chain is Object, whose reflection data is hand-written (lib/base/objecttype.cpp)
        ot = strip_comments(rd('lib/base/objecttype.cpp'))
        om = re.search(r'Field\s+ObjectType::GetFieldInfo\s*\([^)]*\)\s*const\s*\{(.*?)\n\}', ot, flags=re.S)
        oc = re.search(r'int\s+ObjectType::GetFieldCount\s*\(\s*\)\s*const\s*\{\s*return\s+(\d+)\s*;', ot)
        ofs = re.findall(r'return\s*\{\s*\d+\s*,\s*"(\w+)"\s*,\s*"(\w+)"\s*,\s*(\w+|"\w+")\s*,\s*(\w+|"\w+")\s*,\s*(\d+)\s*,', om.group(1)) if om else []
        if not oc or len(ofs) != int(oc.group(1)):
            return None
        for ty, name, navn, _ref, at in ofs:
            at = int(at)
            out.append((name, navn.strip('"') if at & 512 else '', bool(at & 2), bool(at & 4), bool(at & 512), bool(at & 2048), False))
        for c in reversed(chain_):
            for name, navname, attrs, ty in ti_classes[c][1]:
                mo = re.fullmatch(r'(\w+)::Ptr', ty)
                objval = bool(mo and _is_config_class(mo.group(1)))
                out.append((name, navname, 'config' in attrs, 'state' in attrs, bool(navname), 'no_user_view' in attrs, objval))
        return out
    cb_ = lambda b_: 'true' if b_ else 'false'
    rows = []
    for cls in ('Host', 'Service', 'CheckCommand', 'EventCommand', 'TimePeriod', 'Endpoint'):
        ft = field_table(cls)
        if ft is None:
            log.append('C18: field table of %s not recognised (compared only)' % cls)
            continue
        rows.append('  (%s, [\n%s])' % (zl(cls), ';\n'.join(
            '    (%s, (%s, (%s, (%s, (%s, (%s, %s))))))' % (zl(n), zl(nn), cb_(c), cb_(s_), cb_(nv), cb_(h), cb_(ov))
            for n, nn, c, s_, nv, h, ov in ft)))
    body += ('(* field tables: (type, [(field, (navigation name, (config, (state, (navigation, (no_user_view, object-valued getter))))))]) *)\n'
             'Definition f_pm_field_tables : list (list Z * list (list Z * (list Z * (bool * (bool * (bool * (bool * bool))))))) := [\n%s\n].\n' % ';\n'.join(rows))
    # ---- SerializeObjectAttrs: both hide tests sit in the loop over the SELECTED field ids (the one that emplaces into the
    # result), so that they apply to every request shape, not only to the enumeration of all fields
    sa = None
    oq = strip_comments(rd('lib/remote/objectqueryhandler.cpp'))
    m = re.search(r'ObjectQueryHandler::SerializeObjectAttrs\s*\(', oq)
    if m:
        i = oq.find('{', oq.find(')', m.end()))
        depth, k = 1, i + 1
        while k < len(oq) and depth:
            if oq[k] == '{': depth += 1
            elif oq[k] == '}': depth -= 1
            k += 1
        sb_ = oq[i + 1:k - 1]
        lm = re.search(r'for\s*\(\s*int\s+fid\s*:\s*fids\s*\)\s*\{', sb_)
        if lm:
            depth, k = 1, lm.end()
            while k < len(sb_) and depth:
                if sb_[k] == '{': depth += 1
                elif sb_[k] == '}': depth -= 1
                k += 1
            loop = re.sub(r'\s+', ' ', sb_[lm.end():k - 1])
            em = re.search(r'resultAttrs\s*\.\s*(?:emplace_back|push_back)\s*\(', loop)
            h1 = re.search(r'if \(\s*field\.Attributes & FANoUserView\s*\) continue;', loop)
            h2 = re.search(r'if \(\s*field\.Attributes & FANavigation && !\s*\(\s*field\.Attributes & \(\s*FAConfig \| FAState\s*\)\s*\)\s*\) continue;', loop)
            other_emit = re.findall(r'resultAttrs\s*\.\s*(?:emplace_back|push_back|insert)\s*\(', sb_)
            if em and len(other_emit) == 1:
                if h1 and h2 and h1.start() < em.start() and h2.start() < em.start():
                    sa = True
                elif (not re.search(r'FANoUserView', loop)) or (not re.search(r'FANavigation', loop)):
                    sa = False      # recognisably different: a hide test is missing from the loop that emits
    if sa is None:
        log.append('C18: hide tests of SerializeObjectAttrs not recognised (compared only)')
    body += 'Definition f_pm_attrs_hide_in_emit_loop : option bool := %s.\n' % ('None' if sa is None else ('Some true' if sa else 'Some false'))
    # ---- round 5 (e): check-then-act.  Between `objs = GetFilterTargets(..)` and the end of HandleRequest the handler works on the
    # pointers it was given: the loop variable is a const reference over objs, is never assigned, and nothing looks an object up by
    # name again (GetObject / GetByName / GetByNamePair / GetTargetByName / GetObjects).  Some false = recognisably re-resolving.
    def act_fact(name, fname, act_res):
        nonlocal body
        src = strip_comments(rd('lib/remote/' + fname))
        b_ = handle_body(src)
        val = None
        if b_:
            g = re.search(r'objs\s*=\s*FilterUtility::GetFilterTargets\s*\(\s*qd\s*,\s*params\s*,\s*user\s*\)', b_)
            if g:
                rest = b_[g.end():]
                loop = re.search(r'for\s*\(\s*(const\s+)?ConfigObject::Ptr\s*(&?)\s*(\w+)\s*:\s*objs\s*\)', rest)
                if loop:
                    var = loop.group(3)
                    lookups = re.search(r'\b(?:GetObject|GetByName|GetByNamePair|GetTargetByName|GetObjects|GetObjectByName)\s*(?:<[^>]*>)?\s*\(', rest[loop.end():])
                    assigned = re.search(r'(?<![\w.>])' + re.escape(var) + r'\s*=(?!=)', rest[loop.end():])
                    acts = [re.search(r, rest[loop.end():]) for r in act_res]
                    on_var = all(a_ is not None for a_ in acts)
                    if lookups or assigned:
                        val = False
                    elif loop.group(1) and loop.group(2) and on_var:
                        val = True
        if val is None:
            log.append('C18: act-on-authorised-pointer structure of %s not recognised (compared only)' % name)
        body += 'Definition f_pm_%s_acts_on_pointer : option bool := %s.\n' % (name, 'None' if val is None else ('Some true' if val else 'Some false'))
    act_fact('query', 'objectqueryhandler.cpp', [r'SerializeObjectAttrs\s*\(\s*obj\s*,'])
    act_fact('modify', 'modifyobjecthandler.cpp', [r'\bobj\s*->\s*ModifyAttribute\s*\(', r'\bobj\s*->\s*RestoreAttribute\s*\('])
    act_fact('delete', 'deleteobjecthandler.cpp', [r'ConfigObjectUtility::DeleteObject\s*\(\s*obj\s*,'])
    act_fact('actions', 'actionshandler.cpp', [r'->\s*Invoke\s*\(\s*obj\s*,'])
    # ---- round 6: (1) the permission list is read from the attribute on EVERY HasPermission call - `user->GetPermissions()`
    # inside HasPermission, no other accessor of the user, and class ApiUser (apiuser.hpp) carries no data member in which
    # something derived from the list could survive a request.  Some false = the list is recognisably obtained another way.
    fu = strip_comments(rd('lib/remote/filterutility.cpp'))
    fresh = None
    hm = re.search(r'bool\s+FilterUtility::HasPermission\s*\([^)]*\)\s*\{', fu)
    if hm:
        depth, k = 1, hm.end()
        while k < len(fu) and depth:
            if fu[k] == '{': depth += 1
            elif fu[k] == '}': depth -= 1
            k += 1
        hb = fu[hm.end():k - 1]
        reads = re.search(r'=\s*user\s*->\s*GetPermissions\s*\(\s*\)\s*;', hb)
        others = [x for x in re.findall(r'user\s*->\s*(\w+)\s*\(', hb) if x not in ('GetPermissions', 'GetName')]
        loop = re.search(r'for\s*\(\s*const\s+Value\s*&\s*(\w+)\s*:\s*permissions\s*\)', hb)
        try:
            ah = strip_comments(rd('lib/remote/apiuser.hpp'))
        except Exception:
            ah = ''
        cm = re.search(r'class\s+ApiUser\b[^{;]*\{(.*?)\n\};', ah, flags=re.S)
        members = re.findall(r'^\s*(?:mutable\s+)?[\w:<>,\s\*&]+?\s+(m_\w+)\s*(?:=[^;]*|\{[^;]*\})?;', cm.group(1), flags=re.M) if cm else None
        if not reads or others:
            fresh = False
        elif members is not None and not members and loop:
            fresh = True
    if fresh is None:
        log.append('C18: HasPermission reading user->GetPermissions() per call / ApiUser without own data members not recognised (compared only)')
    body += 'Definition f_pm_perms_read_fresh : option bool := %s.\n' % ('None' if fresh is None else ('Some true' if fresh else 'Some false'))
    # (2) the user of a request is a LOCAL of the ProcessMessages loop: initialised from m_ApiUser (certificate), otherwise from
    # the request's own Authorization header; m_ApiUser is assigned in the constructor only.
    hs = strip_comments(rd('lib/remote/httpserverconnection.cpp'))
    per_req = None
    pm_ = re.search(r'void\s+HttpServerConnection::ProcessMessages\s*\([^)]*\)\s*\{', hs)
    if pm_:
        depth, k = 1, pm_.end()
        while k < len(hs) and depth:
            if hs[k] == '{': depth += 1
            elif hs[k] == '}': depth -= 1
            k += 1
        pb = hs[pm_.end():k - 1]
        lp = re.search(r'for\s*\(\s*;\s*;\s*\)\s*\{', pb)
        assigns_all = re.findall(r'\bm_ApiUser\s*=(?!=)', hs)
        assigns_pm = re.findall(r'\bm_ApiUser\s*(?:=(?!=)|\.\s*swap|\.\s*reset)', pb)
        ctor = re.search(r'm_ApiUser\s*=\s*ApiUser::GetByClientCN\s*\(\s*identity\s*\)', hs)
        if lp:
            lb = pb[lp.end():]
            decl = re.search(r'(?:auto|ApiUser::Ptr)\s+authenticatedUser\s*(?:\(\s*m_ApiUser\s*\)|=\s*m_ApiUser|\{\s*m_ApiUser\s*\})\s*;', lb)
            hdr = re.search(r'authenticatedUser\s*=\s*ApiUser::GetByAuthHeader\s*\(\s*(?:std::string\s*\(\s*)?request\s*\[\s*http::field::authorization\s*\]', lb)
            ens = re.search(r'EnsureAuthenticatedUser\s*\(\s*\*m_Stream\s*,\s*request\s*,\s*authenticatedUser\s*,', lb)
            prq = re.search(r'ProcessRequest\s*\(\s*\*m_Stream\s*,\s*request\s*,\s*authenticatedUser\s*,', lb)
            if assigns_pm or re.search(r'ProcessRequest\s*\(\s*\*m_Stream\s*,\s*request\s*,\s*m_ApiUser\s*,', lb):
                per_req = False
            elif decl and hdr and ens and prq and ctor and len(assigns_all) == 1 and decl.start() < hdr.start() < ens.start() < prq.start():
                per_req = True
    if per_req is None:
        log.append('C18: per-request user of HttpServerConnection::ProcessMessages not recognised (compared only)')
    body += 'Definition f_pm_auth_user_per_request : option bool := %s.\n' % ('None' if per_req is None else ('Some true' if per_req else 'Some false'))
    body += 'Definition f_pm_join_cache_text : string := "%s"%%string.\n' % ('%s; %s' % (ck_text, tk_text)).replace('"', '')
    emit('Facts_c18.v', body)
