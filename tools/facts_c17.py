"""C17 facts, re-extracted from the source on every run (coq/Facts/Facts_c17.v):
   * ConfigWriter::GetKeywords() list                       (lib/base/configwriter.cpp)
   * the identifier regex of ConfigWriter::EmitIdentifier and WHICH boost function applies it
     (regex_search finds a match anywhere / per line, regex_match anchors to the whole string)
   * ConfigWriter::EscapeIcingaString replace_all table, in source order
   * number format of EmitNumber
   * the config lexer's keyword rules, identifier rules, string-state escape rules and whether the
     string chunk rule copies with `while (*yptr)` (stops at NUL) (lib/config/config_lexer.ll)
A fact that is no longer recognised is emitted as None (the dependent lemma then fails to check)."""
import re


def blist(s):
    return '[' + '; '.join(str(b) for b in s.encode('utf-8')) + ']'


C_ESC = {'n': '\n', 't': '\t', 'r': '\r', 'b': '\b', 'f': '\f', '\\': '\\', '"': '"', "'": "'", '0': '\0', 'a': '\a', 'v': '\v'}


def c_unescape(lit):
    """body of a C string literal -> python str; None when it contains something unexpected"""
    out = []
    i = 0
    while i < len(lit):
        c = lit[i]
        if c == '\\':
            if i + 1 >= len(lit) or lit[i + 1] not in C_ESC:
                return None
            out.append(C_ESC[lit[i + 1]])
            i += 2
        else:
            out.append(c)
            i += 1
    return ''.join(out)


def fn_body(src, sig_re):
    m = re.search(sig_re + r'[^{;]*\{', src)
    if not m:
        return None
    i = m.end()
    depth = 1
    j = i
    while j < len(src) and depth:
        if src[j] == '{': depth += 1
        elif src[j] == '}': depth -= 1
        j += 1
    return src[i:j - 1]


def run(rd, emit, log, enum_values, ti_default):
    cw = rd('lib/base/configwriter.cpp')
    lx = rd('lib/config/config_lexer.ll')
    body = ''
    # ---- writer keywords
    b = fn_body(cw, r'ConfigWriter::GetKeywords\s*\(\s*\)')
    kws = re.findall(r'keywords\.emplace_back\(\s*"([^"\\]*)"\s*\)', b or '')
    if not kws:
        log.append('C17: ConfigWriter::GetKeywords not recognised')
        body += 'Definition f_cw_writer_keywords : option (list (list N)) := None.\n'
    else:
        body += 'Definition f_cw_writer_keywords : option (list (list N)) := Some ([%s])%%N.\n' % '; '.join(blist(k) for k in kws)
    # ---- EmitIdentifier: regex + function
    b = fn_body(cw, r'void\s+ConfigWriter::EmitIdentifier\s*\(')
    rx = fnm = None
    kwfirst = False
    if b:
        m = re.search(r'boost::regex\s+expr\s*\(\s*"((?:[^"\\]|\\.)*)"\s*\)', b)
        if m:
            rx = c_unescape(m.group(1))
        m2 = re.search(r'boost::(regex_search|regex_match)\s*\(\s*identifier\.GetData\(\)\s*,\s*what\s*,\s*expr\s*\)', b)
        if m2:
            fnm = m2.group(1)
        # keyword test precedes the regex test and emits '@' + identifier
        k = re.search(r'keywords\.find\(identifier\)\s*!=\s*keywords\.end\(\)\s*\)\s*\{\s*fp\s*<<\s*"@"\s*<<\s*identifier\s*;\s*return\s*;', b)
        kwfirst = bool(k and m and k.start() < m.start())
    if rx is None: log.append('C17: EmitIdentifier regex not recognised')
    if fnm is None: log.append('C17: EmitIdentifier regex function not recognised')
    body += 'Definition f_cw_ident_regex : option (list N) := %s.\n' % ('Some (%s)%%N' % blist(rx) if rx is not None else 'None')
    body += '(* true = boost::regex_match (whole string), false = boost::regex_search (any line) *)\n'
    body += 'Definition f_cw_ident_whole_match : option bool := %s.\n' % ({'regex_match': 'Some true', 'regex_search': 'Some false'}.get(fnm, 'None'))
    body += 'Definition f_cw_keyword_test_first : option bool := %s.\n' % ('Some true' if kwfirst else 'None')
    # ---- escape table
    b = fn_body(cw, r'String\s+ConfigWriter::EscapeIcingaString\s*\(')
    tab = []
    ok = b is not None
    for m in re.finditer(r'replace_all\s*\(\s*result\s*,\s*"((?:[^"\\]|\\.)*)"\s*,\s*"((?:[^"\\]|\\.)*)"\s*\)', b or ''):
        f, t = c_unescape(m.group(1)), c_unescape(m.group(2))
        if f is None or t is None or len(f.encode()) != 1:
            ok = False
            break
        tab.append((f.encode()[0], t))
    if ok and b is not None and len(re.findall(r'replace_all', b)) != len(tab):
        ok = False
    if not ok:
        log.append('C17: EscapeIcingaString table not recognised')
        body += 'Definition f_cw_escape_table : option (list (N * list N)) := None.\n'
    else:
        body += 'Definition f_cw_escape_table : option (list (N * list N)) := Some ([%s])%%N.\n' % '; '.join('(%d, %s)' % (f, blist(t)) for f, t in tab)
    # ---- EmitScope: how template names are written after `import`
    b = fn_body(cw, r'void\s+ConfigWriter::EmitScope\s*\(')
    imp = None
    if b:
        if re.search(r'fp\s*<<\s*"import \\""\s*<<\s*import\s*<<\s*"\\""\s*;', b):
            imp = 'false'      # raw, unescaped
        elif re.search(r'fp\s*<<\s*"import "\s*;\s*EmitString\s*\(\s*fp\s*,\s*import\s*\)\s*;', b):
            imp = 'true'
    if imp is None: log.append('C17: EmitScope import emission not recognised')
    body += '(* true = template names are written with EmitString; false = raw between double quotes *)\n'
    body += 'Definition f_cw_import_escaped : option bool := %s.\n' % ('Some ' + imp if imp else 'None')
    # ---- EmitString quotes, EmitNumber format
    b = fn_body(cw, r'void\s+ConfigWriter::EmitString\s*\(')
    q = bool(b and re.match(r'\s*fp\s*<<\s*"\\""\s*<<\s*EscapeIcingaString\(val\)\s*<<\s*"\\""\s*;\s*$', b))
    if not q: log.append('C17: EmitString not recognised')
    body += 'Definition f_cw_emit_string_quotes_escaped : option bool := %s.\n' % ('Some true' if q else 'None')
    b = fn_body(cw, r'void\s+ConfigWriter::EmitNumber\s*\(')
    nf = bool(b and re.match(r'\s*fp\s*<<\s*std::fixed\s*<<\s*val\s*;\s*$', b))
    body += '(* true = `fp << std::fixed << val` (default precision 6) *)\n'
    body += 'Definition f_cw_number_fixed6 : option bool := %s.\n' % ('Some true' if nf else 'None')
    # the round-trip form: six decimals, more only while strtod of the text differs from the value
    rt = None
    if nf:
        rt = 'false'
    elif b and re.search(r'buf\s*<<\s*std::fixed\s*<<\s*val\s*;', b) and re.search(r'for\s*\(\s*int\s+precision\s*=\s*7\s*;[^;]*strtod\(buf\.str\(\)\.c_str\(\),\s*nullptr\)\s*!=\s*val[^;]*;\s*precision\+\+\s*\)', b) \
            and re.search(r'std::setprecision\(precision\)\s*<<\s*val', b) and re.search(r'fp\s*<<\s*std::fixed\s*<<\s*buf\.str\(\)\s*;\s*$', b):
        rt = 'true'
    if rt is None: log.append('C17: EmitNumber round-trip form not recognised')
    body += '(* true = six decimals, raised until the text reads back as the same double; false = always six decimals *)\n'
    body += 'Definition f_cw_number_roundtrip : option bool := %s.\n' % ('Some ' + rt if rt else 'None')
    # ---- lexer keywords: lines `word   return T_...;` / `word { yylval->boolean = ...` inside <INITIAL>{ }
    lkws = []
    for m in re.finditer(r'^([a-z_]+)[ \t]+(?:return\s+T_[A-Z_]+\s*;|\{\s*yylval->boolean\s*=\s*[01]\s*;\s*return\s+T_BOOLEAN\s*;\s*\})\s*$', lx, re.M):
        lkws.append(m.group(1))
    if not lkws:
        log.append('C17: lexer keyword rules not recognised')
        body += 'Definition f_cw_lexer_keywords : option (list (list N)) := None.\n'
    else:
        body += 'Definition f_cw_lexer_keywords : option (list (list N)) := Some ([%s])%%N.\n' % '; '.join(blist(k) for k in lkws)
    # identifier rules
    m1 = re.search(r'^(\[a-zA-Z_\]\[a-zA-Z0-9\\_\]\*)[ \t]+\{\s*yylval->text\s*=\s*new String\(yytext\)\s*;\s*return\s+T_IDENTIFIER\s*;\s*\}', lx, re.M)
    m2 = re.search(r'^@(\[a-zA-Z_\]\[a-zA-Z0-9\\_\]\*)[ \t]+\{\s*yylval->text\s*=\s*new String\(yytext \+ 1\)\s*;\s*return\s+T_IDENTIFIER\s*;\s*\}', lx, re.M)
    if not (m1 and m2): log.append('C17: lexer identifier rules not recognised')
    body += 'Definition f_cw_lexer_ident_regex : option (list N) := %s.\n' % ('Some (%s)%%N' % blist(m1.group(1)) if m1 and m2 else 'None')
    # string state escapes  <STRING>\\n  { yyextra->m_LexBuffer += '\n'; }
    esc = []
    for m in re.finditer(r"^<STRING>\\\\(\\?.)[ \t]+\{\s*yyextra->m_LexBuffer\s*\+=\s*'((?:[^'\\]|\\.))'\s*;\s*\}", lx, re.M):
        pat = m.group(1)
        ch = pat[-1]
        val = c_unescape(m.group(2))
        if val is None:
            continue
        esc.append((ord(ch), ord(val)))
    if len(esc) < 7:
        log.append('C17: lexer string escapes not recognised')
        body += 'Definition f_cw_lexer_escapes : option (list (N * N)) := None.\n'
    else:
        body += 'Definition f_cw_lexer_escapes : option (list (N * N)) := Some ([%s])%%N.\n' % '; '.join('(%d, %d)' % e for e in esc)
    # the chunk rule
    m = re.search(r'^<STRING>\[\^\\\\\\n\\"\]\+[ \t]+\{(.*?)^\s*\}', lx, re.M | re.S)
    chunk = None
    if m:
        cb = m.group(1)
        if re.search(r'while\s*\(\s*\*yptr\s*\)', cb):
            chunk = 'false'     # stops at an embedded NUL
        elif re.search(r'yyleng', cb):
            chunk = 'true'      # copies the whole match
    if chunk is None: log.append('C17: lexer string chunk rule not recognised')
    body += '(* true = the string chunk rule copies yyleng bytes; false = copies up to the first NUL *)\n'
    body += 'Definition f_cw_lexer_chunk_whole : option bool := %s.\n' % ('Some ' + chunk if chunk else 'None')
    # ---- ServiceNameComposer::ParseName: how many '!'-separated parts are accepted
    sv = rd('lib/icinga/service.cpp')
    b = fn_body(sv, r'Dictionary::Ptr\s+ServiceNameComposer::ParseName\s*\(')
    ex = None
    if b and re.search(r'name\.Split\("!"\)', b) and re.search(r'\{\s*"host_name"\s*,\s*tokens\[0\]\s*\}\s*,\s*\{\s*"name"\s*,\s*tokens\[1\]\s*\}', b):
        if re.search(r'tokens\.size\(\)\s*<\s*2', b): ex = 'false'
        elif re.search(r'tokens\.size\(\)\s*!=\s*2', b): ex = 'true'
    if ex is None: log.append('C17: ServiceNameComposer::ParseName not recognised')
    body += "(* true = exactly two '!'-separated parts are required; false = at least two, the rest is dropped *)\n"
    body += 'Definition f_cw_service_name_exact : option bool := %s.\n' % ('Some ' + ex if ex else 'None')
    # ---- ConfigObjectUtility::CreateObject: which registry the "already exists" pre-check consults
    cu = rd('lib/remote/configobjectutility.cpp')
    b = fn_body(cu, r'bool\s+ConfigObjectUtility::CreateObject\s*\(')
    pre = None
    if b:
        m = re.search(r'already exists', b)
        if m:
            head = b[:m.start()]
            i = head.rfind('if (')
            cond = head[i:] if i >= 0 else ''
            # the condition of the innermost `if` in front of the error message
            if re.search(r'GetObject\s*\(\s*fullName\s*\)', cond) and 'ConfigItem::' not in cond:
                pre = 'true'
            elif re.search(r'ConfigItem::GetByTypeAndName\s*\(', cond) and 'GetObject' not in cond:
                pre = 'false'
    if pre is None: log.append('C17: CreateObject duplicate pre-check not recognised')
    body += '(* true = the "already exists" pre-check asks the OBJECT registry (ConfigType::GetObject(fullName)); false = the config item registry *)\n'
    body += 'Definition f_cw_precheck_by_object : option bool := %s.\n' % ('Some ' + pre if pre else 'None')
    # ---- DeleteObjectHelper: the recursive helper itself removes the file of every _api object it unregisters
    b = fn_body(cu, r'bool\s+ConfigObjectUtility::DeleteObjectHelper\s*\(')
    b2 = fn_body(cu, r'bool\s+ConfigObjectUtility::DeleteObject\s*\(')
    rm = None
    rx = r'Utility::Remove\s*\(\s*GetExistingObjectConfigPath\s*\(\s*object\s*\)\s*\)'
    if b and b2:
        if re.search(rx, b) and not re.search(rx, b2): rm = 'true'
        elif re.search(rx, b2) and not re.search(rx, b): rm = 'false'
    if rm is None: log.append('C17: file removal in DeleteObjectHelper not recognised')
    body += '(* true = DeleteObjectHelper (the recursive part) removes the file of each _api object; false = only DeleteObject (top level) does *)\n'
    body += 'Definition f_cw_delete_helper_removes_file : option bool := %s.\n' % ('Some ' + rm if rm else 'None')
    # ---- "created at runtime": the literal DeleteObject (refusal) and DeleteObjectHelper (file removal) compare
    #      object->GetPackage() with - by EQUALITY of the whole string
    lit = None
    if b and b2:
        m2 = re.search(r'if\s*\(\s*object->GetPackage\(\)\s*!=\s*"((?:[^"\\]|\\.)*)"\s*\)\s*\{?[^}]{0,200}not created using the API', b2, re.S)
        m1 = re.search(r'if\s*\(\s*object->GetPackage\(\)\s*==\s*"((?:[^"\\]|\\.)*)"\s*\)\s*\{?\s*Utility::Remove\s*\(', b)
        if m1 and m2 and m1.group(1) == m2.group(1):
            lit = c_unescape(m1.group(1))
    if lit is None: log.append('C17: package comparison of DeleteObject / DeleteObjectHelper not recognised')
    body += '(* the package name whose objects DeleteObject does not refuse and whose files DeleteObjectHelper removes: `GetPackage() == <literal>` (whole-string equality) in both *)\n'
    body += 'Definition f_cw_delete_pkg_equals : option (list N) := %s.\n' % ('Some (' + blist(lit) + ')%N' if lit is not None else 'None')
    # ---- the five host!name | host!service!name composers: are more than three parts / an empty middle part rejected?
    ex3 = []
    for fn, cls in (('notification', 'Notification'), ('dependency', 'Dependency'), ('scheduleddowntime', 'ScheduledDowntime'),
                    ('comment', 'Comment'), ('downtime', 'Downtime')):
        b = fn_body(rd('lib/icinga/%s.cpp' % fn), r'Dictionary::Ptr\s+%sNameComposer::ParseName\s*\(' % cls)
        v = None
        if b and re.search(r'name\.Split\("!"\)', b) and re.search(r'tokens\.size\(\)\s*<\s*2', b):
            guard = b[:b.find('new Dictionary')] if 'new Dictionary' in b else b
            if re.search(r'tokens\.size\(\)\s*>\s*3', guard) and re.search(r'tokens\[1\]\.IsEmpty\(\)', guard): v = 'true'
            elif not re.search(r'tokens\.size\(\)\s*(>|!=|==)\s*3', guard) and 'IsEmpty' not in guard: v = 'false'
        ex3.append(v)
    c3 = ex3[0] if all(v is not None and v == ex3[0] for v in ex3) else None
    if c3 is None: log.append('C17: composite NameComposer::ParseName functions not recognised / not uniform: %s' % ex3)
    body += "(* Notification/Dependency/ScheduledDowntime/Comment/Downtime ParseName: true = at most three '!'-separated parts and a non-empty middle part; false = further parts dropped *)\n"
    body += 'Definition f_cw_composite_name_exact : option bool := %s.\n' % ('Some ' + c3 if c3 else 'None')
    emit('Facts_c17.v', body)
