#!/usr/bin/env python3
"""integrator helper: import + record a wave seed from its logs:  tools/seed_auto.py <ID> <v> <check IDs...>
verdict: caught (a VIOLATION with a failing input by the property's own or a listed check), half (only
no-failing-input-found), missed."""
import sys, os, subprocess, re
HERE = os.path.dirname(os.path.dirname(os.path.abspath(__file__)))
pid, v, ids = sys.argv[1], sys.argv[2], sys.argv[3:]
seed = pid + v
logdir = '/var/tmp/iso/out/' + seed
if not os.path.exists(HERE + '/seeded/' + seed + '/patch.diff'):
    subprocess.check_call([HERE + '/tools/seed_import.py', pid, v])
full = half = False
by = []
for i in ids:
    txt = open('%s/%s.log' % (logdir, i), errors='replace').read()
    for l in txt.splitlines():
        if l.startswith('VIOLATION'):
            if 'no-failing-input-found' in l: half = True
            else:
                full = True
                if i not in by: by.append(i)
if full:
    verdict = 'caught' if pid in by else 'caught-by-' + '+'.join(by)
elif half:
    verdict = 'proof-or-correspondence-only (no failing input found)'
else:
    verdict = 'missed (strengthening requested)'
note = sys.argv[sys.argv.index('--note') + 1] if '--note' in sys.argv else None
ids = [i for i in ids if not i.startswith('--')]
cmd = [HERE + '/tools/seed_record.py', seed, verdict, logdir] + [i for i in ids if re.match(r'^C\d\d$', i)]
subprocess.check_call(cmd)
