"""C15 facts: the operator precedence / associativity declarations of lib/config/config_parser.yy (%left/%right/%nonassoc lines in
source order = ascending binding strength), the binary-operator rules of the grammar (`rterm T_X rterm { MakeRBinaryOp<Class> }`),
the operator table of doc/17-language-reference.md, and the table the generator's minimal-parenthesis printer uses
(vlib/p_c15.py BINOPS / NONASSOC).  coq/Dsl/DslPrec.v proves that the three agree on the binary operators.  Anything that can no
longer be recognised makes the lists shorter, so the consistency theorem stops checking."""
import re, os, sys

def _q(s):
    return '"' + s.replace('"', '""') + '"'

def run(rd, emit, log, enum_values, ti_default):
    yy = rd('lib/config/config_parser.yy')
    # token -> operator text, from  %token T_PLUS "+ (T_PLUS)"
    text = {}
    for m in re.finditer(r'^%token(?:\s+<\w+>)?\s+(T_\w+)\s+"(\S+) \(T_\w+\)"', yy, re.M):
        text[m.group(1)] = m.group(2)
    head = yy.split('%{', 2)
    decl = yy[:yy.find('\n%%')] if '\n%%' in yy else yy
    lines = []
    for m in re.finditer(r'^%(left|right|nonassoc)\s+(.*)$', decl, re.M):
        toks = m.group(2).split()
        lines.append((m.group(1), [text.get(t, t.strip("'")) for t in toks]))
    if not lines:
        log.append('C15: no precedence declarations recognised in config_parser.yy')
    rules = re.findall(r'\|\s*rterm\s+(T_\w+)\s+rterm\s*\{\s*MakeRBinaryOp<(\w+)>', yy)
    if not rules:
        log.append('C15: no binary operator rules recognised in config_parser.yy')
    doc = rd('doc/17-language-reference.md')
    rows = []
    sec = doc[doc.find('### Operators'):]
    sec = sec[:sec.find('\n### ', 5)] if '\n### ' in sec[5:] else sec
    for m in re.finditer(r'^(`[^`]+`|<code>.*?</code>)\s*\|\s*(\d+)\s*\|', sec, re.M):
        op = m.group(1)
        op = op[1:-1] if op.startswith('`') else re.sub(r'</?code>', '', op)
        op = op.replace('&#124;', '|').strip()
        rows.append((op, int(m.group(2))))
    if not rows:
        log.append('C15: operator table of doc/17-language-reference.md not recognised')
    here = os.path.dirname(os.path.dirname(os.path.abspath(__file__)))
    if here not in sys.path:
        sys.path.insert(0, here)
    try:
        from vlib import p_c15
        printer = sorted((op, lv[0]) for op, lv in p_c15.BINOPS.items())
        nonassoc = sorted(p_c15.NONASSOC)
    except Exception as ex:       # the generator module is part of this tree; never expected
        log.append('C15: cannot import vlib.p_c15 (%s)' % ex)
        printer, nonassoc = [], []
    code = {'left': 0, 'right': 1, 'nonassoc': 2}
    body = 'Local Open Scope string_scope.\n\n(* associativity: 0 = %left, 1 = %right, 2 = %nonassoc; the lines are in source order: later = binds tighter *)\n'
    body += 'Definition f_c15_prec : list (Z * list string) :=\n  [' + ';\n   '.join('(%d, [%s])' % (code[a], '; '.join(_q(t) for t in ts)) for a, ts in lines) + '].\n\n'
    body += '(* rterm T_X rterm { MakeRBinaryOp<Class> } : (operator text, expression class) *)\n'
    body += 'Definition f_c15_binrules : list (string * string) :=\n  [' + ';\n   '.join('(%s, %s)' % (_q(text.get(t, t)), _q(c)) for t, c in rules) + '].\n\n'
    body += '(* doc/17-language-reference.md, table "Operators": (operator, precedence), smaller = binds tighter *)\n'
    body += 'Definition f_c15_doc : list (string * Z) :=\n  [' + ';\n   '.join('(%s, %d)' % (_q(o), l) for o, l in rows) + '].\n\n'
    body += '(* vlib/p_c15.py: the level the minimal-parenthesis printer assigns to each binary operator, and its non-associative levels *)\n'
    body += 'Definition f_c15_printer : list (string * Z) :=\n  [' + ';\n   '.join('(%s, %d)' % (_q(o), l) for o, l in printer) + '].\n'
    body += 'Definition f_c15_printer_nonassoc : list Z := [' + '; '.join(str(x) for x in nonassoc) + '].\n'
    emit('Facts_c15.v', body)
