#!/bin/bash
# integrator helper: create (or refresh) an agent worktree of /verif with the compiled artefacts copied in,
# so that nothing has to be rebuilt from scratch:   tools/mkworktree.sh <name>   ->  /var/tmp/w/<name> on branch prop-<name>
set -e
N=$1
W=/var/tmp/w/$N
mkdir -p /var/tmp/w
if [ ! -d "$W" ]; then
  if git -C /verif show-ref --verify --quiet refs/heads/prop-$N; then
    git -C /verif branch -f prop-$N HEAD
    git -C /verif worktree add "$W" prop-$N >/dev/null
  else
    git -C /verif worktree add "$W" -b prop-$N >/dev/null
  fi
fi
rsync -a --exclude .git --exclude build/icinga --exclude replays /verif/ "$W/"
mkdir -p "$W/replays"
echo "$W ready (branch prop-$N at $(git -C $W log --oneline | head -1))"
