#!/usr/bin/env python3
"""integrator helper: record the result of tools/seedrun.sh in seeded/<seed>/meta.json
   tools/seed_record.py <seed> <verdict> <logdir> <ID> [<ID>...] [--note text]"""
import sys, json, os, re, subprocess
HERE = os.path.dirname(os.path.dirname(os.path.abspath(__file__)))
a = sys.argv[1:]
note = None
if '--note' in a:
    i = a.index('--note'); note = a[i + 1]; a = a[:i] + a[i + 2:]
seed, verdict, logdir, ids = a[0], a[1], a[2], a[3:]
p = HERE + '/seeded/%s/meta.json' % seed
m = json.load(open(p))
vc = m.get('verif_checks') or {}
if vc.get('results') and vc.get('verdict') and vc['verdict'] != verdict:
    m.setdefault('verif_checks_history', []).append(vc)
head = subprocess.check_output(['git', '-C', HERE, 'log', '--oneline', '-1'], text=True).strip()
res = {}
for pid in ids:
    txt = open('%s/%s.log' % (logdir, pid), errors='replace').read()
    res[pid] = {'violation_lines': [l.strip() for l in txt.splitlines() if l.startswith('VIOLATION')][:6],
                'summary': [l for l in txt.splitlines() if l.startswith(pid + ':')][-1:] and [l for l in txt.splitlines() if l.startswith(pid + ':')][-1] or txt.strip().splitlines()[-1][:300]}
m['verif_checks'] = {'how': 'tools/seedrun.sh: patch applied to a scratch worktree of /repo HEAD, ./check <id> --tier quick from an isolated copy of /verif at ' + head + ', then removed',
                     'verdict': verdict, 'results': res}
if note: m['verif_checks']['note'] = note
json.dump(m, open(p, 'w'), indent=1)
print(seed, verdict, {k: len(v['violation_lines']) for k, v in res.items()})
