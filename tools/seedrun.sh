#!/bin/bash
# integrator helper: run checks of THIS /verif commit (plus working-tree files) against a scratch worktree of /repo
# with a patch applied, without touching /repo or /verif/build.
#   tools/seedrun.sh <name> <patch.diff|-> <ID> [<ID> ...]        (env: TAG=<output dir name>, TIER=quick|thorough, SEED=1, KEEP=1, REVERT=<commit> to revert a /repo commit instead of a patch)
# Layout: /var/tmp/iso/<name>/{repo,verif,icinga}; results in /var/tmp/iso/out/<name>/<ID>.log (+ replay files).
set -e
NAME=$1; PATCH=$2; shift 2
ISO=/var/tmp/iso/$NAME
OUT=/var/tmp/iso/out/${TAG:-$NAME}
mkdir -p "$ISO" "$OUT"
if [ ! -d "$ISO/repo" ]; then git -C /repo worktree add --detach "$ISO/repo" HEAD >/dev/null 2>&1; fi
git -C "$ISO/repo" reset -q --hard; git -C "$ISO/repo" clean -qfd
git -C "$ISO/repo" checkout -q --detach "$(git -C /repo rev-parse HEAD)"
if [ -n "$REVERT" ]; then git -C "$ISO/repo" show "$REVERT" | git -C "$ISO/repo" apply -R; fi
if [ "$PATCH" != "-" ]; then git -C "$ISO/repo" apply "$PATCH" || git -C "$ISO/repo" apply --3way "$PATCH"; fi
if [ ! -d "$ISO/verif" ]; then
  git -C /verif worktree add --detach "$ISO/verif" HEAD >/dev/null 2>&1
fi
# bring the isolated copy to the integrator's working tree (tracked + untracked sources), reuse compiled Coq and OCaml
rsync -a --delete --exclude .git --exclude build/icinga --exclude build/harness --exclude 'build/vchk_*' --exclude replays --exclude evidence /verif/ "$ISO/verif/" || [ $? -eq 24 ]
mkdir -p "$ISO/verif/evidence" "$ISO/verif/replays"
export VERIF_REPO=$ISO/repo VERIF_ICINGA_BUILD=$ISO/icinga VERIF_BUILD=$ISO/verif/build VERIF_CCACHE=1
export CCACHE_DIR=/var/tmp/ccache CCACHE_BASEDIR=$ISO CCACHE_NOHASHDIR=1 CCACHE_SLOPPINESS=time_macros,include_file_mtime,include_file_ctime CCACHE_MAXSIZE=20G
cd "$ISO/verif"
for ID in "$@"; do
  s=$(date +%s)
  set +e
  ./check $ID --tier ${TIER:-quick} --seed ${SEED:-1} > "$OUT/$ID.log" 2>&1; rc=$?
  set -e
  e=$(date +%s)
  echo "== $NAME $ID rc=$rc wall=$((e-s))s"
  grep -E '^VIOLATION' "$OUT/$ID.log" | head -5
  tail -1 "$OUT/$ID.log" | cut -c1-220
  for r in $(grep -oE 'replay=[^ ]+' "$OUT/$ID.log" | cut -d= -f2 | sort -u); do cp "$r" "$OUT/" 2>/dev/null || true; done
done
if [ -z "$KEEP" ]; then
  cd /; git -C /verif worktree remove --force "$ISO/verif"; git -C /repo worktree remove --force "$ISO/repo"; rm -rf "$ISO"
fi
