#!/usr/bin/env python3
"""Regenerate the seeded-change detection matrix of DESIGN.md (section 6.4) from seeded/*/meta.json."""
import json, glob, os, re
HERE = os.path.dirname(os.path.dirname(os.path.abspath(__file__)))
rows = []
for d in sorted(glob.glob(HERE + '/seeded/C*')):
    m = json.load(open(d + '/meta.json'))
    name = os.path.basename(d)
    res = m['verif_checks']['results']
    classes = []
    for pid, r in res.items():
        for l in r['violation_lines']:
            mm = re.search(r'replay=\S*?%s_(?:violation_)?([^/\s]+?)\.json(.*)$' % pid, l)
            if mm:
                classes.append('%s:%s%s' % (pid, mm.group(1), ' (no failing input)' if 'no-failing-input' in mm.group(2) else ''))
    summ = (m.get('summary') or '').replace('|', '/').replace('\n', ' ')
    summ = summ[:150] + ('…' if len(summ) > 150 else '')
    needs = (m.get('needs_to_manifest') or '').replace('|', '/').replace('\n', ' ')
    needs = needs[:130] + ('…' if len(needs) > 130 else '')
    rows.append('| `%s` | %s | %s | %s | %s |' % (name, summ, needs, m['verif_checks']['verdict'], ', '.join(sorted(set(classes))[:3]) or '—'))
n = len(rows)
caught_first = sum(1 for r in rows if '| caught |' in r or '| caught-by-' in r)
then = sum(1 for r in rows if 'then-caught' in r)
missed = sum(1 for r in rows if '| missed (' in r)
hdr = ('%d seeded changes (written in several independent waves by fresh sub-agents that were given only the text of one property '
       'and a scratch worktree of /repo; every one confirmed by the integrator: pinned suite 182/182 with the change, '
       'demonstration fails with and passes without it). '
       'Caught with a failing input by the checks as they stood when the change arrived: %d; missed, or caught only at proof/'
       'correspondence level, at first and caught with a failing input after the check was strengthened (generator, model, oracle or '
       'source fact - never by special-casing the change): %d; still not caught with a failing input: %d.  '
       'The first-run misses clustered in: read-side size limits and narrowed integer widths introduced on one side only; end of '
       'stream / spinning readers; frames, namespaces and caches shared across rules, targets or users; whitelisted natives that '
       'mutate an argument; check-then-act races in handlers; rarely used syntax positions; objects placed in other zones or '
       'packages than their relatives.  Each cluster led to a general strengthening described in notes/<ID>.md.\n\n' % (n, caught_first, then, n - caught_first - then))
tab = hdr + '| seeded/ | change | needs | verdict | violation class(es) reported |\n|---|---|---|---|---|\n' + '\n'.join(rows) + '\n'
p = HERE + '/DESIGN.md'
s = open(p).read()
B, E = '<!-- seeded-table-begin -->', '<!-- seeded-table-end -->'
if B not in s:
    s = s.rstrip('\n') + '\n\n' + B + '\n' + E + '\n'
s = s[:s.index(B) + len(B)] + '\n' + tab + s[s.index(E):]
open(p, 'w').write(s)
print(n, caught_first, then, missed)
