"""C07 facts: recursion limit and its comparison in Checkable::IsReachable, DependencyType order,
the state -> filter tables of ServiceStateToFilter / HostStateToFilter."""
import re


def switch_table(src, fn):
    m = re.search(r'int\s+icinga::' + fn + r'\s*\([^)]*\)\s*\{(.*?)\n\}', src, re.S)
    if not m:
        return None
    tab = {}
    pend = []
    for t in re.finditer(r'case\s+(\w+)\s*:|return\s+(\w+)\s*;', m.group(1)):
        if t.group(1):
            pend.append(t.group(1))
        else:
            for p in pend:
                tab[p] = t.group(2)
            pend = []
    return tab


def key_alternatives(t):
    """C++ type text of the per-checkable group key -> list of alternatives (a std::variant is a sum, anything else one)."""
    t = re.sub(r'\s+', '', t).replace('icinga::', '')
    m = re.fullmatch(r'std::variant<(.*)>', t)
    alts = m.group(1).split(',') if m else [t]
    if not all(re.fullmatch(r'[A-Za-z_][\w:]*\*?', a) for a in alts):
        return None
    return alts


def group_key_fact(rd, cd, log):
    """key type of Checkable::m_DependencyGroups / m_PendingDependencies and the return type of GetDependencyGroupKey():
    the model's dg_key is a sum (parent identity | group name); the three places must agree."""
    hpp = rd('lib/icinga/checkable.hpp')
    found = []
    m = re.search(r'std::map\s*<\s*((?:std::variant\s*<[^<>]*>)|[\w:]+\s*\*?)\s*,\s*intrusive_ptr\s*<\s*DependencyGroup\s*>\s*>\s*m_DependencyGroups\s*;', hpp)
    found.append(m.group(1) if m else None)
    m = re.search(r'std::unique_ptr\s*<\s*std::map\s*<\s*((?:std::variant\s*<[^<>]*>)|[\w:]+\s*\*?)\s*,\s*std::set\s*<\s*intrusive_ptr\s*<\s*Dependency\s*>\s*>\s*>\s*>\s*m_PendingDependencies\b', hpp)
    found.append(m.group(1) if m else None)
    m = re.search(r'static\s+((?:std::variant\s*<[^<>]*>)|[\w:]+\s*\*?)\s+GetDependencyGroupKey\s*\(', cd)
    found.append(m.group(1) if m else None)
    alts = [key_alternatives(t) if t else None for t in found]
    if any(a is None for a in alts) or not (alts[0] == alts[1] == alts[2]):
        log.append('C07: key type of m_DependencyGroups/m_PendingDependencies/GetDependencyGroupKey not recognised: %r' % (found,))
        return 'Definition f_dependency_group_key_alternatives : option (list string) := None.\n'
    return 'Definition f_dependency_group_key_alternatives : option (list string) := Some [%s]%%string.\n' % '; '.join('"%s"' % a for a in alts[0])


def run(rd, emit, log, enum_values, ti_default):
    body = 'Require Import Icv.Facts.Facts_enums.\n\n'
    cd = rd('lib/icinga/checkable-dependency.cpp')
    m = re.search(r'static\s+constexpr\s+int\s+l_MaxDependencyRecursionLevel\s*\(\s*(\d+)\s*\)', cd)
    body += 'Definition f_max_dependency_recursion : option Z := %s.\n' % ('Some (%s)' % m.group(1) if m else 'None')
    if not m:
        log.append('C07: l_MaxDependencyRecursionLevel not recognised')
    # IsReachable: "if (rstack > l_MaxDependencyRecursionLevel)" ... "return false" and GetState(this, dt, rstack + 1)
    b = re.search(r'bool\s+Checkable::IsReachable\s*\([^)]*\)\s*const\s*\{(.*?)\n\}', cd, re.S)
    gt = bool(b and re.search(r'if\s*\(\s*rstack\s*>\s*l_MaxDependencyRecursionLevel\s*\)', b.group(1)))
    inc = bool(b and re.search(r'GetState\s*\(\s*this\s*,\s*dt\s*,\s*rstack\s*\+\s*1\s*\)', b.group(1)))
    if not (gt and inc):
        log.append('C07: recursion guard of Checkable::IsReachable not recognised')
    body += 'Definition f_reach_guard_is_gt_and_increments : bool := %s.\n' % ('true' if gt and inc else 'false')
    dt = enum_values(rd('lib/icinga/checkable.hpp'), 'DependencyType')
    for k in ('DependencyState', 'DependencyCheckExecution', 'DependencyNotification'):
        body += 'Definition f_%s : option Z := %s.\n' % (k, 'Some (%d)' % dt[k] if k in dt else 'None')
    nt = rd('lib/icinga/notification.cpp')
    st = switch_table(nt, 'ServiceStateToFilter')
    ht = switch_table(nt, 'HostStateToFilter')
    names = ('ServiceOK', 'ServiceWarning', 'ServiceCritical', 'ServiceUnknown')
    if st and all(n in st for n in names):
        body += 'Definition f_service_state_to_filter : option (list (Z * Z)) := Some [%s].\n' % '; '.join('(f_%s, f_%s)' % (n, st[n]) for n in names)
    else:
        log.append('C07: ServiceStateToFilter not recognised')
        body += 'Definition f_service_state_to_filter : option (list (Z * Z)) := None.\n'
    if ht and all(n in ht for n in ('HostUp', 'HostDown')):
        body += 'Definition f_host_state_to_filter : option (list (Z * Z)) := Some [%s].\n' % '; '.join('(f_%s, f_%s)' % (n, ht[n]) for n in ('HostUp', 'HostDown'))
    else:
        log.append('C07: HostStateToFilter not recognised')
        body += 'Definition f_host_state_to_filter : option (list (Z * Z)) := None.\n'
    body += group_key_fact(rd, cd, log)
    emit('Facts_c07.v', body)
