"""C07 facts: recursion limit and its comparison in Checkable::IsReachable, DependencyType order,
the state -> filter tables of ServiceStateToFilter / HostStateToFilter."""
import re


def switch_table(src, fn):
    m = re.search(r'int\s+icinga::' + fn + r'\s*\([^)]*\)\s*\{(.*?)\n\}', src, re.S)
    if not m:
        return None
    tab = {}
    pend = []
    for t in re.finditer(r'case\s+(\w+)\s*:|return\s+(\w+)\s*;', m.group(1)):
        if t.group(1):
            pend.append(t.group(1))
        else:
            for p in pend:
                tab[p] = t.group(2)
            pend = []
    return tab


def run(rd, emit, log, enum_values, ti_default):
    body = 'Require Import Icv.Facts.Facts_enums.\n\n'
    cd = rd('lib/icinga/checkable-dependency.cpp')
    m = re.search(r'static\s+constexpr\s+int\s+l_MaxDependencyRecursionLevel\s*\(\s*(\d+)\s*\)', cd)
    body += 'Definition f_max_dependency_recursion : option Z := %s.\n' % ('Some (%s)' % m.group(1) if m else 'None')
    if not m:
        log.append('C07: l_MaxDependencyRecursionLevel not recognised')
    # IsReachable: "if (rstack > l_MaxDependencyRecursionLevel)" ... "return false" and GetState(this, dt, rstack + 1)
    b = re.search(r'bool\s+Checkable::IsReachable\s*\([^)]*\)\s*const\s*\{(.*?)\n\}', cd, re.S)
    gt = bool(b and re.search(r'if\s*\(\s*rstack\s*>\s*l_MaxDependencyRecursionLevel\s*\)', b.group(1)))
    inc = bool(b and re.search(r'GetState\s*\(\s*this\s*,\s*dt\s*,\s*rstack\s*\+\s*1\s*\)', b.group(1)))
    if not (gt and inc):
        log.append('C07: recursion guard of Checkable::IsReachable not recognised')
    body += 'Definition f_reach_guard_is_gt_and_increments : bool := %s.\n' % ('true' if gt and inc else 'false')
    dt = enum_values(rd('lib/icinga/checkable.hpp'), 'DependencyType')
    for k in ('DependencyState', 'DependencyCheckExecution', 'DependencyNotification'):
        body += 'Definition f_%s : option Z := %s.\n' % (k, 'Some (%d)' % dt[k] if k in dt else 'None')
    nt = rd('lib/icinga/notification.cpp')
    st = switch_table(nt, 'ServiceStateToFilter')
    ht = switch_table(nt, 'HostStateToFilter')
    names = ('ServiceOK', 'ServiceWarning', 'ServiceCritical', 'ServiceUnknown')
    if st and all(n in st for n in names):
        body += 'Definition f_service_state_to_filter : option (list (Z * Z)) := Some [%s].\n' % '; '.join('(f_%s, f_%s)' % (n, st[n]) for n in names)
    else:
        log.append('C07: ServiceStateToFilter not recognised')
        body += 'Definition f_service_state_to_filter : option (list (Z * Z)) := None.\n'
    if ht and all(n in ht for n in ('HostUp', 'HostDown')):
        body += 'Definition f_host_state_to_filter : option (list (Z * Z)) := Some [%s].\n' % '; '.join('(f_%s, f_%s)' % (n, ht[n]) for n in ('HostUp', 'HostDown'))
    else:
        log.append('C07: HostStateToFilter not recognised')
        body += 'Definition f_host_state_to_filter : option (list (Z * Z)) := None.\n'
    emit('Facts_c07.v', body)
