"""C08 facts, re-extracted from the source on every run (coq/Facts/Facts_c08.v):
   * which day number LegacyTimePeriod::IsInTimeRange uses for strides (lib/icinga/legacytimeperiod.cpp):
       (tsref - tsbegin) / (24 * 60 * 60)                    pinned form, finding stride-dst
       (tsref - tsbegin + 12 * 60 * 60) / (24 * 60 * 60)     rounded to the nearest day (repo_patches/C08-stride-dst.diff)
   * where the day loop of LegacyTimePeriod::ScriptFunc starts and what it keeps:
       first local day of the region, every produced segment                          pinned form, finding wrap-first-day
       the local day before it (tm_mday--, mktime), only segments with end > begin    (repo_patches/C08-wrap-first-day.diff)
A form that is not recognised is emitted as None: the model then takes the pinned branch and the theorem
C08_source_forms_recognised stops compiling."""
import re


def fn_body(src, sig_re):
    m = re.search(sig_re + r'[^{;]*\{', src)
    if not m:
        return None
    i = m.end()
    depth = 1
    j = i
    while j < len(src) and depth:
        if src[j] == '{':
            depth += 1
        elif src[j] == '}':
            depth -= 1
        j += 1
    return src[i:j - 1]


def strip(code):
    """comments and #ifdef I2_DEBUG logging blocks out, all white space out"""
    code = re.sub(r'/\*.*?\*/|//[^\n]*', '', code, flags=re.S)
    code = re.sub(r'#ifdef I2_DEBUG.*?#endif', '', code, flags=re.S)
    return re.sub(r'\s+', '', code)


def run(rd, emit, log, enum_values, ti_default):
    src = rd('lib/icinga/legacytimeperiod.cpp')
    body = ''
    # ---- IsInTimeRange: the day number
    b = fn_body(src, r'bool\s+LegacyTimePeriod::IsInTimeRange\s*\(')
    rnd = None
    if b:
        s = strip(b)
        frame = (r'^time_ttsbegin,tsend,tsref;tsbegin=mktime_const\(begin\);tsend=mktime_const\(end\);tsref=mktime_const\(reference\);'
                 r'if\(tsref<tsbegin\|\|tsref>=tsend\)returnfalse;intdaynumber=(.*?);if\(stride>1&&daynumber%stride>0\)returnfalse;returntrue;$')
        m = re.match(frame, s)
        if m:
            e = m.group(1)
            if e == '(tsref-tsbegin)/(24*60*60)':
                rnd = 'false'
            elif e == '(tsref-tsbegin+12*60*60)/(24*60*60)':
                rnd = 'true'
    if rnd is None:
        log.append('C08: LegacyTimePeriod::IsInTimeRange not recognised')
    body += '(* true = the day number of a stride is (tsref - tsbegin + 12 h) / 24 h (nearest day); false = (tsref - tsbegin) / 24 h *)\n'
    body += 'Definition f_tp_stride_round : option bool := %s.\n' % ('Some ' + rnd if rnd else 'None')
    # ---- ScriptFunc: first day of the loop, which segments are kept
    b = fn_body(src, r'Array::Ptr\s+LegacyTimePeriod::ScriptFunc\s*\(')
    lb = None
    if b:
        s = strip(b)
        # Log(...) statements carry no behaviour
        s = re.sub(r'Log\(LogDebug,"LegacyTimePeriod"\)(?:<<(?:"[^"]*"|[A-Za-z_>\-\(\)\.]+))+;', '', s)
        head = r'^Array::Ptrsegments=newArray\(\);Dictionary::Ptrranges=tp->GetRanges\(\);if\(ranges\)\{tmtm_begin=Utility::LocalTime\(begin\);'
        zero = r'tm_begin\.tm_hour=0;tm_begin\.tm_min=0;tm_begin\.tm_sec=0;tm_begin\.tm_isdst=-1;'
        adv = (r'autoadvance_to_next_day=\[\]\(tm\*t\)\{t->tm_mday\+\+;t->tm_hour=0;t->tm_min=0;t->tm_sec=0;t->tm_isdst=-1;mktime\(t\);t->tm_isdst=-1;\};'
               r'for\(tmreference=tm_begin;mktime_const\(&reference\)<=end;advance_to_next_day\(&reference\)\)\{'
               r'ObjectLockolock\(ranges\);for\(constDictionary::Pair&kv:ranges\)\{if\(!IsInDayDefinition\(kv\.first,&reference\)\)\{continue;\}')
        tail = r'\}\}\}returnsegments;$'
        old = head + zero + adv + r'ProcessTimeRanges\(kv\.second,&reference,segments\);' + tail
        new = (head + r'tm_begin\.tm_mday--;' + zero + r'mktime\(&tm_begin\);tm_begin\.tm_isdst=-1;' + adv +
               r'Array::PtrdaySegments=newArray\(\);ProcessTimeRanges\(kv\.second,&reference,daySegments\);'
               r'ObjectLockdlock\(daySegments\);for\(constDictionary::Ptr&segment:daySegments\)\{'
               r'if\(segment->Get\("end"\)>begin\)segments->Add\(segment\);\}' + tail)
        if re.match(old, s):
            lb = 'false'
        elif re.match(new, s):
            lb = 'true'
    if lb is None:
        log.append('C08: LegacyTimePeriod::ScriptFunc day loop not recognised')
    body += ('(* true = the day loop of ScriptFunc starts one local day before the first day of the region and keeps the segments that end\n'
             '   after the region\'s begin; false = it starts at the first local day of the region and keeps every segment *)\n')
    body += 'Definition f_tp_loop_lookback : option bool := %s.\n' % ('Some ' + lb if lb else 'None')
    emit('Facts_c08.v', body)
