"""C08 facts, re-extracted from the source on every run (coq/Facts/Facts_c08.v):
   * which day number LegacyTimePeriod::IsInTimeRange uses for strides (lib/icinga/legacytimeperiod.cpp):
       (tsref - tsbegin) / (24 * 60 * 60)                    pinned form, finding stride-dst
       (tsref - tsbegin + 12 * 60 * 60) / (24 * 60 * 60)     rounded to the nearest day (repo_patches/C08-stride-dst.diff)
   * where the day loop of LegacyTimePeriod::ScriptFunc starts and what it keeps:
       first local day of the region, every produced segment                          pinned form, finding wrap-first-day
       the local day before it (tm_mday--, mktime), only segments with end > begin    (repo_patches/C08-wrap-first-day.diff)
   * what TimePeriod::UpdateRegion does when valid_end already lies beyond the requested end (lib/icinga/timeperiod.cpp):
       "if (end < GetValidEnd()) return;"                                   pinned form, finding stale-reference
       "if (end < GetValidEnd()) extend = false;" + the own computation under "if (extend)" + Merge(.., .., !extend) with
       Merge cutting every segment off at valid_end when clip is set         (repo_patches/C08-merge-references-every-round.diff)
   * what TimePeriod::Start does with the state attributes it finds (restored from the state file after a restart):
       "doublenow=Utility::GetTime();UpdateRegion(now,now+24*3600,true);" - the only UpdateRegion call, clearExisting the
       literal true, nothing conditional around it:                        today's form (the segments are dropped, valid_begin /
                                                                            valid_end are kept: finding restart-keeps-valid-end)
       the same preceded by "{ObjectLockolock(this);SetValidBegin(Empty);SetValidEnd(Empty);}"   (repo_patches/C08-start-resets-window.diff)
A form that is not recognised is emitted as None: the model then takes the pinned branch and the theorem
C08_source_forms_recognised stops compiling."""
import re


def fn_body(src, sig_re):
    m = re.search(sig_re + r'[^{;]*\{', src)
    if not m:
        return None
    i = m.end()
    depth = 1
    j = i
    while j < len(src) and depth:
        if src[j] == '{':
            depth += 1
        elif src[j] == '}':
            depth -= 1
        j += 1
    return src[i:j - 1]


def strip(code):
    """comments and #ifdef I2_DEBUG logging blocks out, all white space out"""
    code = re.sub(r'/\*.*?\*/|//[^\n]*', '', code, flags=re.S)
    code = re.sub(r'#ifdef I2_DEBUG.*?#endif', '', code, flags=re.S)
    return re.sub(r'\s+', '', code)


def run(rd, emit, log, enum_values, ti_default):
    src = rd('lib/icinga/legacytimeperiod.cpp')
    body = ''
    # ---- IsInTimeRange: the day number
    b = fn_body(src, r'bool\s+LegacyTimePeriod::IsInTimeRange\s*\(')
    rnd = None
    if b:
        # which of the two known expressions; everything else in the function is covered by the correspondence run
        m = re.search(r'intdaynumber=([^;]*);', strip(b))
        if m and 'daynumber%stride' in strip(b):
            e = m.group(1)
            if e == '(tsref-tsbegin)/(24*60*60)':
                rnd = 'false'
            elif e == '(tsref-tsbegin+12*60*60)/(24*60*60)':
                rnd = 'true'
    if rnd is None:
        log.append('C08: LegacyTimePeriod::IsInTimeRange not recognised')
    body += '(* true = the day number of a stride is (tsref - tsbegin + 12 h) / 24 h (nearest day); false = (tsref - tsbegin) / 24 h *)\n'
    body += 'Definition f_tp_stride_round : option bool := %s.\n' % ('Some ' + rnd if rnd else 'None')
    # ---- ScriptFunc: first day of the loop, which segments are kept
    b = fn_body(src, r'Array::Ptr\s+LegacyTimePeriod::ScriptFunc\s*\(')
    lb = None
    if b:
        # which of the two known forms of the loop's start and of what is kept; everything else is covered by the correspondence run
        s = strip(b)
        dec = 'tm_begin.tm_mday--;' in s
        norm = 'mktime(&tm_begin);' in s
        direct = 'ProcessTimeRanges(kv.second,&reference,segments);' in s
        filt = ('ProcessTimeRanges(kv.second,&reference,daySegments);' in s and
                'if(segment->Get("end")>begin)segments->Add(segment);' in s)
        loop = 'for(tmreference=tm_begin;mktime_const(&reference)<=end;advance_to_next_day(&reference))' in s
        if loop and direct and not dec and not filt:
            lb = 'false'
        elif loop and dec and norm and filt and not direct:
            lb = 'true'
    if lb is None:
        log.append('C08: LegacyTimePeriod::ScriptFunc day loop not recognised')
    body += ('(* true = the day loop of ScriptFunc starts one local day before the first day of the region and keeps the segments that end\n'
             '   after the region\'s begin; false = it starts at the first local day of the region and keeps every segment *)\n')
    body += 'Definition f_tp_loop_lookback : option bool := %s.\n' % ('Some ' + lb if lb else 'None')
    # ---- TimePeriod::UpdateRegion: early return or merge in every round
    tsrc = rd('lib/icinga/timeperiod.cpp')
    ma = None
    bu = fn_body(tsrc, r'void\s+TimePeriod::UpdateRegion\s*\(')
    bm = fn_body(tsrc, r'void\s+TimePeriod::Merge\s*\(')
    if bu and bm:
        su, sm = strip(bu), strip(bm)
        loop_plain = 'for(constDictionary::Ptr&segment:segments){include?AddSegment(segment):RemoveSegment(segment);}'
        loop_clip = ('for(constDictionary::Ptr&segment:segments){if(clip){doublesbegin=segment->Get("begin");doublesend=segment->Get("end");'
                     'doublelimit=GetValidEnd();if(sbegin>=limit)continue;if(send>limit)send=limit;'
                     'include?AddSegment(sbegin,send):RemoveSegment(sbegin,send);continue;}include?AddSegment(segment):RemoveSegment(segment);}')
        adjust = 'if(begin<GetValidEnd())begin=GetValidEnd();'
        own = 'RemoveSegment(begin,end);if(segments){ObjectLockdlock(segments);for(constDictionary::Ptr&segment:segments){AddSegment(segment);}}'
        if (adjust + 'if(end<GetValidEnd())return;' in su and 'extend' not in su and own in su
                and su.count('Merge(timeperiod,!preferInclude);') == 1 and su.count('Merge(timeperiod,preferInclude);') == 1
                and loop_plain in sm and 'clip' not in sm):
            ma = 'false'
        elif ('boolextend=true;' in su and adjust + 'if(end<GetValidEnd())extend=false;' in su and 'return' not in su
                and 'if(extend){Array::Ptrsegments=GetUpdate()->Invoke({this,begin,end});ObjectLockolock(this);' + own + '}' in su
                and su.count('Merge(timeperiod,!preferInclude,!extend);') == 1 and su.count('Merge(timeperiod,preferInclude,!extend);') == 1
                and su.count('Merge(') == 2 and loop_clip in sm):
            ma = 'true'
    if ma is None:
        log.append('C08: TimePeriod::UpdateRegion / Merge not recognised')
    body += ('(* true = UpdateRegion merges the included / excluded periods (cut off at valid_end) also when valid_end already lies beyond the\n'
             '   requested end; false = it returns early in that case *)\n')
    body += 'Definition f_tp_merge_always : option bool := %s.\n' % ('Some ' + ma if ma else 'None')
    # ---- TimePeriod::Start: clearExisting = true unconditionally; is the restored window dropped as well
    sr = None
    bs = fn_body(tsrc, r'void\s+TimePeriod::Start\s*\(')
    if bs:
        ss = re.sub(r'#ifdef_DEBUG.*?#endif', '', strip(bs))
        call = 'doublenow=Utility::GetTime();UpdateRegion(now,now+24*3600,true);'
        reset = '{ObjectLockolock(this);SetValidBegin(Empty);SetValidEnd(Empty);}'
        tail_ok = ss.endswith(call) or ss.endswith(call + 'Dump();')
        if (ss.count('UpdateRegion(') == 1 and call in ss and tail_ok and 'SetSegments' not in ss and 'GetSegments' not in ss
                and 'GetValid' not in ss and 'if(' not in ss.split('l_UpdateTimer->Start();});', 1)[-1]):
            if 'SetValid' not in ss:
                sr = 'false'
            elif reset + call in ss and ss.count('SetValidBegin(') == 1 and ss.count('SetValidEnd(') == 1:
                sr = 'true'
    if sr is None:
        log.append('C08: TimePeriod::Start not recognised')
    body += ('(* Some _ = TimePeriod::Start calls UpdateRegion(now, now + 24 h, true) exactly once and unconditionally (clearExisting is the\n'
             '   literal true); true = it empties valid_begin / valid_end first, false = it keeps what was restored from the state file *)\n')
    body += 'Definition f_tp_start_resets : option bool := %s.\n' % ('Some ' + sr if sr else 'None')
    emit('Facts_c08.v', body)
