#!/usr/bin/env python3
"""ad-hoc: evaluate config-language program texts with the real code through vdrive (op dsl_eval / dsl_hostile).
usage: tools/c15_try.py [-H] 'prog text' ...     (\\n in the text is a newline; -H = hostile op, fork isolated)"""
import sys, os, binascii, subprocess, tempfile, shutil
V = os.path.dirname(os.path.dirname(os.path.abspath(__file__)))
B = os.environ.get('VERIF_BUILD', V + '/build')
args = sys.argv[1:]
host = False
if args and args[0] == '-H':
    host = True
    args = args[1:]
wd = tempfile.mkdtemp(prefix='c15try_', dir=B)
try:
    sp = wd + '/s.script'
    with open(sp, 'w') as f:
        for i, a in enumerate(args):
            src = a.replace('\\n', '\n')
            if not src.endswith('\n'):
                src += '\n'
            hx = binascii.hexlify(src.encode('latin-1')).decode()
            f.write('case %d\n' % (i + 1))
            f.write(('dsl_hostile src=%s mode=main iso=1 want=x\n' if host else 'dsl_eval src=%s\n') % hx)
            f.write('end\n')
    r = subprocess.run([B + '/harness/vdrive', wd + '/scratch', sp, wd + '/out'], capture_output=True, text=True, timeout=120)
    out = open(wd + '/out').read() if os.path.exists(wd + '/out') else ''
    cur = 0
    for l in out.splitlines():
        if l.startswith('case '):
            cur = int(l.split()[1])
            print('---', args[cur - 1])
        elif l != 'end':
            print('   ', l)
    if r.returncode not in (0, 2):
        print('vdrive rc', r.returncode, r.stderr[-300:])
finally:
    shutil.rmtree(wd, ignore_errors=True)
