#!/bin/bash
# _CoqProject = every .v file below coq/ (coqdep orders them)
HERE=$(cd "$(dirname "$0")/.." && pwd)
cd "$HERE/coq"
{ echo "-Q . Icv"; find . -name '*.v' | sed 's#^\./##' | sort; } > _CoqProject.new
if ! cmp -s _CoqProject.new _CoqProject; then mv _CoqProject.new _CoqProject; coq_makefile -f _CoqProject -o Makefile >/dev/null 2>&1; else rm _CoqProject.new; fi
[ -f Makefile ] || coq_makefile -f _CoqProject -o Makefile >/dev/null 2>&1
