#!/usr/bin/env python3
"""Compile harness/*.cpp with exactly the flags the Icinga objects were built with and link
vdrive against ALL object files of the hook-enabled build (as test/CMakeLists.txt does)."""
import os, subprocess, sys, glob, shlex, concurrent.futures as cf
HERE = os.path.dirname(os.path.dirname(os.path.abspath(__file__)))
B = os.environ.get('VERIF_BUILD', HERE + '/build')
IB = os.environ.get('VERIF_ICINGA_BUILD', B + '/icinga')
H = HERE + '/harness'
OUT = B + '/harness'
os.makedirs(OUT, exist_ok=True)
cmd = subprocess.check_output(['ninja', '-C', IB, '-t', 'commands', 'lib/icinga/CMakeFiles/icinga.dir/host.cpp.o'], text=True).strip().splitlines()[-1]
toks = shlex.split(cmd)
launch = []
if os.path.basename(toks[0]) == 'ccache':
    launch = [toks[0]]; toks = toks[1:]
flags = []
skip = 0
for i, t in enumerate(toks[1:]):
    if skip: skip -= 1; continue
    if t in ('-MT', '-MF', '-o', '-c'): skip = 1; continue
    if t == '-MD': continue
    flags.append(t)
flags = [f for f in flags if f != '-g']
srcs = sorted(glob.glob(H + '/*.cpp'))
hdrs = glob.glob(H + '/*.hpp')
hm = max([os.path.getmtime(h) for h in hdrs] + [0])
def comp(src):
    obj = OUT + '/' + os.path.basename(src) + '.o'
    dep = obj + '.d'
    need = not os.path.exists(obj)
    if not need:
        om = os.path.getmtime(obj)
        deps = [src]
        if os.path.exists(dep):
            txt = open(dep).read().replace('\\\n', ' ')
            deps += txt.split(':', 1)[1].split() if ':' in txt else []
        for d in deps:
            try:
                if os.path.getmtime(d) > om: need = True; break
            except OSError:
                need = True; break
    if need:
        r = subprocess.run(launch + [toks[0]] + flags + ['-fno-access-control', '-I' + H, '-MD', '-MF', dep, '-o', obj, '-c', src], cwd=IB, capture_output=True, text=True)
        if r.returncode != 0:
            return (src, r.stderr[-6000:])
    return (src, None)
with cf.ThreadPoolExecutor(16) as ex:
    res = list(ex.map(comp, srcs))
bad = [(s, e) for s, e in res if e]
if bad:
    for s, e in bad: print('COMPILE FAILED', s); print(e)
    sys.exit(2)
objs = []
for lib in ('base', 'config', 'remote', 'icinga', 'methods', 'checker', 'notification'):
    objs += glob.glob(f'{IB}/lib/{lib}/CMakeFiles/{lib}.dir/**/*.o', recursive=True)
for tp in ('mmatch', 'socketpair', 'execvpe'):
    objs += glob.glob(f'{IB}/third-party/{tp}/CMakeFiles/{tp}.dir/**/*.o', recursive=True)
hobjs = [OUT + '/' + os.path.basename(s) + '.o' for s in srcs]
exe = OUT + '/vdrive'
newest = max(os.path.getmtime(o) for o in objs + hobjs)
if not os.path.exists(exe) or os.path.getmtime(exe) < newest:
    libs = ['-lboost_context', '-lboost_coroutine', '-lboost_date_time', '-lboost_filesystem', '-lboost_iostreams',
            '-lboost_thread', '-lboost_system', '-lboost_program_options', '-lboost_regex', '-lssl', '-lcrypto', '-ldl', '-pthread']
    for extra in ('-ledit', '-ltermcap'):
        pass
    rsp = OUT + '/link.rsp'
    open(rsp, 'w').write('\n'.join(objs + hobjs))
    r = subprocess.run([toks[0], '-O1', '-o', exe, '@' + rsp] + libs + ['-rdynamic'], capture_output=True, text=True)
    if r.returncode != 0:
        print('LINK FAILED'); print(r.stderr[-8000:]); sys.exit(2)
print('vdrive ok')
