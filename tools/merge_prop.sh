#!/bin/bash
# integrator helper: merge branch prop-<ID> into main, regenerate generated files
set -e
cd /verif
ID=$1
if [ -n "$(git status --porcelain)" ]; then echo "working tree not clean: commit first"; exit 1; fi
git merge --no-ff --no-commit prop-$ID >/dev/null 2>&1 || true
# generated files: take ours then regenerate
for f in MANIFEST.json known_findings.json; do git checkout --ours -- $f 2>/dev/null || true; done
for f in $(git diff --name-only --diff-filter=U | grep -e '^evidence/' -e '^coq/Facts/'); do git checkout --theirs -- $f 2>/dev/null && git add $f || git rm -q --cached $f; done
git rm -q --cached coq/_CoqProject 2>/dev/null || true; git checkout --ours -- .gitignore 2>/dev/null || true
if git diff --name-only --diff-filter=U | grep -v -e MANIFEST.json -e known_findings.json -e _CoqProject -e .gitignore | grep .; then echo "CONFLICTS above"; exit 1; fi
python3 tools/gen_manifest.py
git add -A
git commit -qm "merge prop-$ID" 
git log --oneline | head -1
