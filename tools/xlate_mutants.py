#!/usr/bin/env python3
"""Mutation test of the source-to-Gallina tie (notes/XLATE.md): for each translated function one SEMANTIC change (the
equivalence proof must break) and one HARMLESS rewrite (everything must still compile).  Works on a scratch worktree of
/repo (never on /repo):   git -C /repo worktree add --detach /var/tmp/w/xlate-repo HEAD
                          python3 tools/xlate_mutants.py /var/tmp/w/xlate-repo [name-filter]
Only srcfacts + make of the Coq project are run (no Icinga build).  The facts are regenerated from pristine /repo at the end."""
import os, sys, subprocess, json, re

V = os.path.dirname(os.path.dirname(os.path.abspath(__file__)))
SCR = sys.argv[1]
FILT = sys.argv[2] if len(sys.argv) > 2 else ''

# (id, kind, file, old, new, what)
M = [
 ('in_effect', 'semantic', 'lib/icinga/downtime.cpp', 'return (now >= GetStartTime() && now < GetEndTime());', 'return (now >= GetStartTime() && now <= GetEndTime());', '< -> <= at the end of a fixed downtime'),
 ('in_effect', 'harmless', 'lib/icinga/downtime.cpp', 'return (now >= GetStartTime() && now < GetEndTime());', 'return !(now < GetStartTime() || GetEndTime() <= now);', 'De Morgan + flipped comparisons'),
 ('is_triggered', 'semantic', 'lib/icinga/downtime.cpp', 'return (triggerTime > 0 && triggerTime <= now);', 'return (triggerTime > 0 && triggerTime < now);', '<= -> <'),
 ('is_triggered', 'harmless', 'lib/icinga/downtime.cpp', 'return (triggerTime > 0 && triggerTime <= now);', 'if (triggerTime <= 0)\n\t\treturn false;\n\n\treturn !(now < triggerTime);', 'early return, >= as !(<)'),
 ('is_expired', 'semantic', 'lib/icinga/downtime.cpp', 'else if (!IsTriggered() && (GetEndTime() < now))', 'else if (GetEndTime() < now)', 'test dropped: a triggered flexible downtime expires at end_time'),
 ('is_expired', 'harmless', 'lib/icinga/downtime.cpp', 'if (IsTriggered() && !IsInEffect())\n\t\t\treturn true;', 'bool triggered = IsTriggered();\n\t\tif (!IsInEffect() && triggered)\n\t\t\treturn true;', 'hoisted local, reordered conjuncts'),
 ('can_be_triggered', 'semantic', 'lib/icinga/downtime.cpp', 'if (IsExpired())\n\t\treturn false;\n\n\tdouble now = Utility::GetTime();', 'double now = Utility::GetTime();', 'IsExpired() test dropped (seeded change C05c)'),
 ('can_be_triggered', 'harmless', 'lib/icinga/downtime.cpp', 'if (now < GetStartTime() || now > GetEndTime())\n\t\treturn false;\n\n\treturn true;', 'return GetStartTime() <= now && !(GetEndTime() < now);', 'condition returned directly, De Morgan'),
 ('depth', 'semantic', 'lib/icinga/checkable-downtime.cpp', 'if (downtime->IsInEffect())\n\t\t\tdowntime_depth++;', 'if (downtime->IsInEffect())\n\t\t\tdowntime_depth = 1;', 'counter becomes a flag'),
 ('depth', 'harmless', 'lib/icinga/checkable-downtime.cpp', 'if (downtime->IsInEffect())\n\t\t\tdowntime_depth++;', 'if (!downtime->IsInEffect())\n\t\t\tcontinue;\n\n\t\tdowntime_depth += 1;', 'continue instead of nested if'),
 ('host_state', 'semantic', 'lib/icinga/host.cpp', '\t\tcase ServiceOK:\n\t\tcase ServiceWarning:\n\t\t\treturn HostUp;', '\t\tcase ServiceOK:\n\t\t\treturn HostUp;', 'WARNING no longer maps to Up'),
 ('host_state', 'harmless', 'lib/icinga/host.cpp', '\tswitch (state) {\n\t\tcase ServiceOK:\n\t\tcase ServiceWarning:\n\t\t\treturn HostUp;\n\t\tdefault:\n\t\t\treturn HostDown;\n\t}', '\tif (state == ServiceCritical || state == ServiceUnknown)\n\t\treturn HostDown;\n\n\treturn (state == ServiceOK || state == ServiceWarning) ? HostUp : HostDown;', 'switch -> if + ternary'),
 ('service_ok', 'semantic', 'lib/icinga/service.cpp', 'return state == ServiceOK;', 'return state <= ServiceWarning;', 'WARNING counts as OK'),
 ('likely', 'semantic', 'lib/icinga/checkable-notification.cpp', 'auto threshold (GetCheckInterval() - 10);', 'auto threshold (GetCheckInterval() - 20);', 'constant changed'),
 ('likely', 'harmless', 'lib/icinga/checkable-notification.cpp', 'if (threshold > 60) {\n\t\tthreshold = 60;\n\t} else if (threshold < 0) {\n\t\tthreshold = 0;\n\t}', 'if (threshold < 0) {\n\t\tthreshold = 0;\n\t}\n\n\tif (!(threshold <= 60)) {\n\t\tthreshold = 60;\n\t}', 'independent clamps reordered'),
 ('get_ack', 'semantic', 'lib/icinga/checkable.cpp', 'if (expiry != 0 && expiry < Utility::GetTime()) {', 'if (expiry != 0 && expiry <= Utility::GetTime()) {', '< -> <= (expires one second early)'),
 ('get_ack', 'harmless', 'lib/icinga/checkable.cpp', 'if (expiry != 0 && expiry < Utility::GetTime()) {', 'double now = Utility::GetTime();\n\n\t\tif (!(expiry == 0 || now <= expiry)) {', 'hoisted clock read, De Morgan'),
 ('reason_suppressed', 'semantic', 'lib/icinga/checkable-notification.cpp', 'return !IsReachable(DependencyNotification) || IsInDowntime() || IsAcknowledged();', 'return !IsReachable(DependencyNotification) || IsInDowntime();', 'acknowledgement no longer suppresses'),
 ('reason_suppressed', 'harmless', 'lib/icinga/checkable-notification.cpp', 'return !IsReachable(DependencyNotification) || IsInDowntime() || IsAcknowledged();', 'return IsInDowntime() || !(IsReachable(DependencyNotification) && !IsAcknowledged());', 'reordered, De Morgan'),
 ('is_available', 'semantic', 'lib/icinga/dependency.cpp', '} else if (dt == DependencyNotification && !GetDisableNotifications()) {', '} else if (dt == DependencyNotification && !GetDisableChecks()) {', 'wrong attribute consulted'),
 ('is_available', 'harmless', 'lib/icinga/dependency.cpp', '\tif (GetIgnoreSoftStates()) {\n\t\t/* ignore soft states */\n\t\tif (parent->GetStateType() == StateTypeSoft) {', '\tbool soft = parent->GetStateType() != StateTypeHard;\n\n\tif (GetIgnoreSoftStates()) {\n\t\t/* ignore soft states */\n\t\tif (soft) {', 'hoisted local, == Soft as != Hard'),
 ('exit_map', 'semantic', 'lib/icinga/pluginutility.cpp', '\t\tcase 2:\n\t\t\treturn ServiceCritical;', '\t\tcase 2:\n\t\tcase 3:\n\t\t\treturn ServiceCritical;', 'exit 3 becomes CRITICAL'),
 ('exit_map', 'harmless', 'lib/icinga/pluginutility.cpp', '\t\tcase 0:\n\t\t\treturn ServiceOK;\n\t\tcase 1:\n\t\t\treturn ServiceWarning;', '\t\tcase 1:\n\t\t\treturn ServiceWarning;\n\t\tcase 0:\n\t\t\treturn ServiceOK;', 'case order'),
 ('is_inside', 'semantic', 'lib/icinga/timeperiod.cpp', 'if (ts >= segment->Get("begin") && ts < segment->Get("end"))', 'if (ts >= segment->Get("begin") && ts <= segment->Get("end"))', 'segment end becomes inclusive'),
 ('is_inside', 'harmless', 'lib/icinga/timeperiod.cpp', 'if (ts >= segment->Get("begin") && ts < segment->Get("end"))\n\t\t\t\treturn true;', 'if (ts < segment->Get("begin"))\n\t\t\t\tcontinue;\n\n\t\t\tif (!(ts >= segment->Get("end")))\n\t\t\t\treturn true;', 'continue + negated comparison'),
 ('sdbm', 'semantic', 'lib/base/utility.cpp', 'hash = c + (hash << 6) + (hash << 16) - hash;', 'hash = c + (hash << 6) + (hash << 15) - hash;', 'shift constant'),
 ('sdbm', 'harmless', 'lib/base/utility.cpp', 'hash = c + (hash << 6) + (hash << 16) - hash;', 'hash = (hash << 16) - hash + (hash << 6) + c;', 'summands reordered'),
 ('user_filters', 'semantic', 'lib/icinga/notification.cpp', '\t\tif (type != NotificationRecovery) {\n\t\t\tCheckable::Ptr checkable = GetCheckable();', '\t\tif (type != NotificationRecovery && type != NotificationAcknowledgement) {\n\t\t\tCheckable::Ptr checkable = GetCheckable();', 'acknowledgements bypass the state filter'),
 ('user_filters', 'unrecognised', 'lib/icinga/notification.cpp', '\t\tunsigned long ftype = type;\n\n\t\tLog(LogDebug, "Notification")\n\t\t\t<< "User \'"', '\t\tunsigned long ftype = type;\n\t\tstd::vector<int> seen;\n\t\tseen.push_back(ftype);\n\n\t\tLog(LogDebug, "Notification")\n\t\t\t<< "User \'"', 'construct outside the subset: must degrade, not alarm'),
 ('pcr_attempt', 'semantic', 'lib/icinga/checkable-check.cpp', 'if (attempt >= GetMaxCheckAttempts()) {', 'if (attempt > GetMaxCheckAttempts()) {', '>= -> > : one more soft attempt'),
 ('pcr_attempt', 'harmless', 'lib/icinga/checkable-check.cpp', 'if (old_stateType == StateTypeSoft && !IsStateOK(old_state)) {', 'bool old_ok = IsStateOK(old_state);\n\n\t\tif (!old_ok && old_stateType != StateTypeHard) {', 'hoisted local, reordered, == Soft as != Hard'),
 ('pcr_hard_change', 'semantic', 'lib/icinga/checkable-check.cpp', 'if (stateChange && old_stateType == StateTypeHard && GetStateType() == StateTypeHard)\n\t\thardChange = true;', 'if (old_stateType == StateTypeHard && GetStateType() == StateTypeHard)\n\t\thardChange = true;', 'stateChange test dropped: every HARD->HARD result is a hard change'),
 ('pcr_hard_change', 'harmless', 'lib/icinga/checkable-check.cpp', 'if (stateChange && old_stateType == StateTypeHard && GetStateType() == StateTypeHard)\n\t\thardChange = true;', 'if (stateChange && GetStateType() == StateTypeHard)\n\t\thardChange = true;', 'redundant test dropped (SOFT->HARD is a hard change anyway): intended as semantic, the proof shows it is equivalent'),
 ('pcr_hard_change', 'unrecognised', 'lib/icinga/checkable-check.cpp', 'bool hardChange = (GetStateType() == StateTypeHard && old_stateType == StateTypeSoft);\n\n\tif (stateChange && old_stateType == StateTypeHard && GetStateType() == StateTypeHard)\n\t\thardChange = true;', 'bool nowHard = GetStateType() == StateTypeHard;\n\tbool hardChange = nowHard && (old_stateType == StateTypeSoft || (stateChange && old_stateType == StateTypeHard));', 'one expression instead of two steps, with a local declared before the region anchor: degrades'),
 ('pcr_state_change', 'semantic', 'lib/icinga/checkable-check.cpp', 'stateChange = (Host::CalculateState(old_state) != Host::CalculateState(new_state));', 'stateChange = (old_state != new_state);', 'hosts compare raw states'),
 ('trigger', 'semantic', 'lib/icinga/downtime.cpp', 'if (GetTriggerTime() == 0) {\n\t\tSetTriggerTime(triggerTime);\n\t}', 'SetTriggerTime(triggerTime);', 'trigger time overwritten on every trigger'),
 ('trigger', 'harmless', 'lib/icinga/downtime.cpp', '\t\t\tif (!downtime)\n\t\t\t\tcontinue;\n\n\t\t\tdowntime->TriggerDowntime(triggerTime);', '\t\t\tif (downtime)\n\t\t\t\tdowntime->TriggerDowntime(triggerTime);', 'if instead of continue'),
 ('is_child_of', 'semantic', 'lib/remote/zone.cpp', '\t\tif (azone == zone)\n\t\t\treturn true;', '\t\tif (azone == zone)\n\t\t\treturn azone != this;', 'a zone is no longer a child of itself'),
 # ---- round 2
 ('r2_send', 'semantic', 'lib/icinga/checkable-check.cpp', 'if (IsStateOK(old_state) && old_stateType == StateTypeSoft)\n\t\tsend_notification = false;', 'if (IsStateOK(old_state) && old_stateType == StateTypeSoft && !is_volatile)\n\t\tsend_notification = false;', 'volatile checkables notify on SOFT-OK -> HARD-OK'),
 ('r2_send', 'harmless', 'lib/icinga/checkable-check.cpp', 'bool suppress_notification = !notification_reachable || in_downtime || IsAcknowledged();', 'bool suppress_notification = !(notification_reachable && !in_downtime && !IsAcknowledged());', 'De Morgan'),
 ('r2_stash', 'semantic', 'lib/icinga/checkable-check.cpp', 'if (!(suppressed_types_before & stateNotifications) && (suppressed_types & stateNotifications)) {', 'if (suppressed_types & stateNotifications) {', 'state_before_suppression overwritten by every suppressed state notification'),
 ('r2_stash', 'harmless', 'lib/icinga/checkable-check.cpp', 'if ((suppressed_types_after & conflict) == conflict) {', 'if ((suppressed_types_after & NotificationFlappingStart) && (suppressed_types_after & NotificationFlappingEnd)) {', 'two bit tests instead of a mask comparison'),
 ('r2_stash2', 'semantic', 'lib/icinga/checkable-check.cpp', 'if (suppress_notification || pending) {', 'if (suppress_notification) {', 'pending suppressed state notifications no longer hold back a new one'),
 ('r2_fire', 'semantic', 'lib/icinga/checkable-notification.cpp', 'if (!NotificationReasonSuppressed(type) && !IsLikelyToBeCheckedSoon() && !wasLastParentRecoveryRecent.Get()) {', 'if (!NotificationReasonSuppressed(type) && !wasLastParentRecoveryRecent.Get()) {', 'flapping notifications no longer wait for an imminent check'),
 ('r2_fire', 'harmless', 'lib/icinga/checkable-notification.cpp', 'int suppressed_types_after (suppressed_types_before & ~subtract);', 'int suppressed_types_after (suppressed_types_before - (suppressed_types_before & subtract));', 'bit clearing written as a subtraction'),
 ('r2_fire2', 'semantic', 'lib/icinga/checkable-notification.cpp', 'if (dynamic_cast<Host*>(this))\n\t\t\t\t\tdiffers = Host::CalculateState(cr->GetState()) != Host::CalculateState(GetStateBeforeSuppression());', '', 'hosts compare raw states again (the defect fixed by 5e50b7a)'),
 ('r2_gate', 'semantic', 'lib/icinga/notification.cpp', 'if (timesEnd != Empty && timesEnd >= 0 && now > checkable->GetLastHardStateChange() + timesEnd) {', 'if (timesEnd != Empty && timesEnd >= 0 && now >= checkable->GetLastHardStateChange() + timesEnd) {', 'times.end window closes one second early'),
 ('r2_gate', 'harmless', 'lib/icinga/notification.cpp', 'if (times && type == NotificationProblem) {', 'if (type == NotificationProblem && times) {', 'reordered conjuncts'),
 ('r2_gate2', 'semantic', 'lib/icinga/notification.cpp', 'for (int conflict : {NotificationProblem | NotificationRecovery, NotificationFlappingStart | NotificationFlappingEnd}) {', 'for (int conflict : {NotificationFlappingStart | NotificationFlappingEnd}) {', 'stashed Problem and Recovery no longer cancel out'),
 ('r2_user', 'semantic', 'lib/icinga/notification.cpp', 'if (type == NotificationAcknowledgement) {\n\t\t\tif (!notifiedProblemUsers->Contains(userName) && (NotificationProblem & user->GetTypeFilter())) {', 'if (type == NotificationAcknowledgement) {\n\t\t\tif (!notifiedProblemUsers->Contains(userName)) {', 'acknowledgement rule also applies to users without Problem in their type filter'),
 ('r2_user', 'harmless', 'lib/icinga/notification.cpp', 'if (type == NotificationAcknowledgement) {\n\t\t\tif (!notifiedProblemUsers->Contains(userName) && (NotificationProblem & user->GetTypeFilter())) {', 'if (type == NotificationAcknowledgement) {\n\t\t\tbool sawProblem = notifiedProblemUsers->Contains(userName);\n\t\t\tif ((NotificationProblem & user->GetTypeFilter()) && !sawProblem) {', 'hoisted local, reordered conjuncts'),
 ('r2_book', 'semantic', 'lib/icinga/notification.cpp', 'if (type == NotificationProblem && GetInterval() <= 0)\n\t\t\tSetNoMoreNotifications(true);', 'if (type == NotificationProblem && GetInterval() < 0)\n\t\t\tSetNoMoreNotifications(true);', 'interval 0 no longer disables reminders'),
 ('r2_timer', 'semantic', 'lib/notification/notificationcomponent.cpp', 'if (!reachable || checkable->IsInDowntime() || checkable->IsAcknowledged() || checkable->IsFlapping())', 'if (!reachable || checkable->IsInDowntime() || checkable->IsAcknowledged())', 'reminders are sent while flapping'),
 ('r2_timer', 'harmless', 'lib/notification/notificationcomponent.cpp', 'if ((service && service->GetState() == ServiceOK) || (!service && host->GetState() == HostUp))', 'if (service ? service->GetState() == ServiceOK : host->GetState() == HostUp)', 'ternary instead of two guarded disjuncts'),
 ('r2_isack', 'semantic', 'lib/icinga/checkable.cpp', 'return const_cast<Checkable *>(this)->GetAcknowledgement() != AcknowledgementNone;', 'return GetAcknowledgementRaw() != AcknowledgementNone;', 'IsAcknowledged ignores the expiry (reads the raw attribute): degrades or breaks, never silently accepted'),
 ('r2_clearack', 'semantic', 'lib/icinga/checkable.cpp', 'SetAcknowledgementExpiry(0);', 'SetAcknowledgementExpiry(GetAcknowledgementExpiry());', 'the expiry survives ClearAcknowledgement: degrades or breaks'),
 ('r2_ackblock', 'semantic', 'lib/icinga/checkable-check.cpp', '(GetAcknowledgement() == AcknowledgementSticky && IsStateOK(new_state))) {', '(GetAcknowledgement() == AcknowledgementSticky)) {', 'sticky acknowledgements are removed by every state change'),
 ('r2_ackblock', 'harmless', 'lib/icinga/checkable-check.cpp', 'if (GetAcknowledgement() == AcknowledgementNormal ||\n\t\t\t(GetAcknowledgement() == AcknowledgementSticky && IsStateOK(new_state))) {', 'AcknowledgementType ackNow = GetAcknowledgement();\n\n\t\tif ((ackNow == AcknowledgementSticky && IsStateOK(new_state)) || ackNow == AcknowledgementNormal) {', 'one read into a local, disjuncts reordered'),
 ('r2_ackblock2', 'unrecognised', 'lib/icinga/checkable-check.cpp', 'if (GetAcknowledgement() == AcknowledgementNormal ||\n\t\t\t(GetAcknowledgement() == AcknowledgementSticky && IsStateOK(new_state))) {', 'if ((IsStateOK(new_state) && GetAcknowledgement() == AcknowledgementSticky) || GetAcknowledgement() == AcknowledgementNormal) {', 'the first read of GetAcknowledgement() becomes conditional: hoisting is not exact, must degrade'),
 ('r2_apiack', 'semantic', 'lib/icinga/apiactions.cpp', 'if (timestamp <= Utility::GetTime())\n\t\t\treturn ApiActions::CreateResult(409, "Acknowledgement \'expiry\'', 'if (timestamp < Utility::GetTime())\n\t\t\treturn ApiActions::CreateResult(409, "Acknowledgement \'expiry\'', 'an expiry equal to now is accepted'),
 ('r2_apiack', 'harmless', 'lib/icinga/apiactions.cpp', '\tif (!service) {\n\t\tif (host->GetState() == HostUp)\n\t\t\treturn ApiActions::CreateResult(409, "Host " + checkable->GetName() + " is UP.");\n\t} else {\n\t\tif (service->GetState() == ServiceOK)\n\t\t\treturn ApiActions::CreateResult(409, "Service " + checkable->GetName() + " is OK.");\n\t}', '\tif (service && service->GetState() == ServiceOK)\n\t\treturn ApiActions::CreateResult(409, "Service " + checkable->GetName() + " is OK.");\n\n\tif (!service && host->GetState() == HostUp)\n\t\treturn ApiActions::CreateResult(409, "Host " + checkable->GetName() + " is UP.");', 'two guarded tests instead of if/else'),
 ('r2_cluster', 'semantic', 'lib/icinga/clusterevents.cpp', '\tif (checkable->IsAcknowledged()) {\n\t\tLog(LogWarning, "ClusterEvents")\n\t\t\t<< "Discarding \'acknowledgement set\' message for checkable', '\tif (false && checkable->IsAcknowledged()) {\n\t\tLog(LogWarning, "ClusterEvents")\n\t\t\t<< "Discarding \'acknowledgement set\' message for checkable', 'the cluster handler overwrites an existing acknowledgement'),
 ('r2_dtstart', 'semantic', 'lib/icinga/downtime.cpp', 'TriggerDowntime(std::fmax(std::fmax(GetStartTime(), GetEntryTime()), checkable->GetLastStateChange()));', 'TriggerDowntime(std::fmax(GetStartTime(), GetEntryTime()));', 'a flexible downtime on a failing object no longer starts at the last state change'),
 ('r2_dtstart', 'harmless', 'lib/icinga/downtime.cpp', 'if (GetFixed() && CanBeTriggered()) {\n\t\t/* Send notifications. */\n\t\tOnDowntimeStarted(this);', 'bool fixedNow = GetFixed();\n\n\tif (CanBeTriggered() && fixedNow) {\n\t\t/* Send notifications. */\n\t\tOnDowntimeStarted(this);', 'hoisted local, reordered conjuncts'),
 ('r2_dtremove', 'semantic', 'lib/icinga/downtime.cpp', 'if (!config_owner.IsEmpty() && removalReason == DowntimeRemovedByUser) {', 'if (!config_owner.IsEmpty() && removalReason != DowntimeExpired) {', 'the owning ScheduledDowntime can no longer remove its downtime'),
 ('r2_dtremove', 'harmless', 'lib/icinga/downtime.cpp', 'if (!downtime || downtime->GetPackage() != "_api")\n\t\treturn;', 'if (!downtime)\n\t\treturn;\n\n\tif (downtime->GetPackage() != "_api")\n\t\treturn;', 'one test per if'),
 ('r2_dttimer', 'semantic', 'lib/icinga/downtime.cpp', 'if (downtime->IsActive() &&\n\t\t\tdowntime->CanBeTriggered() &&\n\t\t\tdowntime->GetFixed()) {', 'if (downtime->IsActive() &&\n\t\t\tdowntime->CanBeTriggered()) {', 'the start timer also triggers flexible downtimes'),
 ('r2_auth', 'semantic', 'lib/remote/apilistener-authority.cpp', 'if (num_total > 1 && endpoints.size() <= 1 && (startTime == 0 || Utility::GetTime() - startTime < 30))', 'if (num_total > 1 && endpoints.size() <= 1 && (startTime == 0 || Utility::GetTime() - startTime <= 30))', 'cold-start window one second longer'),
 ('r2_auth', 'harmless', 'lib/remote/apilistener-authority.cpp', '\t\t\tif (endpoint != my_endpoint && !endpoint->GetConnected())\n\t\t\t\tcontinue;\n\n\t\t\tendpoints.push_back(endpoint);', '\t\t\tif (endpoint == my_endpoint || endpoint->GetConnected())\n\t\t\t\tendpoints.push_back(endpoint);', 'positive test instead of continue'),
 ('r2_auth2', 'semantic', 'lib/remote/apilistener-authority.cpp', 'authority = endpoints[Utility::SDBM(object->GetName()) % endpoints.size()] == my_endpoint;', 'authority = endpoints[(Utility::SDBM(object->GetName()) + 1) % endpoints.size()] == my_endpoint;', 'objects are assigned to the other endpoint'),
 ('r2_setauth', 'semantic', 'lib/base/configobject.cpp', '} else if (!authority && !GetPaused()) {', '} else if (!authority) {', 'Pause() is called again on an already paused object'),
 ('r2_origin', 'semantic', 'lib/remote/jsonrpcconnection.cpp', 'if (m_Endpoint->GetZone() != Zone::GetLocalZone())\n\t\t\torigin->FromZone = m_Endpoint->GetZone();\n\t\telse\n\t\t\torigin->FromZone = Zone::GetByName(message->Get("originZone"));', 'origin->FromZone = Zone::GetByName(message->Get("originZone"));', 'every endpoint may claim an origin zone (the check C13 rests on)'),
 ('r2_origin', 'harmless', 'lib/remote/jsonrpcconnection.cpp', 'if (m_Endpoint->GetZone() != Zone::GetLocalZone())\n\t\t\torigin->FromZone = m_Endpoint->GetZone();\n\t\telse\n\t\t\torigin->FromZone = Zone::GetByName(message->Get("originZone"));', 'if (m_Endpoint->GetZone() == Zone::GetLocalZone())\n\t\t\torigin->FromZone = Zone::GetByName(message->Get("originZone"));\n\t\telse\n\t\t\torigin->FromZone = m_Endpoint->GetZone();', 'branches swapped with the negated test'),
 ('r2_relay', 'semantic', 'lib/remote/apilistener.cpp', '\t\ttargetZone != localZone->GetParent() &&\n', '', 'messages for the parent zone are no longer relayed'),
 ('r2_replay', 'semantic', 'lib/remote/apilistener.cpp', 'if (pmessage->Get("timestamp") <= peer_ts)\n\t\t\t\t\tcontinue;', 'if (pmessage->Get("timestamp") < peer_ts)\n\t\t\t\t\tcontinue;', 'the entry the peer already has is replayed again'),
 ('r2_replay', 'harmless', 'lib/remote/apilistener.cpp', '\t\t\t\t\tif (!secobj)\n\t\t\t\t\t\tcontinue;\n\n\t\t\t\t\tif (!target_zone->CanAccessObject(secobj))\n\t\t\t\t\t\tcontinue;', '\t\t\t\t\tif (!secobj || !target_zone->CanAccessObject(secobj))\n\t\t\t\t\t\tcontinue;', 'two tests merged'),
 ('r2_cleanup', 'semantic', 'lib/remote/apilistener.cpp', 'if (endpoint->GetLogDuration() >= 0 && ts < now - endpoint->GetLogDuration())', 'if (endpoint->GetLogDuration() > 0 && ts < now - endpoint->GetLogDuration())', 'log_duration 0 keeps files for ever'),
 ('r2_tpremove', 'semantic', 'lib/icinga/timeperiod.cpp', 'if (segment->Get("begin") >= begin && segment->Get("begin") < end)\n\t\t\tsegment->Set("begin", end);', 'if (segment->Get("begin") > begin && segment->Get("begin") < end)\n\t\t\tsegment->Set("begin", end);', 'the comparison of the defect fixed earlier (a segment starting exactly at begin is not trimmed)'),
 ('r2_tpremove', 'harmless', 'lib/icinga/timeperiod.cpp', 'if (segment->Get("end") < begin || segment->Get("begin") > end) {\n\t\t\tnewSegments->Add(segment);\n\t\t\tcontinue;\n\t\t}', 'if (!(segment->Get("end") >= begin && segment->Get("begin") <= end)) {\n\t\t\tnewSegments->Add(segment);\n\t\t\tcontinue;\n\t\t}', 'De Morgan'),
 ('r2_tpadd', 'semantic', 'lib/icinga/timeperiod.cpp', 'if (segment->Get("end") >= begin && segment->Get("end") <= end) {\n\t\t\t\tsegment->Set("end", end);', 'if (segment->Get("end") > begin && segment->Get("end") <= end) {\n\t\t\t\tsegment->Set("end", end);', 'adjacent segments are no longer merged'),
 ('r2_tppurge', 'semantic', 'lib/icinga/timeperiod.cpp', 'if (segment->Get("end") >= end)\n\t\t\tnewSegments->Add(segment);', 'if (segment->Get("end") > end)\n\t\t\tnewSegments->Add(segment);', 'a segment ending exactly at the purge instant is dropped'),
 ('r2_escape', 'semantic', 'lib/base/utility.cpp', 'if (ch == \'\\\'\')\n\t\t\tresult += "\'\\\\\'";\n#endif', 'if (ch == \'\\\'\')\n\t\t\tresult += "\\\\";\n#endif', 'a quote is escaped by a backslash inside the quotes (which the shell does not honour)'),
 ('r2_addarg', 'semantic', 'lib/icinga/macroprocessor.cpp', 'if (add_key && separator.GetType() != ValueEmpty && add_value) {', 'if (add_key && separator.GetType() != ValueEmpty) {', 'key and separator are glued to a skipped value'),
 ('r2_addarg', 'harmless', 'lib/icinga/macroprocessor.cpp', '\t\tif (add_key)\n\t\t\targs->Add(key);\n\n\t\tif (add_value)\n\t\t\targs->Add(value);', '\t\tif (add_key) {\n\t\t\targs->Add(key);\n\t\t}\n\n\t\tif (!add_value)\n\t\t\treturn;\n\n\t\targs->Add(value);', 'early return instead of a guarded statement'),
 ('r2_emitarr', 'semantic', 'lib/icinga/macroprocessor.cpp', 'add_key = !arg.SkipKey && arg.RepeatKey;', 'add_key = arg.RepeatKey;', 'repeat_key overrides skip_key for the later elements'),
 ('r2_sched', 'semantic', 'lib/checker/checkercomponent.cpp', 'if (host && service && (!checkable->GetEnableActiveChecks() || !icingaApp->GetEnableServiceChecks())) {', 'if (host && service && (!checkable->GetEnableActiveChecks() || !icingaApp->GetEnableHostChecks())) {', 'services follow the global host switch'),
 ('r2_sched', 'harmless', 'lib/checker/checkercomponent.cpp', 'if (host && !service && (!checkable->GetEnableActiveChecks() || !icingaApp->GetEnableHostChecks())) {', 'if (!service && host && !(checkable->GetEnableActiveChecks() && icingaApp->GetEnableHostChecks())) {', 'reordered, De Morgan'),
 ('r2_relayiter', 'semantic', 'lib/remote/apilistener.cpp', 'if (relayed && currentTargetZone != localZone) {', 'if (relayed) {', 'only one endpoint of the own zone gets the message'),
 ('r2_relayiter', 'harmless', 'lib/remote/apilistener.cpp', 'bool isMaster = (currentZoneMaster == localEndpoint);\n\n\t\t\tif (!isMaster && targetEndpoint != currentZoneMaster) {', 'if (!(currentZoneMaster == localEndpoint || !(targetEndpoint != currentZoneMaster))) {', 'local folded into the test, De Morgan'),
 ('r2_nextcheck', 'semantic', 'lib/icinga/checkable-check.cpp', 'adj = std::min(0.5 + fmod(GetSchedulingOffset(), interval * 5) / 100.0, adj);', 'adj = std::min(0.25 + fmod(GetSchedulingOffset(), interval * 5) / 100.0, adj);', 'constant of the jitter cap changed'),
 ('r2_nextcheck', 'harmless', 'lib/icinga/checkable-check.cpp', 'double nextCheck = now - adj + interval;', 'double nextCheck = interval + now - adj;', 'summands reordered (equal in Q, not syntactically)'),
 ('r2_ns', 'semantic', 'lib/base/netstring.cpp', '} else if (i > 16)', '} else if (i > 17)', 'one more byte is scanned for the colon'),
 ('r2_ns2', 'semantic', 'lib/base/netstring.cpp', 'if (i >= 9)\n\t\t\tBOOST_THROW_EXCEPTION', 'if (i > 9)\n\t\t\tBOOST_THROW_EXCEPTION', 'a tenth length digit is accepted'),
 ('is_child_of', 'unrecognised', 'lib/remote/zone.cpp', '\tZone::Ptr azone = this;\n', '\tZone::Ptr azone = GetParent();\n', 'call outside the binding environment: degrades'),
]


def sh(cmd, **kw):
    return subprocess.run(cmd, shell=True, capture_output=True, text=True, **kw)


def regen(repo=None):
    env = dict(os.environ, VERIF_BUILD=V + '/build')
    if repo: env['VERIF_REPO'] = repo
    r = sh('python3 %s/tools/srcfacts.py' % V, env=env)
    return r.stdout + r.stderr


def make():
    sh('bash %s/tools/gen_coqproject.sh' % V)
    r = sh('timeout 1500 make -k -j6 2>&1', cwd=V + '/coq')
    failed = sorted(set(re.findall(r'File "\./([\w/]+\.v)", line \d+', r.stdout)))
    return r.returncode == 0, failed


sh('git -C %s checkout -q .' % SCR)
BASE = set(l for l in regen(SCR).splitlines() if l.startswith('xlate:') and 'not recognised' in l)     # fallbacks of the pristine tree
rows = []
for mid, kind, f, old, new, what in M:
    if FILT and not any(x and x in mid for x in FILT.split(',')): continue
    sh('git -C %s checkout -q .' % SCR)
    p = os.path.join(SCR, f)
    src = open(p).read()
    if src.count(old) != 1:
        rows.append(dict(id=mid, kind=kind, what=what, result='PATTERN NOT UNIQUE (%d)' % src.count(old))); print(rows[-1]); continue
    open(p, 'w').write(src.replace(old, new))
    log = regen(SCR)
    unrec = [l for l in log.splitlines() if l.startswith('xlate:') and 'not recognised' in l and l not in BASE]
    ok_all, failed_all = make()
    # files of the translator tie; a failure elsewhere (older regex facts) is listed but judged separately
    failed = [x for x in failed_all if x.startswith('Src/') or '_src' in x or 'Facts_fn' in x]
    other = [x for x in failed_all if x not in failed]
    ok = not failed
    res = ('compiles' if ok else 'proof breaks: ' + ', '.join(failed)) + (' [older facts also break: %s]' % ', '.join(other) if other else '')
    expect = {'semantic': not ok, 'harmless': ok and not unrec, 'unrecognised': ok and bool(unrec)}[kind]
    rows.append(dict(id=mid, kind=kind, what=what, result=res, unrecognised=unrec, as_expected=expect))
    print(json.dumps(rows[-1]))
sh('git -C %s checkout -q .' % SCR)
print(regen())
ok, failed = make()
print('pristine:', 'compiles' if ok else failed)
if FILT:          # a partial run replaces only its own rows
    try:
        prev = json.load(open(V + '/notes/XLATE_mutants.json'))
    except (OSError, ValueError):
        prev = []
    done = {(r['id'], r['kind'], r['what']) for r in rows}
    rows_out = [r for r in prev if (r['id'], r['kind'], r['what']) not in done] + rows
else:
    rows_out = rows
json.dump(rows_out, open(V + '/notes/XLATE_mutants.json', 'w'), indent=1)
print('%d/%d as expected' % (sum(1 for r in rows if r.get('as_expected')), len(rows)))
