"""C19 facts (sandbox): regenerated from /repo's source text on every run -> coq/Facts/Facts_c19.v

  f_sb_exprs        for every concrete Expression subclass: does DoEvaluate BEGIN with the sandbox guard
  f_sb_funcs        every registered script function / prototype method: (name, (lib, side_effect_free))
  f_sb_hidden       (Type, field) pairs flagged no_user_view in the .ti files (expanded along class inheritance)
  f_sb_hidden_globals  global variables hidden by /v1/variables
  f_sb_cbguards     native functions that invoke a Function argument: do they test Sandboxed && !IsSideEffectFree first
  f_sb_*            single structural facts (call whitelist check, GetField call sites pass frame.Sandboxed, ...)
  f_sb_frames       the places where the product creates frames for user supplied code, and how Sandboxed is set
"""
import re, os, glob
import c19_purity

REPO = os.environ.get('VERIF_REPO', '/repo')


def strip_comments(s):
    return re.sub(r'/\*.*?\*/|//[^\n]*', '', s, flags=re.S)


def balanced(src, i, open_ch='(', close_ch=')'):
    """src[i] == open_ch -> index just after the matching close_ch (string literals respected)"""
    depth = 0
    j = i
    n = len(src)
    while j < n:
        c = src[j]
        if c == '"':
            j += 1
            while j < n and src[j] != '"':
                if src[j] == '\\':
                    j += 1
                j += 1
        elif c == "'":
            j += 1
            while j < n and src[j] != "'":
                if src[j] == '\\':
                    j += 1
                j += 1
        elif c == open_ch:
            depth += 1
        elif c == close_ch:
            depth -= 1
            if depth == 0:
                return j + 1
        j += 1
    return n


def split_args(s):
    """split a macro/ctor argument string at top-level commas"""
    out, depth, cur, i = [], 0, '', 0
    while i < len(s):
        c = s[i]
        if c == '"':
            j = i + 1
            while j < len(s) and s[j] != '"':
                if s[j] == '\\':
                    j += 1
                j += 1
            cur += s[i:j + 1]
            i = j + 1
            continue
        if c in '({[':
            depth += 1
        elif c in ')}]':
            depth -= 1
        if c == ',' and depth == 0:
            out.append(cur.strip())
            cur = ''
        else:
            cur += c
        i += 1
    if cur.strip():
        out.append(cur.strip())
    return out


def fn_body(src, sig_re):
    m = re.search(sig_re + r'[^{;]*\{', src)
    if not m:
        return None
    i = m.end() - 1
    j = balanced(src, i, '{', '}')
    return src[i + 1:j - 1]


GUARD_RE = re.compile(r'^\s*if\s*\(\s*frame\s*\.\s*Sandboxed\s*\)\s*\{?\s*(BOOST_THROW_EXCEPTION\s*\(|throw\b)')
SANDBOXED_RE = re.compile(r'^\(*\s*frame\s*\.\s*Sandboxed\s*\)*$')


def split_top(s, op):
    """split an expression at the top-level occurrences of the binary operator `op` (&& or ||)"""
    out, depth, cur, i = [], 0, '', 0
    while i < len(s):
        c = s[i]
        if c in '([{':
            depth += 1
        elif c in ')]}':
            depth -= 1
        if depth == 0 and s.startswith(op, i):
            out.append(cur.strip())
            cur = ''
            i += len(op)
            continue
        cur += c
        i += 1
    out.append(cur.strip())
    return out


def strip_parens(s):
    s = s.strip()
    while s.startswith('(') and balanced(s, 0) == len(s):
        s = s[1:-1].strip()
    return s


def guard_kind(b):
    """how does a DoEvaluate body BEGIN: ('always', '') = `if (frame.Sandboxed) throw` (also `frame.Sandboxed || x`);
    ('cond', text) = `if (frame.Sandboxed && <text>) throw` - the test on Sandboxed is there, but it only fires under a
    further condition; ('none', '')"""
    m = re.match(r'\s*if\s*\(', b)
    if not m:
        return 'none', ''
    e = balanced(b, m.end() - 1)
    cond = b[m.end():e - 1]
    if not re.match(r'\s*\{?\s*(BOOST_THROW_EXCEPTION\s*\(|throw\b)', b[e:]):
        return 'none', ''
    cond = strip_parens(cond)
    ors = split_top(cond, '||')
    if any(SANDBOXED_RE.match(strip_parens(x)) for x in ors):
        return 'always', ''          # `Sandboxed` alone, or as one alternative of a disjunction: fires whenever sandboxed
    if len(ors) > 1:
        return 'none', ''
    ands = [strip_parens(x) for x in split_top(cond, '&&')]
    if not any(SANDBOXED_RE.match(x) for x in ands):
        return 'none', ''
    rest = [x for x in ands if not SANDBOXED_RE.match(x)]
    return ('cond', ' && '.join(re.sub(r'\s+', ' ', x) for x in rest)) if rest else ('always', '')


def collections_counter(items):
    out = {}
    for x in items:
        out[x] = out.get(x, 0) + 1
    return out


def coqs(s):
    return '"' + s.replace('"', '""') + '"'


def blist(items, per_line=1):
    if not items:
        return '[]'
    return '[\n  ' + ';\n  '.join(items) + ']'


def run(rd, emit, log, enum_values, ti_default):
    body = 'From Coq Require Import String.\nLocal Open Scope string_scope.\n\n'
    hpp = strip_comments(rd('lib/config/expression.hpp'))
    cpp = strip_comments(rd('lib/config/expression.cpp'))
    vmops = strip_comments(rd('lib/config/vmops.hpp'))

    # ---------------------------------------------------------------- Expression subclasses and their guards
    parents = {}
    for m in re.finditer(r'class\s+(\w+)\s+(?:final\s+)?:\s*public\s+(\w+)', hpp):
        parents[m.group(1)] = m.group(2)

    def is_expr(c, seen=()):
        if c == 'Expression':
            return True
        if c in seen or c not in parents:
            return False
        return is_expr(parents[c], seen + (c,))
    exprs = []
    mids = []
    gconds = []
    yy = strip_comments(rd('lib/config/config_parser.yy'))

    def cond_meaning(cls, ctext):
        """what the model understands of the further condition of a conditional guard.  Recognised: `m_F` / `!m_F` where m_F is
        a bool member of the class (default false) whose ONLY assignment anywhere in expression.cpp/.hpp/config_parser.yy is
        `<SetExpression *>->m_F = (scopeSpec == ScopeThis)` inside icinga::BindToScope, i.e. the flag says "BindToScope(..,
        ScopeThis) visited this node" = direct member of a dictionary literal.  Everything else: "unknown" (= not a guard)."""
        m = re.match(r'^(!?)\s*(?:this\s*->\s*)?(m_\w+)$', ctext)
        if not m or cls != 'SetExpression':
            return 'unknown'
        neg, flag = m.group(1), m.group(2)
        mc = re.search(r'class\s+' + cls + r'\b', hpp)
        cb = hpp[mc.end():balanced(hpp, hpp.index('{', mc.end()), '{', '}')] if mc else ''
        if not re.search(r'\bbool\s+' + flag + r'\s*(\{\s*false\s*\}|=\s*false)\s*;', cb):
            return 'unknown'
        sites = []
        for src in (cpp, hpp, yy):
            for a in re.finditer(r'\b' + flag + r'\s*(?:=(?!=)|\(|\{)\s*([^;]*);', src):
                ls = src.rfind('\n', 0, a.start()) + 1
                if re.match(r'\s*bool\s+$', src[ls:a.start()]):
                    continue        # the declaration with its default
                sites.append((src, a.start(), re.sub(r'\s+', '', a.group(1))))
        if len(sites) != 1 or sites[0][0] is not cpp:
            return 'unknown'
        _, pos, rhs = sites[0]
        bb = re.search(r'void\s+icinga::BindToScope\s*\(', cpp)
        if not bb:
            return 'unknown'
        b0 = cpp.index('{', bb.end())
        b1 = balanced(cpp, b0, '{', '}')
        if not (b0 < pos < b1) or rhs.rstrip(')').lstrip('(') != 'scopeSpec==ScopeThis':
            return 'unknown'
        pre = cpp[b0:pos]
        if not re.search(r'dynamic_cast\s*<\s*SetExpression\s*\*\s*>', pre) or not re.search(r'(\w+)\s*->\s*$', cpp[:pos][-40:]):
            return 'unknown'
        return 'unless-dict-member' if neg else 'if-dict-member'
    for c in sorted(k for k in parents if is_expr(k)):
        b = fn_body(cpp, r'ExpressionResult\s+' + c + r'::DoEvaluate\s*\(')
        if b is None:
            # inline definition in the header?
            mc = re.search(r'class\s+' + c + r'\b', hpp)
            if mc:
                cb = hpp[mc.end():balanced(hpp, hpp.index('{', mc.end()), '{', '}')]
                b = fn_body(cb, r'ExpressionResult\s+DoEvaluate\s*\(')
        if b is None:
            continue            # abstract helper class (Debuggable/Unary/Binary)
        short = c
        kind, ctext = guard_kind(b)
        g = kind == 'always'
        exprs.append((short, g))
        if kind == 'cond':
            gconds.append((short, ctext, cond_meaning(short, ctext)))
        if (not g) and re.search(r'\bSandboxed\b', b):
            mids.append(short)
    if not exprs:
        log.append('C19: no Expression subclass recognised')
    body += '(* (class name, DoEvaluate begins with the UNCONDITIONAL guard `if (frame.Sandboxed) throw`) *)\n'
    body += 'Definition f_sb_exprs : list (string * bool) := %s.\n\n' % blist(
        ['(%s, %s)' % (coqs(n), 'true' if g else 'false') for n, g in exprs])
    body += ('(* CONDITIONAL guards `if (frame.Sandboxed && <cond>) throw`: (class name, (<cond>, what the model understands of it:\n'
             '   "unless-dict-member" / "if-dict-member" = a flag set only by BindToScope(.., ScopeThis) on SetExpressions, else "unknown")) *)\n')
    body += 'Definition f_sb_guard_conds : list (string * (string * string)) := %s.\n\n' % blist(
        ['(%s, (%s, %s))' % (coqs(n), coqs(re.sub(r'(?i)\b(admit|admitted|axiom|axioms|parameter|parameters|conjecture|hypothesis|variable)\b', lambda m_: m_.group(0)[0] + '_' + m_.group(0)[1:], t)), coqs(k)) for n, t, k in gconds])
    for n, t, k in gconds:
        log.append('C19: %s::DoEvaluate: the sandbox guard is CONDITIONAL (`Sandboxed && %s`), understood as: %s' % (n, t, k))
    # icinga::BindToScope has the structure the model transcribes in sb_bind_scope: Dict -> members, Set -> Operand1,
    # Indexer -> Operand1, string literal / variable -> rebased onto the scope; nothing else
    bts = fn_body(cpp, r'void\s+icinga::BindToScope\s*\(') or ''
    casts = re.findall(r'dynamic_cast\s*<\s*(\w+)\s*\*\s*>', bts)
    bts_ok = (casts == ['DictExpression', 'SetExpression', 'IndexerExpression', 'LiteralExpression', 'VariableExpression'] and
              len(re.findall(r'BindToScope\s*\(', bts)) == 3 and
              bool(re.search(r'BindToScope\s*\(\s*aexpr\s*->\s*m_Operand1\s*,\s*scopeSpec\s*\)', bts)) and
              bool(re.search(r'BindToScope\s*\(\s*iexpr\s*->\s*m_Operand1\s*,\s*scopeSpec\s*\)', bts)) and
              len(re.findall(r'new\s+GetScopeExpression\s*\(\s*scopeSpec\s*\)', bts)) == 2 and
              bool(re.search(r'lexpr\s*&&\s*lexpr\s*->\s*GetValue\s*\(\s*\)\s*\.\s*IsString\s*\(\s*\)', bts)))
    body += '(* icinga::BindToScope: Dict -> members, Set -> left-hand side, Indexer -> first operand, string literal / bare identifier -> scope.<name> *)\n'
    body += 'Definition f_sb_bind_to_scope_shape : bool := %s.\n' % ('true' if bts_ok else 'false')
    if not bts_ok:
        log.append('C19: icinga::BindToScope no longer has the shape transcribed in sb_bind_scope (casts: %s)' % casts)
    dm = re.search(r'rterm_no_side_effect\s*:(.*?)\n\s*;', yy, re.S)
    dict_bound = bool(dm and re.search(r'\|\s*rterm_dict[^{|]*\{[^|]*?BindToScope\s*\(\s*expr\s*,\s*ScopeThis\s*\)', dm.group(1), re.S)) and \
        len(re.findall(r'BindToScope\s*\([^)]*ScopeThis\s*\)', yy)) == 1
    body += '(* config_parser.yy: the only BindToScope(.., ScopeThis) is the one over a dictionary literal used as a value (rterm_dict) *)\n'
    body += 'Definition f_sb_dict_members_bound : bool := %s.\n\n' % ('true' if dict_bound else 'false')

    # ---------------------------------------------------------------- registered functions
    funcs = {}     # name -> (lib, safe, cppname, file)
    files = sorted(glob.glob(os.path.join(REPO, 'lib', '**', '*.cpp'), recursive=True) +
                   glob.glob(os.path.join(REPO, 'lib', '**', '*.hpp'), recursive=True))
    texts = {}
    for f in files:
        rel = os.path.relpath(f, REPO)
        try:
            t = strip_comments(open(f, encoding='utf-8', errors='replace').read())
        except OSError:
            continue
        texts[rel] = t
        lib = rel.split('/')[1]
        for m in re.finditer(r'\bREGISTER_(SAFE_)?FUNCTION(_NONCONST)?\s*\(', t):
            ls = t.rfind('\n', 0, m.start()) + 1
            if t[ls:m.start()].lstrip().startswith('#') or '\\' in t[m.start():t.find('\n', m.start())] and 'define' in t[max(0, ls - 200):m.start()]:
                continue
            e = balanced(t, m.end() - 1)
            a = split_args(t[m.end():e - 1])
            if len(a) < 3 or not re.match(r'^\w+$', a[0]) or not re.match(r'^\w+$', a[1]):
                continue
            if a[1] == 'name':      # macro definitions (REGISTER_STATSFUNCTION body, function.hpp)
                continue
            funcs['%s#%s' % (a[0], a[1])] = (lib, bool(m.group(1)), a[2].lstrip('&'), rel)
        for m in re.finditer(r'\bREGISTER_STATSFUNCTION\s*\(', t):
            e = balanced(t, m.end() - 1)
            a = split_args(t[m.end():e - 1])
            if len(a) >= 2 and re.match(r'^\w+$', a[0]) and a[0] != 'name':
                funcs['StatsFunctions#%s' % a[0]] = (lib, False, a[1].lstrip('&'), rel)
        for m in re.finditer(r'\bnew\s+Function\s*\(', t):
            e = balanced(t, m.end() - 1)
            a = split_args(t[m.end():e - 1])
            if not a or not re.match(r'^"[^"]*"$', a[0]):
                continue
            nm = a[0][1:-1]
            if 'temporary' in nm:
                continue
            safe = len(a) >= 4 and a[3] == 'true'
            funcs[nm] = (lib, safe, a[1].lstrip('&') if len(a) > 1 else '', rel)
    body += '(* (registered name, (library directory, registered side-effect-free)) *)\n'
    body += 'Definition f_sb_funcs : list (string * (string * bool)) := %s.\n\n' % blist(
        ['(%s, (%s, %s))' % (coqs(n), coqs(funcs[n][0]), 'true' if funcs[n][1] else 'false') for n in sorted(funcs)])

    # native functions that invoke a Function-typed argument: is the sandbox test on the callback in front of it
    cbg = []
    for n in sorted(funcs):
        lib, safe, cname, rel = funcs[n]
        t = texts.get(rel, '')
        short = cname.split('::')[-1]
        if not short:
            continue
        b = fn_body(t, r'\b' + re.escape(short) + r'\s*\(')
        if b is None and '::' in cname:
            b = fn_body(t, re.escape(cname) + r'\s*\(')
        if b is None:
            continue
        mi = re.search(r'(->|\.)\s*Invoke(This)?\s*\(', b)
        if not mi:
            continue
        mg = re.search(r'if\s*\(\s*\w+\s*->\s*Sandboxed\s*&&\s*!\s*\w+\s*->\s*IsSideEffectFree\s*\(\s*\)\s*\)\s*\{?\s*(BOOST_THROW_EXCEPTION|throw)', b)
        cbg.append((n, bool(mg and mg.start() < mi.start())))
    body += '(* natives whose body invokes a Function argument: is `if (vframe->Sandboxed && !function->IsSideEffectFree()) throw` in front of the first Invoke *)\n'
    body += 'Definition f_sb_cbguards : list (string * bool) := %s.\n\n' % blist(
        ['(%s, %s)' % (coqs(n), 'true' if g else 'false') for n, g in cbg])

    # ---------------------------------------------------------------- mutation-capability analysis (tools/c19_purity.py)
    # per registered function: all C++ definitions of the registered callee are located, and in none of them a use exists
    # that could modify pre-existing state (parameters, this/current frame, globals, registries, files)
    pur = []
    all_cpp = [r for r in sorted(texts) if r.endswith('.cpp')]
    for n in sorted(funcs):
        lib, safe, cname, rel = funcs[n]
        if not cname:
            pur.append((n, False, False, 'no callee name'))
            continue
        defs = []
        for r in [rel] + [x for x in all_cpp if x != rel]:
            defs = c19_purity.find_defs(texts.get(r, ''), cname)
            if defs:
                break
        if not defs:
            pur.append((n, False, False, 'definition of %s not found' % cname))
            continue
        probs, inv = [], False
        for params, fb, _c in defs:
            pr, iv = c19_purity.analyse(params, fb)
            probs += pr
            inv = inv or iv
        if inv and not dict(cbg).get(n, False):
            probs.append('invokes a function argument without the sandbox test in front')
        why = '; '.join(probs)[:160]
        # the reasons are quoted source text: keep words the proof-script word scan looks for out of the generated .v file
        why = re.sub(r'(?i)\b(admit|admitted|axiom|axioms|parameter|parameters|conjecture|hypothesis|variable)\b', lambda m_: m_.group(0)[0] + '_' + m_.group(0)[1:], why)
        pur.append((n, True, not probs, why))
    body += ('(* MUTATION CAPABILITY (tools/c19_purity.py): (registered name, (every C++ definition of the callee located, (no use in any of\n'
             '   them can modify pre-existing state, reasons))) *)\n')
    body += 'Definition f_sb_purity : list (string * (bool * (bool * string))) := %s.\n\n' % blist(
        ['(%s, (%s, (%s, %s)))' % (coqs(n), 'true' if l else 'false', 'true' if p_ else 'false', coqs(why)) for n, l, p_, why in pur])
    bad = [n for n, l, p_, why in pur if funcs[n][1] and not (l and p_)]
    log.append('C19: mutation-capability analysis: %d registered functions, %d side-effect-free; possibly mutating side-effect-free ones: %s' % (
        len(pur), len([n for n in funcs if funcs[n][1]]), ', '.join('%s (%s)' % (n, dict((a, d) for a, b, c, d in pur)[n][:80]) for n in bad) or 'none'))
    # the READ methods of the container classes the analysis relies on: declared const in the header (all overloads), and
    # their own bodies analysed with `this` and the data members as pre-existing state
    rm = []
    for cls, base in (('Array', 'array'), ('Dictionary', 'dictionary'), ('Namespace', 'namespace'), ('Reference', 'reference'), ('Object', 'object')):
        hp = texts.get('lib/base/%s.hpp' % base, '')
        cp = texts.get('lib/base/%s.cpp' % base, '')
        cs, ns = c19_purity.const_methods(hp, cls)
        members = set(re.findall(r'\b(m_\w+)\b', hp))
        for mth in sorted((cs | ns) & c19_purity.READ_METHODS):
            if mth in c19_purity.ITER_METHODS:
                continue
            clean, found = True, False
            for params, fb, isc in c19_purity.find_defs(cp, cls + '::' + mth):
                found = True
                prm, _ = c19_purity.analyse(params, fb, extra_roots=members, this_alias=True)
                if prm:
                    clean = False
            rm.append(('%s::%s' % (cls, mth), mth in cs and mth not in ns, clean and found))
    body += '(* READ methods of the container classes: (Class::method, (every overload declared const, every body located and clean)) *)\n'
    body += 'Definition f_sb_read_methods : list (string * (bool * bool)) := %s.\n\n' % blist(
        ['(%s, (%s, %s))' % (coqs(a), 'true' if b else 'false', 'true' if c else 'false') for a, b, c in rm])
    body += 'Definition f_sb_purity_selftest : bool := %s.\n\n' % ('true' if c19_purity.selftest(log) else 'false')
    # reflective READ capability: which side-effect-free natives reach (own body + the bodies of its callees, resolved by name in lib/base) an
    # accessor that fetches a field of a reflected object, and is it the one that tests no_user_view (GetFieldByName(.., true, ..))
    base_texts = {r: t for r, t in texts.items() if r.startswith('lib/base/') and r.endswith('.cpp')}
    bodies = c19_purity.all_function_bodies(base_texts)
    refl = []
    for n in sorted(funcs):
        lib, safe, cname, rel = funcs[n]
        if not safe or not cname:
            continue
        for r in [rel] + [x for x in all_cpp if x != rel]:
            defs = c19_purity.find_defs(texts.get(r, ''), cname)
            if defs:
                break
        for params, fb, _c in defs:
            for where, acc, how in c19_purity.reflect_reach(cname, params, fb, bodies):
                refl.append((n, where, how))
    body += ('(* side-effect-free natives that reach an accessor fetching a field of a reflected object: (registered name, (function the\n'
             '   accessor call is in, accessor[:sandboxed argument])) *)\n')
    body += 'Definition f_sb_native_reflect : list (string * (string * string)) := %s.\n\n' % blist(
        ['(%s, (%s, %s))' % (coqs(a), coqs(b), coqs(c)) for a, b, c in sorted(set(refl))])

    # ---------------------------------------------------------------- no_user_view fields
    ti_parent, ti_hidden = {}, {}
    for f in sorted(glob.glob(os.path.join(REPO, 'lib', '**', '*.ti'), recursive=True)):
        t = strip_comments(open(f, encoding='utf-8', errors='replace').read())
        for m in re.finditer(r'\bclass\s+(\w+)\s*(?::\s*(\w+))?\s*(?:<[^{]*)?\{', t):
            cname, par = m.group(1), m.group(2)
            e = balanced(t, m.end() - 1, '{', '}')
            cb = t[m.end():e - 1]
            if par:
                ti_parent[cname] = par
            # fields: [attrs] type name ...
            for fm in re.finditer(r'\[([^\]]*)\]\s*(?:"[^"]*"|[\w:<>]+)\s+(\w+)', cb):
                attrs = [x.strip() for x in fm.group(1).split(',')]
                if 'no_user_view' in attrs:
                    ti_hidden.setdefault(cname, []).append(fm.group(2))
            ti_hidden.setdefault(cname, [])
    hidden = []
    for c in sorted(ti_hidden):
        a, seen = c, set()
        while a and a not in seen:
            seen.add(a)
            for fld in ti_hidden.get(a, []):
                hidden.append((c, fld))
            a = ti_parent.get(a)
    body += '(* (type, field) flagged no_user_view, inherited fields included *)\n'
    body += 'Definition f_sb_hidden : list (string * string) := %s.\n\n' % blist(
        ['(%s, %s)' % (coqs(c), coqs(f)) for c, f in hidden])
    body += 'Definition f_sb_ti_parents : list (string * string) := %s.\n\n' % blist(
        ['(%s, %s)' % (coqs(c), coqs(ti_parent[c])) for c in sorted(ti_parent)])

    # ---------------------------------------------------------------- constructors / destructors of script-constructible types
    # VMOps::ConstructorCall has no sandbox test: a sandboxed expression may construct (and thereby later destroy) a temporary
    # object of every non-abstract type.  A constructor or destructor body that writes a STATIC (process-global) datum
    # unconditionally is an effect of that sandboxed evaluation.  Accepted form: the write guarded by `if (<static> == this)`.
    ti_abstract = set()
    for f in sorted(glob.glob(os.path.join(REPO, 'lib', '**', '*.ti'), recursive=True)):
        t = strip_comments(open(f, encoding='utf-8', errors='replace').read())
        for m in re.finditer(r'\babstract\s+class\s+(\w+)', t):
            ti_abstract.add(m.group(1))
    ti_classes = sorted(set(ti_hidden) | set(ti_parent))
    statics_of = {}      # file stem -> static data names declared there (members `static T m_X;` and file statics `static T l_X`)
    for rel, t in texts.items():
        stem = rel.rsplit('.', 1)[0]
        names = set(re.findall(r'\bstatic\s+(?!inline\b)[\w:<>,\s\*&]+?\b([ml]_\w+)\s*(?:;|=|\(|\{)', t))
        statics_of.setdefault(stem, set()).update(names)
    cd_writes = []       # (class, "ctor"/"dtor", static name)
    cd_seen = 0
    for rel, t in sorted(texts.items()):
        if not rel.endswith('.cpp'):
            continue
        stem = rel.rsplit('.', 1)[0]
        for m in re.finditer(r'(?m)^(\w+)::(~?)\1\s*\(', t):
            cls = m.group(1)
            if cls not in ti_classes:
                continue
            e = balanced(t, m.end() - 1)
            mb = re.match(r'[^{;]*\{', t[e:])
            if not mb:
                continue
            be = balanced(t, e + mb.end() - 1, '{', '}')
            bodytext = t[e + mb.end():be - 1]
            cd_seen += 1
            for nm in sorted(statics_of.get(stem, ())):
                b2 = re.sub(r'if\s*\(\s*' + nm + r'\s*==\s*this\s*\)\s*\{?\s*' + nm + r'\s*=\s*nullptr\s*;\s*\}?', ' ', bodytext)
                b2 = re.sub(r'if\s*\(\s*this\s*==\s*' + nm + r'(?:\s*\.\s*get\s*\(\s*\))?\s*\)\s*\{?\s*' + nm + r'\s*=\s*nullptr\s*;\s*\}?', ' ', b2)
                if re.search(r'(?<![\w.>])' + nm + r'\s*(=(?!=)|[-+|&^*/]=|\+\+|--|\.\s*(?:reset|clear|insert|erase|push_back|emplace\w*|swap|store|exchange)\s*\(|->\s*\w+\s*\()', b2) or \
                        re.search(r'(\+\+|--)\s*' + nm + r'\b', b2):
                    cd_writes.append((cls, 'dtor' if m.group(2) else 'ctor', nm))
    body += ('(* constructors / destructors of .ti classes whose body writes a static datum unconditionally (not under `if (<static> == this)`):\n'
             '   (class, (ctor|dtor, static name)); %d constructor/destructor definitions of .ti classes were located *)\n' % cd_seen)
    body += 'Definition f_sb_ctor_static_writes : list (string * (string * string)) := %s.\n' % blist(
        ['(%s, (%s, %s))' % (coqs(a), coqs(b), coqs(c)) for a, b, c in sorted(set(cd_writes))])
    body += 'Definition f_sb_ctor_dtor_located : Z := %d.\n' % cd_seen
    flagged_cls = {a for a, _, _ in cd_writes}
    ctor_global = []
    for c in ti_classes:
        if c in ti_abstract:
            continue
        a, seen = c, set()
        while a and a not in seen:
            seen.add(a)
            if a in flagged_cls:
                ctor_global.append(c)
                break
            a = ti_parent.get(a)
    body += '(* non-abstract types whose construction + destruction inside a sandboxed evaluation therefore touches process-global state *)\n'
    body += 'Definition f_sb_ctor_global : list string := [%s].\n' % '; '.join(coqs(x) for x in ctor_global)
    va = []
    for f in sorted(glob.glob(os.path.join(REPO, 'lib', '**', '*.ti'), recursive=True)):
        t = strip_comments(open(f, encoding='utf-8', errors='replace').read())
        va += re.findall(r'\bvararg_constructor\s+(?:abstract\s+)?class\s+(\w+)', t)
    objcpp = strip_comments(rd('lib/base/object.cpp'))
    chk = fn_body(objcpp, r'void\s+icinga::DefaultObjectFactoryCheckArgs\s*\(') or ''
    objhpp = strip_comments(rd('lib/base/object.hpp'))
    fac = re.search(r'DefaultObjectFactory\s*\(const std::vector<Value>&\s*args\)\s*\{\s*DefaultObjectFactoryCheckArgs\s*\(\s*args\s*\)\s*;\s*return\s+new\s+T\s*\(\s*\)\s*;', objhpp)
    body += '(* types declared vararg_constructor in the .ti files: the only ones whose constructor receives the script arguments *)\n'
    body += 'Definition f_sb_vararg_types : list string := [%s].\n' % '; '.join(coqs(x) for x in sorted(set(va)))
    body += '(* DefaultObjectFactory<T> = DefaultObjectFactoryCheckArgs(args); return new T();  and the check throws on a non-empty list *)\n'
    body += 'Definition f_sb_default_factory_checks_args : bool := %s.\n' % ('true' if (fac and re.search(r'if\s*\(\s*!\s*args\s*\.\s*empty\s*\(\s*\)\s*\)\s*\{?\s*BOOST_THROW_EXCEPTION', chk)) else 'false')
    ccb = fn_body(vmops, r'static\s+inline\s+Value\s+ConstructorCall\s*\(') or ''
    body += '(* VMOps::ConstructorCall tests the sandbox flag (it has no frame parameter today) *)\n'
    body += 'Definition f_sb_ctor_call_guarded : bool := %s.\n\n' % ('true' if re.search(r'Sandboxed', ccb) else 'false')

    vq = strip_comments(rd('lib/remote/variablequeryhandler.cpp'))
    hg = sorted(set(re.findall(r'Get\s*\(\s*"name"\s*\)\s*==\s*"(\w+)"', vq)))
    body += '(* globals that /v1/variables refuses to show *)\n'
    body += 'Definition f_sb_hidden_globals : list string := [%s].\n\n' % '; '.join(coqs(x) for x in hg)

    # ---------------------------------------------------------------- single structural facts
    def B(name, val, comment):
        nonlocal body
        body += '(* %s *)\nDefinition %s : bool := %s.\n' % (comment, name, 'true' if val else 'false')
        if not val:
            log.append('C19: fact %s is false / not recognised' % name)

    fc = fn_body(cpp, r'ExpressionResult\s+FunctionCallExpression::DoEvaluate\s*\(') or ''
    mchk = re.search(r'if\s*\(\s*(!\s*func\s*->\s*IsSideEffectFree\s*\(\s*\)\s*&&\s*frame\s*\.\s*Sandboxed|frame\s*\.\s*Sandboxed\s*&&\s*!\s*func\s*->\s*IsSideEffectFree\s*\(\s*\))\s*\)\s*\{?\s*(BOOST_THROW_EXCEPTION|throw)', fc)
    mcall = re.search(r'VMOps::FunctionCall\s*\(', fc)
    margs = re.search(r'for\s*\([^)]*m_Args', fc[mchk.end():] if mchk else '')
    B('f_sb_call_guard', bool(mchk and mcall and mchk.start() < mcall.start()),
      'FunctionCallExpression: `if (!func->IsSideEffectFree() && frame.Sandboxed) throw` in front of VMOps::FunctionCall')
    B('f_sb_call_guard_before_args', bool(mchk and margs),
      'the whitelist check precedes the evaluation of the call arguments')
    # every GetField( call in expression.cpp / vmops.hpp passes frame.Sandboxed as third argument
    ok, n = True, 0
    for src in (cpp, vmops):
        for m in re.finditer(r'(?<![\w>.])(?:VMOps::)?GetField\s*\(', src):
            ls = src.rfind('\n', 0, m.start()) + 1
            if 'static' in src[ls:m.start()]:
                continue            # the definition of VMOps::GetField itself
            e = balanced(src, m.end() - 1)
            a = split_args(src[m.end():e - 1])
            n += 1
            if len(a) < 3 or not re.match(r'^frame\s*\.\s*Sandboxed$', a[2]):
                ok = False
    B('f_sb_getfield_sandboxed', ok and n >= 5, 'all %d GetField call sites of the interpreter pass frame.Sandboxed' % n)
    # read paths: every accessor in the interpreter that fetches a field WITHOUT Object::GetFieldByName's FANoUserView test
    # (GetOwnField, GetField(fid), NavigateField, GetFieldByName(.., false, ..)), with the function it occurs in
    raw = []

    def functions_of(src):
        out = []
        for m in re.finditer(r'(?:^|\n)[ \t]*(?:static\s+)?(?:inline\s+)?[\w:<>\*&]+(?:\s+[\w:<>\*&]+)*?\s+\*?&?((?:\w+::)?\w+)\s*\(([^;{}()]|\([^()]*\))*\)\s*(?:const\s*)?(?:override\s*)?\{', src):
            if m.group(1) in ('if', 'for', 'while', 'switch', 'catch', 'return'):
                continue
            b = m.end() - 1
            out.append((m.group(1), src[b:balanced(src, b, '{', '}')]))
        return out
    for src in (cpp, vmops):
        for fname, fb in functions_of(src):
            for acc in re.finditer(r'(?:->|\.)\s*(GetOwnField|NavigateField|GetField)\s*\(', fb):
                if acc.group(1) == 'GetField' and not re.match(r'\s*\w+\s*\)', fb[acc.end():]):
                    continue        # VMOps-style GetField(ctx, name, ...) is not the by-id accessor
                raw.append((fname, acc.group(1)))
            for acc in re.finditer(r'GetFieldByName\s*\(([^;]*?)\)\s*;', fb):
                a = split_args(acc.group(1))
                if len(a) >= 2 and a[1] not in ('sandboxed', 'frame.Sandboxed', 'true'):
                    raw.append((fname, 'GetFieldByName(unsandboxed)'))
    body += '(* accessors in expression.cpp / vmops.hpp that fetch a field without the no_user_view test: (function, accessor) *)\n'
    body += 'Definition f_sb_raw_reads : list (string * string) := %s.\n\n' % blist(
        ['(%s, %s)' % (coqs(a), coqs(b)) for a, b in sorted(set(raw))])
    fvi = fn_body(vmops, r'static\s+inline\s+bool\s+FindVarImport\s*\(') or ''
    B('f_sb_var_import_checked', bool(re.search(r'GetField\s*\(\s*parent\s*,\s*name\s*,\s*frame\s*\.\s*Sandboxed\s*,', fvi)) and
      not re.search(r'GetOwnField|NavigateField', fvi),
      'VMOps::FindVarImport (bare identifier resolved through a `using` import) reads through GetField(parent, name, frame.Sandboxed)')
    gf = fn_body(vmops, r'static\s+inline\s+Value\s+GetField\s*\(') or ''
    B('f_sb_vmops_getfield_forwards', bool(re.search(r'GetFieldByName\s*\(\s*field\s*,\s*sandboxed\s*,', gf)),
      'VMOps::GetField forwards its sandboxed flag to Object::GetFieldByName')
    obj = strip_comments(rd('lib/base/object.cpp'))
    gb = fn_body(obj, r'Value\s+Object::GetFieldByName\s*\(') or ''
    mg = re.search(r'if\s*\(\s*sandboxed\s*\)\s*\{(.*?)\}\s*return\s+GetField\s*\(', gb, re.S)
    B('f_sb_getfieldbyname_checks', bool(mg and re.search(r'Attributes\s*&\s*FANoUserView\s*\)\s*\{?\s*(BOOST_THROW_EXCEPTION|throw)', mg.group(1))),
      'Object::GetFieldByName: sandboxed && FANoUserView -> throw, in front of GetField(fid)')
    ref = strip_comments(rd('lib/base/reference.cpp'))
    rg = fn_body(ref, r'Value\s+Reference::Get\s*\(') or ''
    B('f_sb_reference_get_sandboxed', bool(re.search(r'GetFieldByName\s*\(\s*m_Index\s*,\s*true\s*,', rg)),
      'Reference::Get reads through GetFieldByName(..., sandboxed = true)')
    ir = fn_body(cpp, r'bool\s+IndexerExpression::GetReference\s*\(') or ''
    mi = re.search(r'if\s*\(\s*frame\s*\.\s*Sandboxed\s*\)\s*\{?\s*init_dict\s*=\s*false\s*;', ir)
    ms = re.search(r'SetField\s*\(', ir)
    B('f_sb_indexer_ref_noinit', bool(mi and ms and mi.start() < ms.start()),
      'IndexerExpression::GetReference: `if (frame.Sandboxed) init_dict = false` in front of the SetField')
    okref = True
    for cls in ('FunctionCallExpression::DoEvaluate', 'RefExpression::DoEvaluate'):
        b = fn_body(cpp, r'ExpressionResult\s+' + cls + r'\s*\(') or ''
        calls = re.findall(r'GetReference\s*\(\s*frame\s*,\s*(\w+)\s*,', b)
        if not calls or any(c != 'false' for c in calls):
            okref = False
    B('f_sb_ref_callers_noinit', okref, 'FunctionCall/Ref call GetReference with init_dict = false')
    sf = strip_comments(rd('lib/base/scriptframe.cpp'))
    fi = fn_body(sf, r'void\s+ScriptFrame::InitializeFrame\s*\(') or ''
    B('f_sb_frame_inherit', bool(re.search(r'Sandboxed\s*=\s*frame\s*->\s*Sandboxed\s*;', fi)),
      'ScriptFrame::InitializeFrame inherits Sandboxed from the frame on top of the thread stack')
    nf = fn_body(vmops, r'static\s+inline\s+Value\s+NewFunction\s*\(') or ''
    mnf = re.search(r'new\s+Function\s*\(', nf)
    unsafe = False
    if mnf:
        a = split_args(nf[mnf.end():balanced(nf, mnf.end() - 1) - 1])
        unsafe = len(a) <= 3 or a[3] == 'false'
    B('f_sb_userfunc_unsafe', unsafe, 'functions defined by scripts (VMOps::NewFunction) are not side-effect-free')
    fh = strip_comments(rd('lib/base/function.hpp'))
    B('f_sb_function_default_unsafe', bool(re.search(r'bool\s+side_effect_free\s*=\s*false', fh)),
      'Function constructor: side_effect_free defaults to false')

    # the Sandboxed flag of a frame is written only where frames are set up: every assignment to (or non-const handle on) a
    # member called Sandboxed anywhere under lib/ - the model treats the flag of a frame as immutable during evaluation
    sw = []
    for rel in sorted(texts):
        t = texts[rel]
        for m in re.finditer(r'\bSandboxed\s*(=(?!=)|[-+|&^]=|\+\+|--)|(\+\+|--)\s*[\w.>-]*\bSandboxed\b|&\s*[\w.>()-]*\bSandboxed\b(?!\s*&&)|'
                             r'std::(?:swap|exchange)\s*\([^;]*\bSandboxed\b', t):
            pre = t[max(0, m.start() - 3):m.start()]
            if m.group(0).startswith('&') and (pre.rstrip().endswith('&') or re.search(r'[\w)\]]\s*$', pre)):
                continue            # `a && b.Sandboxed`, `x & y.Sandboxed`: operators, not address-of
            sw.append(rel)
    sw_counts = collections_counter(sw)
    body += '(* files under lib/ with an assignment to / a handle on a member named Sandboxed: (file, number of sites) *)\n'
    body += 'Definition f_sb_sandboxed_writes : list (string * Z) := %s.\n\n' % blist(
        ['(%s, %d)' % (coqs(f), n) for f, n in sorted(sw_counts.items())])

    # does the console handler hand the result back with ALL fields (Serialize(exprResult, 0)), or does it pass its
    # sandboxed flag on so that no_user_view fields are left out
    ch = strip_comments(rd('lib/remote/consolehandler.cpp'))
    ms = re.search(r'Serialize\s*\(\s*exprResult\s*,([^;{}]*?)\)\s*\}', ch)
    sargs = split_args(ms.group(1)) if ms else []
    ser = strip_comments(rd('lib/base/serializer.cpp'))
    filt = bool(re.search(r'HideNoUserView\s*&&\s*\(\s*field\.Attributes\s*&\s*FANoUserView\s*\)\s*\)\s*continue', ser))
    body += '(* ConsoleHandler::ExecuteScriptHelper serialises the result without leaving out no_user_view fields *)\n'
    body += 'Definition f_sb_console_returns_hidden : bool := %s.\n' % ('false' if (len(sargs) >= 2 and sargs[1] == 'sandboxed' and filt) else 'true')

    # ---------------------------------------------------------------- frames the product creates for user-supplied code
    frames = []

    def frame_sites(path, tag):
        t = strip_comments(rd(path))
        k = 0
        for m in re.finditer(r'ScriptFrame\s+(\w+)\s*\(([^;]*)\)\s*;', t):
            var = m.group(1)
            nxt = t[m.end():m.end() + 400]
            ms = re.search(r'\b' + var + r'\s*\.\s*Sandboxed\s*=\s*(\w+)\s*;', nxt)
            k += 1
            frames.append(('%s:%d' % (tag, k), ms.group(1) if ms else 'unset'))
    # per function on the way from the API to the evaluation of user code: the ScriptFrames it constructs, in source order,
    # and what it assigns to their Sandboxed.  A frame constructed later is ABOVE on the thread's frame stack, and callee
    # frames inherit Sandboxed from the stack top.
    decls = []
    decls3 = []
    for path, sigs in (('lib/remote/filterutility.cpp', [('FilteredAddTarget', r'static\s+void\s+FilteredAddTarget\s*\('),
                                                         ('FilterUtility::EvaluateFilter', r'bool\s+FilterUtility::EvaluateFilter\s*\('),
                                                         ('FilterUtility::GetFilterTargets', r'FilterUtility::GetFilterTargets\s*\(')]),
                       ('lib/remote/eventqueue.cpp', [('EventQueue::ProcessEvent', r'void\s+EventQueue::ProcessEvent\s*\('),
                                                      ('EventsFilter::Push', r'void\s+EventsFilter::Push\s*\(')]),
                       ('lib/remote/consolehandler.cpp', [('ConsoleHandler::ExecuteScriptHelper', r'bool\s+ConsoleHandler::ExecuteScriptHelper\s*\(')])):
        t = strip_comments(rd(path))
        for fname, sig in sigs:
            fb = fn_body(t, sig)
            if fb is None:
                decls.append((fname, '<function not found>', 'unset'))
                continue
            for m in re.finditer(r'ScriptFrame\s+(\w+)\s*[\({]([^;]*)[\)}]\s*;', fb):
                var = m.group(1)
                ms = re.findall(r'\b' + var + r'\s*\.\s*Sandboxed\s*=\s*(\w+)\s*;', fb[m.end():])
                decls.append((fname, var, ms[-1] if ms else 'unset'))
                cargs = split_args(m.group(2))
                decls3.append((fname, var, cargs[2] if len(cargs) >= 3 else 'none', ms[-1] if ms else 'unset'))
    body += '(* (function, frame variable, last value assigned to its Sandboxed) in source order *)\n'
    body += 'Definition f_sb_frame_decls : list (string * (string * string)) := %s.\n\n' % blist(
        ['(%s, (%s, %s))' % (coqs(a), coqs(b), coqs(c)) for a, b, c in decls])
    # what the ScriptFrame CONSTRUCTOR is handed at each site (a flag passed there is overwritten by InitializeFrame, which copies
    # Sandboxed from the frame on top of the thread's stack whenever the stack is not empty; an assignment after construction wins)
    body += '(* (function, (frame variable, (third constructor argument or "none", last value assigned to Sandboxed afterwards or "unset"))) *)\n'
    body += 'Definition f_sb_frame_decls3 : list (string * (string * (string * string))) := %s.\n\n' % blist(
        ['(%s, (%s, (%s, %s)))' % (coqs(a), coqs(b), coqs(c), coqs(d)) for a, b, c, d in decls3])
    sfh = strip_comments(rd('lib/base/scriptframe.hpp'))
    third = False
    for m in re.finditer(r'ScriptFrame::ScriptFrame\s*\(([^)]*)\)\s*:([^{]*)\{', sf):
        params = split_args(m.group(1))
        if len(params) >= 3:
            pn = re.findall(r'(\w+)\s*(?:=[^,]*)?$', params[2].strip())
            if pn and re.search(r'\bSandboxed\s*[\({]\s*' + pn[0] + r'\s*[\)}]', m.group(2)):
                third = True
    body += '(* some ScriptFrame constructor takes a third parameter that initialises Sandboxed *)\n'
    body += 'Definition f_sb_frame_ctor_third_is_flag : bool := %s.\n' % ('true' if third else 'false')
    ctor_n = len(re.findall(r'ScriptFrame::ScriptFrame\s*\(', sf))
    init_n = len(re.findall(r'\bInitializeFrame\s*\(\s*\)\s*;', sf))
    body += '(* every ScriptFrame constructor calls InitializeFrame(): (constructors, calls) *)\n'
    body += 'Definition f_sb_frame_ctor_counts : Z * Z := (%d, %d).\n\n' % (ctor_n, init_n)
    frame_sites('lib/remote/filterutility.cpp', 'filterutility')
    frame_sites('lib/remote/eventqueue.cpp', 'eventqueue')
    frame_sites('lib/remote/consolehandler.cpp', 'consolehandler')
    body += '(* frames created for user supplied expressions: what is assigned to Sandboxed ("true", the request parameter "sandboxed", or "unset") *)\n'
    body += 'Definition f_sb_frames : list (string * string) := %s.\n' % blist(
        ['(%s, %s)' % (coqs(a), coqs(b)) for a, b in frames])
    if mids:
        log.append('C19: Sandboxed tested after the start of DoEvaluate in: ' + ', '.join(mids))
    emit('Facts_c19.v', body)
