"""facts_fn: regenerate coq/Facts/Facts_fn_<area>.v - Gallina TRANSLATIONS of small C++ decision functions - on every run.

The translator is tools/cxx2coq.py; this file is the target table: for each function the binding environment
(how parameters, getters, members, enum constants and callees map to Gallina inputs/terms).  A function outside the
translator's subset is emitted as `src_<fn>_recognised := false` with a dummy body and logged as
`xlate: <fn> not recognised: <reason>`; the theorems in coq/Src/*.v are guarded by `src_<fn>_recognised = true`.
A report for the evidence is written to $VERIF_BUILD/xlate_report.json (see notes/XLATE.md).

Modelling assumptions shared by all targets (also in notes/XLATE.md):
  * `double` values that hold timestamps/durations are whole seconds below 2^53 -> Z; comparisons and +,- are then exact;
  * `int`/enum arithmetic does not overflow (values are enum constants, bit masks and small counters) -> Z;
    `unsigned long` wraps modulo 2^64 (xl_u64);
  * getters bound to one input are read atomically (no concurrent writer between two reads in one call);
  * statements listed under `skipped` (logging, lock guards) have no effect on the result."""
import os, re, json, hashlib
import cxx2coq

HERE = os.path.dirname(os.path.abspath(__file__))


def Zb(name):
    return (name, 'Z')


def Bb(name):
    return (name, 'bool')


# ---------------------------------------------------------------------------------------------- C05 downtime predicates
DT_IN = [('now', 'Z'), ('fixed', 'bool'), ('start_time', 'Z'), ('end_time', 'Z'), ('trigger_time', 'Z'), ('duration', 'Z')]
DT_ARGS = 'now fixed start_time end_time trigger_time duration'
DT_BIND = {'Utility::GetTime()': Zb('now'), 'GetFixed()': Bb('fixed'), 'GetStartTime()': Zb('start_time'),
           'GetEndTime()': Zb('end_time'), 'GetTriggerTime()': Zb('trigger_time'), 'GetDuration()': Zb('duration')}
DT_CALLS = {'IsTriggered()': ('src_downtime_is_triggered ' + DT_ARGS, 'bool'),
            'IsInEffect()': ('src_downtime_is_in_effect ' + DT_ARGS, 'bool'),
            'IsExpired()': ('src_downtime_is_expired ' + DT_ARGS, 'bool')}


def dt(name, func, props, **kw):
    d = dict(name=name, func=func, file='lib/icinga/downtime.cpp', inputs=DT_IN, ret='bool', bind=dict(DT_BIND, **DT_CALLS), props=props)
    d.update(kw)
    return d


# element of Checkable::GetDowntimes() = the model's downtime record (only its projections are used, as getters)
DT_ELEM = 'src_downtime_is_in_effect now (d_fixed downtime) (d_start downtime) (d_end downtime) (d_trigger downtime) (d_duration downtime)'

# ---------------------------------------------------------------------------------------------- checkable predicates
CK_FILE = 'lib/icinga/checkable-notification.cpp'

AREAS = [
    dict(area='ck', requires=['Icv.Facts.Facts_enums', 'Icv.Src.XlPrelude', 'Icv.Ck.CkFull'], items=[
        # ---- C01
        dict(name='host_calculate_state', func='Host::CalculateState', file='lib/icinga/host.cpp', props=['C01'],
             inputs=[('state', 'Z')], ret='Z', params={'state': Zb('state')}),
        dict(name='host_is_state_ok', func='Host::IsStateOK', file='lib/icinga/host.cpp', props=['C01'],
             inputs=[('state', 'Z')], ret='bool', params={'state': Zb('state')},
             fns={'Host::CalculateState': ('src_host_calculate_state', ['Z'], 'Z'), 'CalculateState': ('src_host_calculate_state', ['Z'], 'Z')}),
        dict(name='service_is_state_ok', func='Service::IsStateOK', file='lib/icinga/service.cpp', props=['C01'],
             inputs=[('state', 'Z')], ret='bool', params={'state': Zb('state')}),
        dict(glue='checkable_is_state_ok', props=['C01', 'C02'], doc='virtual dispatch of Checkable::IsStateOK (Host / Service override)',
             text='Definition src_checkable_is_state_ok (is_host : bool) (state : Z) : bool :=\n'
                  '  if is_host then src_host_is_state_ok state else src_service_is_state_ok state.\n',
             deps=['host_is_state_ok', 'service_is_state_ok']),
        # ---- C01 stretch: regions of Checkable::ProcessCheckResult (lib/icinga/checkable-check.cpp) as state-passing functions
        dict(name='pcr_state_type_attempt', func='Checkable::ProcessCheckResult', file='lib/icinga/checkable-check.cpp', props=['C01'],
             region=(r'long\s+attempt\s*=\s*1\s*;', r'if\s*\(\s*!reachable\s*\)'), outputs=['attempt', 'recovery'],
             inputs=[('is_host', 'bool'), ('old_state', 'Z'), ('old_state_type', 'Z'), ('old_attempt', 'Z'), ('new_state', 'Z'),
                     ('max_attempts', 'Z'), ('recovery0', 'bool'), ('state_type0', 'Z')], ret='void', rcoq='Z * bool * Z', dummy='(0, false, 0)',
             locals={'old_state': Zb('old_state'), 'old_stateType': Zb('old_state_type'), 'old_attempt': Zb('old_attempt'), 'recovery': Bb('recovery0')},
             state=[('$state_type', 'state_type0', 'Z')], setters={'SetStateType': '$state_type'}, getters={'GetStateType()': '$state_type'},
             skip=[r'^Log\(', r'^ObjectLock ', r'^ResetNotificationNumbers\(\)$', r'^SaveLastState\('],
             bind={'cr->GetState()': Zb('new_state'), 'GetMaxCheckAttempts()': Zb('max_attempts')},
             fns={'IsStateOK': ('src_checkable_is_state_ok is_host', ['Z'], 'bool')}),
        dict(name='pcr_state_change', func='Checkable::ProcessCheckResult', file='lib/icinga/checkable-check.cpp', props=['C01'],
             region=(r'bool\s+stateChange\s*;', r'SetPreviousStateChange\s*\('), outputs=['stateChange'],
             inputs=[('is_service', 'bool'), ('old_state', 'Z'), ('new_state', 'Z')], ret='void', rcoq='bool',
             locals={'old_state': Zb('old_state'), 'new_state': Zb('new_state')},
             bind={'checkableType==CheckableService': Bb('is_service')},
             fns={'Host::CalculateState': ('src_host_calculate_state', ['Z'], 'Z')}),
        dict(name='pcr_hard_change', func='Checkable::ProcessCheckResult', file='lib/icinga/checkable-check.cpp', props=['C01'],
             region=(r'bool\s+hardChange\s*=', r'bool\s+is_volatile\s*='), outputs=['hardChange'],
             inputs=[('state_change', 'bool'), ('old_state_type', 'Z'), ('state_type', 'Z')], ret='void', rcoq='bool',
             locals={'stateChange': Bb('state_change'), 'old_stateType': Zb('old_state_type')},
             bind={'GetStateType()': Zb('state_type')}),
        # ---- C05
        dt('downtime_is_in_effect', 'Downtime::IsInEffect', ['C05', 'C02']),
        dt('downtime_is_triggered', 'Downtime::IsTriggered', ['C05']),
        dt('downtime_is_expired', 'Downtime::IsExpired', ['C05']),
        dt('downtime_can_be_triggered', 'Downtime::CanBeTriggered', ['C05']),
        dict(name='checkable_is_in_downtime', func='Checkable::IsInDowntime', file='lib/icinga/checkable-downtime.cpp', props=['C05', 'C02'],
             inputs=[('now', 'Z'), ('downtimes', 'list dt')], ret='bool',
             lists={'GetDowntimes()': ('downtimes', 'dt')}, bind={'downtime->IsInEffect()': (DT_ELEM, 'bool')}),
        dict(name='checkable_get_downtime_depth', func='Checkable::GetDowntimeDepth', file='lib/icinga/checkable-downtime.cpp', props=['C05'],
             inputs=[('now', 'Z'), ('downtimes', 'list dt')], ret='Z',
             lists={'GetDowntimes()': ('downtimes', 'dt')}, bind={'downtime->IsInEffect()': (DT_ELEM, 'bool')}),
        # ---- C05 stretch: an imperative block with setter calls -> state-passing function (old state -> new state, events)
        dict(glue='downtime_events', props=['C05'], deps=[], doc='effects of Downtime::TriggerDowntime other than attribute writes, in program order',
             text='Inductive xdt_ev := XeArmCleanup | XeTriggerChild (name : Z) (t : Z) | XeTriggered.\n'),
        dict(name='downtime_trigger_downtime', func='Downtime::TriggerDowntime', file='lib/icinga/downtime.cpp', props=['C05'],
             inputs=DT_IN + [('t', 'Z'), ('triggers', 'list Z'), ('dt_exists', 'Z -> bool')], ret='void',
             dummy='(0, nil)',
             params={'triggerTime': Zb('t')},
             state=[('$trigger_time', 'trigger_time', 'Z'), ('$events', '(@nil xdt_ev)', 'list xdt_ev')],
             getters={'GetTriggerTime()': '$trigger_time'}, setters={'SetTriggerTime': '$trigger_time'},
             emits={'SetupCleanupTimer': ('$events', 'XeArmCleanup', []),
                    'downtime->TriggerDowntime': ('$events', 'XeTriggerChild triggerName {0}', ['Z']),
                    'OnDowntimeTriggered': ('$events', 'XeTriggered', [None])},
             lists={'GetTriggers()': ('triggers', 'Z')},
             fns={'Downtime::GetByName': ('dt_exists', ['Z'], 'ptr')},
             bind=dict({k: v for k, v in DT_BIND.items() if k != 'GetTriggerTime()'},
                       **{'CanBeTriggered()': ('src_downtime_can_be_triggered ' + DT_ARGS.replace('trigger_time', '{$trigger_time}'), 'bool')})),
        # ---- C06
        dict(name='checkable_get_acknowledgement', func='Checkable::GetAcknowledgement', file='lib/icinga/checkable.cpp', props=['C06'],
             inputs=[('now', 'Z'), ('ack_raw', 'Z'), ('ack_expiry', 'Z')], ret='Z',
             state=[('$cleared', '(@nil unit)', 'list unit')],      # one entry per ClearAcknowledgement("") call
             emits={'ClearAcknowledgement': ('$cleared', 'tt', [None])},
             bind={'GetAcknowledgementRaw()': Zb('ack_raw'), 'GetAcknowledgementExpiry()': Zb('ack_expiry'), 'Utility::GetTime()': Zb('now')}),
        # ---- C02 / C03
        dict(name='checkable_is_likely_to_be_checked_soon', func='Checkable::IsLikelyToBeCheckedSoon', file=CK_FILE, props=['C02'],
             inputs=[('now', 'Z'), ('active_checks', 'bool'), ('check_interval', 'Z'), ('next_check', 'Z')], ret='bool',
             bind={'GetEnableActiveChecks()': Bb('active_checks'), 'GetCheckInterval()': Zb('check_interval'),
                   'GetNextCheck()': Zb('next_check'), 'Utility::GetTime()': Zb('now')}),
        dict(name='checkable_notification_reason_applies', func='Checkable::NotificationReasonApplies', file=CK_FILE, props=['C02', 'C03'],
             inputs=[('type', 'Z'), ('is_host', 'bool'), ('has_cr', 'bool'), ('cr_state', 'Z'), ('flapping', 'bool')], ret='bool',
             params={'type': Zb('type')}, abort='false',
             bind={'GetLastCheckResult()': ('has_cr', 'ptr'), 'GetLastCheckResult()->GetState()': Zb('cr_state'), 'IsFlapping()': Bb('flapping')},
             fns={'IsStateOK': ('src_checkable_is_state_ok is_host', ['Z'], 'bool')}),
        dict(name='checkable_notification_reason_suppressed', func='Checkable::NotificationReasonSuppressed', file=CK_FILE, props=['C02', 'C03'],
             inputs=[('type', 'Z'), ('reachable', 'bool'), ('in_downtime', 'bool'), ('acknowledged', 'bool')], ret='bool',
             params={'type': Zb('type')},
             bind={'IsReachable(DependencyNotification)': Bb('reachable'), 'IsInDowntime()': Bb('in_downtime'), 'IsAcknowledged()': Bb('acknowledged')}),
        dict(name='checkable_is_flapping', func='Checkable::IsFlapping', file='lib/icinga/checkable-flapping.cpp', props=['C02'],
             inputs=[('enable_flapping', 'bool'), ('global_flapping', 'bool'), ('flapping', 'bool')], ret='bool',
             bind={'GetEnableFlapping()': Bb('enable_flapping'), 'IcingaApplication::GetInstance()->GetEnableFlapping()': Bb('global_flapping'),
                   'GetFlapping()': Bb('flapping')}),
    ]),
    # ---------------------------------------------------------------------------------------- C03 notification filters
    dict(area='notif', requires=['Icv.Facts.Facts_enums', 'Icv.Src.XlPrelude'], items=[
        dict(name='service_state_to_filter', func='icinga::ServiceStateToFilter', file='lib/icinga/notification.cpp', props=['C03', 'C07'],
             inputs=[('state', 'Z')], ret='Z', params={'state': Zb('state')}, abort='0'),
        dict(name='host_state_to_filter', func='icinga::HostStateToFilter', file='lib/icinga/notification.cpp', props=['C03', 'C07'],
             inputs=[('state', 'Z')], ret='Z', params={'state': Zb('state')}, abort='0'),
        dict(name='notification_check_user_filters', func='Notification::CheckNotificationUserFilters', file='lib/icinga/notification.cpp', props=['C03'],
             inputs=[('type', 'Z'), ('force', 'bool'), ('reminder', 'bool'), ('u_has_period', 'bool'), ('u_period_inside', 'bool'),
                     ('u_type_filter', 'Z'), ('is_svc', 'bool'), ('state', 'Z'), ('u_state_filter', 'Z')], ret='bool',
             params={'type': Zb('type'), 'force': Bb('force'), 'reminder': Bb('reminder')},
             stmts={'tie(host,service)=GetHostService(GetCheckable())': {'host': 'HOST', 'service': 'SVC'}},
             bind={'user->GetPeriod()': ('u_has_period', 'ptr'), 'user->GetPeriod()->IsInside(Utility::GetTime())': Bb('u_period_inside'),
                   'user->GetTypeFilter()': Zb('u_type_filter'), 'user->GetStateFilter()': Zb('u_state_filter'),
                   'SVC': ('is_svc', 'ptr'), 'SVC->GetState()': Zb('state'), 'HOST->GetState()': Zb('state')},
             fns={'ServiceStateToFilter': ('src_service_state_to_filter', ['Z'], 'Z'), 'HostStateToFilter': ('src_host_state_to_filter', ['Z'], 'Z')}),
    ]),
    # ---------------------------------------------------------------------------------------- C07 Dependency::IsAvailable
    dict(area='dep', requires=['Icv.Facts.Facts_enums', 'Icv.Src.XlPrelude', 'Icv.Facts.Facts_fn_notif'], items=[
        dict(name='dependency_is_available', func='Dependency::IsAvailable', file='lib/icinga/dependency.cpp', props=['C07'],
             inputs=[('aspect', 'Z'), ('same', 'bool'), ('p_checked', 'bool'), ('ignore_soft', 'bool'), ('p_state_type', 'Z'), ('p_is_svc', 'bool'),
                     ('p_state', 'Z'), ('state_filter', 'Z'), ('has_period', 'bool'), ('period_inside', 'bool'),
                     ('disable_checks', 'bool'), ('disable_notifications', 'bool')], ret='bool',
             params={'dt': Zb('aspect')},
             stmts={'tie(parentHost,parentService)=GetHostService(GetParent())': {'parentHost': 'PARENT_HOST', 'parentService': 'PARENT_SVC'}},
             bind={'GetParent()==GetChild()': Bb('same'), 'GetParent()->GetLastCheckResult()': ('p_checked', 'ptr'),
                   'GetIgnoreSoftStates()': Bb('ignore_soft'), 'GetParent()->GetStateType()': Zb('p_state_type'),
                   'PARENT_SVC': ('p_is_svc', 'ptr'), 'PARENT_SVC->GetState()': Zb('p_state'), 'PARENT_HOST->GetState()': Zb('p_state'),
                   'GetStateFilter()': Zb('state_filter'), 'GetPeriod()': ('has_period', 'ptr'),
                   'GetPeriod()->IsInside(Utility::GetTime())': Bb('period_inside'),
                   'GetDisableChecks()': Bb('disable_checks'), 'GetDisableNotifications()': Bb('disable_notifications')},
             fns={'ServiceStateToFilter': ('src_service_state_to_filter', ['Z'], 'Z'), 'HostStateToFilter': ('src_host_state_to_filter', ['Z'], 'Z')}),
    ]),
    # ---------------------------------------------------------------------------------------- C09 exit status
    dict(area='macro', requires=['Icv.Facts.Facts_enums', 'Icv.Src.XlPrelude'], items=[
        dict(name='exit_status_to_state', func='PluginUtility::ExitStatusToState', file='lib/icinga/pluginutility.cpp', props=['C09'],
             inputs=[('exit_status', 'Z')], ret='Z', params={'exitStatus': Zb('exit_status')}),
    ]),
    # ---------------------------------------------------------------------------------------- C08 TimePeriod::IsInside
    dict(area='tp', requires=['Icv.Src.XlPrelude'], items=[
        dict(name='timeperiod_is_inside', func='TimePeriod::IsInside', file='lib/icinga/timeperiod.cpp', props=['C08'],
             inputs=[('ts', 'Z'), ('vb_empty', 'bool'), ('vb', 'Z'), ('ve_empty', 'bool'), ('ve', 'Z'), ('has_segments', 'bool'),
                     ('segments', 'list (Z * Z)')], ret='bool',
             params={'ts': Zb('ts')},
             bind={'GetValidBegin().IsEmpty()': Bb('vb_empty'), 'GetValidBegin()': Zb('vb'), 'GetValidEnd().IsEmpty()': Bb('ve_empty'),
                   'GetValidEnd()': Zb('ve'), 'GetSegments()': ('has_segments', 'ptr'),
                   'segment->Get("begin")': ('fst segment', 'Z'), 'segment->Get("end")': ('snd segment', 'Z')},
             lists={'GetSegments()': ('segments', '(Z * Z)%type')}),
    ]),
    # ---------------------------------------------------------------------------------------- C10 Utility::SDBM
    dict(area='auth', requires=['Icv.Src.XlPrelude'], items=[
        dict(name='utility_sdbm', func='Utility::SDBM', file='lib/base/utility.cpp', props=['C10'],
             inputs=[('str', 'list Z'), ('len', 'Z')], ret='u64',
             params={'str': ('str', 'chars'), 'len': ('len', 'u64')},
             lists={'str': ('str', 'Z')}),
    ]),
    # ---------------------------------------------------------------------------------------- C13 zone predicates
    dict(area='zone', requires=['Icv.Src.XlPrelude', 'Icv.Msg.MzModel'], items=[
        dict(glue='zone_ptr', props=['C13'], deps=[], doc='Zone::Ptr as option nat over the model\'s zone tree: null test, pointer equality, GetParent(), GetGlobal()',
             text='Definition xz_some (o : option nat) : bool := match o with Some _ => true | None => false end.\n'
                  'Definition xz_eqb (a b : option nat) : bool :=\n  match a, b with Some x, Some y => Nat.eqb x y | None, None => true | _, _ => false end.\n'
                  'Definition xz_parent (t : mz_tree) (o : option nat) : option nat := match o with Some z => mz_par t z | None => None end.\n'
                  'Definition xz_global (t : mz_tree) (o : option nat) : bool := match o with Some z => mz_glob t z | None => false end.\n'),
        dict(name='zone_is_child_of', func='Zone::IsChildOf', file='lib/remote/zone.cpp', props=['C13', 'C11'],
             inputs=[('t', 'mz_tree'), ('fuel', 'nat'), ('a', 'nat'), ('z', 'option nat')], ret='bool', fuel='fuel',
             types={'zptr': dict(coq='option nat', truth='xz_some', eqb='xz_eqb')}, ctypes={'Zone::Ptr': 'zptr'},
             params={'zone': ('z', 'zptr')}, bind={'this': ('Some a', 'zptr')},
             fns={'zptr->GetParent': ('xz_parent t', ['zptr'], 'zptr')}),
        dict(glue='zone_is_child_of_call', props=['C13'], deps=['zone_is_child_of'],
             doc='a call object_zone->IsChildOf(zone) with the fuel that suffices on a well-formed tree (parents have smaller numbers); null receiver / exhausted fuel = false',
             text='Definition xz_is_child_of (t : mz_tree) (o z : option nat) : bool :=\n'
                  '  match o with Some a => match src_zone_is_child_of t (S (S a)) a z with Some b => b | None => false end | None => false end.\n'),
        dict(name='zone_can_access_object', func='Zone::CanAccessObject', file='lib/remote/zone.cpp', props=['C13'],
             inputs=[('t', 'mz_tree'), ('l', 'nat'), ('z', 'nat'), ('is_zone_obj', 'bool'), ('obj_self', 'option nat'), ('obj_zone', 'option nat')], ret='bool',
             types={'zptr': dict(coq='option nat', truth='xz_some', eqb='xz_eqb')}, ctypes={'Zone::Ptr': 'zptr'},
             bind={'object->GetReflectionType()==Zone::TypeInstance': Bb('is_zone_obj'),
                   'static_pointer_cast<Zone>(object)': ('obj_self', 'zptr'), 'static_pointer_cast<Zone>(object->GetZone())': ('obj_zone', 'zptr'),
                   'Zone::GetLocalZone()': ('Some l', 'zptr'), 'this': ('Some z', 'zptr')},
             fns={'zptr->GetGlobal': ('xz_global t', ['zptr'], 'bool'), 'zptr->IsChildOf': ('xz_is_child_of t', ['zptr', 'zptr'], 'bool')}),
    ]),
    # ---------------------------------------------------------------------------------------- round 2: C02 send / suppress / stash / fire
    dict(area='supp', requires=['Icv.Facts.Facts_enums', 'Icv.Src.XlPrelude', 'Icv.Facts.Facts_fn_ck'], items=[
        dict(glue='notify_events', props=['C02', 'C06'], deps=[], doc='a call of Checkable::OnNotificationsRequested(this, type, ...): the requested notification type, in program order',
             text='Inductive xn_ev := XnRequest (type : Z).\n'),
        # the computation of send_notification / suppress_notification (checkable-check.cpp, "bool in_downtime = ..." up to "StateType new_stateType")
        dict(name='pcr_send_suppress', func='Checkable::ProcessCheckResult', file='lib/icinga/checkable-check.cpp', props=['C02'],
             region=(r'bool\s+in_downtime\s*=', r'StateType\s+new_stateType\s*='), outputs=['in_downtime', 'send_notification', 'suppress_notification'],
             inputs=[('is_host', 'bool'), ('notification_reachable', 'bool'), ('in_dt', 'bool'), ('acknowledged', 'bool'), ('hard_change', 'bool'),
                     ('is_volatile', 'bool'), ('old_state_type', 'Z'), ('state_type', 'Z'), ('old_state', 'Z'), ('new_state', 'Z')],
             ret='void', rcoq='bool * bool * bool', dummy='(false, false, false)',
             locals={'notification_reachable': Bb('notification_reachable'), 'hardChange': Bb('hard_change'), 'is_volatile': Bb('is_volatile'),
                     'old_stateType': Zb('old_state_type'), 'old_state': Zb('old_state'), 'new_state': Zb('new_state')},
             bind={'IsInDowntime()': Bb('in_dt'), 'IsAcknowledged()': Bb('acknowledged'), 'GetStateType()': Zb('state_type')},
             fns={'IsStateOK': ('src_checkable_is_state_ok is_host', ['Z'], 'bool')}),
        # flapping start/end + immediate-vs-stash + the stash block ("int suppressed_types = 0;" up to the reachability update);
        # suppressed_notifications and state_before_suppression are STATE variables (read, then written under the lock)
        dict(name='pcr_notify_stash', func='Checkable::ProcessCheckResult', file='lib/icinga/checkable-check.cpp', props=['C02'],
             region=(r'int\s+suppressed_types\s*=\s*0\s*;', r'if\s*\(\s*\(\s*stateChange\s*\|\|\s*hardChange\s*\)'), outputs=[],
             inputs=[('was_flapping', 'bool'), ('is_flapping', 'bool'), ('paused', 'bool'), ('in_downtime', 'bool'), ('send_notification', 'bool'),
                     ('suppress_notification', 'bool'), ('recovery', 'bool'), ('old_state_type', 'Z'), ('old_state', 'Z'),
                     ('supp0', 'Z'), ('sbs0', 'Z')],
             ret='void', dummy='(0, 0, nil)',
             locals={'was_flapping': Bb('was_flapping'), 'is_flapping': Bb('is_flapping'), 'in_downtime': Bb('in_downtime'),
                     'send_notification': Bb('send_notification'), 'suppress_notification': Bb('suppress_notification'), 'recovery': Bb('recovery'),
                     'old_stateType': Zb('old_state_type'), 'old_state': Zb('old_state')},
             state=[('$supp', 'supp0', 'Z'), ('$sbs', 'sbs0', 'Z'), ('$events', '(@nil xn_ev)', 'list xn_ev')],
             getters={'GetSuppressedNotifications()': '$supp'}, setters={'SetSuppressedNotifications': '$supp', 'SetStateBeforeSuppression': '$sbs'},
             emits={'OnNotificationsRequested': ('$events', 'XnRequest {1}', [None, 'Z', None, None, None, None])},
             skip=[r'^Log\(', r'^ObjectLock ', r'^NotifyFlapping\(origin\)$'],
             bind={'IsPaused()': Bb('paused')}),
        # Checkable::FireSuppressedNotifications (checkable-notification.cpp); the LazyInit lambda (did a parent recover recently?) is an input
        dict(name='checkable_fire_suppressed_notifications', func='Checkable::FireSuppressedNotifications', file=CK_FILE, props=['C02'],
             inputs=[('active', 'bool'), ('paused', 'bool'), ('enable_notifications', 'bool'), ('supp0', 'Z'), ('is_host', 'bool'), ('has_cr', 'bool'),
                     ('cr_state', 'Z'), ('state_type', 'Z'), ('sbs', 'Z'), ('reachable', 'bool'), ('in_downtime', 'bool'), ('acknowledged', 'bool'),
                     ('flapping', 'bool'), ('likely_soon', 'bool'), ('parent_recent', 'bool')],
             ret='void', dummy='(0, nil)',
             state=[('$supp', 'supp0', 'Z'), ('$events', '(@nil xn_ev)', 'list xn_ev')],
             getters={'GetSuppressedNotifications()': '$supp'}, setters={'SetSuppressedNotifications': '$supp'},
             emits={'Checkable::OnNotificationsRequested': ('$events', 'XnRequest {1}', [None, 'Z', None, None, None, None])},
             bind={'IsActive()': Bb('active'), 'IsPaused()': Bb('paused'), 'GetEnableNotifications()': Bb('enable_notifications'),
                   'GetLastCheckResult()': ('has_cr', 'ptr'), 'GetLastCheckResult()->GetState()': Zb('cr_state'),
                   'GetStateType()': Zb('state_type'), 'GetStateBeforeSuppression()': Zb('sbs'),
                   'dynamic_cast<Host *>(this)': ('is_host', 'ptr'),
                   'IsLikelyToBeCheckedSoon()': Bb('likely_soon'),
                   '[lambda1].Get()': Bb('parent_recent')},
             fns={'IsStateOK': ('src_checkable_is_state_ok is_host', ['Z'], 'bool'),
                  'Host::CalculateState': ('src_host_calculate_state', ['Z'], 'Z'),
                  'NotificationReasonSuppressed': ('(fun xt => src_checkable_notification_reason_suppressed xt reachable in_downtime acknowledged)', ['Z'], 'bool'),
                  'NotificationReasonApplies': ('(fun xt => src_checkable_notification_reason_applies xt is_host has_cr cr_state flapping)', ['Z'], 'bool')}),
    ]),
    # ---------------------------------------------------------------------------------------- round 2: C03 BeginExecuteNotification regions, reminder conditions
    dict(area='begin', requires=['Icv.Facts.Facts_enums', 'Icv.Src.XlPrelude', 'Icv.Facts.Facts_fn_notif'], items=[
        dict(glue='begin_events', props=['C03'], deps=[], doc='effects of BeginExecuteNotification other than attribute writes: GetNotifiedProblemUsers()->Clear(), UpdateNotificationNumber()',
             text='Inductive xb_ev := XbClearNpu | XbNumber.\n'),
        # the notification-level filters: `if (!force) { period / times window / type filter / state filter } else { log }`;
        # result = (left by `return`?, suppressed_notifications, next_notification, no_more_notifications, events)
        dict(name='begin_gate', func='Notification::BeginExecuteNotification', file='lib/icinga/notification.cpp', props=['C03'],
             region=(r'if\s*\(\s*!force\s*\)\s*\{', r'\{\s*ObjectLock\s+olock\s*\(this\);\s*UpdateNotificationNumber'), region_exit=True, outputs=[],
             inputs=[('type', 'Z'), ('force', 'bool'), ('reminder', 'bool'), ('has_period', 'bool'), ('period_inside', 'bool'), ('now', 'Z'),
                     ('has_times', 'bool'), ('begin_set', 'bool'), ('begin_v', 'Z'), ('end_set', 'bool'), ('end_v', 'Z'), ('lhsc', 'Z'),
                     ('type_filter', 'Z'), ('interval', 'Z'), ('is_svc', 'bool'), ('state', 'Z'), ('state_filter', 'Z'),
                     ('supp0', 'Z'), ('next0', 'Z'), ('nomore0', 'bool')],
             ret='void', rcoq='bool * Z * Z * bool * list xb_ev', dummy='(false, 0, 0, false, nil)',
             params={'type': Zb('type'), 'force': Bb('force'), 'reminder': Bb('reminder')},
             aliases={'checkable': 'GetCheckable()'}, symbolic_types=['Value'],
             state=[('$supp', 'supp0', 'Z'), ('$next', 'next0', 'Z'), ('$nomore', 'nomore0', 'bool'), ('$events', '(@nil xb_ev)', 'list xb_ev')],
             getters={'GetSuppressedNotifications()': '$supp'},
             setters={'SetSuppressedNotifications': '$supp', 'SetNextNotification': '$next', 'SetNoMoreNotifications': '$nomore'},
             emits={'GetNotifiedProblemUsers()->Clear': ('$events', 'XbClearNpu', [])},
             stmts={'tie(host,service)=GetHostService(GetCheckable())': {'host': 'HOST', 'service': 'SVC'}},
             bind={'GetPeriod()': ('has_period', 'ptr'), 'GetPeriod()->IsInside(Utility::GetTime())': Bb('period_inside'),
                   'Utility::GetTime()': Zb('now'), 'GetTimes()': ('has_times', 'ptr'),
                   'GetTimes()->Get("begin")!=Empty': Bb('begin_set'), 'GetTimes()->Get("begin")': Zb('begin_v'),
                   'GetTimes()->Get("end")!=Empty': Bb('end_set'), 'GetTimes()->Get("end")': Zb('end_v'),
                   'GetCheckable()->GetLastHardStateChange()': Zb('lhsc'),
                   'GetTypeFilter()': Zb('type_filter'), 'GetInterval()': Zb('interval'), 'GetStateFilter()': Zb('state_filter'),
                   'SVC': ('is_svc', 'ptr'), 'SVC->GetState()': Zb('state'), 'HOST->GetState()': Zb('state')},
             fns={'ServiceStateToFilter': ('src_service_state_to_filter', ['Z'], 'Z'), 'HostStateToFilter': ('src_host_state_to_filter', ['Z'], 'Z')}),
        # the bookkeeping block under the lock (notification number, last/next notification, no_more_notifications)
        dict(name='begin_bookkeeping', func='Notification::BeginExecuteNotification', file='lib/icinga/notification.cpp', props=['C03'],
             region=(r'\{\s*ObjectLock\s+olock\s*\(this\);\s*UpdateNotificationNumber', r'std::set<User::Ptr>\s+allUsers\s*;'), outputs=[],
             inputs=[('type', 'Z'), ('now', 'Z'), ('interval', 'Z'), ('next0', 'Z'), ('nomore0', 'bool'), ('last0', 'Z'), ('lastp0', 'Z')],
             ret='void', dummy='(0, false, 0, 0, nil)',
             params={'type': Zb('type')},
             state=[('$next', 'next0', 'Z'), ('$nomore', 'nomore0', 'bool'), ('$last', 'last0', 'Z'), ('$lastp', 'lastp0', 'Z'), ('$events', '(@nil xb_ev)', 'list xb_ev')],
             setters={'SetNextNotification': '$next', 'SetNoMoreNotifications': '$nomore', 'SetLastNotification': '$last', 'SetLastProblemNotification': '$lastp'},
             emits={'UpdateNotificationNumber': ('$events', 'XbNumber', [])},
             bind={'Utility::GetTime()': Zb('now'), 'GetInterval()': Zb('interval')}),
        # one iteration of the per-user loop up to the point where the command is queued: left by `continue` = the user is skipped
        dict(name='begin_user_skipped', func='Notification::BeginExecuteNotification', file='lib/icinga/notification.cpp', props=['C03'],
             region=(r'if\s*\(\s*!user->GetEnableNotifications\(\)\s*\)', r'Log\(LogInformation,\s*"Notification"\)\s*<<\s*"Sending "'), region_exit=True, outputs=[],
             inputs=[('type', 'Z'), ('force', 'bool'), ('reminder', 'bool'), ('u_enable', 'bool'), ('u_has_period', 'bool'), ('u_period_inside', 'bool'),
                     ('u_type_filter', 'Z'), ('is_svc', 'bool'), ('state', 'Z'), ('u_state_filter', 'Z'), ('was_notified', 'bool'), ('volatile', 'bool'),
                     ('last_notified_state', 'Z')],
             ret='void', rcoq='bool', dummy='false',
             params={'type': Zb('type'), 'force': Bb('force'), 'reminder': Bb('reminder')},
             aliases={'checkable': 'GetCheckable()', 'user': 'user', 'userName': 'user->GetName()', 'notifiedProblemUsers': 'GetNotifiedProblemUsers()'},
             stmts={'auto[host,service]=GetHostService(GetCheckable())': {'host': 'HOST', 'service': 'SVC'}},
             bind={'user->GetEnableNotifications()': Bb('u_enable'), 'user->GetTypeFilter()': Zb('u_type_filter'),
                   'GetNotifiedProblemUsers()->Contains(user->GetName())': Bb('was_notified'),
                   'GetCheckable()->GetVolatile()': Bb('volatile'),
                   'SVC': ('is_svc', 'ptr'), 'SVC->GetState()': Zb('state'), 'HOST->GetState()': Zb('state'),
                   'GetLastNotifiedStatePerUser()->Get(user->GetName())': Zb('last_notified_state')},
             fns={'CheckNotificationUserFilters': ('(fun xt xf xr => src_notification_check_user_filters xt xf xr u_has_period u_period_inside u_type_filter is_svc state u_state_filter)',
                                                   ['Z', None, 'bool', 'bool'], 'bool')}),
        # the reminder part of NotificationComponent::NotificationTimerHandler: left by `continue` = no reminder is sent
        dict(name='timer_reminder_skipped', func='NotificationComponent::NotificationTimerHandler', file='lib/notification/notificationcomponent.cpp', props=['C03'],
             region=(r'if\s*\(\s*notification->GetInterval\(\)\s*<=\s*0', r'try\s*\{'), region_exit=True, outputs=[],
             inputs=[('now', 'Z'), ('now2', 'Z'), ('interval', 'Z'), ('nomore', 'bool'), ('next0', 'Z'), ('state_type', 'Z'), ('is_svc', 'bool'), ('state', 'Z'),
                     ('ck_supp', 'Z'), ('nf_supp', 'Z'), ('reachable', 'bool'), ('in_downtime', 'bool'), ('acknowledged', 'bool'), ('flapping', 'bool')],
             ret='void', rcoq='bool * Z', dummy='(false, 0)',
             locals={'now': Zb('now'), 'reachable': Bb('reachable')},
             aliases={'notification': 'notification', 'checkable': 'CK'},
             state=[('$next', 'next0', 'Z')], getters={'notification->GetNextNotification()': '$next'}, setters={'notification->SetNextNotification': '$next'},
             stmts={'tie(host,service)=GetHostService(CK)': {'host': 'HOST', 'service': 'SVC'}},
             bind={'notification->GetInterval()': Zb('interval'), 'notification->GetNoMoreNotifications()': Bb('nomore'),
                   'Utility::GetTime()': Zb('now2'), 'CK->GetStateType()': Zb('state_type'),
                   'SVC': ('is_svc', 'ptr'), 'SVC->GetState()': Zb('state'), 'HOST->GetState()': Zb('state'),
                   'CK->GetSuppressedNotifications()': Zb('ck_supp'), 'notification->GetSuppressedNotifications()': Zb('nf_supp'),
                   'CK->IsInDowntime()': Bb('in_downtime'), 'CK->IsAcknowledged()': Bb('acknowledged'), 'CK->IsFlapping()': Bb('flapping')}),
    ]),
    # ---------------------------------------------------------------------------------------- round 2: C06 acknowledgements
    dict(area='ack', requires=['Icv.Facts.Facts_enums', 'Icv.Src.XlPrelude', 'Icv.Facts.Facts_fn_ck'], items=[
        dict(glue='ack_events', props=['C06'], deps=[], doc='effects of the acknowledgement functions other than attribute writes, in program order',
             text='Inductive xa_ev := XaCleared | XaSet (type : Z) | XaNotify (type : Z) | XaApply.\n'),
        dict(name='checkable_is_acknowledged', func='Checkable::IsAcknowledged', file='lib/icinga/checkable.cpp', props=['C06', 'C02'],
             inputs=[('now', 'Z'), ('ack_raw', 'Z'), ('ack_expiry', 'Z')], ret='bool',
             bind={'const_cast<Checkable *>(this)->GetAcknowledgement()': ('fst (src_checkable_get_acknowledgement now ack_raw ack_expiry)', 'Z'),
                   'GetAcknowledgementRaw()': Zb('ack_raw'), 'GetAcknowledgementExpiry()': Zb('ack_expiry'), 'Utility::GetTime()': Zb('now')}),
        dict(name='checkable_clear_acknowledgement', func='Checkable::ClearAcknowledgement', file='lib/icinga/checkable.cpp', props=['C06'],
             inputs=[('ack_raw', 'Z'), ('ack_expiry', 'Z'), ('change_time', 'Z'), ('last_change0', 'Z')], ret='void', dummy='(0, 0, 0, nil)',
             params={'changeTime': Zb('change_time')},
             state=[('$raw', 'ack_raw', 'Z'), ('$exp', 'ack_expiry', 'Z'), ('$lastchange', 'last_change0', 'Z'), ('$events', '(@nil xa_ev)', 'list xa_ev')],
             getters={'GetAcknowledgementRaw()': '$raw', 'GetAcknowledgementExpiry()': '$exp'},
             setters={'SetAcknowledgementRaw': '$raw', 'SetAcknowledgementExpiry': '$exp', 'SetAcknowledgementLastChange': '$lastchange'},
             emits={'OnAcknowledgementCleared': ('$events', 'XaCleared', [None, None, None, None])}),
        dict(name='checkable_acknowledge_problem', func='Checkable::AcknowledgeProblem', file='lib/icinga/checkable.cpp', props=['C06'],
             inputs=[('type', 'Z'), ('notify', 'bool'), ('expiry', 'Z'), ('change_time', 'Z'), ('paused', 'bool'), ('ack_raw', 'Z'), ('ack_expiry', 'Z'),
                     ('last_change0', 'Z')], ret='void', dummy='(0, 0, 0, nil)',
             params={'type': Zb('type'), 'notify': Bb('notify'), 'expiry': Zb('expiry'), 'changeTime': Zb('change_time')},
             state=[('$raw', 'ack_raw', 'Z'), ('$exp', 'ack_expiry', 'Z'), ('$lastchange', 'last_change0', 'Z'), ('$events', '(@nil xa_ev)', 'list xa_ev')],
             setters={'SetAcknowledgementRaw': '$raw', 'SetAcknowledgementExpiry': '$exp', 'SetAcknowledgementLastChange': '$lastchange'},
             emits={'OnNotificationsRequested': ('$events', 'XaNotify {1}', [None, 'Z', None, None, None, None]),
                    'OnAcknowledgementSet': ('$events', 'XaSet {3}', [None, None, None, 'Z', None, None, None, None, None])},
             bind={'IsPaused()': Bb('paused')}),
        dict(glue='ack_state_passing', props=['C06'], deps=['checkable_get_acknowledgement', 'checkable_clear_acknowledgement'],
             doc='GetAcknowledgement() / ClearAcknowledgement("") as STATE TRANSFORMERS over (acknowledgement_raw, acknowledgement_expiry, events): '
                 'every ClearAcknowledgement("") the translated GetAcknowledgement reports is executed by the translated ClearAcknowledgement',
             text='Definition xa_clear (raw exp : Z) (evs : list xa_ev) : Z * Z * list xa_ev :=\n'
                  "  let '(raw', exp', _, ev') := src_checkable_clear_acknowledgement raw exp 0 0 in (raw', exp', evs ++ ev').\n"
                  'Definition xa_get_ack (now raw exp : Z) (evs : list xa_ev) : Z * Z * Z * list xa_ev :=\n'
                  "  let '(v, cl) := src_checkable_get_acknowledgement now raw exp in\n"
                  "  match cl with [] => (v, raw, exp, evs) | _ :: _ => let '(raw', exp', evs') := xa_clear raw exp evs in (v, raw', exp', evs') end.\n"),
        # the "remove acknowledgements" block of ProcessCheckResult: GetAcknowledgement() is read up to three times, with its lazy
        # expiry and ClearAcknowledgement("") writing in between -> explicit state passing
        dict(name='pcr_ack_clear', func='Checkable::ProcessCheckResult', file='lib/icinga/checkable-check.cpp', props=['C06'],
             region=(r'if\s*\(\s*stateChange\s*\)\s*\{\s*SetLastStateChange', r'bool\s+hardChange\s*='), outputs=['remove_acknowledgement_comments'],
             inputs=[('now', 'Z'), ('is_host', 'bool'), ('state_change', 'bool'), ('new_state', 'Z'), ('cr_end', 'Z'), ('lsc0', 'Z'),
                     ('ack_raw', 'Z'), ('ack_expiry', 'Z')], ret='void', rcoq='bool * Z * Z * Z * list xa_ev', dummy='(false, 0, 0, 0, nil)',
             locals={'stateChange': Bb('state_change'), 'new_state': Zb('new_state')},
             state=[('$lsc', 'lsc0', 'Z'), ('$raw', 'ack_raw', 'Z'), ('$exp', 'ack_expiry', 'Z'), ('$events', '(@nil xa_ev)', 'list xa_ev')],
             setters={'SetLastStateChange': '$lsc'},
             calls_st={'GetAcknowledgement()': dict(term='xa_get_ack now {$raw} {$exp} {$events}', updates=['$raw', '$exp', '$events'], ret='Z'),
                       'ClearAcknowledgement': dict(term='xa_clear {$raw} {$exp} {$events}', updates=['$raw', '$exp', '$events'], ret=None, args=[None])},
             bind={'cr->GetExecutionEnd()': Zb('cr_end')},
             fns={'IsStateOK': ('src_checkable_is_state_ok is_host', ['Z'], 'bool')}),
        # preconditions of the API action (expiry in the future, not OK/Up, not already acknowledged): HTTP status of the refusal, 0 = proceeds
        dict(name='apiactions_acknowledge_problem_refusal', func='ApiActions::AcknowledgeProblem', file='lib/icinga/apiactions.cpp', props=['C06'],
             region=(r'if\s*\(\s*params->Contains\("expiry"\)\s*\)', r'ConfigObjectsSharedLock\s+lock'), region_exit=True, exit_code_of='ApiActions::CreateResult',
             outputs=['timestamp'],
             inputs=[('now', 'Z'), ('expiry_given', 'bool'), ('expiry_param', 'Z'), ('timestamp0', 'Z'), ('is_svc', 'bool'), ('state', 'Z'),
                     ('ack_raw', 'Z'), ('ack_expiry', 'Z')], ret='void', rcoq='Z * Z', dummy='(0, 0)',
             locals={'timestamp': Zb('timestamp0')}, aliases={'checkable': 'CK'},
             skip=[r'^Log\(', r'^ObjectLock '],
             stmts={'tie(host,service)=GetHostService(CK)': {'host': 'HOST', 'service': 'SVC'}},
             bind={'params->Contains("expiry")': Bb('expiry_given'), 'HttpUtility::GetLastParameter(params,"expiry")': Zb('expiry_param'),
                   'Utility::GetTime()': Zb('now'), 'SVC': ('is_svc', 'ptr'), 'SVC->GetState()': Zb('state'), 'HOST->GetState()': Zb('state'),
                   'CK->IsAcknowledged()': ('src_checkable_is_acknowledged now ack_raw ack_expiry', 'bool')}),
        # the cluster handler: AcknowledgeProblem is applied iff the message passes the origin checks and the object is not acknowledged
        dict(name='clusterevents_acknowledgement_set_handler', func='ClusterEvents::AcknowledgementSetAPIHandler', file='lib/icinga/clusterevents.cpp', props=['C06'],
             inputs=[('now', 'Z'), ('has_endpoint', 'bool'), ('has_host', 'bool'), ('has_service_param', 'bool'), ('has_checkable', 'bool'), ('from_zone', 'bool'), ('can_access', 'bool'),
                     ('ack_raw', 'Z'), ('ack_expiry', 'Z')], ret='Z', rcoq='Z * list xa_ev', dummy='(0, nil)',
             state=[('$events', '(@nil xa_ev)', 'list xa_ev')],
             emits={'checkable->AcknowledgeProblem': ('$events', 'XaApply', [None] * 8)},
             skip=[r'^Log\(', r'^ObjectLock '],
             bind={'Empty': ('0', 'Z'), 'origin->FromClient->GetEndpoint()': ('has_endpoint', 'ptr'), 'Host::GetByName(params->Get("host"))': ('has_host', 'ptr'),
                   'params->Contains("service")': Bb('has_service_param'), 'checkable': ('has_checkable', 'ptr'),
                   'origin->FromZone': ('from_zone', 'ptr'), 'origin->FromZone->CanAccessObject(checkable)': Bb('can_access'),
                   'checkable->IsAcknowledged()': ('src_checkable_is_acknowledged now ack_raw ack_expiry', 'bool')}),
    ]),
    # ---------------------------------------------------------------------------------------- round 2: C05 downtime start / removal / timers
    dict(area='dt', requires=['Icv.Facts.Facts_enums', 'Icv.Src.XlPrelude', 'Icv.Ck.CkFull', 'Icv.Facts.Facts_fn_ck'], items=[
        dict(glue='downtime_events2', props=['C05'], deps=['downtime_trigger_downtime'],
             doc='effects of Downtime::Start / RemoveDowntime / the two timer handlers, in program order; TriggerDowntime(t) on this object as a '
                 'state transformer over trigger_time built from the TRANSLATED TriggerDowntime (its own effects are kept as one event)',
             text='Definition xdt_name := Z.\n'
                  'Inductive xs_ev := XsStarted | XsTrigger (t : Z) (inner : list xdt_ev) | XsRemoveChild (name : Z) | XsRemovalInfo | XsThrow\n'
                  '  | XsRemove (name : Z) (children : bool) (reason : Z).\n'
                  'Definition xs_trigger (now : Z) (fixed : bool) (start_time end_time trigger_time duration : Z) (triggers : list Z) (dt_exists : Z -> bool)\n'
                  '  (t : Z) (evs : list xs_ev) : Z * list xs_ev :=\n'
                  "  let '(tr, inner) := src_downtime_trigger_downtime now fixed start_time end_time trigger_time duration t triggers dt_exists in\n"
                  '  (tr, evs ++ [XsTrigger t inner]).\n'),
        # Downtime::Start: the two trigger decisions; CanBeTriggered() is read AFTER the first TriggerDowntime may have written trigger_time
        dict(name='downtime_start_trigger', func='Downtime::Start', file='lib/icinga/downtime.cpp', props=['C05'],
             region=(r'if\s*\(\s*!GetFixed\(\)\s*&&\s*checkable->GetProblem\(\)\s*\)', r'\s*\Z'), outputs=[],
             inputs=DT_IN + [('entry_time', 'Z'), ('problem', 'bool'), ('lsc', 'Z'), ('triggers', 'list Z'), ('dt_exists', 'Z -> bool')],
             ret='void', dummy='(0, nil)', aliases={'checkable': 'GetCheckable()'},
             state=[('$trigger_time', 'trigger_time', 'Z'), ('$events', '(@nil xs_ev)', 'list xs_ev')],
             calls_st={'TriggerDowntime': dict(term='xs_trigger now fixed start_time end_time {$trigger_time} duration triggers dt_exists {0} {$events}',
                                               updates=['$trigger_time', '$events'], ret=None, args=['Z'])},
             emits={'OnDowntimeStarted': ('$events', 'XsStarted', [None])},
             fns={'std::fmax': ('Z.max', ['Z', 'Z'], 'Z')},
             bind=dict({k: v for k, v in DT_BIND.items() if k != 'GetTriggerTime()'},
                       **{'GetEntryTime()': Zb('entry_time'), 'GetCheckable()->GetProblem()': Bb('problem'), 'GetCheckable()->GetLastStateChange()': Zb('lsc'),
                          'CanBeTriggered()': ('src_downtime_can_be_triggered ' + DT_ARGS.replace('trigger_time', '{$trigger_time}'), 'bool')})),
        # Downtime::RemoveDowntime up to the deletion: silent return, refusal (exception), recursion into the children, removal info
        dict(name='downtime_remove_pre', func='Downtime::RemoveDowntime', file='lib/icinga/downtime.cpp', props=['C05'],
             region=(r'Downtime::Ptr\s+downtime\s*=\s*Downtime::GetByName\(id\);', r'Array::Ptr\s+errors\s*='), region_exit=True, outputs=[],
             inputs=[('found', 'bool'), ('is_api', 'bool'), ('owned', 'bool'), ('include_children', 'bool'), ('reason', 'Z'), ('children', 'list xdt_name')],
             ret='void', rcoq='bool * list xs_ev', dummy='(false, nil)', abort='(true, [XsThrow])', abort_stmts=[r'^BOOST_THROW_EXCEPTION\('],
             params={'includeChildren': Bb('include_children'), 'removalReason': Zb('reason')},
             state=[('$events', '(@nil xs_ev)', 'list xs_ev')],
             lists={'Downtime::GetByName(id)->GetChildren()': ('children', 'xdt_name')},
             emits={'Downtime::RemoveDowntime': ('$events', 'XsRemoveChild {0}', ['Z', None, None, None]),
                    'downtime->SetRemovalInfo': ('$events', 'XsRemovalInfo', [None, None])},
             bind={'Downtime::GetByName(id)': ('found', 'ptr'), 'Downtime::GetByName(id)->GetPackage()!="_api"': ('negb is_api', 'bool'),
                   'Downtime::GetByName(id)->GetConfigOwner().IsEmpty()': ('negb owned', 'bool'), 'child->GetName()': Zb('child')}),
        # one iteration of DowntimesStartTimerHandler / DowntimesOrphanedTimerHandler (the attributes are those of the downtime at that moment)
        dict(name='downtime_start_timer_iter', func='Downtime::DowntimesStartTimerHandler', file='lib/icinga/downtime.cpp', props=['C05'],
             region=(r'if\s*\(\s*downtime->IsActive\(\)\s*&&', r'\}\s*\Z'), outputs=[],
             inputs=DT_IN + [('entry_time', 'Z'), ('active', 'bool')], ret='void', dummy='nil', aliases={'downtime': 'downtime'},
             state=[('$events', '(@nil xs_ev)', 'list xs_ev')],
             emits={'OnDowntimeStarted': ('$events', 'XsStarted', [None]), 'downtime->TriggerDowntime': ('$events', 'XsTrigger {0} nil', ['Z'])},
             fns={'std::fmax': ('Z.max', ['Z', 'Z'], 'Z')},
             bind={'downtime->IsActive()': Bb('active'), 'downtime->GetFixed()': Bb('fixed'), 'downtime->GetStartTime()': Zb('start_time'),
                   'downtime->GetEntryTime()': Zb('entry_time'),
                   'downtime->CanBeTriggered()': ('src_downtime_can_be_triggered ' + DT_ARGS, 'bool')}),
        dict(name='downtime_orphaned_timer_iter', func='Downtime::DowntimesOrphanedTimerHandler', file='lib/icinga/downtime.cpp', props=['C05'],
             region=(r'if\s*\(\s*downtime->IsActive\(\)\s*&&', r'\}\s*\Z'), outputs=[],
             inputs=[('name', 'Z'), ('active', 'bool'), ('valid_owner', 'bool')], ret='void', dummy='nil', aliases={'downtime': 'downtime'},
             state=[('$events', '(@nil xs_ev)', 'list xs_ev')],
             emits={'RemoveDowntime': ('$events', 'XsRemove {0} {1} {2}', ['Z', 'bool', 'Z'])},
             bind={'downtime->IsActive()': Bb('active'), 'downtime->HasValidConfigOwner()': Bb('valid_owner'), 'downtime->GetName()': Zb('name')}),
    ]),
    # ---------------------------------------------------------------------------------------- round 2: C10 UpdateObjectAuthority, SetAuthority
    dict(area='auth2', requires=['Icv.Src.XlPrelude', 'Icv.Auth.AuModel', 'Icv.Facts.Facts_fn_auth'], items=[
        dict(glue='authority_events', props=['C10'], deps=[], doc='effects of ConfigObject::SetAuthority other than attribute writes (the virtual Resume() / Pause() calls)',
             text='Inductive xau_ev := XauResume | XauPause.\n'
                  'Definition xau_len (l : list au_bytes) : Z := Z.of_nat (List.length l).\n'),
        # the collection of the connected endpoints of the local zone and the cold-start early return
        dict(name='update_authority_endpoints', func='ApiListener::UpdateObjectAuthority', file='lib/remote/apilistener-authority.cpp', props=['C10'],
             region=(r'int\s+num_total\s*=\s*0\s*;', r'std::sort\s*\('), region_exit=True, outputs=['endpoints'],
             inputs=[('members', 'list au_bytes'), ('me', 'au_bytes'), ('conn', 'au_bytes -> bool'), ('now', 'Z'), ('start', 'Z')],
             ret='void', rcoq='bool * list au_bytes', dummy='(false, nil)',
             types={'ep': dict(coq='au_bytes', eqb='au_beq'), 'eplist': dict(coq='list au_bytes', elem='ep', default='[]')},
             locals={'endpoints': ('(@nil au_bytes)', 'eplist')}, aliases={'my_endpoint': 'ME', 'my_zone': 'ZONE'},
             lists={'ZONE->GetEndpoints()': ('members', 'ep')}, appends={'endpoints.push_back': 'endpoints'},
             bind={'ME': ('me', 'ep'), 'Application::GetStartTime()': Zb('start'), 'Utility::GetTime()': Zb('now')},
             fns={'ep->GetConnected': ('conn', ['ep'], 'bool'), 'eplist.size': ('xau_len', ['eplist'], 'u64')}),
        # the authority of one object: true without a zone, otherwise the endpoint at SDBM(name) % size is this endpoint
        dict(name='update_authority_decision', func='ApiListener::UpdateObjectAuthority', file='lib/remote/apilistener-authority.cpp', props=['C10'],
             region=(r'bool\s+authority\s*;', r'object->SetAuthority\s*\('), outputs=['authority'],
             inputs=[('has_zone', 'bool'), ('endpoints', 'list au_bytes'), ('me', 'au_bytes'), ('name', 'list Z'), ('npos', 'Z')],
             ret='void', rcoq='bool', dummy='false',
             types={'ep': dict(coq='au_bytes', eqb='au_beq'), 'eplist': dict(coq='list au_bytes', elem='ep', default='[]')},
             locals={'endpoints': ('endpoints', 'eplist')}, aliases={'my_endpoint': 'ME', 'my_zone': 'ZONE'},
             bind={'ME': ('me', 'ep'), 'ZONE': ('has_zone', 'ptr'), 'object->GetName()': ('name', 'chars')},
             fns={'Utility::SDBM': ('(fun xs => src_utility_sdbm xs npos)', ['chars'], 'u64'), 'eplist.size': ('xau_len', ['eplist'], 'u64')}),
        dict(name='configobject_set_authority', func='ConfigObject::SetAuthority', file='lib/base/configobject.cpp', props=['C10'],
             inputs=[('authority', 'bool'), ('paused0', 'bool')], ret='void', dummy='(false, nil)',
             params={'authority': Bb('authority')},
             state=[('$paused', 'paused0', 'bool'), ('$events', '(@nil xau_ev)', 'list xau_ev')],
             getters={'GetPaused()': '$paused'}, setters={'SetPaused': '$paused'},
             emits={'Resume': ('$events', 'XauResume', []), 'Pause': ('$events', 'XauPause', [])},
             skip=[r'^Log\(', r'^ObjectLock ', r'^SetResumeCalled\(false\)$', r'^SetPauseCalled\(false\)$', r'^ASSERT\(GetResumeCalled\(\)\)$', r'^ASSERT\(GetPauseCalled\(\)\)$']),
    ]),
    # ---------------------------------------------------------------------------------------- round 2: C13/C11 message origin, relay target zones
    dict(area='zone2', requires=['Icv.Src.XlPrelude', 'Icv.Msg.MzModel', 'Icv.Facts.Facts_fn_zone'], items=[
        # JsonRpcConnection::MessageHandler: the "ignore old messages" filter and the construction of the origin (FromZone)
        dict(name='jsonrpc_message_origin', func='JsonRpcConnection::MessageHandler', file='lib/remote/jsonrpcconnection.cpp', props=['C13', 'C11'],
             region=(r'if\s*\(\s*m_Endpoint\s*&&\s*message->Contains\("ts"\)\s*\)', r'Value\s+vmethod\s*;'), region_exit=True, outputs=[],
             inputs=[('has_ep', 'bool'), ('has_ts', 'bool'), ('ts', 'Z'), ('rlp0', 'Z'), ('ep_zone', 'option nat'), ('l', 'nat'), ('claim', 'option nat')],
             ret='void', rcoq='bool * Z * option nat', dummy='(false, 0, None)',
             types={'zptr': dict(coq='option nat', truth='xz_some', eqb='xz_eqb')}, ctypes={'Zone::Ptr': 'zptr'},
             state=[('$rlp', 'rlp0', 'Z'), ('$fz', '(@None nat)', 'zptr')],
             getters={'m_Endpoint->GetRemoteLogPosition()': '$rlp'}, setters={'m_Endpoint->SetRemoteLogPosition': '$rlp'},
             assigns={'[new MessageOrigin]->FromZone': '$fz'},
             skip=[r'^Log\(', r'^\[new MessageOrigin\]->FromClient=this$'],
             bind={'m_Endpoint': ('has_ep', 'ptr'), 'message->Contains("ts")': Bb('has_ts'), 'message->Get("ts")': Zb('ts'),
                   'm_Endpoint->GetZone()': ('ep_zone', 'zptr'), 'Zone::GetLocalZone()': ('Some l', 'zptr'),
                   'Zone::GetByName(message->Get("originZone"))': ('claim', 'zptr')}),
        # ApiListener::RelayMessageOne: which zones are candidates at all (early return; the local zone and its children for a global zone)
        dict(name='relay_target_zones', func='ApiListener::RelayMessageOne', file='lib/remote/apilistener.cpp', props=['C13', 'C11'],
             region=(r'if\s*\(\s*!targetZone->GetGlobal\(\)\s*&&', r'bool\s+needsReplay\s*='), region_exit=True, exit_ignore_value=True, outputs=['allTargetZones'],
             inputs=[('t', 'mz_tree'), ('l', 'nat'), ('a', 'nat'), ('zones', 'list (option nat)')],
             ret='void', rcoq='bool * list (option nat)', dummy='(false, nil)',
             types={'zptr': dict(coq='option nat', truth='xz_some', eqb='xz_eqb'), 'zlist': dict(coq='list (option nat)', elem='zptr', default='None')},
             ctypes={'Zone::Ptr': 'zptr', 'std::set<>': 'zlist'},
             params={'targetZone': ('Some a', 'zptr')}, locals={'localZone': ('(Some l)', 'zptr'), 'allTargetZones': ('(@nil (option nat))', 'zlist')},     # the set is empty when the region is left before its declaration
             lists={'ConfigType::GetObjectsByType<>()': ('zones', 'zptr')}, appends={'allTargetZones.insert': 'allTargetZones'},
             fns={'zptr->GetGlobal': ('xz_global t', ['zptr'], 'bool'), 'zptr->GetParent': ('xz_parent t', ['zptr'], 'zptr')}),
    ]),
    # ---------------------------------------------------------------------------------------- round 2: C12 replay / clean-up conditions
    dict(area='replay', requires=['Icv.Src.XlPrelude', 'Icv.Replay.RlModel'], items=[
        # ReplayLog: is a decoded log entry skipped (already seen by the peer, security object gone or not accessible)?
        dict(name='replaylog_entry_skipped', func='ApiListener::ReplayLog', file='lib/remote/apilistener.cpp', props=['C12'],
             region=(r'if\s*\(\s*pmessage->Get\("timestamp"\)\s*<=\s*peer_ts\s*\)', r'try\s*\{\s*client->SendRawMessage'), region_exit=True, outputs=[],
             inputs=[('ts', 'Z'), ('peer_ts', 'Z'), ('has_sec', 'bool'), ('obj_found', 'bool'), ('can_access', 'bool')],
             ret='void', rcoq='bool', dummy='false',
             locals={'peer_ts': Zb('peer_ts')}, aliases={'pmessage': 'pmessage', 'target_zone': 'target_zone'},
             bind={'pmessage->Get("timestamp")': Zb('ts'), 'pmessage->Get("secobj")': ('has_sec', 'ptr'),
                   'ConfigObject::GetObject(pmessage->Get("secobj")->Get("type"),pmessage->Get("secobj")->Get("name"))': ('obj_found', 'ptr'),
                   'target_zone->CanAccessObject(ConfigObject::GetObject(pmessage->Get("secobj")->Get("type"),pmessage->Get("secobj")->Get("name")))': Bb('can_access')}),
        # ApiTimerHandler: does this endpoint still need the log file named ts?  (one iteration of the inner loop; need is set before the break)
        dict(name='apitimer_file_needed_by', func='ApiListener::ApiTimerHandler', file='lib/remote/apilistener.cpp', props=['C12'],
             region=(r'if\s*\(\s*endpoint\s*==\s*GetLocalEndpoint\(\)\s*\)\s*continue;\s*auto\s+zone', r'\}\s*if\s*\(\s*!need\s*\)'), region_exit=True, outputs=['need'],
             inputs=[('t', 'rl_topo'), ('is_local', 'bool'), ('ep_zone', 'Z'), ('local_zone', 'Z'), ('log_duration', 'Z'), ('local_log_position', 'Z'),
                     ('ts', 'Z'), ('now', 'Z'), ('need0', 'bool')],
             ret='void', rcoq='bool * bool', dummy='(false, false)',
             types={'rz': dict(coq='Z', eqb='Z.eqb')},
             locals={'ts': Zb('ts'), 'now': Zb('now'), 'need': Bb('need0'), 'localZone': ('local_zone', 'rz')}, aliases={'endpoint': 'endpoint'},
             bind={'endpoint==GetLocalEndpoint()': Bb('is_local'), 'endpoint->GetZone()': ('ep_zone', 'rz'),
                   'endpoint->GetLogDuration()': Zb('log_duration'), 'endpoint->GetLocalLogPosition()': Zb('local_log_position')},
             fns={'rz->GetParent': ('rl_zparent t', ['rz'], 'rz')}),
    ]),
    # ---------------------------------------------------------------------------------------- round 2: C08 segment arithmetic of TimePeriod
    dict(area='tp2', requires=['Icv.Src.XlPrelude'], items=[
        # one iteration of the merge loop of AddSegment: the segment is edited in place (state $sb/$se); left by `return` = merged
        dict(name='timeperiod_add_segment_iter', func='TimePeriod::AddSegment', file='lib/icinga/timeperiod.cpp', props=['C08'], nparams=2,
             region=(r'if\s*\(\s*segment->Get\("begin"\)\s*<=\s*begin\s*&&\s*segment->Get\("end"\)\s*>=\s*end\s*\)', r'\}\s*\}\s*Dictionary::Ptr\s+segment\s*='),
             region_exit=True, outputs=[],
             inputs=[('b', 'Z'), ('e', 'Z'), ('sb0', 'Z'), ('se0', 'Z')], ret='void', rcoq='bool * Z * Z', dummy='(false, 0, 0)',
             params={'begin': Zb('b'), 'end': Zb('e')}, aliases={'segment': 'segment'},
             state=[('$sb', 'sb0', 'Z'), ('$se', 'se0', 'Z')],
             getters={'segment->Get("begin")': '$sb', 'segment->Get("end")': '$se'},
             setters={'segment->Set("begin")': '$sb', 'segment->Set("end")': '$se'}),
        # one iteration of the loop of RemoveSegment: what is appended to newSegments
        dict(name='timeperiod_remove_segment_iter', func='TimePeriod::RemoveSegment', file='lib/icinga/timeperiod.cpp', props=['C08'], nparams=2,
             region=(r'if\s*\(\s*segment->Get\("begin"\)\s*>=\s*begin\s*&&\s*segment->Get\("end"\)\s*<=\s*end\s*\)\s*continue;', r'\}\s*SetSegments\(newSegments\)'),
             region_exit=True, outputs=[],
             inputs=[('b', 'Z'), ('e', 'Z'), ('sb0', 'Z'), ('se0', 'Z')], ret='void', rcoq='bool * Z * Z * list (Z * Z)', dummy='(false, 0, 0, nil)',
             params={'begin': Zb('b'), 'end': Zb('e')}, aliases={'segment': 'segment', 'newSegments': 'newSegments'},
             types={'seg': dict(coq='(Z * Z)%type')}, dict_shape=('seg', ['begin', 'end']),
             state=[('$sb', 'sb0', 'Z'), ('$se', 'se0', 'Z'), ('$out', '(@nil (Z * Z))', 'list (Z * Z)')],
             getters={'segment->Get("begin")': '$sb', 'segment->Get("end")': '$se'},
             setters={'segment->Set("begin")': '$sb', 'segment->Set("end")': '$se'},
             bind={'segment': ('({$sb}, {$se})', 'seg')},
             emits={'newSegments->Add': ('$out', '{0}', ['seg'])}),
        # PurgeSegments as a whole: early returns, valid_begin, the filtered copy handed to SetSegments
        dict(name='timeperiod_purge_segments', func='TimePeriod::PurgeSegments', file='lib/icinga/timeperiod.cpp', props=['C08'],
             inputs=[('e', 'Z'), ('vb_empty', 'bool'), ('vb0', 'Z'), ('has_segments', 'bool'), ('segments', 'list (Z * Z)')],
             ret='void', dummy='(0, nil, nil)',
             params={'end': Zb('e')},
             state=[('$vb', 'vb0', 'Z'), ('$out', '(@nil (Z * Z))', 'list (Z * Z)'), ('$set', '(@nil unit)', 'list unit')],
             getters={'GetValidBegin()': '$vb'}, setters={'SetValidBegin': '$vb'},
             skip=[r'^Log\(', r'^ObjectLock ', r'^ASSERT\(OwnsLock\(\)\)$'],
             emits={'newSegments->Add': ('$out', 'segment', [None]), 'SetSegments': ('$set', 'tt', [None])},
             bind={'GetValidBegin().IsEmpty()': Bb('vb_empty'), 'GetSegments()': ('has_segments', 'ptr'), 'segment->Get("end")': ('snd segment', 'Z')},
             lists={'GetSegments()': ('segments', '(Z * Z)%type')}),
    ]),
    # ---------------------------------------------------------------------------------------- round 2: C09 argument assembly, shell escaping
    dict(area='macro2', requires=['Icv.Src.XlPrelude', 'Icv.Macro.MxDefs', 'Icv.Macro.MxModel'], items=[
        dict(name='macroprocessor_add_argument_helper', func='MacroProcessor::AddArgumentHelper', file='lib/icinga/macroprocessor.cpp', props=['C09'],
             inputs=[('key', 'mx_bytes'), ('value', 'mx_bytes'), ('add_key', 'bool'), ('add_value', 'bool'), ('sep_set', 'bool'), ('sep', 'mx_bytes')],
             ret='void', dummy='nil',
             types={'bytes': dict(coq='mx_bytes', elem='byte', default='0%N'), 'byte': dict(coq='N', eqb='N.eqb')},
             strings=dict(string='bytes', char='byte', lit='%d%%N'),
             params={'key': ('key', 'bytes'), 'value': ('value', 'bytes'), 'add_key': Bb('add_key'), 'add_value': Bb('add_value'), 'separator': ('sep', 'bytes')},
             state=[('$out', '(@nil mx_bytes)', 'list mx_bytes')],
             emits={'args->Add': ('$out', '{0}', ['bytes'])},
             bind={'separator.GetType()!=ValueEmpty': Bb('sep_set')}),
        # the emission of an array-valued argument: the key is repeated according to skip_key / repeat_key
        dict(name='resolve_arguments_emit_array', func='MacroProcessor::ResolveArguments', file='lib/icinga/macroprocessor.cpp', props=['C09'],
             region=(r'bool\s+first\s*=\s*true\s*;', r'\}\s*else\s*AddArgumentHelper\(command_arr,\s*arg\.Key,\s*arg\.AValue'), outputs=[],
             inputs=[('key', 'mx_bytes'), ('skip_key', 'bool'), ('repeat_key', 'bool'), ('skip_value', 'bool'), ('sep_set', 'bool'), ('sep', 'mx_bytes'),
                     ('values', 'list mx_bytes')], ret='void', dummy='nil',
             types={'bytes': dict(coq='mx_bytes', elem='byte', default='0%N'), 'byte': dict(coq='N', eqb='N.eqb')},
             state=[('$out', '(@nil mx_bytes)', 'list mx_bytes')],
             lists={'static_cast<Array::Ptr>(arg.AValue)': ('values', 'bytes')},
             calls_st={'AddArgumentHelper': dict(term='(fun xk xv xak xav => {$out} ++ src_macroprocessor_add_argument_helper xk xv xak xav sep_set sep) {0} {1} {2} {3}',
                                                 updates=['$out'], ret=None, args=[None, 'bytes', 'bytes', 'bool', 'bool', None])},
             bind={'arg.SkipKey': Bb('skip_key'), 'arg.RepeatKey': Bb('repeat_key'), 'arg.SkipValue': Bb('skip_value'), 'arg.Key': ('key', 'bytes')}),
        dict(name='utility_escape_shell_arg', func='Utility::EscapeShellArg', file='lib/base/utility.cpp', props=['C09'],
             inputs=[('s', 'mx_bytes')], ret='bytes', rcoq='mx_bytes', dummy='nil', defines={'_WIN32': False},
             types={'bytes': dict(coq='mx_bytes', elem='byte', default='0%N'), 'byte': dict(coq='N', eqb='N.eqb')}, ctypes={'String': 'bytes', 'char': 'byte'},
             strings=dict(string='bytes', char='byte', lit='%d%%N'),
             lists={'s': ('s', 'byte')}),
    ]),
    # ---------------------------------------------------------------------------------------- round 2: C12/C11 RelayMessageOne, one target endpoint
    dict(area='relay', requires=['Icv.Src.XlPrelude', 'Icv.Replay.RlModel'], items=[
        dict(glue='relay_events', props=['C12', 'C11'], deps=[], doc='effects of one iteration of the endpoint loop of RelayMessageOne',
             text='Inductive xrl_ev := XrlSkip | XrlSend.\n'),
        dict(name='relay_endpoint_iter', func='ApiListener::RelayMessageOne', file='lib/remote/apilistener.cpp', props=['C12', 'C11'],
             region=(r'if\s*\(\s*targetEndpoint\s*==\s*localEndpoint\s*\)\s*continue;', r'\}\s*if\s*\(\s*log_needed\s*&&\s*!log_done\s*\)'),
             region_exit=True, outputs=['relayed', 'log_needed', 'log_done'],
             inputs=[('is_self', 'bool'), ('connected', 'bool'), ('is_local_zone', 'bool'), ('relayed0', 'bool'), ('log_needed0', 'bool'), ('log_done0', 'bool'),
                     ('has_origin', 'bool'), ('has_from_client', 'bool'), ('from_this_endpoint', 'bool'), ('has_from_zone', 'bool'), ('from_this_zone', 'bool'),
                     ('we_are_master', 'bool'), ('target_is_master', 'bool')],
             ret='void', rcoq='bool * bool * bool * bool * list xrl_ev', dummy='(false, false, false, false, nil)',
             locals={'relayed': Bb('relayed0'), 'log_needed': Bb('log_needed0'), 'log_done': Bb('log_done0')},
             aliases={'targetEndpoint': 'TE', 'localEndpoint': 'LE', 'currentTargetZone': 'CZ', 'localZone': 'LZ', 'currentZoneMaster': 'ZM',
                      'skippedEndpoints': 'skippedEndpoints'},
             state=[('$events', '(@nil xrl_ev)', 'list xrl_ev')],
             emits={'skippedEndpoints.push_back': ('$events', 'XrlSkip', [None]), 'SyncSendMessage': ('$events', 'XrlSend', [None, None])},
             bind={'TE==LE': Bb('is_self'), 'TE->GetConnected()': Bb('connected'), 'CZ==LZ': Bb('is_local_zone'), 'CZ!=LZ': ('negb is_local_zone', 'bool'),
                   'origin': ('has_origin', 'ptr'), 'origin->FromClient': ('has_from_client', 'ptr'),
                   'TE==origin->FromClient->GetEndpoint()': Bb('from_this_endpoint'), 'origin->FromZone': ('has_from_zone', 'ptr'),
                   'CZ==origin->FromZone': Bb('from_this_zone'), 'ZM==LE': Bb('we_are_master'), 'TE!=ZM': ('negb target_is_master', 'bool')}),
    ]),
    # ---------------------------------------------------------------------------------------- round 2: C20 NetString header scanning (loop bodies)
    dict(area='ns', requires=['Icv.Src.XlPrelude'], items=[
        # body of `for (i = 0; i < Size; i++)`: looking for the colon; left early = break (header found) or exception (negative code)
        dict(name='netstring_find_colon_iter', func='NetString::ReadStringFromStream', file='lib/base/netstring.cpp', props=['C20'], nparams=5,
             region=(r"if\s*\(\s*context\.Buffer\[i\]\s*==\s*':'\s*\)", r'\}\s*if\s*\(\s*header_length\s*==\s*0\s*\)\s*\{\s*context\.MustRead'),
             region_exit=True, outputs=['header_length'],
             inputs=[('b', 'Z'), ('i', 'Z'), ('hl0', 'Z')], ret='void', rcoq='bool * Z', dummy='(false, 0)',
             strings=dict(string='zbytes', char='Z', lit='%d'),
             abort={r'no length specifier': '(true, -1)', r'missing :': '(true, -2)'}, abort_stmts=[r'^BOOST_THROW_EXCEPTION\('],
             locals={'i': ('i', 'u64'), 'header_length': ('hl0', 'u64')},
             bind={'context.Buffer[i]': Zb('b')}),
        # body of the length loop: at most 9 digits, len = len * 10 + digit
        dict(name='netstring_len_iter', func='NetString::ReadStringFromStream', file='lib/base/netstring.cpp', props=['C20'], nparams=5,
             region=(r'for\s*\(\s*i\s*=\s*0\s*;\s*i\s*<\s*header_length\s*&&\s*isdigit\(context\.Buffer\[i\]\)\s*;\s*i\+\+\s*\)\s*\{', r'\}\s*size_t\s+data_length'),
             region_after=True, region_exit=True, outputs=['len'],
             inputs=[('b', 'Z'), ('i', 'Z'), ('len0', 'Z')], ret='void', rcoq='bool * Z', dummy='(false, 0)',
             strings=dict(string='zbytes', char='Z', lit='%d'),
             abort={r'must not exceed 9': '(true, -4)'}, abort_stmts=[r'^BOOST_THROW_EXCEPTION\('],
             locals={'i': ('i', 'u64'), 'len': ('len0', 'u64')},
             bind={'context.Buffer[i]': Zb('b')}),
    ]),
    # ---------------------------------------------------------------------------------------- round 2: C04 scheduler decision
    dict(area='sched', requires=['Coq.QArith.QArith', 'Icv.Src.XlPrelude', 'Icv.Facts.Facts_enums', 'Icv.Sched.SchNext'], items=[
        # Checkable::UpdateNextCheck over exact rationals (the model's reading of double; fmod / std::min are the model's sch_qfmod / sch_qmin)
        dict(name='checkable_update_next_check', func='Checkable::UpdateNextCheck', file='lib/icinga/checkable-check.cpp', props=['C04'], real=True,
             inputs=[('soft', 'bool'), ('has_cr', 'bool'), ('check_interval', 'Q'), ('retry_interval', 'Q'), ('now', 'Q'), ('offset', 'Z')],
             ret='void', dummy='nil',
             state=[('$out', '(@nil Q)', 'list Q')],
             emits={'SetNextCheck': ('$out', '{0}', ['Q', None, None])},
             fns={'fmod': ('sch_qfmod', ['Q', 'Q'], 'Q'), 'std::min': ('sch_qmin', ['Q', 'Q'], 'Q')},
             bind={'GetStateType()==StateTypeSoft': Bb('soft'), 'GetLastCheckResult()!=nullptr': Bb('has_cr'),
                   'GetRetryInterval()': ('retry_interval', 'Q'), 'GetCheckInterval()': ('check_interval', 'Q'), 'Utility::GetTime()': ('now', 'Q'),
                   'GetSchedulingOffset()': Zb('offset'), 'GetLastCheck()': ('now', 'Q')}),
        # CheckerComponent::CheckThreadProc: is the due checkable checked ("check"), and is a next-check update announced when it is not?
        dict(name='checkthread_wants_check', func='CheckerComponent::CheckThreadProc', file='lib/checker/checkercomponent.cpp', props=['C04'],
             region=(r'bool\s+check\s*=\s*true\s*;', r'if\s*\(\s*!check\s*\)'), outputs=['check', 'notifyNextCheck'],
             inputs=[('forced', 'bool'), ('reachable', 'bool'), ('has_host', 'bool'), ('is_svc', 'bool'), ('active_checks', 'bool'), ('host_checks', 'bool'),
                     ('service_checks', 'bool'), ('has_period', 'bool'), ('period_inside', 'bool')], ret='void', rcoq='bool * bool', dummy='(false, false)',
             locals={'forced': Bb('forced')}, aliases={'checkable': 'CK', 'icingaApp': 'APP'},
             stmts={'tie(host,service)=GetHostService(CK)': {'host': 'HOST', 'service': 'SVC'}},
             bind={'CK->IsReachable(DependencyCheckExecution)': Bb('reachable'), 'HOST': ('has_host', 'ptr'), 'SVC': ('is_svc', 'ptr'),
                   'CK->GetEnableActiveChecks()': Bb('active_checks'), 'APP->GetEnableHostChecks()': Bb('host_checks'),
                   'APP->GetEnableServiceChecks()': Bb('service_checks'), 'CK->GetCheckPeriod()': ('has_period', 'ptr'),
                   'CK->GetCheckPeriod()->IsInside(Utility::GetTime())': Bb('period_inside')}),
    ]),
    # ---------------------------------------------------------------------------------------- C18 (tracked, outside the subset today)
    dict(area='perm', requires=['Icv.Src.XlPrelude'], items=[
        # builds Expression objects with `new`, writes through an out-parameter: not translatable; listed so that the evidence
        # shows it as a fallback (tie by the correspondence run only) and so that a future rewrite into the subset is noticed
        dict(name='filterutility_has_permission', func='FilterUtility::HasPermission', file='lib/remote/filterutility.cpp', props=['C18'],
             inputs=[('perm_empty', 'bool'), ('matches', 'list bool')], ret='bool', theorem=None,
             bind={'permission.IsEmpty()': Bb('perm_empty')}),
    ]),
]

ENUM_SOURCES = [('lib/icinga/checkresult.ti', ['HostState', 'ServiceState', 'StateType'], 'f_'),
                ('lib/icinga/notification.hpp', ['NotificationFilter', 'NotificationType'], 'f_'),
                ('lib/icinga/checkable.ti', ['AcknowledgementType'], 'f_'),
                ('lib/icinga/checkable.hpp', ['DependencyType'], 'fx_'),
                ('lib/icinga/downtime.hpp', ['DowntimeRemovalReason'], 'fx_')]     # f_: defined in Facts_enums; fx_: defined in Facts_fn_enums


def run(rd, emit, log, enum_values, ti_default):
    # ---- enum constants: every enumerator is bound to its regenerated numeric value
    enum_bind, extra = {}, ''
    for path, enums, prefix in ENUM_SOURCES:
        src = rd(path)
        for en in enums:
            for k, v in enum_values(src, en).items():
                enum_bind[k] = (prefix + k, 'Z')
                if prefix == 'fx_':
                    extra += 'Definition fx_%s : Z := %d.\n' % (k, v)
    emit('Facts_fn_enums.v', '(* enum constants used by the translated functions that Facts_enums.v does not define *)\n' + extra)

    report, recognised = [], {}
    glue_defs = {}          # name defined by a glue text -> glue id (a translation that uses it depends on that glue)
    for area in AREAS:
        body = ''.join('Require Import %s.\n' % r for r in area['requires'] + ['Icv.Facts.Facts_fn_enums']) + 'From Coq Require Import Bool.\nLocal Open Scope bool_scope.\nLocal Open Scope Z_scope.\n\n'
        for t in area['items']:
            if 'glue' in t:
                ok = all(recognised.get(d, False) for d in t['deps'])
                recognised[t['glue']] = ok
                for nm in re.findall(r'^(?:Definition|Fixpoint|Inductive)\s+(\w+)', t['text'], re.M):
                    glue_defs[nm] = t['glue']
                body += '(* glue (hand-written in tools/facts_fn.py): %s *)\nDefinition src_%s_recognised : bool := %s.\n%s\n' % (
                    t['doc'], t['glue'], 'true' if ok else 'false', t['text'])
                report.append(dict(name=t['glue'], kind='glue', recognised=ok, props=t['props']))
                continue
            t = dict(t)
            t['bind'] = dict(enum_bind, **t.get('bind', {}))
            src = rd(t['file'])
            res = cxx2coq.translate(t, src)
            # a function that calls an unrecognised translated function is itself unrecognised
            for d in sorted(set(re.findall(r'\bsrc_(\w+)', res.get('term', '')))):
                if d != t['name'] and not recognised.get(d, False) and res['ok']:
                    res['ok'] = False; res['reason'] = 'calls src_%s, which is not recognised' % d
            for nm in sorted(set(re.findall(r'\b[A-Za-z_]\w*\b', res.get('term', '')))):
                g = glue_defs.get(nm)
                if g and not recognised.get(g, False) and res['ok']:
                    res['ok'] = False; res['reason'] = 'uses %s (glue %s), which depends on an unrecognised function' % (nm, g)
            recognised[t['name']] = res['ok']
            if not res['ok']:
                log.append('xlate: %s not recognised: %s' % (t['func'], res['reason']))
            body += cxx2coq.emit_definition(t, res) + '\n'
            report.append(dict(name='src_' + t['name'], func=t['func'], file=t['file'], line=res['line'], recognised=res['ok'],
                               reason=res['reason'], skipped=res['skipped'], symbolic=res['symbolic'], notes=res['notes'], props=t['props'],
                               sha1=hashlib.sha1(res.get('term', '').encode()).hexdigest()[:12]))
        emit('Facts_fn_%s.v' % area['area'], body)
    # which property-level theorems (coq/Properties_<ID>_src.v) speak about which translated function
    coqdir = os.path.join(os.path.dirname(HERE), 'coq')
    thms = {}
    for fn in sorted(os.listdir(coqdir)):
        m = re.match(r'Properties_(C\d+)_(?:src|xlate)\.v$', fn)
        if not m: continue
        txt = open(os.path.join(coqdir, fn)).read()
        for tm in re.finditer(r'^Theorem\s+(\w+)\s*:(.*?)^Proof\.', txt, re.S | re.M):
            for f in set(re.findall(r'\bsrc_\w+?(?=_recognised\b)', tm.group(2))):
                thms.setdefault(f, []).append(tm.group(1))
    for r in report:
        r['theorems'] = thms.get(r['name'] if r['name'].startswith('src_') else 'src_' + r['name'], [])
        if r.get('kind') == 'glue':
            r['tie'] = 'glue, hand-written in tools/facts_fn.py (trusted)'; continue
        r['tie'] = ('translated, proved equal to the model' if r['theorems'] else 'translated, no theorem yet') if r['recognised'] \
                   else 'fallback: compared by the correspondence run only'
    n_ok = sum(1 for r in report if r['recognised'])
    log.append('xlate: %d/%d functions translated' % (n_ok, len(report)))
    out = os.path.join(os.environ.get('VERIF_BUILD', os.path.join(os.path.dirname(HERE), 'build')), 'xlate_report.json')
    try:
        os.makedirs(os.path.dirname(out), exist_ok=True)
        json.dump(dict(translated=n_ok, total=len(report), functions=report), open(out, 'w'), indent=1)
    except OSError as ex:
        log.append('xlate: cannot write %s: %s' % (out, ex))
