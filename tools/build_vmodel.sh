#!/bin/bash
# Extract the executable models/oracles from the Coq development and build the OCaml driver.
set -e
B=${VERIF_BUILD:-/verif/build}/ocaml
mkdir -p "$B"
cd "$B"
stamp="$B/.stamp"
newest=$(find /verif/coq /verif/ocaml -name '*.v' -o -name '*.ml' | xargs stat -c %Y | sort -n | tail -1)
if [ -f "$stamp" ] && [ -x "$B/vmodel" ] && [ "$(cat $stamp)" = "$newest" ]; then exit 0; fi
timeout 1200 coqc -Q /verif/coq Icv -o "$B/Extract.vo" /verif/coq/Extract.v > "$B/extract.log" 2>&1 || { tail -20 "$B/extract.log"; exit 2; }
cp /verif/ocaml/*.ml "$B/"
ocamlfind ocamlopt -w -a -O3 -package str,unix -linkpkg model.mli model.ml driver.ml -o vmodel > "$B/ocaml.log" 2>&1 || { tail -30 "$B/ocaml.log"; exit 2; }
echo "$newest" > "$stamp"
