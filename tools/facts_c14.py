"""C14 facts, re-extracted from the source on every run (coq/Facts/Facts_c14.v): the SIZE limits of the state file on
the write side (ConfigObject::DumpObjects) and on the read side (ConfigObject::RestoreObjects / RestoreObject):
   * f_ps_ns_len_digits         the netstring reader rejects a length prefix of more than this many digits
                                (lib/base/netstring.cpp, the Stream reader used for files)
   * f_ps_ns_limit_len_plus_one the reader's maxMessageLength test is `len + 1 > maxMessageLength`
   * f_ps_restore_maxlen        the maxMessageLength RestoreObjects passes to that reader: Some None = none (-1, the
                                default argument), Some (Some n) = n bytes
   * f_ps_dump_maxlen           the largest record DumpObjects writes: Some None = no limit (every object's JSON is
                                written through NetString::WriteStringToStream unconditionally)
   * f_ps_restore_default_decoder  true = RestoreObject decodes with JsonDecode(message), i.e. with the nesting limit of
                                the network decoder (Facts_c20.f_js_max_depth); false = with JsonDecodeTrusted(message)
                                (no nesting limit; proposed fix repo_patches/c14-state-depth.diff)
   * f_ps_encode_depth_limited  false = JsonEncode has no nesting limit (DumpObjects writes any depth)
   * f_ps_remember_contains     how ConfigObject::ModifyAttribute decides that an original value is "already remembered":
                                true = every original_attributes->Set(key, ..) (directly or in a helper it passes
                                original_attributes to) is guarded by !..->Contains(key); false = some guard tests the
                                remembered VALUE (..->Get(key).IsEmpty() and the like: a remembered null or "" then looks
                                like "nothing remembered"); None = shape not recognised (the correspondence run decides)
   * f_ps_remember_sites        number of guarded Set sites found (4 as pinned: top-level, nested leaf, per key of an old
                                dictionary, per key of a new dictionary)
   * f_ps_ident_regex_nonempty  ConfigWriter::EmitIdentifier writes a key bare iff boost::regex_match with a regex whose first
                                atom is a character class WITHOUT * or ? (at least one character, so never the empty key):
                                true; a recognised regex that matches the empty string: false; anything else (a hand-written
                                loop ..): None - the correspondence run (empty keys in every dma family) decides
A fact that is no longer recognised is emitted as None: the lemmas over it stop checking (or, where stated, tolerate None)."""
import re


def _strip(s):
    return re.sub(r'/\*.*?\*/|//[^\n]*', '', s, flags=re.S)


def _fn_body(src, sig_re):
    m = re.search(sig_re + r'[^{;]*\{', src)
    if not m:
        return None
    i = m.end()
    depth = 1
    j = i
    while j < len(src) and depth:
        if src[j] == '{': depth += 1
        elif src[j] == '}': depth -= 1
        j += 1
    return src[i:j - 1]


def _const_int(expr, body):
    """value of a small constant expression (products of integer literals, or a local `const ... name = <expr>;`)"""
    expr = expr.strip()
    if re.fullmatch(r'[\d\s*()UuLl]+', expr):
        try:
            return int(eval(re.sub(r'[UuLl]', '', expr), {'__builtins__': {}}))
        except Exception:
            return None
    if re.fullmatch(r'-\s*1', expr):
        return -1
    if re.fullmatch(r'\w+', expr):
        m = re.search(r'\b(?:const\s+)?(?:static\s+)?(?:const\s+)?(?:ssize_t|size_t|std::size_t|int|long)\s+(?:const\s+)?' + re.escape(expr) + r'\s*(?:=\s*([^;]+)|\(\s*([^;]+)\)|\{\s*([^;]+)\})\s*;', body)
        if m:
            return _const_int(next(g for g in m.groups() if g), '')
    return None


def _split_args(s):
    out, depth, cur = [], 0, ''
    for ch in s:
        if ch in '([{': depth += 1
        elif ch in ')]}': depth -= 1
        if ch == ',' and depth == 0:
            out.append(cur.strip()); cur = ''
        else:
            cur += ch
    if cur.strip():
        out.append(cur.strip())
    return out


def run(rd, emit, log, enum_values, ti_default):
    ns = _strip(rd('lib/base/netstring.cpp'))
    nsh = _strip(rd('lib/base/netstring.hpp'))
    co = _strip(rd('lib/base/configobject.cpp'))
    js = _strip(rd('lib/base/json.cpp'))
    body = ''
    # ---- the Stream reader of netstrings
    rb = _fn_body(ns, r'StreamReadStatus\s+NetString::ReadStringFromStream\s*\(\s*const\s+Stream::Ptr')
    digits = None
    plus1 = None
    if rb:
        m = re.search(r'if\s*\(\s*i\s*>=\s*(\d+)\s*\)\s*BOOST_THROW_EXCEPTION', rb)
        if m and re.search(r'for\s*\(\s*i\s*=\s*0\s*;\s*i\s*<\s*header_length\s*&&\s*isdigit\(context\.Buffer\[i\]\)\s*;\s*i\+\+\s*\)', rb):
            digits = int(m.group(1))
        if re.search(r'size_t\s+data_length\s*=\s*len\s*\+\s*1\s*;', rb) and \
           re.search(r'if\s*\(\s*maxMessageLength\s*>=\s*0\s*&&\s*data_length\s*>\s*\(size_t\)\s*maxMessageLength\s*\)', rb):
            plus1 = True
    if digits is None: log.append('C14: netstring length-digit limit not recognised')
    if plus1 is None: log.append('C14: netstring maxMessageLength test not recognised')
    body += '(* a length prefix of more than this many digits is rejected by the netstring Stream reader *)\n'
    body += 'Definition f_ps_ns_len_digits : option Z := %s.\n' % ('Some (%d)' % digits if digits is not None else 'None')
    body += '(* the limit test is `len + 1 > maxMessageLength` (and only when maxMessageLength >= 0) *)\n'
    body += 'Definition f_ps_ns_limit_len_plus_one : option bool := %s.\n' % ('Some true' if plus1 else 'None')
    # ---- what RestoreObjects passes
    default = None
    m = re.search(r'static\s+StreamReadStatus\s+ReadStringFromStream\s*\(\s*const\s+Stream::Ptr&\s*\w+\s*,\s*String\s*\*\s*\w+\s*,\s*StreamReadContext&\s*\w+\s*,\s*bool\s+\w+\s*=\s*false\s*,\s*ssize_t\s+\w+\s*=\s*(-?\s*\d+)\s*\)', nsh)
    if m:
        default = int(m.group(1).replace(' ', ''))
    rob = _fn_body(co, r'void\s+ConfigObject::RestoreObjects\s*\(')
    rmax = 'None'
    if rob is not None:
        calls = re.findall(r'NetString::ReadStringFromStream\s*\(([^;]*)\)\s*;', rob)
        if len(calls) == 1:
            args = _split_args(calls[0])
            val = None
            if len(args) == 3 and default is not None:
                val = default
            elif len(args) == 5:
                val = _const_int(args[4], rob)
            if val is not None:
                rmax = 'Some None' if val < 0 else 'Some (Some (%d))' % val
    if rmax == 'None': log.append('C14: maxMessageLength of RestoreObjects not recognised')
    body += '(* maxMessageLength passed by ConfigObject::RestoreObjects: Some None = no limit *)\n'
    body += 'Definition f_ps_restore_maxlen : option (option Z) := %s.\n' % rmax
    # ---- the write side
    dob = _fn_body(co, r'void\s+ConfigObject::DumpObjects\s*\(')
    dmax = 'None'
    if dob is not None:
        # every object's JSON goes to NetString::WriteStringToStream and nothing in the function compares a length
        if re.search(r'JsonEncode\s*\(\s*persistentObject\s*\)', dob) and re.search(r'NetString::WriteStringToStream\s*\(', dob) \
                and not re.search(r'(GetLength|size|length)\s*\(\s*\)\s*(<|>|==|!=)|(<|>|==|!=)\s*[\w.>-]*(GetLength|size|length)\s*\(', dob):
            dmax = 'Some None'
    if dmax == 'None': log.append('C14: DumpObjects record emission not recognised')
    body += '(* largest record ConfigObject::DumpObjects writes: Some None = no limit *)\n'
    body += 'Definition f_ps_dump_maxlen : option (option Z) := %s.\n' % dmax
    # ---- the decoder RestoreObject uses, the encoder DumpObjects uses
    rb1 = _fn_body(co, r'void\s+ConfigObject::RestoreObject\s*\(')
    dec = 'None'
    if rb1 is not None:
        if re.search(r'Dictionary::Ptr\s+persistentObject\s*=\s*JsonDecode\s*\(\s*message\s*\)\s*;', rb1): dec = 'Some true'
        elif re.search(r'Dictionary::Ptr\s+persistentObject\s*=\s*JsonDecodeTrusted\s*\(\s*message\s*\)\s*;', rb1) \
                and re.search(r'Value\s+icinga::JsonDecodeTrusted\s*\(', js): dec = 'Some false'
    if dec == 'None': log.append('C14: decoder of RestoreObject not recognised')
    body += '(* true = RestoreObject uses JsonDecode (nesting limit of the network decoder); false = JsonDecodeTrusted (none) *)\n'
    body += 'Definition f_ps_restore_default_decoder : option bool := %s.\n' % dec
    enc = 'None'
    eb = re.search(r'class\s+JsonEncoder\b.*?Value\s+icinga::JsonDecode', js, re.S)
    if eb and not re.search(r'[Dd]epth|[Nn]esting', eb.group(0).replace('l_MaxJsonNestingDepth', '')):
        enc = 'Some false'
    if enc == 'None': log.append('C14: JsonEncode nesting behaviour not recognised')
    body += '(* false = JsonEncode has no nesting limit *)\n'
    body += 'Definition f_ps_encode_depth_limited : option bool := %s.\n' % enc
    # ---- ModifyAttribute: the test that decides "already remembered"
    cw = _strip(rd('lib/base/configwriter.cpp'))
    mb = _fn_body(co, r'void\s+ConfigObject::ModifyAttribute\s*\(')
    rem, sites = None, 0
    if mb is not None:
        verdicts = []

        def judge(body, var):
            """verdicts for every <var>->Set(key, ..) in body: 'contains' / 'value' / '?'"""
            out = []
            for m in re.finditer(re.escape(var) + r'\s*->\s*Set\s*\(\s*([^,]+),', body):
                key = m.group(1).strip()
                pre = body[max(0, m.start() - 200):m.start()]
                # the closest preceding `if (...)`
                ifs = list(re.finditer(r'if\s*\((.*?)\)\s*(?:\{|\n|return\b[^;]*;)', pre, re.S))
                cond = ifs[-1].group(1) if ifs else ''
                tail = pre[ifs[-1].end():] if ifs else 'x'
                # between the test and the Set: nothing that closes the guarded block or touches the dictionary again
                near = ('}' not in tail and not re.search(r'\b' + re.escape(var) + r'\s*->', tail)) if ifs else False
                if ifs and re.search(r'!\s*' + re.escape(var) + r'\s*->\s*Contains\s*\(\s*' + re.escape(key) + r'\s*\)', cond) and near:
                    out.append('contains')
                elif ifs and re.search(re.escape(var) + r'\s*->\s*Get\s*\(', cond):
                    out.append('value')
                else:
                    out.append('?')
            return out
        verdicts += judge(mb, 'original_attributes')
        # helpers that receive original_attributes
        for hn in sorted(set(re.findall(r'\b(\w+)\s*\(\s*original_attributes\s*,', mb)) - {'SetOriginalAttributes'}):
            hm = re.search(r'\b' + re.escape(hn) + r'\s*\(\s*const\s+Dictionary::Ptr\s*&\s*(\w+)', co)
            hb = _fn_body(co, r'\b' + re.escape(hn) + r'\s*\(\s*const\s+Dictionary::Ptr\s*&') if hm else None
            if hb is None:
                verdicts.append('?')
                continue
            hv = judge(hb, hm.group(1))
            calls = len(re.findall(r'\b' + re.escape(hn) + r'\s*\(\s*original_attributes\s*,', mb))
            verdicts += (hv or ['?']) * calls
        sites = sum(1 for v in verdicts if v == 'contains')
        if verdicts and any(v == 'value' for v in verdicts): rem = 'false'
        elif verdicts and all(v == 'contains' for v in verdicts): rem = 'true'
    if rem is None: log.append('C14: the "already remembered" test of ModifyAttribute not recognised')
    body += '(* ModifyAttribute: true = every original_attributes->Set is guarded by !Contains(key); false = a guard tests the remembered value *)\n'
    body += 'Definition f_ps_remember_contains : option bool := %s.\n' % ('Some ' + rem if rem else 'None')
    body += 'Definition f_ps_remember_sites : Z := %d.\n' % sites
    # ---- EmitIdentifier: can the empty string be written as a bare word
    eb = _fn_body(cw, r'void\s+ConfigWriter::EmitIdentifier\s*\(')
    ne = None
    if eb is not None:
        m = re.search(r'boost::regex\s+expr\s*\(\s*"((?:[^"\\]|\\.)*)"\s*\)', eb)
        if m and re.search(r'boost::regex_match\s*\(\s*identifier\.GetData\(\)\s*,\s*what\s*,\s*expr\s*\)', eb):
            rx = m.group(1)
            m2 = re.match(r'\^?(\[[^\]]+\])([*?+]|\{0)?', rx)
            if m2:
                ne = 'false' if m2.group(2) in ('*', '?', '{0') else 'true'
    if ne is None: log.append('C14: EmitIdentifier bare-word test not recognised (empty key: the correspondence run decides)')
    body += '(* EmitIdentifier: true = the bare-word regex needs at least one character; false = it matches the empty string *)\n'
    body += 'Definition f_ps_ident_regex_nonempty : option bool := %s.\n' % ('Some ' + ne if ne else 'None')
    # ---- DumpProgramState: is every call a dump?  (the retention timer's callback and OnShutdown may call it at the same time)
    ia = rd('lib/icinga/icingaapplication.cpp')
    db = _fn_body(ia, r'void\s+IcingaApplication::DumpProgramState\s*\(\s*\)')
    uncond = None
    if db is not None:
        code = re.sub(r'/\*.*?\*/|//[^\n]*', '', db, flags=re.S)
        first_dump = re.search(r'\bDumpObjects\s*\(', code)
        if first_dump:
            before = code[:first_dump.start()]
            # a statement that can leave the function (or skip the dump) in front of the first write
            if re.search(r'\breturn\b|\btry_to_lock\b|\btry_lock\b|\bif\s*\(', before): uncond = 'false'
            elif re.fullmatch(r'\s*(ConfigObject::)?', before) and re.search(r'\bDumpModifiedAttributes\s*\(\s*\)\s*;', code[first_dump.end():]): uncond = 'true'
    if uncond is None: log.append('C14: DumpProgramState not recognised')
    body += '(* IcingaApplication::DumpProgramState: true = DumpObjects(StatePath) and DumpModifiedAttributes() are its first statements, executed on EVERY call; false = something in front of them can return / skip (e.g. "another dump is running") *)\n'
    body += 'Definition f_ps_dump_unconditional : option bool := %s.\n' % ('Some ' + uncond if uncond else 'None')
    ser = None
    if db is not None:
        code = re.sub(r'/\*.*?\*/|//[^\n]*', '', db, flags=re.S)
        fd = re.search(r'\bDumpObjects\s*\(', code)
        if fd:
            before = code[:fd.start()]
            blocking = re.search(r'static\s+std::(recursive_)?mutex\s+(\w+)\s*;', before)
            if blocking and re.search(r'std::(unique_lock|lock_guard)\s*<[^>]*>\s*\w+\s*[({]\s*' + blocking.group(2) + r'\s*[)}]\s*;', before) \
               and not re.search(r'try_to_lock|try_lock|defer_lock|\breturn\b', before): ser = 'true'
            elif not re.search(r'mutex|lock', before, re.I): ser = 'false'
    body += '(* DumpProgramState: true = the whole function runs under a BLOCKING lock of a function-local static mutex (calls are serialised: a second caller waits, then dumps); false = no lock at all *)\n'
    body += 'Definition f_ps_dump_serialised : option bool := %s.\n' % ('Some ' + ser if ser else 'None')
    sb = _fn_body(ia, r'void\s+IcingaApplication::OnShutdown\s*\(\s*\)')
    sd = None
    if sb is not None:
        code = re.sub(r'/\*.*?\*/|//[^\n]*', '', sb, flags=re.S)
        # depth-0 statement `DumpProgramState();`
        depth = 0; top = ''
        for ch in code:
            if ch == '{': depth += 1
            elif ch == '}': depth -= 1
            elif depth == 0: top += ch
        if re.search(r'\bDumpProgramState\s*\(\s*\)\s*;', top) and not re.search(r'\breturn\b|\bif\s*\(', top): sd = 'true'
        elif not re.search(r'\bDumpProgramState\s*\(', code): sd = 'false'
    if sd is None: log.append('C14: OnShutdown not recognised')
    body += '(* IcingaApplication::OnShutdown: true = calls DumpProgramState() unconditionally (top-level statement, no return / if in front) *)\n'
    body += 'Definition f_ps_shutdown_dumps : option bool := %s.\n' % ('Some ' + sd if sd else 'None')
    emit('Facts_c14.v', body)
