"""C14 facts, re-extracted from the source on every run (coq/Facts/Facts_c14.v): the SIZE limits of the state file on
the write side (ConfigObject::DumpObjects) and on the read side (ConfigObject::RestoreObjects / RestoreObject):
   * f_ps_ns_len_digits         the netstring reader rejects a length prefix of more than this many digits
                                (lib/base/netstring.cpp, the Stream reader used for files)
   * f_ps_ns_limit_len_plus_one the reader's maxMessageLength test is `len + 1 > maxMessageLength`
   * f_ps_restore_maxlen        the maxMessageLength RestoreObjects passes to that reader: Some None = none (-1, the
                                default argument), Some (Some n) = n bytes
   * f_ps_dump_maxlen           the largest record DumpObjects writes: Some None = no limit (every object's JSON is
                                written through NetString::WriteStringToStream unconditionally)
   * f_ps_restore_default_decoder  true = RestoreObject decodes with JsonDecode(message), i.e. with the nesting limit of
                                the network decoder (Facts_c20.f_js_max_depth); false = with JsonDecodeTrusted(message)
                                (no nesting limit; proposed fix repo_patches/c14-state-depth.diff)
   * f_ps_encode_depth_limited  false = JsonEncode has no nesting limit (DumpObjects writes any depth)
A fact that is no longer recognised is emitted as None: the lemmas over it stop checking."""
import re


def _strip(s):
    return re.sub(r'/\*.*?\*/|//[^\n]*', '', s, flags=re.S)


def _fn_body(src, sig_re):
    m = re.search(sig_re + r'[^{;]*\{', src)
    if not m:
        return None
    i = m.end()
    depth = 1
    j = i
    while j < len(src) and depth:
        if src[j] == '{': depth += 1
        elif src[j] == '}': depth -= 1
        j += 1
    return src[i:j - 1]


def _const_int(expr, body):
    """value of a small constant expression (products of integer literals, or a local `const ... name = <expr>;`)"""
    expr = expr.strip()
    if re.fullmatch(r'[\d\s*()UuLl]+', expr):
        try:
            return int(eval(re.sub(r'[UuLl]', '', expr), {'__builtins__': {}}))
        except Exception:
            return None
    if re.fullmatch(r'-\s*1', expr):
        return -1
    if re.fullmatch(r'\w+', expr):
        m = re.search(r'\b(?:const\s+)?(?:static\s+)?(?:const\s+)?(?:ssize_t|size_t|std::size_t|int|long)\s+(?:const\s+)?' + re.escape(expr) + r'\s*(?:=\s*([^;]+)|\(\s*([^;]+)\)|\{\s*([^;]+)\})\s*;', body)
        if m:
            return _const_int(next(g for g in m.groups() if g), '')
    return None


def _split_args(s):
    out, depth, cur = [], 0, ''
    for ch in s:
        if ch in '([{': depth += 1
        elif ch in ')]}': depth -= 1
        if ch == ',' and depth == 0:
            out.append(cur.strip()); cur = ''
        else:
            cur += ch
    if cur.strip():
        out.append(cur.strip())
    return out


def run(rd, emit, log, enum_values, ti_default):
    ns = _strip(rd('lib/base/netstring.cpp'))
    nsh = _strip(rd('lib/base/netstring.hpp'))
    co = _strip(rd('lib/base/configobject.cpp'))
    js = _strip(rd('lib/base/json.cpp'))
    body = ''
    # ---- the Stream reader of netstrings
    rb = _fn_body(ns, r'StreamReadStatus\s+NetString::ReadStringFromStream\s*\(\s*const\s+Stream::Ptr')
    digits = None
    plus1 = None
    if rb:
        m = re.search(r'if\s*\(\s*i\s*>=\s*(\d+)\s*\)\s*BOOST_THROW_EXCEPTION', rb)
        if m and re.search(r'for\s*\(\s*i\s*=\s*0\s*;\s*i\s*<\s*header_length\s*&&\s*isdigit\(context\.Buffer\[i\]\)\s*;\s*i\+\+\s*\)', rb):
            digits = int(m.group(1))
        if re.search(r'size_t\s+data_length\s*=\s*len\s*\+\s*1\s*;', rb) and \
           re.search(r'if\s*\(\s*maxMessageLength\s*>=\s*0\s*&&\s*data_length\s*>\s*\(size_t\)\s*maxMessageLength\s*\)', rb):
            plus1 = True
    if digits is None: log.append('C14: netstring length-digit limit not recognised')
    if plus1 is None: log.append('C14: netstring maxMessageLength test not recognised')
    body += '(* a length prefix of more than this many digits is rejected by the netstring Stream reader *)\n'
    body += 'Definition f_ps_ns_len_digits : option Z := %s.\n' % ('Some (%d)' % digits if digits is not None else 'None')
    body += '(* the limit test is `len + 1 > maxMessageLength` (and only when maxMessageLength >= 0) *)\n'
    body += 'Definition f_ps_ns_limit_len_plus_one : option bool := %s.\n' % ('Some true' if plus1 else 'None')
    # ---- what RestoreObjects passes
    default = None
    m = re.search(r'static\s+StreamReadStatus\s+ReadStringFromStream\s*\(\s*const\s+Stream::Ptr&\s*\w+\s*,\s*String\s*\*\s*\w+\s*,\s*StreamReadContext&\s*\w+\s*,\s*bool\s+\w+\s*=\s*false\s*,\s*ssize_t\s+\w+\s*=\s*(-?\s*\d+)\s*\)', nsh)
    if m:
        default = int(m.group(1).replace(' ', ''))
    rob = _fn_body(co, r'void\s+ConfigObject::RestoreObjects\s*\(')
    rmax = 'None'
    if rob is not None:
        calls = re.findall(r'NetString::ReadStringFromStream\s*\(([^;]*)\)\s*;', rob)
        if len(calls) == 1:
            args = _split_args(calls[0])
            val = None
            if len(args) == 3 and default is not None:
                val = default
            elif len(args) == 5:
                val = _const_int(args[4], rob)
            if val is not None:
                rmax = 'Some None' if val < 0 else 'Some (Some (%d))' % val
    if rmax == 'None': log.append('C14: maxMessageLength of RestoreObjects not recognised')
    body += '(* maxMessageLength passed by ConfigObject::RestoreObjects: Some None = no limit *)\n'
    body += 'Definition f_ps_restore_maxlen : option (option Z) := %s.\n' % rmax
    # ---- the write side
    dob = _fn_body(co, r'void\s+ConfigObject::DumpObjects\s*\(')
    dmax = 'None'
    if dob is not None:
        # every object's JSON goes to NetString::WriteStringToStream and nothing in the function compares a length
        if re.search(r'JsonEncode\s*\(\s*persistentObject\s*\)', dob) and re.search(r'NetString::WriteStringToStream\s*\(', dob) \
                and not re.search(r'(GetLength|size|length)\s*\(\s*\)\s*(<|>|==|!=)|(<|>|==|!=)\s*[\w.>-]*(GetLength|size|length)\s*\(', dob):
            dmax = 'Some None'
    if dmax == 'None': log.append('C14: DumpObjects record emission not recognised')
    body += '(* largest record ConfigObject::DumpObjects writes: Some None = no limit *)\n'
    body += 'Definition f_ps_dump_maxlen : option (option Z) := %s.\n' % dmax
    # ---- the decoder RestoreObject uses, the encoder DumpObjects uses
    rb1 = _fn_body(co, r'void\s+ConfigObject::RestoreObject\s*\(')
    dec = 'None'
    if rb1 is not None:
        if re.search(r'Dictionary::Ptr\s+persistentObject\s*=\s*JsonDecode\s*\(\s*message\s*\)\s*;', rb1): dec = 'Some true'
        elif re.search(r'Dictionary::Ptr\s+persistentObject\s*=\s*JsonDecodeTrusted\s*\(\s*message\s*\)\s*;', rb1) \
                and re.search(r'Value\s+icinga::JsonDecodeTrusted\s*\(', js): dec = 'Some false'
    if dec == 'None': log.append('C14: decoder of RestoreObject not recognised')
    body += '(* true = RestoreObject uses JsonDecode (nesting limit of the network decoder); false = JsonDecodeTrusted (none) *)\n'
    body += 'Definition f_ps_restore_default_decoder : option bool := %s.\n' % dec
    enc = 'None'
    eb = re.search(r'class\s+JsonEncoder\b.*?Value\s+icinga::JsonDecode', js, re.S)
    if eb and not re.search(r'[Dd]epth|[Nn]esting', eb.group(0).replace('l_MaxJsonNestingDepth', '')):
        enc = 'Some false'
    if enc == 'None': log.append('C14: JsonEncode nesting behaviour not recognised')
    body += '(* false = JsonEncode has no nesting limit *)\n'
    body += 'Definition f_ps_encode_depth_limited : option bool := %s.\n' % enc
    emit('Facts_c14.v', body)
