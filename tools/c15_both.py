#!/usr/bin/env python3
"""ad-hoc: run generated C15 cases through vdrive and vmodel and print those that differ (or all with -a).
usage: tools/c15_both.py [-a] <python expression yielding a list of cases, evaluated inside vlib.p_c15>"""
import sys, os, tempfile, shutil, random
V = os.path.dirname(os.path.dirname(os.path.abspath(__file__)))
sys.path.insert(0, V)
from vlib import core, p_c15 as m
args = sys.argv[1:]
show_all = False
if args and args[0] == '-a':
    show_all = True
    args = args[1:]
env = dict(vars(m))
env['rnd'] = random.Random(int(os.environ.get('SEED', '1')))
cases = eval(args[0], env)
for i, c in enumerate(cases):
    c['id'] = i + 1
wd = tempfile.mkdtemp(prefix='c15both_', dir=core.B)
try:
    impl, model = core.run_both([], cases, wd)
    nd = 0
    for c in cases:
        il, ml = m.canon(impl.get(c['id'], ['MISSING'])), m.canon(model.get(c['id'], ['MISSING']))
        if il != ml:
            nd += 1
        if il != ml or show_all:
            print('=== %s%s' % (c['tags'].get('family'), '  DIFF' if il != ml else ''))
            print(c['tags'].get('src', '').rstrip())
            print('  impl :', il)
            print('  model:', ml)
    print('cases', len(cases), 'differ', nd)
finally:
    shutil.rmtree(wd, ignore_errors=True)
