#!/usr/bin/env python3
"""Regenerate MANIFEST.json from the table below (keeps it valid and consistent)."""
import json, subprocess, os
PROPS = [json.loads(l) for l in open(os.path.join(os.path.dirname(os.path.dirname(os.path.abspath(__file__))), 'properties.jsonl'))]
import os, glob
HERE = os.path.dirname(os.path.dirname(os.path.abspath(__file__)))
CLAIMED = {os.path.basename(f)[:-5]: json.load(open(f)) for f in sorted(glob.glob(HERE + '/manifest.d/C*.json'))}
NOT_YET = {}
# cross-cutting additions to the notes: manifest.d/<name>.notes.json = {property id: sentence appended to level_note}
for f in sorted(glob.glob(HERE + '/manifest.d/*.notes.json')):
    for pid, sentence in json.load(open(f)).items():
        if pid in CLAIMED:
            CLAIMED[pid]['note'] = CLAIMED[pid]['note'].rstrip() + ' ' + sentence
hooks = subprocess.check_output(['git', '-C', '/repo', 'log', '--format=%H %s'], text=True).splitlines()
hook_commits = [l.split()[0] for l in hooks if 'verif hook' in l]
m = {
 'version': 1,
 'setup_cmd': './setup.sh',
 'hooks': {'guard': 'ICINGA2_VERIF',
           'enable': 'tools/build_icinga.sh configures /repo into /verif/build/icinga with -DCMAKE_CXX_FLAGS="-DICINGA2_VERIF" (non-unity, -O1) and builds the object libraries base config remote icinga methods checker notification; every check calls it first (incremental)',
           'baseline_off_cmd': 'cmake --build /repo/_build -j16 && ctest --test-dir /repo/_build -j8 --timeout 900',
           'source_commits': hook_commits, 'add_only': True},
 'engines': [{'name': 'coq-model-correspondence', 'path': '/verif/check', 'serves_properties': sorted(CLAIMED),
              'kind_free_text': 'Coq 8.16 theorems over hand-written executable Gallina models (coq/), extracted to OCaml (vmodel) and compared with the real objects driven by harness/vdrive on generated scripts; srcfacts regenerates source facts into coq/Facts'}],
 'checks': [], 'not_applicable': [],
 'notes': 'See DESIGN.md. known_findings.json lists recorded findings; replays/ holds replay files written by failing checks.'}
for p in PROPS:
    i = p['id']
    if i in CLAIMED:
        c = CLAIMED[i]
        m['checks'].append({'property_id': i, 'quick_cmd': './check %s --tier quick' % i, 'thorough_cmd': './check %s --tier thorough' % i,
                            'evidence_file': '/verif/evidence/%s.json' % i, 'replay_cmd_template': './check %s --replay {path}' % i,
                            'engine': 'coq-model-correspondence',
                            'level_claimed': {'category': 'proof', 'text': c['text'], 'design_ref': c['ref']},
                            'level_note': c['note'], 'technique': c['tech']})
    else:
        m['not_applicable'].append({'property_id': i, 'reason': NOT_YET.get(i, 'not claimed yet: model, theorems and tie for this property are not built in this revision (planned, see DESIGN.md section 2)')})
json.dump(m, open(HERE + '/MANIFEST.json', 'w'), indent=1)
# known_findings.json = concatenation of the committed fragments known_findings.d/<ID>.json (never written by a check)
kf = []
for f in sorted(glob.glob(HERE + '/known_findings.d/*.json')):
    kf += json.load(open(f))
json.dump({'findings': kf,
           'fixed_lines': [k.get('line') for k in kf if k.get('status') == 'fixed' and k.get('line')]},
          open(HERE + '/known_findings.json', 'w'), indent=1)
print('claimed', sorted(CLAIMED))
