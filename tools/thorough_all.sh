#!/bin/bash
# run every thorough check once (from a fresh snapshot: builds first); prints one summary line per property
cd "$(dirname "$0")/.."
[ -x build/harness/vdrive ] || ./setup.sh > setup.log 2>&1
for id in C01 C02 C03 C04 C05 C06 C07 C08 C09 C10 C11 C12 C13 C14 C15 C16 C17 C18 C19 C20; do
  s=$(date +%s)
  VERIF_JOBS=${VERIF_JOBS:-8} ./check $id --tier thorough > thorough_$id.log 2>&1; rc=$?
  e=$(date +%s)
  echo "$id rc=$rc wall=$((e-s))s $(grep -c '^VIOLATION' thorough_$id.log) viol; $(tail -1 thorough_$id.log | cut -c1-200)"
done
