"""Common machinery of the checks (DESIGN.md section 1).

A check = rebuild /repo's working tree with hooks -> regenerate source facts -> re-check the Coq
proofs -> extract the model -> run implementation (vdrive) and model (vmodel) on the same
generated scripts -> diff -> run the property oracle over the IMPLEMENTATION's traces -> verdict.
"""
import os, sys, json, time, subprocess, random, hashlib, shutil, re, fcntl, tempfile
import concurrent.futures as cf

V = os.path.dirname(os.path.dirname(os.path.abspath(__file__)))
B = os.environ.get('VERIF_BUILD', V + '/build')
os.environ['VERIF_BUILD'] = B
os.environ['VERIF_HOME'] = V
REPO = os.environ.get('VERIF_REPO', '/repo')
VDRIVE = B + '/harness/vdrive'
VMODEL = B + '/ocaml/vmodel'
COQ = V + '/coq'
NPROC = int(os.environ.get('VERIF_JOBS', '16'))

STD_AXIOMS = {  # standard-library axioms a theorem may depend on (named in the trusted base)
    'functional_extensionality_dep', 'proof_irrelevance', 'eq_rect_eq', 'JMeq_eq',
    'classic', 'propositional_extensionality', 'Eqdep.Eq_rect_eq.eq_rect_eq',
    'FunctionalExtensionality.functional_extensionality_dep', 'ProofIrrelevance.proof_irrelevance',
    'Classical_Prop.classic'}

FORBIDDEN = re.compile(r'\b(Admitted|admit|Axiom|Axioms|Parameter|Parameters|Conjecture|Hypothesis|Variable|Abort All)\b|Unset Guard|bypass_check|Admit Obligations|type-in-type|impredicative-set')


class HarnessError(Exception):
    pass


def sh(cmd, timeout=None, cwd=None, env=None):
    e = dict(os.environ)
    if env:
        e.update(env)
    r = subprocess.run(cmd, shell=isinstance(cmd, str), cwd=cwd, env=e, capture_output=True, text=True, timeout=timeout)
    return r.returncode, r.stdout, r.stderr


class Lock:
    def __init__(self, path):
        os.makedirs(os.path.dirname(path), exist_ok=True)
        self.f = open(path, 'w')

    def __enter__(self):
        fcntl.flock(self.f, fcntl.LOCK_EX)
        return self

    def __exit__(self, *a):
        fcntl.flock(self.f, fcntl.LOCK_UN)
        self.f.close()


# ----------------------------------------------------------------------------- build

def build_all(log):
    """Rebuild everything from the current working tree. Returns timing dict; raises HarnessError."""
    t = {}
    with Lock(B + '/.buildlock'):
        t0 = time.time()
        rc, o, e = sh([V + '/tools/build_icinga.sh'], timeout=3600)
        t['icinga_build_s'] = round(time.time() - t0, 1)
        if rc != 0:
            raise HarnessError('/repo does not build with -DICINGA2_VERIF:\n' + o[-3000:] + e[-3000:])
        t0 = time.time()
        rc, o, e = sh(['python3', V + '/tools/build_vdrive.py'], timeout=1800)
        t['vdrive_build_s'] = round(time.time() - t0, 1)
        if rc != 0:
            raise HarnessError('harness does not build against the current tree:\n' + o[-6000:] + e[-3000:])
        t0 = time.time()
        rc, o, e = sh(['python3', V + '/tools/srcfacts.py'], timeout=900)
        t['srcfacts_s'] = round(time.time() - t0, 1)
        t['srcfacts_log'] = (o + e)[-4000:]
        if rc != 0:
            raise HarnessError('srcfacts failed:\n' + o[-3000:] + e[-3000:])
        t0 = time.time()
        coq_ok, coq_log = coq_make()
        t['coq_make_s'] = round(time.time() - t0, 1)
        t['coq_make_ok'] = coq_ok
        t['coq_log_tail'] = coq_log[-3000:]
        t0 = time.time()
        rc, o, e = sh(['bash', V + '/tools/build_vmodel.sh'], timeout=1800)
        t['vmodel_build_s'] = round(time.time() - t0, 1)
        t['vmodel_ok'] = (rc == 0)
        t['vmodel_log'] = (o + e)[-3000:]
    return t


def coq_make():
    sh(['bash', V + '/tools/gen_coqproject.sh'])
    rc, o, e = sh('timeout 3000 make -k -j%d 2>&1' % NPROC, cwd=COQ, timeout=3100)
    return rc == 0, o + e


def property_files(pid):
    """Properties_<pid>.v plus optional companion files Properties_<pid>_<tag>.v (e.g. _src: theorems over
    definitions the translator regenerates from the source)."""
    import glob as _glob
    main = COQ + '/Properties_%s.v' % pid
    return [main] + sorted(_glob.glob(COQ + '/Properties_%s_*.v' % pid))


def _proof_status_file(f, res):
    src = open(f).read()
    thms = re.findall(r'^\s*Theorem\s+(\w+)', src, re.M)
    res['theorems'] += thms
    base = os.path.basename(f)[:-2]
    tmpd = tempfile.mkdtemp(prefix='vprop_')
    try:
        rc, o, e = sh('timeout 1200 coqc -Q %s Icv -o %s/%s.vo %s' % (COQ, tmpd, base, f), cwd=COQ, timeout=1300)
    finally:
        shutil.rmtree(tmpd, ignore_errors=True)
    res['log'] = (res['log'] + (o + e))[-4000:]
    if rc != 0:
        m = re.search(r'File "[^"]*", line (\d+)', o + e)
        res['failed_at'] = m.group(0) if m else 'unknown'
        # which theorem does the failing line belong to
        if m:
            ln = int(m.group(1))
            cur = None
            for i, l in enumerate(src.splitlines(), 1):
                mm = re.match(r'\s*Theorem\s+(\w+)', l)
                if mm:
                    cur = mm.group(1)
                if i >= ln:
                    break
            res['failed_theorem'] = cur
        return False, 0, set()
    # parse "Closed under the global context" / "Axioms:" blocks, one per Print Assumptions
    blocks = re.split(r'(?=Closed under the global context|Axioms:)', o)
    axioms = set()
    for b in blocks:
        if b.startswith('Axioms:'):
            for m in re.finditer(r'^([\w\.]+)\s*:', b[7:], re.M):
                axioms.add(m.group(1))
    npa = len([b for b in blocks if b.startswith('Closed') or b.startswith('Axioms:')])
    return (npa >= len(thms)), npa, axioms


def proof_status(pid):
    """Compile Properties_<pid>.v (and its companion files) afresh and read what Print Assumptions says for each theorem."""
    files = property_files(pid)
    f = files[0]
    res = {'file': f, 'files': files, 'theorems': [], 'ok': False, 'axioms': [], 'log': ''}
    if not os.path.exists(f):
        res['log'] = 'no property file'
        return res
    res['checker_cmd'] = 'make -k -j%d (coq_makefile, Coq 8.16.1) && ' % NPROC + ' && '.join('coqc -Q %s Icv %s' % (COQ, x) for x in files)
    all_ok, n_pa, axioms = True, 0, set()
    for x in files:
        ok, npa, ax = _proof_status_file(x, res)
        if 'failed_at' in res:
            return res
        all_ok = all_ok and ok
        n_pa += npa
        axioms |= ax
    res['n_print_assumptions'] = n_pa
    res['axioms'] = sorted(axioms)
    bad = [a for a in axioms if a.split('.')[-1] not in {s.split('.')[-1] for s in STD_AXIOMS}]
    res['bad_axioms'] = bad
    res['ok'] = (not bad) and all_ok and len(res['theorems']) > 0
    return res


def coqchk(pid):
    """thorough tier: re-check the compiled property file and everything it depends on with the independent checker."""
    mods = ' '.join('Icv.' + os.path.basename(x)[:-2] for x in property_files(pid))
    cmd = 'coqchk -o -silent -Q %s Icv %s' % (COQ, mods)
    try:
        rc, o, e = sh('timeout 1500 ' + cmd, cwd=COQ, timeout=1600)
    except subprocess.TimeoutExpired:
        return {'ok': False, 'cmd': cmd, 'log': 'timeout'}
    txt = o + e
    axioms = []
    m = re.search(r'\* Axioms:(.*?)(?:\n\* |\Z)', txt, re.S)
    if m:
        axioms = [l.strip() for l in m.group(1).splitlines() if l.strip() and l.strip() != '<none>']
    return {'ok': rc == 0, 'cmd': cmd, 'axioms_of_all_loaded_libraries': axioms[:40], 'log': txt[-600:]}


def forbidden_scan():
    hits = []
    for root, _, files in os.walk(COQ):
        for fn in files:
            if not fn.endswith('.v'):
                continue
            p = os.path.join(root, fn)
            txt = open(p).read()
            # strip comments (non-nested good enough; nested handled by loop)
            prev = None
            while prev != txt:
                prev = txt
                txt = re.sub(r'\(\*[^*(]*(?:\*(?!\))[^*(]*|\((?!\*)[^*(]*)*\*\)', ' ', txt)
            in_section = 0
            for i, l in enumerate(txt.splitlines(), 1):
                if re.match(r'\s*Section\b', l):
                    in_section += 1
                if re.match(r'\s*End\b', l) and in_section:
                    in_section -= 1
                m = FORBIDDEN.search(l)
                if m:
                    w = m.group(0)
                    if w in ('Variable', 'Hypothesis', 'Variables', 'Hypotheses') and in_section:
                        continue
                    hits.append('%s:%d: %s' % (p, i, l.strip()[:100]))
    return hits


# ----------------------------------------------------------------------------- running cases

def write_script(path, header, cases):
    with open(path, 'w') as f:
        for h in header:
            f.write(h + '\n')
        for c in cases:
            f.write('case %d\n' % c['id'])
            for l in c['lines']:
                f.write(l + '\n')
            f.write('end\n')


def split_output(text):
    """-> {case id: [lines]} ; a case without 'end' gets a trailing 'NOEND' marker."""
    out = {}
    cur = None
    for l in text.splitlines():
        if l.startswith('case '):
            cur = int(l.split()[1])
            out[cur] = []
        elif l == 'end':
            if cur is not None:
                out[cur].append('end')
            cur = None
        elif cur is not None:
            out[cur].append(l)
    for k, v in out.items():
        if not v or v[-1] != 'end':
            v.append('NOEND')
        else:
            v.pop()
    return out


def run_watched(cmd, outfile, timeout, envx=None):
    """Run vdrive; kill it when the whole shard exceeds `timeout` or when its output file has not grown for
    VERIF_STALL_S seconds (default 90; the heartbeat file <out>.hb, written by harness-owned wait loops, counts as
    output): vdrive flushes at the start and the end of every case, so a silent output means one case is hanging (a spinning or dead-locked implementation) - reported as HANG for that case."""
    e = dict(os.environ)
    if envx:
        e.update(envx)
    stall = float(os.environ.get('VERIF_STALL_S', '90'))
    p = subprocess.Popen(cmd, env=e, stdout=subprocess.PIPE, stderr=subprocess.PIPE, text=True)
    t0 = time.time()
    last_size, last_change = -1, t0
    err = ''
    while True:
        try:
            o, err = p.communicate(timeout=1.0)
            return p.returncode, o, err
        except subprocess.TimeoutExpired:
            pass
        now = time.time()
        sz = 0
        for f in (outfile, outfile + '.hb'):
            try:
                sz += os.path.getsize(f)
            except OSError:
                pass
        if sz != last_size:
            last_size, last_change = sz, now
        if now - t0 > timeout or now - last_change > stall:
            p.kill()
            try:
                p.communicate(timeout=10)
            except Exception:
                pass
            return -9, '', 'TIMEOUT'


def run_impl_shard(args):
    header, cases, wd, idx, timeout, envx = args
    res = {}
    todo = list(cases)
    rnd = 0
    hangs = 0
    while todo:
        if hangs >= int(os.environ.get('VERIF_MAX_HANGS', '2')):
            # the implementation keeps hanging: stop feeding it cases (bounded run time); the cases not run are marked
            for c in todo:
                res[c['id']] = ['NOT-RUN hang-budget-exhausted']
            break
        sp = '%s/impl_%d_%d.script' % (wd, idx, rnd)
        op = '%s/impl_%d_%d.out' % (wd, idx, rnd)
        sd = '%s/scratch_%d_%d' % (wd, idx, rnd)
        write_script(sp, header, todo)
        rc, o, e = run_watched([VDRIVE, sd, sp, op], op, timeout, envx)
        if e == 'TIMEOUT':
            hangs += 1
        shutil.rmtree(sd, ignore_errors=True)
        txt = open(op).read() if os.path.exists(op) else ''
        got = split_output(txt)
        progressed = False
        nxt = []
        for i, c in enumerate(todo):
            if c['id'] in got and got[c['id']][-1:] != ['NOEND']:
                res[c['id']] = got[c['id']]
                progressed = True
            elif c['id'] in got:
                # the process died or stopped in this case
                tag = 'CRASH rc=%d' % rc if rc not in (0, 2) else ('HARNESS-ERROR ' + e.strip()[-300:].replace('\n', ' | '))
                if e == 'TIMEOUT':
                    tag = 'HANG'
                res[c['id']] = got[c['id']][:-1] + [tag]
                nxt = todo[i + 1:]
                progressed = True
                break
            else:
                nxt = todo[i:]
                break
        if not progressed:
            for c in nxt:
                res[c['id']] = ['NOT-RUN rc=%d %s' % (rc, e.strip()[-200:].replace('\n', ' | '))]
            break
        todo = nxt
        rnd += 1
    return res


def run_model_shard(args):
    header, cases, wd, idx, timeout = args
    sp = '%s/model_%d.script' % (wd, idx)
    op = '%s/model_%d.out' % (wd, idx)
    write_script(sp, header, cases)
    try:
        rc, o, e = sh([VMODEL, sp, op], timeout=timeout)
    except subprocess.TimeoutExpired:
        rc, e = -9, 'TIMEOUT'
    txt = open(op).read() if os.path.exists(op) else ''
    got = split_output(txt)
    if rc != 0:
        for c in cases:
            if c['id'] not in got or got[c['id']][-1:] == ['NOEND']:
                got[c['id']] = ['MODEL-ERROR rc=%d %s' % (rc, e.strip()[-200:])]
    return got


def shard(cases, n):
    n = max(1, min(n, len(cases)))
    sh_ = [[] for _ in range(n)]
    for i, c in enumerate(cases):
        sh_[i % n].append(c)
    return [s for s in sh_ if s]


def run_both(header, cases, wd, timeout=900, envx=None, impl_shards=None):
    os.makedirs(wd, exist_ok=True)
    shards = shard(cases, impl_shards or NPROC)
    impl, model = {}, {}
    with cf.ThreadPoolExecutor(NPROC) as ex:
        fi = [ex.submit(run_impl_shard, (header, s, wd, i, timeout, envx)) for i, s in enumerate(shards)]
        fm = [ex.submit(run_model_shard, (header, s, wd, i, timeout)) for i, s in enumerate(shards)]
        for f in fi:
            impl.update(f.result())
        for f in fm:
            model.update(f.result())
    return impl, model


def run_impl_only(header, cases, wd, timeout=900, envx=None):
    os.makedirs(wd, exist_ok=True)
    shards = shard(cases, NPROC)
    impl = {}
    with cf.ThreadPoolExecutor(NPROC) as ex:
        for f in [ex.submit(run_impl_shard, (header, s, wd, i, timeout, envx)) for i, s in enumerate(shards)]:
            impl.update(f.result())
    return impl


def run_oracle(pid, header, cases, impl, wd):
    """Evaluate the extracted property oracle over the implementation's traces.
    -> {case id: None | detail string}"""
    os.makedirs(wd, exist_ok=True)
    res = {}
    shards = shard(cases, NPROC)

    def one(i_s):
        i, s = i_s
        sp = '%s/or_%d.script' % (wd, i)
        tp = '%s/or_%d.trace' % (wd, i)
        op = '%s/or_%d.out' % (wd, i)
        write_script(sp, header, s)
        with open(tp, 'w') as f:
            for c in s:
                f.write('case %d\n' % c['id'])
                for l in impl.get(c['id'], ['NOT-RUN']):
                    f.write(l + '\n')
                f.write('end\n')
        rc, o, e = sh([VMODEL, '--oracle', pid, sp, tp, op], timeout=900)
        r = {}
        if rc != 0:
            raise HarnessError('oracle run failed: ' + e[-500:])
        for l in open(op):
            p = l.rstrip('\n').split(' ', 2)
            if p[0] == 'oracle':
                r[int(p[1])] = None if p[2] == 'ok' else p[2]
        return r
    with cf.ThreadPoolExecutor(NPROC) as ex:
        for r in ex.map(one, enumerate(shards)):
            res.update(r)
    return res


# ----------------------------------------------------------------------------- shrinking

def shrink(case, fails, keep=lambda l: False, budget=150, seconds=None):
    """Greedy line removal. fails(case)->bool re-runs the implementation + oracle.  Bounded by a number of tries and by
    wall-clock time (VERIF_SHRINK_S, default 45 s per reported class): a replay that is not minimal is better than a
    check that is still shrinking when its caller gives up."""
    lines = list(case['lines'])
    t_end = time.time() + (seconds if seconds is not None else float(os.environ.get('VERIF_SHRINK_S', '45')))
    # 1. shortest failing prefix (binary search is unsound for non-monotone failures; go linear from the end in chunks)
    n = len(lines)
    tries = 0
    lo = 0
    for cut in range(1, n):
        if tries >= budget or time.time() > t_end:
            break
        cand = lines[:cut]
        tries += 1
        if fails(dict(case, lines=cand)):
            lines = cand
            break
    # 2. remove single lines
    i = 0
    while i < len(lines) and tries < budget and time.time() < t_end:
        if keep(lines[i]):
            i += 1
            continue
        cand = lines[:i] + lines[i + 1:]
        tries += 1
        if fails(dict(case, lines=cand)):
            lines = cand
        else:
            i += 1
    return dict(case, lines=lines)


# ----------------------------------------------------------------------------- findings / evidence

def load_known():
    p = V + '/known_findings.json'
    if not os.path.exists(p):
        return []
    return json.load(open(p)).get('findings', [])


def write_evidence(pid, ev):
    os.makedirs(V + '/evidence', exist_ok=True)
    with open(V + '/evidence/%s.json' % pid, 'w') as f:
        json.dump(ev, f, indent=1, sort_keys=True)


def write_replay(pid, name, obj):
    d = V + '/replays'
    os.makedirs(d, exist_ok=True)
    p = '%s/%s_%s.json' % (d, pid, name)
    with open(p, 'w') as f:
        json.dump(obj, f, indent=1)
    return p
