"""C09 - check execution: argv from command + arguments + macros, shell quoting, exit/output mapping.
Generators for the correspondence run (real CheckCommand/Host/Service, real ResolveArguments, real
Checkable::ExecuteCheck -> Process -> recplug) against the extracted model."""
import os, random, subprocess, binascii
from . import core

PID = 'C09'
HEADER = []
TIMEOUT = 600
RULE = ('per case one CheckCommand + Host (+ Service) built from config text with custom variables on service/host/command level, '
        'values over an alphabet weighted to quote, double quote, backslash, space, newline, tab, $, ;, |, &, backtick, *, ~, <, >, (, ), #, UTF-8 multibyte; '
        'families: array command lines with 0-8 argument definitions over every combination of value/key/set_if/skip_key/repeat_key/separator/required/order '
        '(scalars, arrays, dictionaries, missing macros, $$), 17-40 argument definitions with pairwise distinct order, custom variables named "" next to $$, string command lines run through the real /bin/sh, custom-variable recursion chains of depth 0-18 and loops, '
        'shadowing and dotted names over all resolver levels, plugin exit statuses 0-255 and death by signal, plugin outputs with 0-3 "|" and "=" per line over several lines, '
        'Utility::EscapeShellArg on raw values, nine real-time timeout scenarios (plugin dies from SIGTERM / ignores it / traps it and exits 0-3 inside the grace period / traps it too slowly / leaves a grandchild holding the pipe); non-trivial = the case resolves at least one macro or maps a plugin result; distinct = distinct script text')
TRUSTED = ['model: coq/Macro/MxModel.v (transcription of macroprocessor.cpp 88-192, 232-339, 22-76, 407-585; utility.cpp EscapeShellArg; '
           'process.cpp PrepareCommand; pluginutility.cpp 16-45, 85-178; pluginchecktask.cpp 65-97)',
           'POSIX sh word splitting / quote removal is modelled only for blanks, characters without special meaning, single quotes and backslash '
           '(coq/Macro/MxModel.v mx_sh_step) and is compared with the real /bin/sh on every string-command case',
           'harness/recplug.c (records argv), harness/ops_mx.cpp, ocaml/ops_mx.ml',
           'std::sort over the argument definitions is modelled as a stable sort: exact for libstdc++ up to 16 definitions, and for any number of definitions with pairwise distinct `order` (C09_sort_unique: every sorted permutation is then this one); generators produce up to 12 definitions with ties and 17-40 definitions with distinct orders']
ASSUMPTIONS = ['macro values are NUL-free byte strings (a C string cannot carry NUL); numbers are integers',
               'Function-valued commands/arguments, the resolvedMacros cache of remote execution, and the config-writer text of arrays/dictionaries used inside a string are not modelled',
               'set_if strings are modelled for plain decimal notation (optional sign, digits, optional fraction); exponent notation, inf and nan are neither modelled nor generated',
               'timeouts: Process::DoEvents is modelled as a step function whose inputs are the facts "soft / hard deadline passed", the read result and the wait status (real time itself is not modelled); the real-time scenarios let the plugin outlive the timeout by >= 25 s']

RECPLUG = core.B + '/harness/recplug'


def _ensure_recplug():
    src = core.V + '/harness/recplug.c'
    try:
        if os.path.exists(RECPLUG) and os.path.getmtime(RECPLUG) >= os.path.getmtime(src):
            return
        os.makedirs(os.path.dirname(RECPLUG), exist_ok=True)
        tmp = RECPLUG + '.%d.tmp' % os.getpid()
        subprocess.run(['cc', '-O1', '-o', tmp, src], check=True, capture_output=True)
        os.replace(tmp, RECPLUG)
    except Exception as e:  # reported by the first exec case as a mismatch
        print('C09: cannot build recplug: %s' % e)


_ensure_recplug()


def hx(b):
    if isinstance(b, str):
        b = b.encode()
    return binascii.hexlify(b).decode() if b else '-'


SPECIAL = ["'", "'", '"', '\\', '\\', ' ', ' ', '\n', '\t', ';', '|', '&', '`', '*', '~', '<', '>', '(', ')', '#', '?', '[', ']',
           '{', '}', '!', '=', '%', '^', ',', '-', 'é', 'ü', '€', '✓', '𝄞', '日本']
PLAIN = 'abcXYZ019_-./:'


def rvalue(rnd, dollar=True, maxlen=10):
    """an arbitrary NUL-free UTF-8 value; '$' only when allowed"""
    n = rnd.choice((0, 1, 1, 2, 3, 5, maxlen))
    out = []
    for _ in range(n):
        r = rnd.random()
        if r < 0.55:
            out.append(rnd.choice(SPECIAL))
        elif r < 0.65 and dollar:
            out.append('$')
        else:
            out.append(rnd.choice(PLAIN))
    return ''.join(out)


def macro_name(rnd, i):
    base = 'q%d_%s' % (i, rnd.choice(('a', 'zz', 'X')))
    r = rnd.random()
    if r < 0.08:
        return base + rnd.choice((' x', "'", '"', ';', 'é', '-', '\\'))
    return base


def floatlike(s):
    try:
        float(s)
    except ValueError:
        return False
    try:
        int(s)
        return s.strip() != s or '_' in s
    except ValueError:
        return True


class Case:
    def __init__(self, fam):
        self.lines = ['mx_new']
        self.fam = fam
        self.names = {}          # level -> set of names
        self.tags = {'family': fam}

    def var(self, lvl, name, spec):
        if name in self.names.setdefault(lvl, set()):
            return False
        self.names[lvl].add(name)
        self.lines.append('mx_var lvl=%s name=%s %s' % (lvl, hx(name), spec))
        return True

    def done(self):
        return {'lines': self.lines, 'tags': self.tags}


def s_spec(v):
    return 't=s v=%s' % hx(v)


def arr_spec(elems):
    return 't=a n=%d ' % len(elems) + ' '.join('e%d=%s' % (i, e) for i, e in enumerate(elems))


def var_value(rnd, others):
    """a custom variable value that passes ValidateCustomVars: '$' only as $$ or $name$"""
    parts = []
    for _ in range(rnd.choice((1, 1, 2, 3))):
        r = rnd.random()
        if r < 0.12:
            parts.append('$$')
        elif r < 0.22 and others:
            parts.append('$%s$' % rnd.choice(others))
        else:
            parts.append(rvalue(rnd, dollar=False))
    return ''.join(parts)


def populate(c, rnd, nvars=None):
    """custom variables on the three levels; returns names by kind"""
    names = {'str': [], 'arr': [], 'dict': [], 'num': [], 'bool': [], 'empty': [], 'missing': []}
    n = nvars if nvars is not None else rnd.randint(2, 7)
    for i in range(n):
        nm = macro_name(rnd, i)
        lvl = rnd.choice(('host', 'host', 'svc', 'cmd'))
        k = rnd.random()
        if k < 0.5:
            ok = c.var(lvl, nm, s_spec(var_value(rnd, names['str'][:3])))
            kind = 'str'
        elif k < 0.68:
            el = []
            for _ in range(rnd.choice((0, 1, 2, 3))):
                el.append(rnd.choice(('s:%s' % hx(var_value(rnd, names['str'][:2])), 's:%s' % hx(rvalue(rnd, False)), 'n:%d' % rnd.randint(-3, 99), 's:-')))
            ok = c.var(lvl, nm, arr_spec(el))
            kind = 'arr'
        elif k < 0.76:
            ok = c.var(lvl, nm, 't=d n=1 k0=%s e0=s:%s' % (hx('k'), hx(rvalue(rnd, False))))
            kind = 'dict'
        elif k < 0.86:
            ok = c.var(lvl, nm, 't=n v=%d' % rnd.choice((0, 1, 2, -1, 7, 1234567)))
            kind = 'num'
        elif k < 0.93:
            ok = c.var(lvl, nm, 't=b v=%d' % rnd.randint(0, 1))
            kind = 'bool'
        else:
            ok = c.var(lvl, nm, rnd.choice(('t=e', 't=s v=-')))
            kind = 'empty'
        if ok:
            names[kind].append(nm)
            # shadowing: the same name on another level
            if rnd.random() < 0.15:
                c.var(rnd.choice(('host', 'svc', 'cmd')), nm, s_spec(rvalue(rnd, False)))
    names['missing'] = ['q_miss_%d' % rnd.randint(0, 3)]
    if rnd.random() < 0.06:
        # a custom variable named "" must not disturb $$ (fixed finding dollar-empty-var)
        c.var(rnd.choice(('host', 'svc', 'cmd')), '', s_spec(rvalue(rnd, False)))
    if rnd.random() < 0.5:
        c.lines.append('mx_attr lvl=host name=address v=%s' % hx(rvalue(rnd, True)))
        names['str'].append('address')
        names['str'].append('host.address')
    if rnd.random() < 0.2:
        c.lines.append('mx_attr lvl=svc name=display_name v=%s' % hx(rvalue(rnd, True)))
    if rnd.random() < 0.2:
        c.lines.append('mx_env name=MXENV_A v=%s' % hx(rvalue(rnd, True)))
        names['str'].append('env.MXENV_A')
    return names


def pick_macro(rnd, names, kinds):
    pool = []
    for k in kinds:
        pool += [(k, n) for n in names.get(k, [])]
    if not pool:
        return ('missing', 'q_miss_0')
    return rnd.choice(pool)


def template(rnd, names, allow=('str', 'str', 'str', 'arr', 'num', 'bool', 'empty', 'missing', 'dict')):
    """an argument value: mostly a sole macro, sometimes mixed text"""
    r = rnd.random()
    kind, nm = pick_macro(rnd, names, allow)
    if r < 0.6:
        return '$%s$' % nm
    if r < 0.7:
        return rvalue(rnd, False)
    if r < 0.78:
        return rnd.choice(('$$', 'a$$b', '$$$$'))
    # mixed text: dictionaries would need the config writer's text
    kind, nm = pick_macro(rnd, names, [k for k in allow if k != 'dict'])
    pre = rvalue(rnd, False, 4)
    post = rvalue(rnd, False, 4)
    if rnd.random() < 0.3:
        k2, n2 = pick_macro(rnd, names, ('str', 'num', 'missing'))
        post += '$%s$' % n2
    return pre + '$%s$' % nm + post


def set_if_value(rnd, names):
    r = rnd.random()
    if r < 0.25:
        return rnd.choice(('true', 'false', '1', '0', '2', '-1', '', '00', '+1', '1.', '.9', '0.5', '-0.0', '1.5', '-', '.'))
    if r < 0.75:
        kind, nm = pick_macro(rnd, names, ('bool', 'bool', 'num', 'str', 'arr', 'empty', 'missing', 'missing'))
        return '$%s$' % nm
    v = rvalue(rnd, False, 4)
    return 'x' + v if floatlike(v) or floatlike(v.strip()) else v


def gen_args(c, rnd, names, maxn=8):
    n = rnd.choice((0, 1, 2, 3, 4, 5, maxn))
    used = set()
    if n == 0 and rnd.random() < 0.5:
        c.lines.append('mx_args')
    for i in range(n):
        nm = rnd.choice(('-a', '-b', '--long', '-x', '-y', '--k=', '-' + rvalue(rnd, False, 3), 'k%d' % i))
        if nm in used:
            nm += str(i)
        used.add(nm)
        if rnd.random() < 0.2:
            c.lines.append('mx_arg name=%s dict=0 val=%s' % (hx(nm), hx(template(rnd, names))))
            continue
        parts = ['mx_arg name=%s dict=1' % hx(nm)]
        if rnd.random() < 0.85:
            parts.append('val=%s' % hx(template(rnd, names)))
        if rnd.random() < 0.2:
            parts.append('key=%s' % hx(rnd.choice(('-K', '--key', rvalue(rnd, False, 3)))))
        if rnd.random() < 0.35:
            parts.append('sif=%s' % hx(set_if_value(rnd, names)))
        if rnd.random() < 0.35:
            parts.append('skip=%d' % rnd.randint(0, 1))
        if rnd.random() < 0.35:
            parts.append('rep=%d' % rnd.randint(0, 1))
        if rnd.random() < 0.3:
            parts.append('req=%d' % rnd.randint(0, 1))
        if rnd.random() < 0.5:
            parts.append('order=%d' % rnd.choice((-2, -1, 0, 0, 1, 1, 2, 10)))
        if rnd.random() < 0.3:
            parts.append('sep=%s' % hx(rnd.choice(('=', '=', ' ', '', ':', "='"))))
        c.lines.append(' '.join(parts))


def case_args(rnd, execute):
    c = Case('array-command+arguments' + ('+exec' if execute else ''))
    names = populate(c, rnd)
    c.lines.append('mx_cmd kind=arr')
    c.lines.append('mx_cel v=%s' % hx(RECPLUG))
    for _ in range(rnd.choice((0, 0, 1, 2, 3))):
        r = rnd.random()
        if r < 0.4:
            c.lines.append('mx_cel v=%s' % hx(rvalue(rnd, False)))
        elif r < 0.5:
            c.lines.append('mx_cel v=%s' % hx(rnd.choice(('$$', 'x$$', '$$$$y'))))
        else:
            c.lines.append('mx_cel v=%s' % hx(template(rnd, names, ('str', 'str', 'num', 'arr', 'missing', 'empty', 'bool'))))
    gen_args(c, rnd, names)
    svc = rnd.randint(0, 1)
    if execute:
        plug(c, rnd)
    c.lines.append('mx_resolve svc=%d' % svc)
    if execute:
        c.lines.append('mx_exec svc=%d' % svc)
    return c.done()


def sh_literal(rnd):
    r = rnd.random()
    if r < 0.5:
        return ''.join(rnd.choice(PLAIN + '=+,@%') for _ in range(rnd.randint(1, 5)))
    if r < 0.8:
        return "'" + rvalue(rnd, False, 6).replace("'", '') + "'"
    return '--opt=' + ''.join(rnd.choice(PLAIN) for _ in range(rnd.randint(0, 3)))


def case_strcmd(rnd):
    c = Case('string-command-through-sh')
    names = populate(c, rnd)
    words = [RECPLUG]
    for _ in range(rnd.randint(1, 6)):
        r = rnd.random()
        kind, nm = pick_macro(rnd, names, ('str', 'str', 'str', 'num', 'arr', 'bool', 'empty', 'missing'))
        if r < 0.45:
            words.append('$%s$' % nm)
        elif r < 0.6:
            words.append(rnd.choice(('--k=', '-x', 'a', '')) + '$%s$' % nm + rnd.choice(('', '', 'z', ".d'q'")))
        elif r < 0.7:
            words.append(rnd.choice(('$$', 'p$$', '$$$$')))
        else:
            words.append(sh_literal(rnd))
    cmd = words[0]
    for w in words[1:]:
        cmd += rnd.choice((' ', ' ', '  ', '\t')) + w
    cmd += rnd.choice(('', '', ' '))
    c.lines.append('mx_cmd kind=str')
    c.lines.append('mx_cel v=%s' % hx(cmd))
    svc = rnd.randint(0, 1)
    plug(c, rnd, allow_signal=False)
    c.lines.append('mx_resolve svc=%d' % svc)
    c.lines.append('mx_exec svc=%d' % svc)
    return c.done()


def case_replay(rnd, shape):
    """command_endpoint: the parent resolves in collect mode, the agent executes from the recorded macros
    (useResolvedMacros); same value alphabet, same command shapes as the local families"""
    if shape == 'str':
        c = case_strcmd(rnd)
        run = 1
    elif shape == 'rec':
        c = case_recursion(rnd)
        run = 0
    else:
        c = case_args(rnd, True)
        run = 1 if rnd.random() < 0.3 else 0
    svc = 0
    for l in c['lines']:
        if l.startswith(('mx_resolve', 'mx_exec')) and 'svc=1' in l:
            svc = 1
    c['tags']['family'] = 'replay-' + c['tags']['family']
    c['lines'].append('mx_replay svc=%d run=%d' % (svc, run))
    return c


def case_recursion(rnd):
    c = Case('recursion')
    depth = rnd.choice((0, 1, 2, 5, 12, 13, 14, 15, 16, 18))
    loop = rnd.random() < 0.25
    lvl = lambda: rnd.choice(('host', 'svc', 'cmd'))
    final = rvalue(rnd, False)
    for i in range(depth):
        c.var(lvl(), 'r%d_v' % i, s_spec(rnd.choice(('', 'p')) + '$r%d_v$' % (i + 1) + rnd.choice(('', ' s'))))
    if loop:
        c.var(lvl(), 'r%d_v' % depth, s_spec('$r%d_v$' % rnd.randint(0, depth)))
    else:
        c.var(lvl(), 'r%d_v' % depth, s_spec(final))
    if rnd.random() < 0.3:
        c.var('host', 'r_arr', arr_spec(['s:%s' % hx('$r%d_v$' % rnd.randint(0, depth)), 's:%s' % hx('lit')]))
        ref = '$r_arr$'
    else:
        ref = '$r0_v$'
    shape = rnd.random()
    if shape < 0.4:
        c.lines += ['mx_cmd kind=arr', 'mx_cel v=%s' % hx(RECPLUG), 'mx_arg name=%s dict=1 val=%s req=%d' % (hx('-r'), hx(ref), rnd.randint(0, 1))]
    elif shape < 0.7:
        c.lines += ['mx_cmd kind=arr', 'mx_cel v=%s' % hx(RECPLUG), 'mx_cel v=%s' % hx(ref)]
    else:
        c.lines += ['mx_cmd kind=str', 'mx_cel v=%s' % hx(RECPLUG + ' ' + ref)]
    c.tags['depth'] = depth
    ex = rnd.random() < 0.2
    if ex:
        plug(c, rnd, allow_signal=False)
    c.lines.append('mx_resolve svc=1')
    if ex:
        c.lines.append('mx_exec svc=1')
    return c.done()


def case_levels(rnd):
    c = Case('levels-and-dotted-names')
    nm = 'q_sh'
    present = [l for l in ('svc', 'host', 'cmd') if rnd.random() < 0.6]
    for l in present:
        c.var(l, nm, s_spec(l + ':' + rvalue(rnd, False, 4)))
    c.var('host', 'q_d', 't=d n=2 k0=%s e0=s:%s k1=%s e1=n:5' % (hx('k'), hx(rvalue(rnd, False)), hx('n')))
    c.lines.append('mx_attr lvl=host name=address v=%s' % hx(rvalue(rnd, True)))
    c.lines.append('mx_attr lvl=host name=notes v=%s' % hx(rnd.choice(('plain', '$q_sh$', '$$', 'x$host.address$'))))
    c.lines.append('mx_env name=MXENV_B v=%s' % hx(rvalue(rnd, True)))
    refs = ['q_sh', 'host.vars.q_sh', 'service.vars.q_sh', 'command.vars.q_sh', 'host.address', 'address', 'host.q_nofield', 'bogus.q_sh',
            'env.MXENV_B', 'env.MXENV_UNSET', 'MXENV_B', 'host.address.junk.more', 'host.vars.q_d.k', 'host.vars.q_d.n', 'host.vars.q_d.zz',
            'host.vars.q_sh.ignored', 'host.notes', 'vars.q_sh', '.q_sh', 'host.vars', 'host..address']
    refs = [r for r in refs if r != 'host.vars']      # a whole dictionary as text is not modelled
    c.lines += ['mx_cmd kind=arr', 'mx_cel v=%s' % hx(RECPLUG)]
    for i in range(rnd.randint(1, 5)):
        r = rnd.choice(refs)
        if rnd.random() < 0.5:
            c.lines.append('mx_cel v=%s' % hx(rnd.choice(('', 'x=')) + '$%s$' % r))
        else:
            c.lines.append('mx_arg name=%s dict=1 val=%s order=%d' % (hx('-l%d' % i), hx('$%s$' % r), rnd.randint(-1, 1)))
    c.lines.append('mx_resolve svc=%d' % (1 if 'svc' in present or rnd.random() < 0.5 else 0))
    return c.done()


def gen_output(rnd):
    lines = []
    for _ in range(rnd.choice((1, 1, 2, 3))):
        s = ''
        for _ in range(rnd.randint(0, 6)):
            r = rnd.random()
            if r < 0.18:
                s += '|'
            elif r < 0.36:
                s += '='
            elif r < 0.5:
                s += ' '
            elif r < 0.56:
                s += "'"
            elif r < 0.62:
                s += '::'
            else:
                s += rnd.choice(('ok', 'a', 'b1', '5', '1;2;3', 'rta', 'é', 'load 1', 'x::y'))
        lines.append(s)
    out = lines[0]
    for l in lines[1:]:
        out += rnd.choice(('\n', '\n', '\r\n', '\r', '\n\n')) + l
    return rnd.choice(('', '', ' ', '\n')) + out + rnd.choice(('', '\n', ' \n', '\t'))


def plug(c, rnd, allow_signal=True):
    r = rnd.random()
    ex = rnd.choice((0, 1, 2, 3, rnd.randint(4, 255), rnd.randint(0, 255), 4, 127, 128, 255))
    line = 'mx_plug exit=%d out=%s' % (ex, hx(gen_output(rnd)))
    if allow_signal and r < 0.06:
        line = 'mx_plug exit=0 sig=%d' % rnd.choice((9, 15, 10))
    c.lines.append(line)


def case_exit_exec(rnd, ex):
    c = Case('exit-status-exec')
    c.lines += ['mx_cmd kind=arr', 'mx_cel v=%s' % hx(RECPLUG), 'mx_plug exit=%d out=%s' % (ex, hx(gen_output(rnd))), 'mx_exec svc=%d' % rnd.randint(0, 1)]
    return c.done()


def case_pure(rnd, tier):
    c = Case('pure-functions')
    for _ in range(12):
        c.lines.append('mx_esc v=%s' % hx(rvalue(rnd, True, 16)))
    for _ in range(16):
        c.lines.append('mx_out v=%s' % hx(gen_output(rnd)))
    return c.done()


def case_exit_map():
    c = Case('exit-map')
    for st in list(range(-3, 260)) + [511, 32768, -128]:
        c.lines.append('mx_exit st=%d' % st)
    return c.done()


def case_finding(rnd):
    """custom variable named "" next to $$ : regression guard for the fixed finding dollar-empty-var (4feca083);
    the variable itself stays reachable as $host.vars.$ / $service.vars.$ / $command.vars.$"""
    c = Case('empty-named-variable')
    lv = rnd.choice(('host', 'svc', 'cmd'))
    c.var(lv, '', s_spec(rvalue(rnd, False)))
    c.var('host', 'q_ok', s_spec(rnd.choice(('fine', 'a$$b'))))
    c.lines += ['mx_cmd kind=arr', 'mx_cel v=%s' % hx(RECPLUG), 'mx_cel v=%s' % hx(rnd.choice(('$$', 'cost: 5$$', '$q_ok$'))),
                'mx_cel v=%s' % hx('$%s.vars.$' % {'host': 'host', 'svc': 'service', 'cmd': 'command'}[lv]),
                'mx_arg name=%s dict=1 val=%s' % (hx('-p'), hx(rnd.choice(('$$', '$q_ok$$$')))), 'mx_resolve svc=1']
    return c.done()


def case_many_args(rnd):
    """more than 16 argument definitions (libstdc++ std::sort leaves insertion sort there): all `order` values
    distinct, so that the result of ANY correct sort is determined (C09_sort_unique)"""
    c = Case('more-than-16-arguments')
    names = populate(c, rnd, nvars=4)
    n = rnd.randint(17, 40)
    orders = rnd.sample(range(-50, 50), n)
    c.lines += ['mx_cmd kind=arr', 'mx_cel v=%s' % hx(RECPLUG)]
    for i in range(n):
        parts = ['mx_arg name=%s dict=1 order=%d' % (hx('-m%02d' % i), orders[i])]
        r = rnd.random()
        if r < 0.7:
            parts.append('val=%s' % hx(template(rnd, names, ('str', 'str', 'num', 'arr', 'missing'))))
        if rnd.random() < 0.2:
            parts.append('skip=1')
        if rnd.random() < 0.2:
            parts.append('sep=%s' % hx('='))
        if rnd.random() < 0.2:
            parts.append('rep=0')
        c.lines.append(' '.join(parts))
    c.lines.append('mx_resolve svc=%d' % rnd.randint(0, 1))
    return c.done()


def case_timeout(spec, out=''):
    c = Case('timeout-scenarios')
    c.lines += ['mx_cmd kind=arr', 'mx_cel v=%s' % hx(RECPLUG), 'mx_cel v=%s' % hx(spec.split()[0]),
                'mx_plug out=%s %s' % (hx(out), spec), 'mx_exec svc=0']
    c.tags['scenario'] = spec
    return c.done()


def timeout_cases():
    """real-time cases (each costs about 1.1 x timeout seconds; they land in different shards and run in parallel).
    The plugin (or the grandchild holding the pipe) outlives the timeout by at least 25 s, so the soft deadline
    always fires; what is observed (state, exit status, marker, no survivor) does not depend on how fast the
    plugin reacts, so load cannot change the expected line - it can only make a broken implementation look right."""
    cs = [case_timeout('exit=0 sleep=30 timeout=1'),                        # dies from the SIGTERM
          case_timeout('exit=0 sleep=30 timeout=1 term=ignore', 'busy'),      # must be SIGKILLed
          case_timeout('exit=0 sleep=30 timeout=1 term=exit:0:5000'),         # traps SIGTERM, too slow: SIGKILL
          case_timeout('exit=0 gchild=30 timeout=1', 'started'),              # plugin gone, grandchild holds the pipe
          case_timeout('exit=2 gchild=30 timeout=1')]
    for code, tmo in ((0, 4), (1, 4), (2, 6), (3, 6)):                         # traps SIGTERM, exits inside the grace period
        cs.append(case_timeout('exit=0 sleep=40 timeout=%d term=exit:%d:0' % (tmo, code), 'working'))
    return cs


def generate(seed, tier):
    rnd = random.Random(seed)
    k = {'quick': 1, 'thorough': 8, 'search': 3}.get(tier, 1)
    cases = [case_exit_map()] + timeout_cases()
    for _ in range(900 * k):
        cases.append(case_args(rnd, False))
    for _ in range(200 * k):
        cases.append(case_args(rnd, True))
    for _ in range(250 * k):
        cases.append(case_strcmd(rnd))
    for _ in range(200 * k):
        cases.append(case_recursion(rnd))
    for _ in range(200 * k):
        cases.append(case_levels(rnd))
    for _ in range(80 * k):
        cases.append(case_many_args(rnd))
    for ex in range(256):
        cases.append(case_exit_exec(rnd, ex))
    for _ in range(60 * k):
        cases.append(case_pure(rnd, tier))
    for _ in range(12 * k):
        cases.append(case_finding(rnd))
    for _ in range(110 * k):
        cases.append(case_replay(rnd, 'str'))
    for _ in range(200 * k):
        cases.append(case_replay(rnd, 'args'))
    for _ in range(60 * k):
        cases.append(case_replay(rnd, 'rec'))
    return cases


def nontrivial(case, impl_lines):
    fam = case['tags'].get('family', '')
    if fam in ('exit-map', 'pure-functions', 'exit-status-exec', 'timeout-scenarios'):
        return True
    return any('24' in l for l in case['lines'] if l.startswith(('mx_cel', 'mx_arg')))   # a '$' somewhere


def classify(case, detail, impl_lines):
    if 'crash' in detail or 'missing-observation' in detail:
        return 'crash'
    for key in ('replay', 'timeout-not-unknown', 'timeout-marker', 'grandchild-survived', 'exit-map', 'failure-not-unknown', 'argv-through-sh', 'escape', 'perfdata', 'output', 'argv', 'shell-string', 'failure'):
        if key in detail:
            return key
    return 'other'


def keep_line(l):
    return l.startswith(('mx_new', 'mx_cmd', 'mx_resolve', 'mx_exec', 'mx_replay'))


def extra_stats(cases, impl):
    import collections
    st = collections.Counter()
    for c in cases:
        for l in impl.get(c['id'], []):
            if l.startswith('res arr'):
                st['resolve_array'] += 1
                st['argv_elements'] += len(l.split()) - 2
            elif l.startswith('res sh'):
                st['resolve_shell_string'] += 1
            elif l.startswith('res err'):
                st['resolve_failure'] += 1
            elif l.startswith('exec'):
                st['executions'] += 1
                if 'tmo=1' in l:
                    st['timeouts_fired'] += 1
                if 'argv=none' in l:
                    st['executions_not_started'] += 1
                for t in l.split():
                    if t.startswith('state='):
                        st['exec_state_' + t[6:]] += 1
            elif l.startswith('rcoll'):
                st['replay_collect_' + l.split()[1]] += 1
            elif l.startswith('rres'):
                st['replay_resolve_' + l.split()[1]] += 1
            elif l.startswith('rexec'):
                st['replay_executions'] += 1
            elif l.startswith('esc'):
                st['escape_calls'] += 1
            elif l.startswith('out '):
                st['output_splits'] += 1
                if 'pd=[]' not in l:
                    st['output_with_perfdata'] += 1
            elif l.startswith('exit '):
                st['exit_map_calls'] += 1
        for l in c['lines']:
            if l.startswith('mx_arg '):
                st['argument_definitions'] += 1
                for a in ('sif=', 'skip=1', 'rep=0', 'req=1', 'sep=', 'key=', 'order='):
                    if a in l:
                        st['argdef_' + a.rstrip('=')] += 1
    return dict(st)
