"""C20 - wire codecs (netstring framing, JSON).  Generators for the correspondence run."""
import random, struct, itertools, json, re

PID = 'C20'
HEADER = []
RULE = ('end of stream: short frame sequences ended at EVERY offset on a scripted chunk stream, the real StdioStream over a stringstream and '
        'over an fstream of a temporary file, complete frames followed by every kind of remainder (nothing, partial header, partial payload, '
        'terminator missing, newline/garbage, malformed), every chunking of short truncated streams with and without empty fills, frames '
        'larger than one 64 KiB fill, the hostile list ended, the limit together with the end, random cuts; the callers\' loop is driven with '
        'a bound on the number of calls (end=loop instead of a hang) and ConfigObject::RestoreObjects itself runs on truncated state files in a '
        'forked child under a CPU-time limit; TLS readers with the peer closing (close_notify or dropped transport) at every offset, '
        'JsonRpc::ReadMessage+DecodeMessage as the reader coroutine runs them; the real writers on payloads of 10^k-1/10^k/10^k+1 bytes '
        '(k = 1..6, thorough ..7) and around the 1 MiB anonymous limit against the buffered and the coroutine TLS reader (both ends AsioTlsStream); '
        'JSON: every control character/NUL/DEL/quote/backslash alone and between plain characters as value AND key at nesting 0..3, numbers '
        'around 2^31/2^32/2^53/2^63/2^64/10^15..10^17 (+-1, +-2, +-1024, +-2048), -0 spellings, huge exponents, 400-digit literals, strings of '
        '1 KB..30 KB (thorough 1 MB) as value and key, nesting limit-1/limit/limit+1 and up to 1000 (thorough 3000) for JsonDecode AND '
        'JsonDecodeTrusted, the hostile documents through both decoders; '
        'netstring: every chunking of short frame sequences (stream <= 11 bytes) and random chunkings of longer ones, fed as raw bytes '
        'and through the real writer, payload lengths around 9/10/99/100/4096/65536+; hostile streams = grammar-aware mutations of valid '
        'frames (leading zero, non-digit header bytes, 16/17/18-byte headers, missing colon/comma, 9/10/11 digit lengths, declared length '
        'around the limit, truncation) and random bytes, for the buffered (FIFO+StreamReadContext) and both AsioTlsStream variants '
        '(sync, coroutine) over a real TLS session with the chunks as TLS records; JSON: generated values (strings over all Unicode planes, '
        'boundary code points, control characters, characters needing escapes, ill-formed UTF-8; integers to 2^53 and the 64-bit limits, '
        '-0, subnormals, extreme magnitudes; empty containers; nesting to 64; shuffled unique keys) round-tripped through the real '
        'JsonEncode/JsonDecode, hostile documents (mutated valid documents, number/escape/surrogate edge cases, BOMs, random bytes) through '
        'JsonDecode and JsonRpc::DecodeMessage, nesting 1..20000 (both sides of the source\'s limit 128) on a 256 KiB coroutine stack. '
        'non-trivial = at least one frame/value/error observed; distinct = distinct script text')
TRUSTED = ['model: coq/Codec/NsModel.v (transcription of lib/base/netstring.cpp:26-101,129-277,331-334 and the StreamReadContext '
           'handling of lib/base/stream.cpp:111-144 with what FillFromStream delivers as an input: a list of fills, then the end; '
           'ns_loop = the `for (;;) { read; if Eof break; if !NewItem continue; handle }` loop of RestoreObjects/ReplayLog/the CLI readers), coq/Codec/JsModel.v (transcription of '
           'lib/base/json.cpp, of nlohmann serializer::dump_escaped/dump_integer (ensure_ascii), lexer and strict SAX parser, and of '
           'utf8::replace_invalid)',
           'binary64 printing/parsing (nlohmann Grisu2 to_chars, strtod) is a parameter of the JSON model, instantiated by OCaml '
           "Printf \"%.17g\"/float_of_string in vmodel; encoded bytes are compared only for values without non-integral numbers, "
           'decoded values always (bit patterns)',
           'harness/ops_codec.cpp replaces global operator new to record the largest single request while a frame is read; '
           'the TLS peer is plain OpenSSL on a socketpair; the server side is the real AsioTlsStream']
ASSUMPTIONS = ['StreamReadContext::FillFromStream returns false exactly when no byte arrived and the stream reports EOF, and appends what arrived '
               'otherwise (lib/base/stream.cpp:111-137, not modelled below that line; exercised on three stream types)',
               'source facts (tools/facts_c20.py -> Facts_c20): digit limits, limit tests, default/anonymous/endpoint maxMessageLength, the plain '
               'writer, the callers of the buffered reader, both JSON decoders and the decoder RestoreObject uses are recognised by regular '
               'expressions over the source text; an unrecognised shape degrades the limit theorems to True (listed by srcfacts)',
               'js_long / ns_wbig (payloads built inside the harness): the expectation is computed from the model on the pattern / from the '
               'theorems C20_ns_writer_boundaries and C20_json_roundtrip, not by running the model on the whole payload',
               'for non-integral or out-of-64-bit-range finite doubles: printing is inverted by parsing (Section hypothesis js_fparse_fprint; '
               'exhibited on every generated double by the real round trip)',
               'the ill-formed-UTF-8 test of the nlohmann lexer/serializer never fires after Utility::ValidateUTF8 '
               '(both accept exactly well-formed UTF-8; exercised, not proved)',
               'memory safety of the C++ and of nlohmann is exhibited (no crash on the generated hostile inputs), not proved']


def hx(b):
    return b.hex() if b else '-'


# ----------------------------------------------------------------------------------------------- netstring
def nsw(p):
    return str(len(p)).encode() + b':' + p + b','


def chunkings(s):
    n = len(s)
    for mask in range(1 << (n - 1)):
        out, cur = [], s[:1]
        for i in range(1, n):
            if mask >> (i - 1) & 1:
                out.append(cur); cur = b''
            cur += s[i:i + 1]
        out.append(cur)
        yield out


def rand_chunks(rnd, s, mean):
    out, i = [], 0
    while i < len(s):
        k = max(0 if rnd.random() < 0.1 else 1, int(rnd.expovariate(1.0 / mean)))
        out.append(s[i:i + k]); i += k
    return out or [b'']


def rand_payload(rnd, n=None):
    if n is None:
        n = rnd.choice((0, 0, 1, 1, 2, 3, 5, 9, 10, 11, 30, 99, 100, 101))
    kind = rnd.random()
    if kind < 0.3:
        return bytes(rnd.choice(b'0123456789:,') for _ in range(n))
    if kind < 0.6:
        return bytes(rnd.randrange(256) for _ in range(n))
    return bytes(rnd.choice(b'abcXYZ {}[]"\\') for _ in range(n))


def ns_case(max_, frames, chunks, fam, declare=True):
    lines = ['ns_new max=%d' % max_]
    if declare:
        lines.append('ns_frames ' + (','.join(hx(f) for f in frames) if frames else '.'))
    lines += ['ns_feed ' + hx(c) for c in chunks]
    return {'lines': lines, 'tags': {'family': fam}}


HOSTILE_NS = [b':abc,', b'01:a,', b'00:,', b'0:,', b'0:x', b'1:ab', b'3:abc', b'3:abcd,', b'a:b,', b'1a:x,', b'1a2:xy,', b' 1:a,',
              b'-1:a,', b'+1:a,', b'1 :a,', b'1:a', b'999999999:', b'1000000000:', b'0000000001:a,', b'123456789:abc', b'1234567890:abc',
              b'12345678901234567:', b'1234567890123456:', b'abcdefghijklmnopq:', b'abcdefghijklmnopqr:', b'abcdefghijklmnop',
              b'abcdefghijklmnopq', b'abcdefghijklmnopqr', b'abcdefghijklmnopqrs', b'\x00:', b'9\xff:', b'1:\x00,', b'2:\xff\xfe,1:a,',
              b'5:hello,5:wor', b'5:hello;', b'05:hello,', b'5x:hello,', b'x5:hello,', b'5:hello,,', b',', b'::', b'1:::', b'10:0123456789,',
              b'10:012345678,', b'9:012345678,1:', b'1:a,01:b,', b'1:a,:', b'4:abcd,00', b'4294967296:', b'18446744073709551616:']


def mutate(rnd, s):
    s = bytearray(s)
    for _ in range(rnd.choice((1, 1, 1, 2, 3))):
        k = rnd.random()
        pos = rnd.randrange(len(s) + 1)
        if k < 0.3 and s:
            del s[min(pos, len(s) - 1)]
        elif k < 0.6:
            s.insert(pos, rnd.choice(b'0123456789:,0:,a\x00\xff '))
        elif k < 0.85 and s:
            s[min(pos, len(s) - 1)] = rnd.choice(b'0123456789:,0:,a\x00\xff ')
        else:
            s = s[:pos]
    return bytes(s)


def gen_netstring(rnd, tier, cases):
    big = tier != 'quick'
    # every chunking of short frame sequences
    short_seqs = [[b''], [b'a'], [b'', b''], [b'a', b''], [b'ab'], [b':'], [b','], [b'1:'], [b'a', b'b'], [b'0:,'], [b'abc'], [b'', b'a'], [b'12']]
    for fr in short_seqs:
        s = b''.join(nsw(p) for p in fr)
        if len(s) <= (11 if big else 9):
            for ch in chunkings(s):
                cases.append(ns_case(-1, fr, ch, 'ns-chunking-exhaustive'))
    # byte-at-a-time, two halves, random chunkings of longer sequences
    for i in range(900 if big else 300):
        fr = [rand_payload(rnd) for _ in range(rnd.randint(1, 6))]
        s = b''.join(nsw(p) for p in fr)
        mx = rnd.choice((-1, -1, max(len(p) for p in fr) + 1, 1 << 20))
        how = rnd.random()
        ch = [s[j:j + 1] for j in range(len(s))] if how < 0.2 else rand_chunks(rnd, s, rnd.choice((1, 2, 3, 7, 30)))
        cases.append(ns_case(mx, fr, ch, 'ns-chunking-random'))
    # an incomplete frame stays in the carried buffer
    for i in range(40):
        fr = [rand_payload(rnd) for _ in range(rnd.randint(0, 3))]
        nxt = nsw(rand_payload(rnd, rnd.choice((1, 5, 12))))
        s = b''.join(nsw(p) for p in fr) + nxt[:rnd.randrange(len(nxt))]
        cases.append(ns_case(-1, fr, rand_chunks(rnd, s, 4), 'ns-chunking-tail', declare=False))
    # the real writer feeding the real reader, length boundaries and fills larger than 64 KiB
    for n in (0, 1, 9, 10, 11, 99, 100, 101, 999, 1000, 4095, 4096, 4097, 9999, 10000) + ((65535, 65536, 70000, 140000) if big else (70000,)):
        p = bytes(rnd.randrange(256) for _ in range(min(n, 64))) * (n // 64 + 1)
        p = p[:n]
        lines = ['ns_new max=-1', 'ns_write ' + hx(p), 'ns_wfeed ' + hx(p), 'ns_wfeed ' + hx(p[:7]), 'ns_wfeed -']
        cases.append({'lines': lines, 'tags': {'family': 'ns-writer'}})
    for i in range(60 if big else 25):
        lines = ['ns_new max=%d' % rnd.choice((-1, 50, 102))]
        for _ in range(rnd.randint(1, 8)):
            lines.append('ns_wfeed ' + hx(rand_payload(rnd)))
        cases.append({'lines': lines, 'tags': {'family': 'ns-writer'}})
    # limit boundary (buffered: data_length = len + 1 is compared)
    for mx in (0, 1, 2, 5, 10, 100):
        for n in (mx - 2, mx - 1, mx, mx + 1):
            if n >= 0:
                p = b'x' * n
                cases.append(ns_case(mx, [p], rand_chunks(rnd, nsw(p) + nsw(b''), 3), 'ns-limit-buffered', declare=False))
    # hostile streams, buffered variant
    for h in HOSTILE_NS:
        cases.append(ns_case(-1, [], [h], 'ns-hostile-buffered', declare=False))
        cases.append(ns_case(-1, [], [h[j:j + 1] for j in range(len(h))], 'ns-hostile-buffered', declare=False))
        cases.append(ns_case(4, [], rand_chunks(rnd, b'1:a,' + h + b'1:b,', 3), 'ns-hostile-buffered', declare=False))
    for i in range(1500 if big else 400):
        fr = [rand_payload(rnd, rnd.choice((0, 1, 3, 10))) for _ in range(rnd.randint(1, 3))]
        s = mutate(rnd, b''.join(nsw(p) for p in fr))
        cases.append(ns_case(rnd.choice((-1, -1, 3, 11)), [], rand_chunks(rnd, s, rnd.choice((1, 3, 50))), 'ns-hostile-buffered', declare=False))
    for i in range(100 if big else 30):
        s = bytes(rnd.choice(b'0123456789:,ab\x00\xff') for _ in range(rnd.randint(1, 40)))
        cases.append(ns_case(-1, [], rand_chunks(rnd, s, 5), 'ns-random-bytes', declare=False))


# ---- the buffered reader up to the END of the stream (the callers' loop)
REMAINDERS = [b'', b'1', b'12', b'123456789', b'5:', b'5:he', b'5:hello', b'0:', b'\n', b'\r\n', b' ', b'abc', b'\x00', b'abcdefghijklmnopq',
              b'7', b'10:012345678', b'10:0123456789',
              # malformed: the loop must end with the reader's exception
              b'3:abcd', b':', b'01:', b'1234567890:', b'abcdefghijklmnopqr', b'5:hello;', b'00', b'1:a;']


def eof_line(max_, mode, chunks):
    return 'ns_eof max=%d mode=%s %s' % (max_, mode, ','.join(hx(c) for c in chunks))


def with_empty_chunks(rnd, chunks):
    out = []
    for c in chunks:
        if rnd.random() < 0.15:
            out.append(b'')
        out.append(c)
    return out


def gen_eof(rnd, tier, cases):
    big = tier != 'quick'
    seqs = [[b'hi'], [b''], [b'a', b''], [b'hi', b'abc'], [b'0123456789'], [b'', b'', b'x'], [b'1:a,'], [b':', b','], [b'hello world!']]
    # every frame sequence ended at EVERY offset, on every kind of stream
    for fr in seqs:
        s = b''.join(nsw(p) for p in fr)
        for mode in ('chunk', 'stdio', 'file'):
            lines = []
            for cut in range(len(s) + 1):
                t = s[:cut]
                if mode == 'chunk':
                    how = rnd.random()
                    ch = [t] if how < 0.3 else ([t[j:j + 1] for j in range(len(t))] or [b'']) if how < 0.6 else rand_chunks(rnd, t, 3)
                    ch = with_empty_chunks(rnd, ch)
                else:
                    ch = [t]
                lines.append(eof_line(-1, mode, ch))
            cases.append({'lines': lines, 'tags': {'family': 'ns-eof-every-offset'}})
    # complete frames followed by every kind of remainder
    for rem in REMAINDERS:
        lines = []
        for fr in ([], [b'ok'], [b'', b'xyz']):
            s = b''.join(nsw(p) for p in fr) + rem
            lines.append(eof_line(-1, 'chunk', [s] if s else [b'']))
            lines.append(eof_line(-1, 'chunk', with_empty_chunks(rnd, rand_chunks(rnd, s, 2))))
            lines.append(eof_line(-1, rnd.choice(('stdio', 'file')), [s]))
        cases.append({'lines': lines, 'tags': {'family': 'ns-eof-remainder'}})
    # every chunking (with and without an empty fill in front of the end) of short truncated streams
    for s in (b'1:a,1', b'1:a,2:b', b'0:,0:', b'2:ab', b'1:a,\n', b'1:a;', b'01:a,'):
        lines = []
        for ch in chunkings(s):
            lines.append(eof_line(-1, 'chunk', ch))
            if rnd.random() < 0.25:
                lines.append(eof_line(-1, 'chunk', ch + [b'']))
        for i in range(0, len(lines), 16):
            cases.append({'lines': lines[i:i + 16], 'tags': {'family': 'ns-eof-chunking-exhaustive'}})
    # hostile streams that simply end
    for i in range(0, len(HOSTILE_NS), 8):
        cases.append({'lines': [eof_line(-1, rnd.choice(('chunk', 'stdio', 'file')), [h]) for h in HOSTILE_NS[i:i + 8]] +
                               [eof_line(4, 'chunk', rand_chunks(rnd, b'1:a,' + h, 3)) for h in HOSTILE_NS[i:i + 8]],
                      'tags': {'family': 'ns-eof-hostile'}})
    # the limit together with the end of the stream (data_length = len + 1 is compared)
    lines = []
    for mx in (0, 1, 2, 5):
        for n in (mx - 1, mx, mx + 1):
            if n >= 0:
                s = nsw(b'y' * n)
                for cut in (len(s), len(s) - 1, max(0, len(s) - n - 1)):
                    lines.append(eof_line(mx, rnd.choice(('chunk', 'file')), [b'1:a,'[:4 if mx >= 2 else 0] + s[:cut]]))
    cases.append({'lines': lines, 'tags': {'family': 'ns-eof-limit'}})
    # random frame sequences, random cut, random remainder, random chunking
    for i in range(240 if big else 60):
        lines = []
        for _ in range(5):
            fr = [rand_payload(rnd) for _ in range(rnd.randint(0, 4))]
            s = b''.join(nsw(p) for p in fr)
            k = rnd.random()
            if k < 0.5 and s:
                s = s[:rnd.randrange(len(s) + 1)]
            elif k < 0.75:
                s += rnd.choice(REMAINDERS)
            elif k < 0.9:
                s = mutate(rnd, s) if s else s
            mode = rnd.choice(('chunk', 'chunk', 'stdio', 'file'))
            ch = with_empty_chunks(rnd, rand_chunks(rnd, s, rnd.choice((1, 3, 10, 100)))) if mode == 'chunk' else [s]
            lines.append(eof_line(rnd.choice((-1, -1, -1, 12, 101)), mode, ch))
        cases.append({'lines': lines, 'tags': {'family': 'ns-eof-random'}})
    # frames larger than one fill (4 KiB reads, 64 KiB bursts) cut inside the payload / before the terminator / after it
    for n in (5000, 70000) + ((140000,) if big else ()):
        p = (bytes(rnd.randrange(256) for _ in range(61)) * (n // 61 + 1))[:n]
        s = nsw(b'first') + nsw(p)
        lines = [eof_line(-1, mode, [s[:cut]]) for mode, cut in (('file', len(s)), ('file', len(s) - 1), ('stdio', len(s) - n // 2), ('file', 4096 + 8), ('chunk', len(s) - 2))]
        cases.append({'lines': lines, 'tags': {'family': 'ns-eof-large'}})
    # the production loop itself: ConfigObject::RestoreObjects on a state file that ends anywhere (bounded: forked child, CPU limit)
    rec = b'{"type":"VerifNoSuchType","name":"x","update":{}}'
    good = nsw(rec) + nsw(rec)
    conts = [good, good[:-1], good[:len(good) // 2], good[:len(nsw(rec)) + 1], good + b'\n', good + b'7', b'', b'\n', good + b'3:abcd', good[:3]]
    for i in range(0, len(conts), 5):
        cases.append({'lines': ['ns_restore ' + hx(c) for c in conts[i:i + 5]], 'tags': {'family': 'ns-eof-restoreobjects'}})


def gen_writer(rnd, tier, cases):
    """the real writers around every digit-count boundary of the length prefix (payload made inside the harness) against the
    real readers, and around the 1 MiB limit of anonymous connections"""
    big = tier != 'quick'
    M = 1 << 20
    for k in range(1, 8 if big else 7):
        lines = []
        for n in (10 ** k - 1, 10 ** k, 10 ** k + 1):
            lines.append('ns_wbig n=%d via=buf max=-1' % n)
            lines.append('ns_wbig n=%d via=tls max=%d' % (n, rnd.choice((-1, M)) if n <= M else -1))
        cases.append({'lines': lines, 'tags': {'family': 'ns-writer-boundaries'}})
    lines = ['ns_wbig n=0 via=buf max=-1', 'ns_wbig n=0 via=tls max=0', 'ns_wbig n=1 via=tls max=0', 'ns_wbig n=0 via=buf max=0', 'ns_wbig n=0 via=buf max=1']
    for n in (M - 1, M, M + 1):
        lines.append('ns_wbig n=%d via=tls max=%d' % (n, M))
        lines.append('ns_wbig n=%d via=buf max=%d' % (n, M))
    cases.append({'lines': lines, 'tags': {'family': 'ns-writer-limit'}})


def nss_case(max_, chunks, fam, mode=None, rnd=None, close='clean'):
    modes = [mode] if mode else ['sync', 'co']
    lines = ['nss_read max=%d mode=%s close=%s %s' % (max_, m, close, ','.join(hx(c) for c in chunks)) for m in modes]
    return {'lines': lines, 'tags': {'family': fam}}


def gen_stream(rnd, tier, cases):
    big = tier != 'quick'
    for i in range(300 if big else 80):
        fr = [rand_payload(rnd) for _ in range(rnd.randint(1, 5))]
        s = b''.join(nsw(p) for p in fr)
        mx = rnd.choice((-1, max(len(p) for p in fr), 1 << 20))
        cases.append(nss_case(mx, rand_chunks(rnd, s, rnd.choice((1, 3, 20, 1000))), 'nss-valid'))
    for h in HOSTILE_NS:
        cases.append(nss_case(-1, [b'2:ok,' + h], 'nss-hostile', mode=rnd.choice(('sync', 'co'))))
    for i in range(600 if big else 150):
        fr = [rand_payload(rnd, rnd.choice((0, 1, 3, 10))) for _ in range(rnd.randint(1, 3))]
        s = mutate(rnd, b''.join(nsw(p) for p in fr))
        cases.append(nss_case(rnd.choice((-1, 3, 11)), rand_chunks(rnd, s, rnd.choice((2, 50))), 'nss-hostile', mode=rnd.choice(('sync', 'co'))))
    # the peer closes at EVERY offset of a frame sequence (cleanly with close_notify, or by dropping the transport): never a hang,
    # never a partial message, the frames before the cut are delivered
    for fr in ([b'hi', b''], [b'0123456789', b'x']):
        s = b''.join(nsw(p) for p in fr)
        lines = []
        for cut in range(len(s) + 1):
            t = s[:cut]
            ch = rand_chunks(rnd, t, rnd.choice((1, 3, 50)))
            lines.append('nss_read max=-1 mode=%s close=%s %s' % (rnd.choice(('sync', 'co')), rnd.choice(('clean', 'abrupt')), ','.join(hx(c) for c in ch)))
        for i in range(0, len(lines), 6):
            cases.append({'lines': lines[i:i + 6], 'tags': {'family': 'nss-peer-closes'}})
    # JsonRpc::ReadMessage + DecodeMessage as the connection's reader coroutine runs them, peer closing anywhere
    msgs = [b'{"jsonrpc":"2.0","method":"event::Heartbeat","params":{"timeout":120}}', b'{}', b'[1]', b'{"a":', b'{"k":"\\u00e4\\n"}', b'null']
    for i in range(40 if big else 14):
        fr = [rnd.choice(msgs) for _ in range(rnd.randint(1, 3))]
        s = b''.join(nsw(p) for p in fr)
        lines = []
        for _ in range(3):
            k = rnd.random()
            t = s if k < 0.3 else s[:rnd.randrange(len(s) + 1)] if k < 0.8 else mutate(rnd, s)
            lines.append('nss_msg max=%d mode=%s close=%s %s' % (rnd.choice((-1, 1 << 20, 20)), rnd.choice(('sync', 'co')), rnd.choice(('clean', 'abrupt')),
                                                               ','.join(hx(c) for c in rand_chunks(rnd, t, rnd.choice((2, 20, 200))))))
        cases.append({'lines': lines, 'tags': {'family': 'nss-messages'}})
    # the limit is enforced before the payload is read (1 MiB for anonymous peers)
    M = 1 << 20
    for n, payload in ((M + 1, 4096), (M + 1, 0), (M, 100), (999999999, 4096), (999999999, 0), (M * 2, 70000)):
        cases.append(nss_case(M, [b'1:a,' + str(n).encode() + b':' + b'P' * payload], 'nss-limit'))
    for mx in (0, 1, 5, 10):
        for n in (mx - 1, mx, mx + 1, mx + 2):
            if n >= 0:
                cases.append(nss_case(mx, [nsw(b'y' * n) + nsw(b'')], 'nss-limit', mode=rnd.choice(('sync', 'co'))))
    if big:
        p = bytes(rnd.randrange(256) for _ in range(200000))   # (vmodel's extracted list functions are not tail recursive)
        cases.append(nss_case(M, [nsw(p) + nsw(b'tail')], 'nss-limit', mode='co'))


# ----------------------------------------------------------------------------------------------- JSON
BOUNDARY_CPS = [0, 1, 7, 8, 9, 10, 11, 12, 13, 0x1f, 0x20, 0x22, 0x2f, 0x5c, 0x7e, 0x7f, 0x80, 0xff, 0x7ff, 0x800, 0xfff, 0xd7ff, 0xe000,
                0xfffd, 0xfffe, 0xffff, 0x10000, 0x10ffff, 0x1f600, 0xfeff, 0x2028, 0x85]


def rand_cp(rnd):
    k = rnd.random()
    if k < 0.25:
        return rnd.choice(BOUNDARY_CPS)
    if k < 0.5:
        return rnd.randrange(0x20, 0x7f)
    if k < 0.6:
        return rnd.randrange(0, 0x20)
    if k < 0.7:
        return rnd.randrange(0x80, 0x800)
    if k < 0.85:
        c = rnd.randrange(0x800, 0x10000)
        return c if not 0xd800 <= c <= 0xdfff else 0xfffd
    return rnd.randrange(0x10000, 0x110000)


def rand_str(rnd, bad_utf8=False):
    n = rnd.choice((0, 1, 1, 2, 3, 5, 8, 20))
    b = ''.join(chr(rand_cp(rnd)) for _ in range(n)).encode('utf-8')
    if bad_utf8:
        b = bytearray(b + b'x')
        for _ in range(rnd.randint(1, 2)):
            b.insert(rnd.randrange(len(b) + 1), rnd.choice((0x80, 0xbf, 0xc0, 0xc1, 0xc3, 0xe0, 0xed, 0xef, 0xf0, 0xf4, 0xf5, 0xf8, 0xff, 0xa0)))
        b = bytes(b)
    return b


INTS = [0, 1, -1, 9, 10, 255, 65536, 2 ** 31, -2 ** 31, 2 ** 53 - 1, 2 ** 53, -(2 ** 53), -(2 ** 53 - 1), 2 ** 53 + 2, 2 ** 63, -(2 ** 63),
        2 ** 64 - 2048, 10 ** 15, 10 ** 19, 123456789012]
DBLS = ['8000000000000000', '0000000000000001', '000fffffffffffff', '0010000000000000', '7fefffffffffffff', 'ffefffffffffffff',
        '3fb999999999999a', '3ff8000000000000', 'bff4000000000000', '43f0000000000000', 'c3e0000000000001', '7e37e43c8800759c',
        '3e7ad7f29abcaf48', '4340000000000001', '3ff0000000000001', '0000000000000000', '43e0000000000000', 'c3e0000000000000']


def is_intpath(bits_hex):
    d = struct.unpack('>d', bytes.fromhex(bits_hex))[0]
    return d == d and abs(d) != float('inf') and d == int(d) and -2.0 ** 63 <= d < 2.0 ** 64


class Gen:
    def __init__(self, rnd, bad_utf8=False):
        self.rnd, self.bad, self.has_flt = rnd, bad_utf8, False

    def num(self):
        r = self.rnd
        k = r.random()
        if k < 0.35:
            return 'i%d' % r.choice(INTS)
        if k < 0.55:
            return 'i%d' % r.randint(-2 ** 53, 2 ** 53)
        if k < 0.8:
            h = r.choice(DBLS)
        else:
            while True:
                h = '%016x' % r.getrandbits(64)
                if (int(h, 16) >> 52) & 0x7ff != 0x7ff:
                    break
        if not is_intpath(h):
            self.has_flt = True
        return 'd' + h

    def s(self):
        return rand_str(self.rnd, self.bad and self.rnd.random() < 0.5)

    def value(self, depth):
        r = self.rnd
        k = r.random()
        if depth <= 0 or k < 0.45:
            k2 = r.random()
            if k2 < 0.1: return 'n'
            if k2 < 0.2: return r.choice('tf')
            if k2 < 0.55: return self.num()
            return '"%s"' % self.s().hex()
        if k < 0.72:
            return '[' + ','.join(self.value(depth - 1) for _ in range(r.choice((0, 1, 2, 3, 5)))) + ']'
        keys = []
        for _ in range(r.choice((0, 1, 2, 3, 6))):
            kk = self.s()
            if kk not in keys:
                keys.append(kk)
        return '{' + ','.join('%s:%s' % (kk.hex(), self.value(depth - 1)) for kk in keys) + '}'


def chain(depth, leaf, kind):
    v = leaf
    for i in range(depth):
        k = kind if kind != 'm' else 'ao'[i % 2]
        v = '[%s]' % v if k == 'a' else '{6b:%s}' % v
    return v


def gen_json_rt(rnd, tier, cases):
    big = tier != 'quick'
    lines = []
    for v in ['n', 't', 'f', '[]', '{}', '""', '[[]]', '[{}]', '{:n}', '{:{:[]}}'] + ['i%d' % i for i in INTS] + ['d' + h for h in DBLS]:
        lines.append('js_rt cmp=%d %s' % (0 if v[0] == 'd' and not is_intpath(v[1:]) else 1, v))
    for cp in BOUNDARY_CPS + [0x41, 0xe4, 0x20ac, 0x1d11e]:
        lines.append('js_rt cmp=1 "%s"' % chr(cp).encode('utf-8').hex())
    cases.append({'lines': lines, 'tags': {'family': 'js-roundtrip-fixed'}})
    # every code point class boundary +-1, in one string each
    for lo in (0, 0x7e, 0x7ff - 1, 0xd7ff - 2, 0xe000, 0xfffe - 1, 0x10000 - 1, 0x10ffff - 2):
        cps = [c for c in range(lo, lo + 3) if not 0xd800 <= c <= 0xdfff and c <= 0x10ffff]
        cases.append({'lines': ['js_rt cmp=1 "%s"' % ''.join(chr(c) for c in cps).encode('utf-8').hex()], 'tags': {'family': 'js-roundtrip-fixed'}})
    for i in range(6000 if big else 1000):
        g = Gen(rnd)
        v = g.value(rnd.choice((0, 1, 2, 3, 4, 6)))
        cases.append({'lines': ['js_rt cmp=%d %s' % (0 if g.has_flt else 1, v)], 'tags': {'family': 'js-roundtrip-random'}})
    for d in (1, 2, 31, 63, 64):
        for kind in 'aom':
            g = Gen(rnd)
            cases.append({'lines': ['js_rt cmp=%d %s' % (0 if g.has_flt else 1, chain(d - 1, g.value(1) if False else '[]', kind))],
                          'tags': {'family': 'js-roundtrip-depth'}})
            cases.append({'lines': ['js_rt cmp=1 %s' % chain(d, 'i%d' % rnd.choice(INTS), kind)], 'tags': {'family': 'js-roundtrip-depth'}})
    for i in range(1000 if big else 200):
        g = Gen(rnd, bad_utf8=True)
        v = g.value(rnd.choice((0, 1, 2)))
        cases.append({'lines': ['js_rt cmp=%d %s' % (0 if g.has_flt else 1, v)], 'tags': {'family': 'js-roundtrip-illformed-utf8'}})


HOSTILE_JSON = [b'', b' ', b'[', b']', b'{', b'}', b'[1,]', b'[,1]', b'{"a":1,}', b'{"a"}', b'{"a":}', b'{1:2}', b'{"a":1 "b":2}', b'[1 2]',
                b'nul', b'nulll', b'tru', b'True', b'NaN', b'Infinity', b'-Infinity', b'01', b'-', b'-a', b'1.', b'.5', b'1e', b'1e+', b'1e-',
                b'--1', b'+1', b'0x10', b'1e999', b'-1e999', b'1e-999', b'1E5', b'1e+05', b'-0', b'-0.0', b'-0e0', b'0.0', b'0e0', b'1.0', b'1.50',
                b'123456789012345678901234567890', b'-123456789012345678901234567890', b'18446744073709551615', b'18446744073709551616',
                b'9223372036854775807', b'9223372036854775808', b'-9223372036854775808', b'-9223372036854775809', b'9007199254740993',
                b'1' + b'0' * 308, b'1' + b'0' * 309, b'-1' + b'0' * 309, b'179769313486231580793728971405303415079934132710037826936173778980444968292764750946649017977587207096330286416692887910946555547851940402630657488671505820681908902000708383676273854845817711531764475730270069855571366959622842914819860834936475292719074168444365510704342711559699508093042880177904174497791',
                b'179769313486231580793728971405303415079934132710037826936173778980444968292764750946649017977587207096330286416692887910946555547851940402630657488671505820681908902000708383676273854845817711531764475730270069855571366959622842914819860834936475292719074168444365510704342711559699508093042880177904174497792',
                b'1.7976931348623157e308', b'1.7976931348623159e308', b'4.9e-324', b'2.4e-324', b'2.5e-324',
                b'"', b'"a', b'"\\', b'"\\"', b'"\\x"', b'"\\u"', b'"\\u12"', b'"\\u123g"', b'"\\u0000"', b'"\\u00e4"', b'"\\u00E4"', b'"\\ud83d\\ude00"',
                b'"\\uD83D\\uDE00"', b'"\\ud83d"', b'"\\ud83dx"', b'"\\ud83d\\u0041"', b'"\\ude00"', b'"\\ud83d\\ud83d"', b'"\\udbff\\udfff"',
                b'"\\ud800\\udc00"', b'"a\nb"', b'"a\tb"', b'"a\x00b"', b'"a\x1fb"', b'"a\x7fb"', b'"\\/"', b'"\\b\\f\\n\\r\\t\\"\\\\"', b'"\\a"',
                b'"\xc3\xa4"', b'"\xc3"', b'"\xff"', b'"\xed\xa0\x80"', b'"\xf4\x90\x80\x80"', b'"\xc0\x80"', b'"\xe2\x82"', b'\xc3', b'\xff[]',
                b'\xef\xbb\xbf[]', b'\xef\xbb\xbf', b'\xef\xbb[]', b'\xef[]', b'\xef\xbb\xbf\xef\xbb\xbf[]', b' \t\r\n[ \t\r\n] \t\r\n', b'\x0c[]', b'[]x', b'[] []',
                b'[]\x00', b'1 2', b'"a" "b"', b'{"a":1,"a":2}', b'{"b":1,"a":2,"b":3}', b'{"":1}', b'{"a":{"a":{"a":[]}}}', b'/*c*/[]', b'[1]//x',
                b"'a'", b'[1,2', b'{"a":[1,{"b":2}', b'[[[[[[[[[[]]]]]]]]]]', b'[' * 64 + b']' * 64, b'[' * 64 + b']' * 63, b'{"a":' * 64 + b'1' + b'}' * 64]


def mutate_json(rnd, s):
    s = bytearray(s)
    alphabet = b'[]{}:,"\\ue01-+.9ntf \x00\xff\xc3'
    for _ in range(rnd.choice((1, 1, 2, 3))):
        k = rnd.random()
        pos = rnd.randrange(len(s) + 1)
        if k < 0.3 and s:
            del s[min(pos, len(s) - 1)]
        elif k < 0.6:
            s.insert(pos, rnd.choice(alphabet))
        elif k < 0.85 and s:
            s[min(pos, len(s) - 1)] = rnd.choice(alphabet)
        else:
            s = s[:pos]
    return bytes(s)


def rand_doc(rnd, depth):
    k = rnd.random()
    if depth <= 0 or k < 0.4:
        return rnd.choice(['null', 'true', 'false', '0', '-1', '12', '1.5', '-2.5e3', '1e-2', '9007199254740992', '"x"', '"\\u00e4\\n"',
                           '"\\ud83d\\ude00"', '"' + chr(rand_cp(rnd)).replace('"', 'q').replace('\\', 'b') + '"', '""'])
    ws = rnd.choice(['', '', ' ', '\n'])
    if k < 0.7:
        return '[' + ws + (',' + ws).join(rand_doc(rnd, depth - 1) for _ in range(rnd.choice((0, 1, 2, 4)))) + ws + ']'
    return '{' + ws + (',' + ws).join('"%s":%s' % (rnd.choice(['a', 'b', 'c', 'method', '']), rand_doc(rnd, depth - 1))
                                     for _ in range(rnd.choice((0, 1, 2, 3)))) + ws + '}'


def gen_json_hostile(rnd, tier, cases):
    big = tier != 'quick'
    cases.append({'lines': ['js_dec ' + hx(h) for h in HOSTILE_JSON], 'tags': {'family': 'js-hostile-fixed'}})
    cases.append({'lines': ['js_msg ' + hx(h) for h in (b'{}', b'[]', b'1', b'null', b'{"jsonrpc":"2.0","method":"event::Heartbeat","params":{"timeout":120}}',
                                                       b'{"a":1', b'"{}"', b'{"a":[1,2,{"b":null}]}')], 'tags': {'family': 'js-message'}})
    for i in range(5000 if big else 900):
        doc = rand_doc(rnd, rnd.choice((1, 2, 3, 4))).encode('utf-8', 'surrogatepass')
        if rnd.random() < 0.75:
            doc = mutate_json(rnd, doc)
        cases.append({'lines': ['js_dec ' + hx(doc)] + (['js_msg ' + hx(doc)] if rnd.random() < 0.3 else []), 'tags': {'family': 'js-hostile-mutated'}})
    for i in range(800 if big else 150):
        doc = bytes(rnd.choice(b'[]{}:,"\\u0123456789abcdefnrtl.-+eE \xc3\xa4\xff\x00') for _ in range(rnd.randint(1, 30)))
        cases.append({'lines': ['js_dec ' + hx(doc)], 'tags': {'family': 'js-random-bytes'}})
    # nesting: up to the limit of the source (128) the document is decoded, beyond it it is rejected, never a crash.
    # (attempts beyond 64 are isolated in a forked child by the harness: an overflow of a malloc'ed coroutine stack
    # corrupts the heap before it kills the process)
    for n in (1, 2, 63, 64):
        for kind in 'ao':
            cases.append({'lines': ['js_deep n=%d close=1 kind=%s mode=%s' % (n, kind, m) for m in ('plain', 'co')] +
                                   ['js_deep n=%d close=0 kind=%s mode=co' % (n, kind)], 'tags': {'family': 'js-nesting'}})
    for n in (65, 100, 127, 128, 129, 130, 256):
        for kind in 'ao':
            cases.append({'lines': ['js_deep n=%d close=1 kind=%s mode=%s' % (n, kind, rnd.choice(('plain', 'co')))], 'tags': {'family': 'js-nesting-limit'}})
    # mixed nesting right at the limit through js_dec / js_msg
    for n in (127, 128, 129):
        doc = b''.join((b'[' if i % 2 else b'{"k":') for i in range(n)) + b'1' + b''.join((b']' if i % 2 else b'}') for i in reversed(range(n)))
        cases.append({'lines': ['js_dec ' + hx(doc), 'js_msg ' + hx(doc)], 'tags': {'family': 'js-nesting-limit'}})
    for n, kind, mode, close in ((1000, 'a', 'co', 1), (1000, 'o', 'co', 1), (3000, 'a', 'plain', 1), (2000, 'a', 'co', 0),
                                 (5000, 'a', 'co', 1), (20000, 'a', 'co', 1), (20000, 'o', 'co', 1)):
        cases.append({'lines': ['js_deep n=%d close=%d kind=%s mode=%s' % (n, close, kind, mode)], 'tags': {'family': 'js-nesting-deep'}})


def nest_value(v, depth, kind):
    """v wrapped depth times: 'a' arrays, 'o' dictionaries (key 'k'), 'm' alternating"""
    return chain(depth, v, kind)


def gen_json_boundaries(rnd, tier, cases):
    big = tier != 'quick'
    # every control character, NUL, DEL, quote, backslash: alone and between "plain" characters, as a string value AND as a
    # dictionary key, at nesting levels 0..3 inside arrays, dictionaries and both (through both decoders)
    for c in list(range(0, 0x21)) + [0x22, 0x5c, 0x7f]:
        lines = []
        for body in (bytes([c]), b'a' + bytes([c]) + b'b', b'x y' + bytes([c]), bytes([c]) + b'-.'):
            h = body.hex()
            depth = rnd.choice((0, 1, 2, 3))
            kind = rnd.choice('aom')
            lines.append('js_rt cmp=1 dec=%s %s' % (rnd.choice(('net', 'trusted')), nest_value('"%s"' % h, depth, kind)))
            lines.append('js_rt cmp=1 dec=%s %s' % (rnd.choice(('net', 'trusted')), nest_value('{%s:n}' % h, depth, kind)))
        lines.append('js_rt cmp=1 [{%s:"%s"},"%s"]' % (bytes([c]).hex(), bytes([c]).hex(), (b'ab' + bytes([c])).hex()))
        cases.append({'lines': lines, 'tags': {'family': 'js-control-chars'}})
    # numbers at the int64 / uint64 / 2^53 boundaries (as values: the double nearest to the decimal), -0, extreme magnitudes
    edge = []
    for b in (2 ** 53, 2 ** 63, 2 ** 64, 2 ** 31, 2 ** 32, 10 ** 15, 10 ** 16, 10 ** 17):
        for d in (-2, -1, 0, 1, 2, 1024, 2048, -1024, -2048):
            edge += [b + d, -(b + d)]
    lines = ['js_rt cmp=%d i%d' % (1 if -2.0 ** 63 <= float(i) < 2.0 ** 64 else 0, i) for i in sorted(set(edge))]
    for i in range(0, len(lines), 20):
        cases.append({'lines': lines[i:i + 20], 'tags': {'family': 'js-number-boundaries'}})
    texts = [b'9007199254740991', b'9007199254740992', b'9007199254740993', b'-9007199254740993', b'9223372036854775807', b'9223372036854775808',
             b'9223372036854775809', b'-9223372036854775808', b'-9223372036854775809', b'18446744073709551615', b'18446744073709551616',
             b'18446744073709551617', b'-18446744073709551615', b'-0', b'-0.0', b'-0e0', b'-0E-0', b'0e0', b'0E+0', b'-0.0e-0', b'[-0]', b'{"a":-0}',
             b'1e308', b'1e309', b'-1e308', b'-1e309', b'1.7976931348623157e308', b'1.7976931348623158e308', b'1.797693134862315807e308',
             b'1e-323', b'1e-324', b'1e-400', b'-1e-400', b'4.9406564584124654e-324', b'2.2250738585072014e-308', b'2.2250738585072011e-308',
             b'1e999999999', b'1e-999999999', b'1E+9999999999999999999', b'1e-9999999999999999999', b'0e999999999999', b'0.0e-999999999999',
             b'123456789e-9999999', b'9' * 400, b'-' + b'9' * 400, b'0.' + b'0' * 400 + b'1', b'1' + b'0' * 400 + b'e-400', b'9' * 20 + b'.5',
             b'1.0e+00', b'1.5E+1', b'100e-2', b'0.5e1', b'9007199254740993.0', b'18446744073709551616.0', b'1e19', b'1e20', b'-1e19']
    for dec in ('net', 'trusted'):
        for i in range(0, len(texts), 20):
            cases.append({'lines': ['js_dec dec=%s %s' % (dec, hx(t)) for t in texts[i:i + 20]], 'tags': {'family': 'js-number-boundaries'}})
    # very long strings (values and keys): plain ASCII, all-escapes, multi-byte, mixed
    for n in (1000, 4096):
        plain = (b'abcdefghijklmnopqrstuvwxyz0123456789 ' * (n // 37 + 1))[:n]
        esc = (bytes(range(0, 0x20)) + b'"\\/' * 3)
        esc = (esc * (n // len(esc) + 1))[:n]
        multi = ('\u00e4\u20ac\U0001f600x' * (n // 4 + 1))[:n].encode('utf-8')
        lines = ['js_rt cmp=1 "%s"' % plain.hex(), 'js_rt cmp=1 dec=trusted "%s"' % esc.hex(), 'js_rt cmp=1 "%s"' % multi.hex(),
                 'js_rt cmp=1 {%s:"%s"}' % (plain.hex(), (plain[:100] + b'\x00' + plain[100:200]).hex())]
        if n <= 1000:
            lines.append('js_rt cmp=1 {%s:[{%s:n}]}' % (esc.hex(), multi.hex()))
        cases.append({'lines': lines, 'tags': {'family': 'js-long-strings'}})
    # ... and really long ones (a pattern repeated inside the harness; expectation from the model on the pattern + the round-trip theorem)
    pats = [b'abcdefghijklmnopqrstuvwxyz0123456789 ', bytes(range(0, 0x20)) + b'"\\/', '\u00e4\u20ac\U0001f600x'.encode('utf-8'), b'plain\x00plain', b'\x7f', b'a']
    for reps in (1, 2, 1000, 30000) + ((1000000,) if big else ()):
        lines = []
        for pat in pats:
            if reps * len(pat) > 40000000:
                continue
            lines.append('js_long reps=%d where=%s dec=%s %s' % (reps, rnd.choice(('val', 'key')), rnd.choice(('net', 'trusted')), pat.hex()))
        cases.append({'lines': lines, 'tags': {'family': 'js-long-strings'}})
    # nesting at limit-1 / limit / limit+1 (and far beyond, on the main stack) for BOTH decoders: JsonDecode refuses from
    # limit+1 on, JsonDecodeTrusted (the state file's) reads back whatever JsonEncode wrote
    for n in (127, 128, 129, 130, 256, 1000) + ((3000,) if big else ()):
        for kind in 'ao':
            cases.append({'lines': ['js_deep n=%d close=1 kind=%s mode=plain dec=trusted' % (n, kind),
                                    'js_deep n=%d close=1 kind=%s mode=plain dec=net' % (n, kind),
                                    'js_deep n=%d close=0 kind=%s mode=plain dec=trusted' % (n, kind)], 'tags': {'family': 'js-nesting-trusted'}})
    for d in (63, 64, 127, 128):
        for kind in 'aom':
            cases.append({'lines': ['js_rt cmp=1 dec=%s %s' % (dec, chain(d - 1, '[]', kind)) for dec in ('net', 'trusted')] +
                                   ['js_rt cmp=1 dec=trusted %s' % chain(d, '"%s"' % b'a\x00b'.hex(), kind)], 'tags': {'family': 'js-nesting-trusted'}})
    for d in (129, 130, 200, 500):
        for kind in 'aom':
            cases.append({'lines': ['js_rt cmp=1 dec=trusted %s' % chain(d - 1, '{}', kind), 'js_rt cmp=1 dec=trusted %s' % chain(d, 'i%d' % rnd.choice(INTS), kind)],
                          'tags': {'family': 'js-nesting-trusted'}})
    # the hostile documents through the second decoder as well
    cases.append({'lines': ['js_dec dec=trusted ' + hx(h) for h in HOSTILE_JSON], 'tags': {'family': 'js-hostile-fixed'}})
    for i in range(600 if big else 120):
        doc = rand_doc(rnd, rnd.choice((1, 2, 3))).encode('utf-8', 'surrogatepass')
        if rnd.random() < 0.7:
            doc = mutate_json(rnd, doc)
        cases.append({'lines': ['js_dec dec=trusted ' + hx(doc)], 'tags': {'family': 'js-hostile-mutated'}})


def generate(seed, tier):
    rnd = random.Random(seed)
    cases = []
    gen_netstring(rnd, tier, cases)
    gen_eof(rnd, tier, cases)
    gen_writer(rnd, tier, cases)
    gen_stream(rnd, tier, cases)
    gen_json_rt(rnd, tier, cases)
    gen_json_hostile(rnd, tier, cases)
    gen_json_boundaries(rnd, tier, cases)
    return cases


def nontrivial(case, impl_lines):
    return any(l.split()[0] not in ('ns_new', 'ns_frames') for l in case['lines']) and len(impl_lines) >= 1


def classify(case, detail, impl_lines):
    if detail.startswith('crash') or 'CRASH' in detail or 'HANG' in detail:
        m = re.search(r'op=js_deep n=(\d+) close=1', detail)
        if m and int(m.group(1)) >= 2000 and 'CRASH' in detail:
            return 'deep-nesting-stack-overflow'
        return 'crash'
    for k, v in (('ns-eof', 'eof-termination'), ('ns-chunking', 'chunking'), ('ns-stream allocation', 'limit'), ('ns-stream', 'stream-framing'), ('ns-buffered', 'buffered-framing'),
                 ('ns-write', 'writer'), ('json-roundtrip', 'json-roundtrip'), ('json-decode', 'json-decode'), ('json-message', 'json-decode'),
                 ('json-deep', 'json-nesting')):
        if detail.startswith(k):
            return v
    return 'other'


def keep_line(l):
    return l.startswith('ns_new') or l.startswith('ns_frames')


def extra_stats(cases, impl):
    st = {'eof_loops_ended_eof': 0, 'eof_loops_ended_err': 0, 'eof_loops_not_ended': 0, 'restoreobjects_runs': 0, 'writer_boundary_runs': 0, 'long_strings': 0,
          'frames_delivered': 0, 'buffered_errors': 0, 'stream_errors': 0, 'stream_short': 0, 'json_values_roundtripped': 0,
          'json_decode_ok': 0, 'json_decode_err': 0, 'crash_lines': 0}
    for c in cases:
        for l in impl.get(c['id'], []):
            if l.startswith('ns_feed') or l.startswith('ns_wfeed'):
                m = re.search(r'items=(\S+)', l)
                if m and m.group(1) != '.':
                    st['frames_delivered'] += m.group(1).count(',') + 1
                if 'st=err' in l:
                    st['buffered_errors'] += 1
            elif l.startswith('ns_eof'):
                st['eof_loops_ended_eof'] += 'end=eof' in l
                st['eof_loops_ended_err'] += 'end=err' in l
                st['eof_loops_not_ended'] += 'end=loop' in l
            elif l.startswith('ns_restore'):
                st['restoreobjects_runs'] += 1
            elif l.startswith('ns_wbig'):
                st['writer_boundary_runs'] += 1
            elif l.startswith('js_long'):
                st['long_strings'] += 1
            elif l.startswith('nss_read') or l.startswith('nss_msg'):
                st['stream_errors'] += 'end=err' in l
                st['stream_short'] += 'end=short' in l
            elif l.startswith('js_rt enc'):
                st['json_values_roundtripped'] += 1
            elif l.startswith('js_dec ok') or l.startswith('js_msg ok'):
                st['json_decode_ok'] += 1
            elif l.startswith('js_dec err') or l.startswith('js_msg err'):
                st['json_decode_err'] += 1
            elif l.startswith('CRASH'):
                st['crash_lines'] += 1
    return st
