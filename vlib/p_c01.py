"""C01 - soft/hard state machine.  Generators for the correspondence run."""
import random, itertools, re
from . import ckgen

PID = 'C01'
HEADER = ['obs sc ncr']
T0 = 2000000000
RULE = ('exhaustive result histories over {OK,WARNING,CRITICAL,UNKNOWN}^L x {host,service} x max_check_attempts 1..4 x volatile '
        'x {pending start, after OK, after hard problem}; random histories of length 50-300 with max<=12, active/passive, '
        'non-decreasing whole-second timestamps; a separate stream with stale and future-dated results. '
        'a combined-fixture stream (real Host/Service with parent, Downtime and Comment objects, ops of harness/ops_ckfull.cpp): flapping enabled with thresholds that toggle '
        '(alternating states), acknowledgements through all entry points, downtimes, suppressed-notification timer, pause, parent results and stale results interleaved - '
        'state/state type/attempt/last hard state compared after EVERY operation and the C01 oracle run over the results; '
        'concurrent results (real threads): 2-4 threads released together call the real ProcessCheckResult on ONE host/service (max 1-4, from pending / hard OK / soft / hard problem, '
        'volatile on/off) with prepared results - mostly one execution start, some with older/newer stamps -, 300 repetitions per case (3000 thorough) with seed-derived start skews of 0-50 us; '
        'directed schedules hold thread 0 inside a signal handler right after the snapshot / between the two critical sections / before the event is chosen until the others have returned; '
        'the set of observed outcomes (shown fields + per-thread result code and events) is judged by the extracted Gallina predicates cc_strict_ok / cc_relaxed_ok (some serial order explains it), not compared with the model; '
        'non-trivial = at least two results and at least one non-OK result; distinct = distinct script text')
TRUSTED = ['model: coq/Ck/CkState.v (transcription of Checkable::ProcessCheckResult lines 165-301,443-454); '
           'source facts re-extracted each run: enum values, checkable.ti defaults, Host::CalculateState/IsStateOK, Service::IsStateOK (coq/Facts/Facts_enums.v, Facts_c01.v)',
           'hook H1 (virtual clock) in lib/base/utility.cpp',
           'concurrency model coq/Ck/CkConc.v: ObjectLock is mutual exclusion; what a thread does between two lock operations is one step per group of lines (snapshot / stale test / state-field writes / store of last_check_result / event choice); '
           'the lock structure is re-read from the source each run (f_pcr_lock_covers_rmw, f_pcr_cr_in_rmw_section, f_pcr_event_type_reread); the real-thread run samples schedules, it does not enumerate them']
ASSUMPTIONS = ['timestamps are whole seconds (exact in binary64)', 'flapping detection, acknowledgements, downtimes, suppression, parent state and pause do not influence state/state type/attempt/event: proved for the combined model (coq/Ck/CkLayer.v, C01_full_projection*), and compared on the real objects by the combined-fixture stream']


def mk(kind, mx, vol, flap, hist, fam, t_step=10, prefix=()):
    lines = ['now %d' % T0, 'ck_new kind=%s max=%d vol=%d flap=%d' % (kind, mx, vol, flap)]
    t = T0
    for s in list(prefix) + list(hist):
        t += t_step
        lines.append('now %d' % t)
        lines.append('cr state=%d' % s)
    return {'lines': lines, 'tags': {'family': fam}}


def generate(seed, tier):
    rnd = random.Random(seed)
    L = {'quick': 5, 'thorough': 7, 'search': 6}.get(tier, 5)
    cases = []
    cfgs = [(k, m, v) for k in ('host', 'svc') for m in (1, 2, 3, 4) for v in (0, 1)]
    for (k, m, v) in cfgs:
        for h in itertools.product(range(4), repeat=L):
            cases.append(mk(k, m, v, (sum(h) + m) % 2, h, 'exhaustive-pending'))
        for h in itertools.product(range(4), repeat=L - 1):
            cases.append(mk(k, m, v, 0, h, 'exhaustive-after-ok', prefix=(0,)))
            cases.append(mk(k, m, v, 1, h, 'exhaustive-after-hard-problem', prefix=(0,) + (2,) * m))
    nrand = {'quick': 300, 'thorough': 3000, 'search': 1500}.get(tier, 300)
    for i in range(nrand):
        k = rnd.choice(('host', 'svc'))
        m = rnd.choice((1, 2, 3, 4, 5, 7, 12))
        v = rnd.random() < 0.3
        n = rnd.randint(50, 300)
        # bias: runs of non-OK of length around max, interleaved with OKs
        h = []
        while len(h) < n:
            run = rnd.choice((0, 1, m - 1, m, m + 1, rnd.randint(0, 2 * m + 2)))
            for _ in range(max(0, run)):
                h.append(rnd.choice((1, 2, 3)) if k == 'svc' else rnd.choice((2, 3, 2, 3, 1)))
            h.append(rnd.choice((0, 0, 0, 1)) if k == 'host' else 0)
        lines = ['now %d' % T0, 'ck_new kind=%s max=%d vol=%d flap=%d' % (k, m, int(v), rnd.randint(0, 1))]
        t = T0
        for s in h[:n]:
            t += rnd.choice((0, 1, 1, 5, 60, 300))
            lines.append('now %d' % t)
            lines.append('cr state=%d active=%d' % (s, rnd.randint(0, 1)))
        cases.append({'lines': lines, 'tags': {'family': 'random-long'}})
    nstale = {'quick': 400, 'thorough': 4000, 'search': 1000}.get(tier, 400)
    for i in range(nstale):
        k = rnd.choice(('host', 'svc'))
        m = rnd.choice((1, 2, 3))
        lines = ['now %d' % T0, 'ck_new kind=%s max=%d vol=%d flap=0' % (k, m, rnd.randint(0, 1))]
        t = T0
        for j in range(rnd.randint(3, 12)):
            t += rnd.choice((0, 1, 10))
            lines.append('now %d' % t)
            d = rnd.choice((0, 0, 0, -1, -5, -20, 1, 30))   # result stamped in the past / future of the clock
            lines.append('cr state=%d start=%d end=%d' % (rnd.randint(0, 3), t + d, t + d))
        cases.append({'lines': lines, 'tags': {'family': 'stale-and-future'}})
    ncomb = {'quick': 3000, 'thorough': 20000, 'search': 3000}.get(tier, 3000)
    for i in range(ncomb):
        cases.append(combined_case(rnd))
    # attempt-width: the attempt counter at the boundaries of narrower integer types (the model counts in Z; the
    # declared width of check_attempt / max_check_attempts is a regenerated fact, C01_field_widths).  One long run of
    # non-OK results per boundary, max_check_attempts just below / at / above it; the 2^16 boundary only where the
    # population may be large (thorough tier, and the search after a broken proof or correspondence)
    bounds = [127, 255] + ([32767, 65535] if tier in ('thorough', 'search') else [])
    for b in bounds:
        for k in ('svc', 'host'):
            for m in ((b + 2,) if b > 1000 else (b, b + 1, b + 2)):
                if b > 1000 and k == 'host' and tier == 'search':
                    continue
                h = (0,) + (2,) * (b + 3) + (0, 2, 2)
                cases.append(mk(k, m, 0, 0, h, 'attempt-width', t_step=1))
    # short concurrent cases first: the runner shrinks/reports the first failing case of a class
    return concurrent_cases(rnd, tier) + cases


START_STATES = ('pending', 'hardok', 'soft', 'hardproblem')


def conc_prefix(kind, mx, vol, start):
    """script prefix that brings a new object into the start state; returns (lines, clock)"""
    lines = ['now %d' % T0, 'ck_new kind=%s max=%d vol=%d flap=0' % (kind, mx, vol)]
    t = T0
    seq = {'pending': (), 'hardok': (0,), 'soft': (0, 2), 'hardproblem': (0,) + (2,) * mx}[start]
    for s in seq:
        t += 10
        lines.append('now %d' % t)
        lines.append('cr state=%d' % s)
    t += 10
    lines.append('now %d' % t)
    return lines, t


def conc_case(kind, mx, vol, start, states, ds, reps, seed, skew=50, park=None, fam='concurrent-real-threads'):
    lines, _ = conc_prefix(kind, mx, vol, start)
    l = 'ck_conc states=%s d=%s reps=%d seed=%d skew=%d' % (','.join(map(str, states)), ','.join(map(str, ds)), reps, seed, skew)
    if park:
        l += ' park=%s pto=15000' % park
    lines.append(l)
    return {'lines': lines, 'tags': {'family': fam}}


def concurrent_cases(rnd, tier):
    reps = {'quick': 300, 'thorough': 3000, 'search': 600}.get(tier, 300)
    nfree = {'quick': 56, 'thorough': 160, 'search': 80}.get(tier, 56)
    cases = []
    # directed: thread 0 is held right after its snapshot of the previous state (under the ObjectLock in the tree as it is)
    for (kind, mx, start, states) in (('svc', 3, 'hardok', (2, 2)), ('host', 3, 'hardok', (2, 3)), ('svc', 4, 'soft', (2, 1, 3)),
                                      ('svc', 2, 'hardok', (1, 0)), ('host', 4, 'soft', (2, 2)), ('svc', 3, 'pending', (2, 2))):
        cases.append(conc_case(kind, mx, 0, start, states, (0,) * len(states), 2, rnd.randint(1, 10 ** 6), skew=0, park='lsr', fam='concurrent-directed-after-snapshot'))
    # directed: between the two critical sections (an older result overtakes) / before the event is chosen
    for (kind, mx, start, states, ds) in (('svc', 3, 'hardok', (2, 1), (0, -5)), ('host', 3, 'hardok', (2, 0), (0, -3)), ('svc', 4, 'soft', (0, 2), (0, -5))):
        cases.append(conc_case(kind, mx, 0, start, states, ds, 2, rnd.randint(1, 10 ** 6), skew=0, park='va', fam='concurrent-directed-between-sections'))
    for (kind, mx, start, states) in (('svc', 3, 'hardok', (0, 2)), ('host', 2, 'hardok', (1, 2)), ('svc', 3, 'soft', (2, 0))):
        cases.append(conc_case(kind, mx, 0, start, states, (0,) * len(states), 2, rnd.randint(1, 10 ** 6), skew=0, park='ncr', fam='concurrent-directed-before-event'))
    # free-running
    for i in range(nfree):
        kind = ('svc', 'host')[i % 2]
        mx = (1, 2, 3, 4)[(i // 2) % 4]
        start = START_STATES[(i // 8) % 4]
        n = rnd.choice((2, 2, 3, 3, 4))
        vol = int(rnd.random() < 0.15)
        mode = rnd.choice(('problems', 'problems', 'mixed', 'mixed', 'any'))
        if mode == 'problems':
            states = [rnd.choice((1, 2, 3)) if kind == 'svc' else rnd.choice((2, 3)) for _ in range(n)]
        elif mode == 'mixed':
            states = [0] + [rnd.choice((1, 2, 3)) for _ in range(n - 1)]
            rnd.shuffle(states)
        else:
            states = [rnd.randint(0, 3) for _ in range(n)]
        if rnd.random() < 0.7:
            ds = [0] * n
        else:
            ds = [rnd.choice((0, 0, -5, -20, 5)) for _ in range(n)]
        cases.append(conc_case(kind, mx, vol, start, states, ds, reps, rnd.randint(1, 10 ** 6), skew=rnd.choice((0, 5, 20, 50))))
    return cases


def canon(lines):
    """the outcomes of the real-thread runs depend on the schedule: judged by the oracle, not compared"""
    return [re.sub(r' (obs|pto)=\S*', '', l) if l.startswith('ckc ') else l for l in lines]


W_COMB = {'adv': 5, 'result': 9, 'stale': 0.7, 'ack': 1.5, 'unack': 0.6, 'ackread': 0.6, 'cmtimer': 0.3, 'dt_add': 1.2, 'dt_remove': 0.5,
          'dt_starttimer': 0.6, 'dt_cleanup': 0.6, 'fire': 1.5, 'parent': 0.8, 'pause': 0.3, 'nextcheck': 0.3}


def combined_case(rnd):
    """combined fixture (CkFull): flapping that really toggles + everything else interleaved"""
    g = ckgen.Gen(rnd, flap=int(rnd.random() < 0.8), vol=int(rnd.random() < 0.2))
    names = list(W_COMB)
    ws = [W_COMB[k] for k in names]
    if g.active:
        g.nextcheck()
    last = 0
    mode = rnd.choice(('alternate', 'alternate', 'runs', 'random'))
    for _ in range(rnd.randint(25, 70)):
        k = rnd.choices(names, ws)[0]
        if k == 'adv': g.adv()
        elif k == 'result':
            if mode == 'alternate':      # state changes on most results: drives the flapping value over the high threshold
                s = rnd.choice((1, 2, 3)) if last == 0 or rnd.random() < 0.25 else 0
            elif mode == 'runs':         # long quiet runs: lets it fall below the low threshold again
                s = last if rnd.random() < 0.85 else rnd.choice((0, 1, 2, 3))
            else:
                s = rnd.choice((0, 0, 1, 2, 2, 3))
            if rnd.random() < 0.03:
                mode = rnd.choice(('alternate', 'runs', 'random'))
            last = s
            g.result(s)
        elif k == 'stale':
            d = rnd.choice((-1, -5, -20, 1, 30))
            g.lines.append('crf state=%d start=%d end=%d' % (rnd.randint(0, 3), g.t + d, g.t + d))
        elif k == 'ack': g.ack()
        elif k == 'unack': g.unack()
        elif k in ('ackread', 'cmtimer', 'dt_starttimer', 'fire'): g.simple(k)
        elif k == 'dt_add': g.dt_add()
        elif k == 'dt_remove': g.dt_remove()
        elif k == 'dt_cleanup': g.dt_cleanup()
        elif k == 'parent': g.parent()
        elif k == 'pause': g.pause()
        elif k == 'nextcheck': g.nextcheck()
    return g.case('combined-flapping-ack-downtime')


def nontrivial(case, impl_lines):
    for l in case['lines']:
        if l.startswith('ck_conc'):
            m = re.search(r'states=(\S+)', l)
            st = m.group(1).split(',') if m else []
            return len(st) >= 2 and any(x != '0' for x in st)
    crs = [l for l in case['lines'] if l.startswith('cr ') or l.startswith('crf ')]
    return len(crs) >= 2 and any('state=0' not in l for l in crs)


def classify(case, detail, impl_lines):
    if 'crash' in detail:
        return 'crash'
    m = re.search(r'kind=(conc-[\w-]+)', detail)
    if m:
        return m.group(1)
    if 'layering' in detail:
        return 'layering'
    if 'stale' in detail or 'rejected' in detail:
        return 'stale-handling'
    return 'state-machine'


def keep_line(l):
    return l.startswith('ck_new') or l.startswith('ckf_new') or l.startswith('ck_conc') or l == 'now %d' % T0


def extra_stats(cases, impl):
    hard = soft = none = rej = 0
    fl_on = fl_toggles = 0
    for c in cases:
        for l in impl.get(c['id'], []):
            if ' sc=H' in l: hard += 1
            elif ' sc=S' in l: soft += 1
            elif 'res=3' in l: rej += 1
            elif l.startswith('cr ') or l.startswith('crf '): none += 1
    for c in cases:
        prev = None
        for l in impl.get(c['id'], []):
            if ' fl=' in l:
                v = l.split(' fl=')[1][:1]
                fl_on += v == '1'
                if prev is not None and v != prev: fl_toggles += 1
                prev = v
    conc = {'concurrent_cases': 0, 'concurrent_repetitions': 0, 'concurrent_distinct_outcomes': 0, 'concurrent_cases_with_2plus_outcomes': 0,
            'concurrent_directed_holds_ended_by_timeout': 0}
    for c in cases:
        for l, o in zip([x for x in c['lines'] if x.startswith('ck_conc')], [x for x in impl.get(c['id'], []) if x.startswith('ckc ')]):
            conc['concurrent_cases'] += 1
            m = re.search(r'reps=(\d+)', o)
            conc['concurrent_repetitions'] += int(m.group(1)) if m else 0
            m = re.search(r'obs=(\S+)', o)
            k = len(m.group(1).split('|')) if m else 0
            conc['concurrent_distinct_outcomes'] += k
            conc['concurrent_cases_with_2plus_outcomes'] += k >= 2
            m = re.search(r'pto=(\d+)', o)
            conc['concurrent_directed_holds_ended_by_timeout'] += int(m.group(1)) if m else 0
    return {**conc, 'combined_lines_flapping': fl_on, 'combined_flapping_toggles': fl_toggles, 'hard_events': hard, 'soft_events': soft, 'no_event_steps': none, 'rejected_stale_results': rej}
