"""C01 - soft/hard state machine.  Generators for the correspondence run."""
import random, itertools
from . import ckgen

PID = 'C01'
HEADER = ['obs sc ncr']
T0 = 2000000000
RULE = ('exhaustive result histories over {OK,WARNING,CRITICAL,UNKNOWN}^L x {host,service} x max_check_attempts 1..4 x volatile '
        'x {pending start, after OK, after hard problem}; random histories of length 50-300 with max<=12, active/passive, '
        'non-decreasing whole-second timestamps; a separate stream with stale and future-dated results. '
        'a combined-fixture stream (real Host/Service with parent, Downtime and Comment objects, ops of harness/ops_ckfull.cpp): flapping enabled with thresholds that toggle '
        '(alternating states), acknowledgements through all entry points, downtimes, suppressed-notification timer, pause, parent results and stale results interleaved - '
        'state/state type/attempt/last hard state compared after EVERY operation and the C01 oracle run over the results; '
        'non-trivial = at least two results and at least one non-OK result; distinct = distinct script text')
TRUSTED = ['model: coq/Ck/CkState.v (transcription of Checkable::ProcessCheckResult lines 165-301,443-454); '
           'source facts re-extracted each run: enum values, checkable.ti defaults, Host::CalculateState/IsStateOK, Service::IsStateOK (coq/Facts/Facts_enums.v, Facts_c01.v)',
           'hook H1 (virtual clock) in lib/base/utility.cpp']
ASSUMPTIONS = ['timestamps are whole seconds (exact in binary64)', 'flapping detection, acknowledgements, downtimes, suppression, parent state and pause do not influence state/state type/attempt/event: proved for the combined model (coq/Ck/CkLayer.v, C01_full_projection*), and compared on the real objects by the combined-fixture stream']


def mk(kind, mx, vol, flap, hist, fam, t_step=10, prefix=()):
    lines = ['now %d' % T0, 'ck_new kind=%s max=%d vol=%d flap=%d' % (kind, mx, vol, flap)]
    t = T0
    for s in list(prefix) + list(hist):
        t += t_step
        lines.append('now %d' % t)
        lines.append('cr state=%d' % s)
    return {'lines': lines, 'tags': {'family': fam}}


def generate(seed, tier):
    rnd = random.Random(seed)
    L = {'quick': 5, 'thorough': 7, 'search': 6}.get(tier, 5)
    cases = []
    cfgs = [(k, m, v) for k in ('host', 'svc') for m in (1, 2, 3, 4) for v in (0, 1)]
    for (k, m, v) in cfgs:
        for h in itertools.product(range(4), repeat=L):
            cases.append(mk(k, m, v, (sum(h) + m) % 2, h, 'exhaustive-pending'))
        for h in itertools.product(range(4), repeat=L - 1):
            cases.append(mk(k, m, v, 0, h, 'exhaustive-after-ok', prefix=(0,)))
            cases.append(mk(k, m, v, 1, h, 'exhaustive-after-hard-problem', prefix=(0,) + (2,) * m))
    nrand = {'quick': 300, 'thorough': 3000, 'search': 1500}.get(tier, 300)
    for i in range(nrand):
        k = rnd.choice(('host', 'svc'))
        m = rnd.choice((1, 2, 3, 4, 5, 7, 12))
        v = rnd.random() < 0.3
        n = rnd.randint(50, 300)
        # bias: runs of non-OK of length around max, interleaved with OKs
        h = []
        while len(h) < n:
            run = rnd.choice((0, 1, m - 1, m, m + 1, rnd.randint(0, 2 * m + 2)))
            for _ in range(max(0, run)):
                h.append(rnd.choice((1, 2, 3)) if k == 'svc' else rnd.choice((2, 3, 2, 3, 1)))
            h.append(rnd.choice((0, 0, 0, 1)) if k == 'host' else 0)
        lines = ['now %d' % T0, 'ck_new kind=%s max=%d vol=%d flap=%d' % (k, m, int(v), rnd.randint(0, 1))]
        t = T0
        for s in h[:n]:
            t += rnd.choice((0, 1, 1, 5, 60, 300))
            lines.append('now %d' % t)
            lines.append('cr state=%d active=%d' % (s, rnd.randint(0, 1)))
        cases.append({'lines': lines, 'tags': {'family': 'random-long'}})
    nstale = {'quick': 400, 'thorough': 4000, 'search': 1000}.get(tier, 400)
    for i in range(nstale):
        k = rnd.choice(('host', 'svc'))
        m = rnd.choice((1, 2, 3))
        lines = ['now %d' % T0, 'ck_new kind=%s max=%d vol=%d flap=0' % (k, m, rnd.randint(0, 1))]
        t = T0
        for j in range(rnd.randint(3, 12)):
            t += rnd.choice((0, 1, 10))
            lines.append('now %d' % t)
            d = rnd.choice((0, 0, 0, -1, -5, -20, 1, 30))   # result stamped in the past / future of the clock
            lines.append('cr state=%d start=%d end=%d' % (rnd.randint(0, 3), t + d, t + d))
        cases.append({'lines': lines, 'tags': {'family': 'stale-and-future'}})
    ncomb = {'quick': 3000, 'thorough': 20000, 'search': 3000}.get(tier, 3000)
    for i in range(ncomb):
        cases.append(combined_case(rnd))
    return cases


W_COMB = {'adv': 5, 'result': 9, 'stale': 0.7, 'ack': 1.5, 'unack': 0.6, 'ackread': 0.6, 'cmtimer': 0.3, 'dt_add': 1.2, 'dt_remove': 0.5,
          'dt_starttimer': 0.6, 'dt_cleanup': 0.6, 'fire': 1.5, 'parent': 0.8, 'pause': 0.3, 'nextcheck': 0.3}


def combined_case(rnd):
    """combined fixture (CkFull): flapping that really toggles + everything else interleaved"""
    g = ckgen.Gen(rnd, flap=int(rnd.random() < 0.8), vol=int(rnd.random() < 0.2))
    names = list(W_COMB)
    ws = [W_COMB[k] for k in names]
    if g.active:
        g.nextcheck()
    last = 0
    mode = rnd.choice(('alternate', 'alternate', 'runs', 'random'))
    for _ in range(rnd.randint(25, 70)):
        k = rnd.choices(names, ws)[0]
        if k == 'adv': g.adv()
        elif k == 'result':
            if mode == 'alternate':      # state changes on most results: drives the flapping value over the high threshold
                s = rnd.choice((1, 2, 3)) if last == 0 or rnd.random() < 0.25 else 0
            elif mode == 'runs':         # long quiet runs: lets it fall below the low threshold again
                s = last if rnd.random() < 0.85 else rnd.choice((0, 1, 2, 3))
            else:
                s = rnd.choice((0, 0, 1, 2, 2, 3))
            if rnd.random() < 0.03:
                mode = rnd.choice(('alternate', 'runs', 'random'))
            last = s
            g.result(s)
        elif k == 'stale':
            d = rnd.choice((-1, -5, -20, 1, 30))
            g.lines.append('crf state=%d start=%d end=%d' % (rnd.randint(0, 3), g.t + d, g.t + d))
        elif k == 'ack': g.ack()
        elif k == 'unack': g.unack()
        elif k in ('ackread', 'cmtimer', 'dt_starttimer', 'fire'): g.simple(k)
        elif k == 'dt_add': g.dt_add()
        elif k == 'dt_remove': g.dt_remove()
        elif k == 'dt_cleanup': g.dt_cleanup()
        elif k == 'parent': g.parent()
        elif k == 'pause': g.pause()
        elif k == 'nextcheck': g.nextcheck()
    return g.case('combined-flapping-ack-downtime')


def nontrivial(case, impl_lines):
    crs = [l for l in case['lines'] if l.startswith('cr ') or l.startswith('crf ')]
    return len(crs) >= 2 and any('state=0' not in l for l in crs)


def classify(case, detail, impl_lines):
    if 'crash' in detail:
        return 'crash'
    if 'layering' in detail:
        return 'layering'
    if 'stale' in detail or 'rejected' in detail:
        return 'stale-handling'
    return 'state-machine'


def keep_line(l):
    return l.startswith('ck_new') or l.startswith('ckf_new') or l == 'now %d' % T0


def extra_stats(cases, impl):
    hard = soft = none = rej = 0
    fl_on = fl_toggles = 0
    for c in cases:
        for l in impl.get(c['id'], []):
            if ' sc=H' in l: hard += 1
            elif ' sc=S' in l: soft += 1
            elif 'res=3' in l: rej += 1
            elif l.startswith('cr ') or l.startswith('crf '): none += 1
    for c in cases:
        prev = None
        for l in impl.get(c['id'], []):
            if ' fl=' in l:
                v = l.split(' fl=')[1][:1]
                fl_on += v == '1'
                if prev is not None and v != prev: fl_toggles += 1
                prev = v
    return {'combined_lines_flapping': fl_on, 'combined_flapping_toggles': fl_toggles, 'hard_events': hard, 'soft_events': soft, 'no_event_steps': none, 'rejected_stale_results': rej}
