"""C01 - soft/hard state machine.  Generators for the correspondence run."""
import random, itertools

PID = 'C01'
HEADER = ['obs sc ncr']
T0 = 2000000000
RULE = ('exhaustive result histories over {OK,WARNING,CRITICAL,UNKNOWN}^L x {host,service} x max_check_attempts 1..4 x volatile '
        'x {pending start, after OK, after hard problem}; random histories of length 50-300 with max<=12, active/passive, '
        'non-decreasing whole-second timestamps; a separate stream with stale and future-dated results. '
        'non-trivial = at least two results and at least one non-OK result; distinct = distinct script text')
TRUSTED = ['model: coq/Ck/CkState.v (transcription of Checkable::ProcessCheckResult lines 165-301,443-454); '
           'source facts re-extracted each run: enum values, checkable.ti defaults, Host::CalculateState/IsStateOK, Service::IsStateOK (coq/Facts/Facts_enums.v, Facts_c01.v)',
           'hook H1 (virtual clock) in lib/base/utility.cpp']
ASSUMPTIONS = ['timestamps are whole seconds (exact in binary64)', 'flapping detection does not influence state/state type/attempt (exercised with enable_flapping on and off, not proved)']


def mk(kind, mx, vol, flap, hist, fam, t_step=10, prefix=()):
    lines = ['now %d' % T0, 'ck_new kind=%s max=%d vol=%d flap=%d' % (kind, mx, vol, flap)]
    t = T0
    for s in list(prefix) + list(hist):
        t += t_step
        lines.append('now %d' % t)
        lines.append('cr state=%d' % s)
    return {'lines': lines, 'tags': {'family': fam}}


def generate(seed, tier):
    rnd = random.Random(seed)
    L = {'quick': 5, 'thorough': 7, 'search': 6}.get(tier, 5)
    cases = []
    cfgs = [(k, m, v) for k in ('host', 'svc') for m in (1, 2, 3, 4) for v in (0, 1)]
    for (k, m, v) in cfgs:
        for h in itertools.product(range(4), repeat=L):
            cases.append(mk(k, m, v, (sum(h) + m) % 2, h, 'exhaustive-pending'))
        for h in itertools.product(range(4), repeat=L - 1):
            cases.append(mk(k, m, v, 0, h, 'exhaustive-after-ok', prefix=(0,)))
            cases.append(mk(k, m, v, 1, h, 'exhaustive-after-hard-problem', prefix=(0,) + (2,) * m))
    nrand = {'quick': 300, 'thorough': 3000, 'search': 1500}.get(tier, 300)
    for i in range(nrand):
        k = rnd.choice(('host', 'svc'))
        m = rnd.choice((1, 2, 3, 4, 5, 7, 12))
        v = rnd.random() < 0.3
        n = rnd.randint(50, 300)
        # bias: runs of non-OK of length around max, interleaved with OKs
        h = []
        while len(h) < n:
            run = rnd.choice((0, 1, m - 1, m, m + 1, rnd.randint(0, 2 * m + 2)))
            for _ in range(max(0, run)):
                h.append(rnd.choice((1, 2, 3)) if k == 'svc' else rnd.choice((2, 3, 2, 3, 1)))
            h.append(rnd.choice((0, 0, 0, 1)) if k == 'host' else 0)
        lines = ['now %d' % T0, 'ck_new kind=%s max=%d vol=%d flap=%d' % (k, m, int(v), rnd.randint(0, 1))]
        t = T0
        for s in h[:n]:
            t += rnd.choice((0, 1, 1, 5, 60, 300))
            lines.append('now %d' % t)
            lines.append('cr state=%d active=%d' % (s, rnd.randint(0, 1)))
        cases.append({'lines': lines, 'tags': {'family': 'random-long'}})
    nstale = {'quick': 400, 'thorough': 4000, 'search': 1000}.get(tier, 400)
    for i in range(nstale):
        k = rnd.choice(('host', 'svc'))
        m = rnd.choice((1, 2, 3))
        lines = ['now %d' % T0, 'ck_new kind=%s max=%d vol=%d flap=0' % (k, m, rnd.randint(0, 1))]
        t = T0
        for j in range(rnd.randint(3, 12)):
            t += rnd.choice((0, 1, 10))
            lines.append('now %d' % t)
            d = rnd.choice((0, 0, 0, -1, -5, -20, 1, 30))   # result stamped in the past / future of the clock
            lines.append('cr state=%d start=%d end=%d' % (rnd.randint(0, 3), t + d, t + d))
        cases.append({'lines': lines, 'tags': {'family': 'stale-and-future'}})
    return cases


def nontrivial(case, impl_lines):
    crs = [l for l in case['lines'] if l.startswith('cr ')]
    return len(crs) >= 2 and any('state=0' not in l for l in crs)


def classify(case, detail, impl_lines):
    if 'crash' in detail:
        return 'crash'
    if 'stale' in detail or 'rejected' in detail:
        return 'stale-handling'
    return 'state-machine'


def keep_line(l):
    return l.startswith('ck_new')


def extra_stats(cases, impl):
    hard = soft = none = rej = 0
    for c in cases:
        for l in impl.get(c['id'], []):
            if ' sc=H' in l: hard += 1
            elif ' sc=S' in l: soft += 1
            elif 'res=3' in l: rej += 1
            elif l.startswith('cr '): none += 1
    return {'hard_events': hard, 'soft_events': soft, 'no_event_steps': none, 'rejected_stale_results': rej}
