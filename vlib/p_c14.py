"""C14 - state and modified attributes survive restart; files old-or-new at any crash.
Generators for the correspondence run (real ConfigObject::ModifyAttribute/RestoreAttribute, DumpModifiedAttributes +
reload, DumpObjects/RestoreObjects onto fresh objects, strace of the three persisting writes) and the
classification of oracle hits into the recorded findings."""
import random, re

PID = 'C14'
HEADER = []
T0 = 2000000000
JSON_DEPTH_LIMIT = 128      # l_MaxJsonNestingDepth (lib/base/json.cpp), only used to CLASSIFY a hit as the recorded finding
TIMEOUT = 1500
RULE = ('families. modattr-*: a Host with random nested vars (depth<=3, empty containers, keys with dots/quotes/UTF-8), '
        'then <=5 ModifyAttribute/RestoreAttribute calls on existing leaf / existing dictionary / missing / too-deep / top-level / '
        'invalid paths, aimed at the case splits of the proofs (old value dictionary or not, path recorded or not, parent or child '
        'already modified); dma-*: modifications, DumpModifiedAttributes, fresh object, evaluation of the written file; '
        'state-*: 1-3 passive check results with random command/perfdata/output (clean and with a "type" key), acknowledgement, '
        'executions, DumpObjects, fresh objects, RestoreObjects, whole Serialize(FAState) compared; atomic: strace of the second '
        'write of state file / modified-attributes.conf / runtime object file and SIGKILL at the n-th open/write/fsync/close/rename. '
         'pop-history: 2-5 objects with own vars and own pairwise incomparable paths, modify/restore interleaved at different virtual '
        'times, DumpModifiedAttributes + reload or the whole stop/start cycle (state file + modified-attributes.conf), per-object '
        'values / original_attributes / version compared; state-big-*: strings of 4 KiB-1 .. 1 MiB+1 (thorough: .. 10 MB) with '
        'escape-heavy and multi-byte patterns in output / command / performance_data / executions, one record above 1 MiB in every '
        'run, arrays and dictionaries with 10^5 entries, 1000 objects in one state file, nesting 123..127 (thorough 1..1000) around '
        'the JSON decoder limit; atomic-fault: the n-th write/fsync/rename/openat/chmod of a persisting write fails with '
        'ENOSPC/EIO/EDQUOT/EACCES/EMFILE/EPERM (strace inject=...:error=...), process must go on, file old or new and loadable. '
        'dma-text: 1-3 hosts, modifications of vars / vars.<k> / vars.sub.x / notes with values over the C17 key and string alphabet at every '
        'depth (EMPTY key, dots, quotes, backslash, line breaks, NUL, leading digit, UTF-8, writer keywords, statement/comment/heredoc look-alikes, '
        'empty strings/arrays/dictionaries; a few cases with the lexer-only keywords in/debugger), DumpModifiedAttributes + reload or full '
        'restart, the bytes of every block of the real file compared by digest with the Gallina writer text, the real CompileFile outcome with '
        'the Gallina lexer+parser; repeat-empty-original: every kind of empty-valued original (null, "", 0, false, [], missing key / nested key / '
        'intermediate, empty notes, unset vars) modified 2-4 times, interleaved, restored; repeat-dict-perkey: the per-key copies of the '
        'remember test with empty-valued entries. '
        'restore-prefix-sibling: two modified paths, one a plain string prefix of the other but not a token prefix (vars.os / vars.os_family, '
        'vars.a / vars.ab.c), restore the shorter, then the longer (frame of RestoreAttribute: executable check in the glue). '
        'non-trivial = at least one modify, dump or traced write; distinct = distinct script text')
TRUSTED = ['model: coq/Persist/PsModel.v (transcription of ConfigObject::ModifyAttribute/RestoreAttribute/DumpModifiedAttributes, '
           'serializer.cpp Serialize/Deserialize, AtomicFile system-call pattern)',
           'JSON/netstring framing of the state file is the identity on the generated values (C20 decides it); for modified-attributes.conf '
           'the writer / lexer / literal parser are the Gallina model of C17 (coq/Cw/CwModel.v, tables regenerated from /repo) composed with '
           'coq/Persist/PsText.v; the statement context around the literals (obj.modify_attribute(..), obj.version = ..) is compared byte for '
           'byte by digest, its parse is not modelled',
           'strace(1) output as the observation of system calls; ptrace-based kill injection',
           'hook H1 (virtual clock) in lib/base/utility.cpp']
ASSUMPTIONS = ['numbers are finite decimals of at most 9 significant digits (exact shortest round trip through binary64)',
               'strings are valid UTF-8; field values have the type of their field (SetField conversions other than null are not modelled)',
               'a crash is a process kill between system calls; power-loss durability is outside the model']


def _unhex(k):
    return bytes.fromhex(k).decode('utf-8', 'replace') if k != '-' else ''


def hx(s):
    b = s.encode() if isinstance(s, str) else s
    return b.hex() if b else '-'


KEYS = ['a', 'b', 'c', 'x', 'y', 'k1', 'e', 'new', 'a b', 'q"t', 'ü', '-', 'z.w', 'type0']
STRS = ['', 'hi', 'a.b', 'sp ace', 'quo"te', 'back\\slash', 'nl\nx', 'tab\t', 'ümlaut €', '漢字', '0', 'null', '{"type":1}', "it's"]
NUMS = ['0', '1', '-1', '5', '300', '0.5', '-2.25', '1234567', '0.001', '12.125', '99.999999', '0.000001', '100000000']
POSNUMS = ['1', '5', '300', '0.5', '60', '12.125', '0.001', '99.999999']
NUMS7 = ['0.1234567', '0.0000001', '12345678.1234567', '-3.3333333', '0.00000049', '1.0000004']


def gen_val(rnd, depth, typekey=False, strs=STRS, nums=NUMS, keys=KEYS):
    r = rnd.random()
    if depth <= 0 or r < 0.45:
        c = rnd.random()
        if c < 0.1: return 'N'
        if c < 0.2: return rnd.choice('TF')
        if c < 0.55: return 'D' + rnd.choice(nums)
        return 'S' + hx(rnd.choice(strs))
    if r < 0.65:
        return 'A(' + ','.join(gen_val(rnd, depth - 1, typekey, strs, nums, keys) for _ in range(rnd.choice((0, 1, 2, 3)))) + ')'
    return gen_dict(rnd, depth, typekey, strs, nums, keys)


def gen_dict(rnd, depth, typekey=False, strs=STRS, nums=NUMS, keys=KEYS, n=None):
    ks = sorted(set(rnd.choice(keys) for _ in range(rnd.choice((0, 1, 2, 3, 4)) if n is None else n)), key=lambda k: k.encode())
    return 'M(' + ','.join(hx(k) + ':' + gen_val(rnd, depth - 1, typekey, strs, nums, keys) for k in ks) + ')'


# ---- tiny parser for the canonical value syntax (used by classify) ----
def parse(s):
    pos = [0]

    def tok():
        j = pos[0]
        while j < len(s) and s[j] not in ',):':
            j += 1
        t = s[pos[0]:j]
        pos[0] = j
        return t

    def val():
        c = s[pos[0]]
        pos[0] += 1
        if c in 'NTF': return {'N': None, 'T': True, 'F': False}[c]
        if c == 'D': return ('num', tok())
        if c == 'S': return ('str', tok())
        if c == 'O': return ('obj', tok())
        if c == 'R': return ('rep', tok())                      # R<n>x<hex>: a long string, kept symbolic
        if c in 'GKWV':                                         # G<n>(v) K<n>(v) W<k>(v) V<k>(v): kept symbolic
            j = pos[0]
            while s[j].isdigit(): j += 1
            n = int(s[pos[0]:j]); pos[0] = j + 1
            x = val()
            pos[0] += 1
            return ('big', c, n, x)
        if c == 'A':
            pos[0] += 1
            items = []
            while s[pos[0]] != ')':
                items.append(val())
                if s[pos[0]] == ',': pos[0] += 1
            pos[0] += 1
            return items
        if c == 'M':
            pos[0] += 1
            d = {}
            while s[pos[0]] != ')':
                k = tok()
                pos[0] += 1
                d[k] = val()
                if s[pos[0]] == ',': pos[0] += 1
            pos[0] += 1
            return d
        raise ValueError(s)
    return val()


def has_type_key(v):
    if isinstance(v, dict):
        return '74797065' in v or any(has_type_key(x) for x in v.values())
    if isinstance(v, list):
        return any(has_type_key(x) for x in v)
    if isinstance(v, tuple) and v[0] == 'big':
        return has_type_key(v[3])
    return False


def depth(v):
    """nesting depth of the JSON text of a parsed value (containers on the deepest path)"""
    if isinstance(v, dict): return 1 + max([depth(x) for x in v.values()] or [0])
    if isinstance(v, list): return 1 + max([depth(x) for x in v] or [0])
    if isinstance(v, tuple) and v[0] == 'big':
        return (v[2] if v[1] in 'WV' else 1) + depth(v[3])
    return 0


def round6(v):
    """what six fixed decimals make of every number of a parsed value"""
    if isinstance(v, dict): return {k: round6(x) for k, x in v.items()}
    if isinstance(v, list): return [round6(x) for x in v]
    if isinstance(v, tuple) and v[0] == 'num':
        t = '%.6f' % float(v[1])
        t = t.rstrip('0').rstrip('.') if '.' in t else t
        return ('num', '0' if t in ('-0', '') else t)
    return v


def leaf_paths(rnd, v, prefix, out_leaf, out_dict):
    if isinstance(v, dict):
        out_dict.append(prefix)
        for k, x in v.items():
            kk = bytes.fromhex(k).decode() if k != '-' else ''
            if '.' in kk or kk == '':
                continue
            leaf_paths(rnd, x, prefix + '.' + kk, out_leaf, out_dict)
    else:
        out_leaf.append(prefix)


def mk_mod_case(rnd, fam, dma=False, nums=NUMS, clean_only=False):
    strs = [x for x in STRS if '\n' not in x] if dma else STRS
    keys = KEYS
    vars0 = gen_dict(rnd, 3, False, strs, nums, keys, n=rnd.choice((2, 3, 4)))
    lines = ['now %d' % T0, 'ps_mnew vars=%s notes=%s ci=%s' % (vars0, hx(rnd.choice(['', 'n0', 'note "x"'])), rnd.choice(['300', '60', '0.5']))]
    leaf, dicts = [], []
    leaf_paths(rnd, parse(vars0), 'vars', leaf, dicts)
    dicts = [d for d in dicts if d != 'vars']
    t = T0
    used = []

    def pick_path():
        c = rnd.random()
        if used and c < 0.25: return rnd.choice(used)
        if used and c < 0.35:
            u = rnd.choice(used)
            return u + '.' + rnd.choice(['a', 'b', 'sub']) if rnd.random() < 0.5 else (u.rsplit('.', 1)[0] if u.count('.') > 1 else u)
        if leaf and c < 0.55: return rnd.choice(leaf)
        if dicts and c < 0.7 and not clean_only: return rnd.choice(dicts)
        if c < 0.8: return 'vars.' + rnd.choice(['new', 'n2', 'a', 'b'])
        if c < 0.87: return (rnd.choice(dicts) if dicts else 'vars') + '.' + rnd.choice(['new', 'deep.er'])
        if c < 0.9 and leaf: return rnd.choice(leaf) + '.below'
        if c < 0.94: return rnd.choice(['check_interval', 'notes'])
        if c < 0.97: return 'vars'
        return rnd.choice(['__name', 'nosuch', 'nosuch.x', 'vars..x', 'version'])

    n = rnd.randint(1, 5)
    for i in range(n):
        t += 1
        lines.append('now %d' % t)
        p = pick_path()
        if rnd.random() < 0.6 or not used:
            if p == 'check_interval': v = 'D' + rnd.choice(POSNUMS)
            elif p == 'notes': v = 'S' + hx(rnd.choice(strs))
            elif p == 'vars': v = gen_dict(rnd, 2, False, strs, nums, keys) if rnd.random() < 0.8 else 'D5'
            else: v = gen_val(rnd, 2, False, strs, nums, keys)
            lines.append('ps_mod path=%s val=%s' % (hx(p), v))
            if p not in used: used.append(p)
            if rnd.random() < 0.45:
                t += 1
                lines.append('now %d' % t)
                lines.append('ps_res path=%s' % hx(p))
        else:
            lines.append('ps_res path=%s' % hx(p))
    # nested paths below the String/double typed fields are not modelled (Value::IsEmpty() is true for "", the resulting
    # dictionary is converted to its string representation by SetField): keep nested paths under vars only
    for pfx in ('notes.', 'check_interval.'):
        lines = [l.replace('path=' + hx(pfx)[:len(hx(pfx))], 'path=' + hx('nosuch.')) if ('path=' + hx(pfx)) in l else l for l in lines]
    if dma:
        lines.append('ps_dma')
    return {'lines': lines, 'tags': {'family': fam}}


def mk_clean_pair(rnd):
    """the shape C14_restore is about: old value not a dictionary, nothing comparable modified"""
    vars0 = gen_dict(rnd, 3, n=rnd.choice((2, 3, 4)))
    leaf, dicts = [], []
    leaf_paths(rnd, parse(vars0), 'vars', leaf, dicts)
    cands = leaf + ['vars.fresh', (rnd.choice(dicts) if dicts else 'vars') + '.fresh.er', 'check_interval', 'notes', 'vars']
    lines = ['now %d' % T0, 'ps_mnew vars=%s notes=%s' % (vars0, hx('n'))]
    t = T0
    for p in rnd.sample(cands, min(len(cands), rnd.randint(1, 3))):
        v = {'check_interval': 'D' + rnd.choice(POSNUMS), 'notes': 'S' + hx(rnd.choice(STRS)), 'vars': gen_dict(rnd, 2)}.get(p) or gen_val(rnd, 2)
        if p == 'vars' and len(lines) > 2:
            continue
        lines += ['now %d' % (t + 1), 'ps_mod path=%s val=%s' % (hx(p), v), 'now %d' % (t + 2), 'ps_res path=%s' % hx(p)]
        t += 2
    return {'lines': lines, 'tags': {'family': 'modattr-clean-pair'}}


def mk_history(rnd):
    """the shape C14_history_reload is about: modifies on pairwise incomparable paths whose configured value is no
    dictionary, dump (+ restart) points in between, then restore-all and a last dump that must replay to nothing"""
    vars0 = gen_dict(rnd, 3, n=rnd.choice((2, 3, 4)), strs=[x for x in STRS if '\n' not in x])
    leaf, dicts = [], []
    leaf_paths(rnd, parse(vars0), 'vars', leaf, dicts)
    cands = list(leaf) + ['vars.fresh', (rnd.choice(dicts) if dicts else 'vars') + '.fresh2.er', 'check_interval', 'notes']
    rnd.shuffle(cands)
    paths = []
    for c in cands:                              # pairwise incomparable
        t = c.split('.')
        if all(t[:len(u)] != u and u[:len(t)] != t for u in (x.split('.') for x in paths)):
            paths.append(c)
    paths = paths[:rnd.randint(1, 4)]
    lines = ['now %d' % T0, 'ps_mnew vars=%s notes=%s ci=%s' % (vars0, hx(rnd.choice(['n0', 'note "x"'])), rnd.choice(['300', '60']))]
    t = T0
    strs = [x for x in STRS if '\n' not in x]

    def scalar(p):
        if p == 'check_interval': return 'D' + rnd.choice(POSNUMS)
        if p == 'notes': return 'S' + hx(rnd.choice(strs))
        c = rnd.random()
        if c < 0.4: return 'D' + rnd.choice(NUMS)
        if c < 0.7: return 'S' + hx(rnd.choice(strs))
        if c < 0.85: return 'A(' + ','.join('D' + rnd.choice(NUMS) for _ in range(rnd.randint(0, 3))) + ')'
        return rnd.choice(['T', 'F', 'N'])
    live = set()
    for rounds in range(rnd.randint(1, 3)):
        for i in range(rnd.randint(1, 4)):
            t += 1
            p = rnd.choice(paths)
            lines.append('now %d' % t)
            if rnd.random() < 0.75:
                lines.append('ps_mod path=%s val=%s' % (hx(p), scalar(p)))
                live.add(p)
            else:
                lines.append('ps_res path=%s' % hx(p))
                live.discard(p)
        lines.append('ps_dma')                   # dump + restart between modify and restore-all
    order = list(paths)
    rnd.shuffle(order)
    for p in order:
        t += 1
        lines += ['now %d' % t, 'ps_res path=%s' % hx(p)]
    lines.append('ps_dma')                       # everything restored: the file must replay to nothing
    return {'lines': lines, 'tags': {'family': 'dma-history'}}


def mk_special(rnd):
    out = []
    S = lambda fam, *ls: out.append({'lines': ['now %d' % T0] + list(ls), 'tags': {'family': fam}})
    # original value an empty dictionary / new keys / dotted key: F restore-dict-original
    S('modattr-dict-original', 'ps_mnew vars=M(65:M())', 'ps_mod path=%s val=D5' % hx('vars.e'), 'ps_res path=%s' % hx('vars.e'))
    S('modattr-dict-original', 'ps_mnew vars=M(61:M(78:D1))', 'ps_mod path=%s val=M(79:D2)' % hx('vars.a'), 'ps_res path=%s' % hx('vars.a'))
    S('modattr-dict-original', 'ps_mnew vars=M(61:M(%s:D1))' % hx('x.y'), 'ps_mod path=%s val=D2' % hx('vars.a'), 'ps_res path=%s' % hx('vars.a'))
    S('modattr-dict-original', 'ps_mnew vars=M(61:M(78:D1,79:S6869))', 'ps_mod path=%s val=D2' % hx('vars.a'), 'ps_res path=%s' % hx('vars.a'))
    # parent then child: F restore-overlap
    S('modattr-overlap', 'ps_mnew vars=M(61:D5)', 'ps_mod path=%s val=M(62:D1)' % hx('vars.a'), 'ps_mod path=%s val=D2' % hx('vars.a.b'), 'ps_res path=%s' % hx('vars.a'))
    S('modattr-overlap', 'ps_mnew vars=M(61:D5)', 'ps_mod path=%s val=M(6b:D1)' % hx('vars.a'), 'ps_mod path=%s val=D7' % hx('vars.a'), 'ps_res path=%s' % hx('vars.a'))
    # restore of something never modified, twice, missing
    S('modattr-restore-unmodified', 'ps_mnew vars=M(61:D5) notes=6e', 'ps_mod path=%s val=D6' % hx('vars.a'), 'ps_res path=%s' % hx('notes'), 'ps_res path=%s' % hx('check_interval'))
    S('modattr-restore-unmodified', 'ps_mnew vars=M(61:D5)', 'ps_res path=%s' % hx('vars.a'), 'ps_mod path=%s val=D6' % hx('vars.a'), 'ps_res path=%s' % hx('vars.a'), 'ps_res path=%s' % hx('vars.a'))
    # DumpModifiedAttributes: six decimals (F modattr-number-precision), dictionary replaced by a scalar (F modattr-dump-throws)
    S('dma-precision', 'ps_mnew vars=M(61:D1)', 'ps_mod path=%s val=D0.1234567' % hx('vars.a'), 'ps_dma')
    S('dma-precision', 'ps_mnew vars=M(61:D1)', 'ps_mod path=%s val=D0.0000001' % hx('vars.a'), 'ps_mod path=%s val=D1.0000004' % hx('check_interval'), 'ps_dma')
    S('dma-throws', 'ps_mnew vars=M(62:M(78:D1))', 'ps_mod path=%s val=D5' % hx('vars.b'), 'ps_dma')
    S('dma-exact', 'ps_mnew vars=M(61:D1,62:S78)', 'ps_mod path=%s val=D0.123456' % hx('vars.a'), 'ps_mod path=%s val=S%s' % (hx('notes'), hx('q"\\x')), 'ps_mod path=%s val=D77' % hx('check_interval'), 'ps_dma')
    return out


def mk_state_case(rnd, typekey):
    svc = rnd.randint(0, 1)
    lines = ['now %d' % T0, 'ps_snew svc=%d' % svc]
    t = T0
    ons = ['host'] + (['svc'] if svc else [])
    TY = ['S' + hx(x) for x in ('Host', 'nonexistent', 'CheckResult', '', 'Service')] + ['D5', 'N', 'T']

    def tdict():
        extra = ','.join(hx(k) + ':' + gen_val(rnd, 1) for k in sorted(set(rnd.choice(['k', 'name', 'zz']) for _ in range(rnd.randint(0, 2))), key=lambda k: k.encode()) if k.encode() < b'type')
        tail = ','.join(hx(k) + ':' + gen_val(rnd, 1) for k in sorted(set(rnd.choice(['u', 'vars', 'zz']) for _ in range(rnd.randint(0, 1)))))
        return 'M(' + ','.join(x for x in (extra, '74797065:' + rnd.choice(TY), tail) if x) + ')'
    for r in range(rnd.randint(1, 2)):
        for i in range(rnd.randint(1, 3)):
            t += rnd.choice((1, 5, 60))
            lines.append('now %d' % t)
            on = rnd.choice(ons)
            c = rnd.random()
            if c < 0.7:
                cmd = rnd.choice([None, 'S' + hx(rnd.choice(STRS)), 'A(' + ','.join('S' + hx(rnd.choice(STRS)) for _ in range(rnd.randint(0, 3))) + ')', gen_val(rnd, 3, nums=NUMS + NUMS7)])
                perf = rnd.choice([None, 'A()', 'A(' + ','.join(rnd.choice(['S' + hx('a=1;2;3'), 'S' + hx(rnd.choice(STRS)), gen_dict(rnd, 2, nums=NUMS + NUMS7)]) for _ in range(rnd.randint(1, 3))) + ')'])
                if typekey and rnd.random() < 0.6:
                    if rnd.random() < 0.5: cmd = tdict() if rnd.random() < 0.6 else 'M(6e:%s)' % tdict()
                    else: perf = 'A(%s,S%s)' % (tdict(), hx('a=1'))
                l = 'ps_cr on=%s state=%d active=%d out=%s' % (on, rnd.randint(0, 3), rnd.randint(0, 1), hx(rnd.choice(STRS + ['multi\nline | perf=1', 'x' * 300])))
                if cmd: l += ' cmd=' + cmd
                if perf: l += ' perf=' + perf
                lines.append(l)
            elif c < 0.85:
                lines.append('ps_ack on=%s author=%s comment=%s type=%d expiry=%d' % (on, hx(rnd.choice(STRS)), hx(rnd.choice(STRS)), rnd.choice((1, 2)), rnd.choice((0, t + 1000))))
            else:
                v = gen_dict(rnd, 3, nums=NUMS + NUMS7)
                if typekey and rnd.random() < 0.7:
                    v = 'M(%s:%s)' % (hx('id1'), tdict()) if rnd.random() < 0.5 else tdict()
                lines.append('ps_exec on=%s val=%s' % (on, v))
        lines.append('ps_dumprestore')
    return {'lines': lines, 'tags': {'family': 'state-typekey' if typekey else 'state-clean'}}


def mk_population(rnd):
    """the shape C14_population_reload / C14_population_restart are about: 2-5 objects, each with its own configured vars and its
    own set of pairwise incomparable scalar paths, modified and restored in ANY interleaving at DIFFERENT virtual times
    (so every object has its own version), dump + reload (ps_dma) or the whole stop/start cycle (ps_restart) in between,
    restore-all in random order, final dump that must replay to nothing"""
    n = rnd.randint(2, 5)
    strs = [x for x in STRS if '\n' not in x]
    head = 'ps_mnew n=%d' % n
    paths = []
    for i in range(n):
        vars0 = gen_dict(rnd, 3, n=rnd.choice((1, 2, 3)), strs=strs)
        leaf, dicts = [], []
        leaf_paths(rnd, parse(vars0), 'vars', leaf, dicts)
        cands = list(leaf) + ['vars.fresh', (rnd.choice(dicts) if dicts else 'vars') + '.fresh2.er', 'check_interval', 'notes']
        rnd.shuffle(cands)
        ps = []
        for c in cands:
            t = c.split('.')
            if all(t[:len(u)] != u and u[:len(t)] != t for u in (x.split('.') for x in ps)):
                ps.append(c)
        paths.append(ps[:rnd.randint(1, 3)])
        sfx = str(i) if i else ''
        head += ' vars%s=%s notes%s=%s ci%s=%s' % (sfx, vars0, sfx, hx(rnd.choice(['n0', 'note "x"', 'n%d' % i])), sfx, rnd.choice(['300', '60']))
    lines = ['now %d' % T0, head]
    t = T0

    def scalar(p):
        if p == 'check_interval': return 'D' + rnd.choice(POSNUMS)
        if p == 'notes': return 'S' + hx(rnd.choice(strs))
        c = rnd.random()
        if c < 0.4: return 'D' + rnd.choice(NUMS + NUMS7)
        if c < 0.7: return 'S' + hx(rnd.choice(strs))
        if c < 0.85: return 'A(' + ','.join('D' + rnd.choice(NUMS) for _ in range(rnd.randint(0, 3))) + ')'
        return rnd.choice(['T', 'F', 'N'])
    # make sure at least two objects are modified before the first dump (blocks for several objects in the file)
    first = rnd.sample(range(n), rnd.randint(2, n))
    for rounds in range(rnd.randint(1, 3)):
        todo = list(first) if rounds == 0 else []
        for i in range(rnd.randint(2, 6)):
            t += rnd.choice((1, 2, 7, 60, 3600))
            o = todo.pop() if todo else rnd.randrange(n)
            p = rnd.choice(paths[o])
            lines.append('now %d' % t)
            if rnd.random() < 0.78 or todo or rounds == 0 and i < len(first):
                lines.append('ps_mod obj=%d path=%s val=%s' % (o, hx(p), scalar(p)))
            else:
                lines.append('ps_res obj=%d path=%s' % (o, hx(p)))
        t += rnd.choice((1, 30))
        lines += ['now %d' % t, rnd.choice(['ps_dma', 'ps_restart', 'ps_restart'])]
    order = [(o, p) for o in range(n) for p in paths[o]]
    rnd.shuffle(order)
    for o, p in order:
        t += rnd.choice((1, 5))
        lines += ['now %d' % t, 'ps_res obj=%d path=%s' % (o, hx(p))]
    lines.append(rnd.choice(['ps_dma', 'ps_restart']))     # everything restored: the file must replay to nothing
    return {'lines': lines, 'tags': {'family': 'pop-history'}}



# ---- round 2: the C17 key / string alphabet inside modified attribute values, at every depth --------------------------
# keys: EMPTY, dots, quotes, backslash, line breaks, NUL, tab, leading digit, UTF-8, writer keywords (written @kw), text that
# looks like a statement / comment / heredoc / index, and `in` / `debugger` (lexer keywords the writer did not know before fix 918cf68: finding modattr-keyword-key, fixed - they must survive now)
TKEYS = ['', '', 'a', 'b', 'k1', 'a.b', '..', '.', 'q"t', 'back\\slash', 'nl\nx', 'cr\rx', 'a\0b', '\0', 'tab\t', '1abc', '0', '-', 'ü', '漢字',
         'sp ace', 'null', 'true', 'object', 'var', 'import', 'this', 'x = 1\nz', '@x', '}', '{', ']', '//c', '/*c', '#c', '}}}', 'a]["b', 'A_9', '_']
KWKEYS = ['in', 'debugger']
TSTRS = ['', '', 'hi', 'a.b', 'quo"te', 'back\\slash', 'nl\nx', 'cr\r', 'a\0b', 'tab\t', 'ümlaut €', '*/', '}}}', '"', '\\', '$x$', 'null', '0', "it's", ')', 'x\n}\n']
TNUMS = ['0', '1', '-1', '5', '300', '0.5', '-2.25', '1234567', '0.001', '0.000001', '0.1234567', '0.0000001', '12345678.1234567', '-0', '100000000', '99.999999']


def gen_tval(rnd, depth, kw=0.0, scalar_only=False):
    r = rnd.random()
    if depth <= 0 or r < 0.4 or scalar_only:
        c = rnd.random()
        if c < 0.12: return 'N'
        if c < 0.24: return rnd.choice('TF')
        if c < 0.5: return 'D' + rnd.choice(TNUMS).replace('-0', '0')
        return 'S' + hx(rnd.choice(TSTRS))
    if r < 0.6:
        return 'A(' + ','.join(gen_tval(rnd, depth - 1, kw) for _ in range(rnd.choice((0, 0, 1, 2, 3)))) + ')'
    return gen_tdict(rnd, depth, kw)


def gen_tdict(rnd, depth, kw=0.0, n=None):
    pool = TKEYS + (KWKEYS * 3 if rnd.random() < kw else [])
    ks = sorted(set(rnd.choice(pool) for _ in range(rnd.choice((0, 1, 2, 3, 4)) if n is None else n)), key=lambda k: k.encode())
    return 'M(' + ','.join(hx(k) + ':' + gen_tval(rnd, depth - 1, kw) for k in ks) + ')'


def mk_text(rnd):
    """dma-text: values over the C17 alphabet (empty keys, empty strings / arrays / dictionaries at every depth) written by the
    real ConfigWriter into modified-attributes.conf, compiled by the real config compiler: ps_dma / ps_restart; second round of
    modifications; restore-all; final dump.  Paths: top-level vars (whole dictionary; configured vars unset or a dictionary),
    vars.<k> with a scalar / missing original, notes.  With probability 0.06 a case carries a key `in` / `debugger`."""
    n = rnd.choice((1, 1, 2, 3))
    kw = 1.0 if rnd.random() < 0.06 else 0.0
    head = 'ps_mnew n=%d' % n
    paths = []
    for i in range(n):
        sfx = str(i) if i else ''
        unset = rnd.random() < 0.3
        if not unset:
            head += ' vars%s=M(%s:D1,%s:S%s,%s:N)' % (sfx, hx('a'), hx('e'), hx(''), hx('nul'))
        head += ' notes%s=%s' % (sfx, hx(rnd.choice(['', '', 'n0'])))
        c = rnd.random()
        if c < 0.35: ps = ['vars']
        else: ps = rnd.sample(['vars.a', 'vars.e', 'vars.nul', 'vars.new', 'vars.sub.x', 'notes'], rnd.randint(1, 3))
        paths.append(ps)
    lines = ['now %d' % T0, head]
    t = T0

    def val(p):
        if p == 'notes': return 'S' + hx(rnd.choice(TSTRS))
        if p == 'vars': return gen_tdict(rnd, 3, kw, n=rnd.choice((1, 2, 3, 4)))
        return gen_tval(rnd, 3, kw)
    isdict = set()
    for rounds in range(rnd.randint(1, 2)):
        for o in range(n):
            for p in paths[o]:
                # a nested path that holds a dictionary is not modified again: that is the per-key recording branch (recorded
                # findings restore-dict-original / modattr-dump-throws), exercised by modattr-random and repeat-dict-perkey
                if (rounds == 0 or rnd.random() < 0.5) and (o, p) not in isdict:
                    t += rnd.choice((1, 7, 60))
                    v = val(p)
                    if v.startswith('M(') and p != 'vars': isdict.add((o, p))
                    lines += ['now %d' % t, 'ps_mod obj=%d path=%s val=%s' % (o, hx(p), v)]
        t += 1
        lines += ['now %d' % t, rnd.choice(['ps_dma', 'ps_restart'])]
    order = [(o, p) for o in range(n) for p in paths[o]]
    rnd.shuffle(order)
    for o, p in order:
        t += 1
        lines += ['now %d' % t, 'ps_res obj=%d path=%s' % (o, hx(p))]
    lines.append(rnd.choice(['ps_dma', 'ps_restart']))
    return {'lines': lines, 'tags': {'family': 'dma-text-keyword' if kw else 'dma-text'}}


EMPTY_ORIGINALS = [('vars.n', 'null value'), ('vars.s', 'empty string'), ('vars.z', 'zero'), ('vars.f', 'false'), ('vars.ea', 'empty array'),
                   ('vars.missing', 'missing key'), ('vars.d.missing', 'missing nested key'), ('vars.nx.y', 'missing intermediate'),
                   ('notes', 'empty String field'), ('vars', 'top-level dictionary')]


def mk_repeat(rnd):
    """repeat-empty-original: every kind of EMPTY-VALUED original (null, "", 0, false, [], a key / nested key / intermediate that
    does not exist, an unset vars, an empty notes), the same path modified 2-4 times (scalars and arrays: the two copies of the
    remember test for a non-dictionary old value - top-level and nested), interleaved with modifications of the other paths,
    restores, and dump + reload / restart points; then restored: must read the value before the FIRST modification since the
    last restore, original_attributes must not list it."""
    unset = rnd.random() < 0.25
    head = 'ps_mnew' + ('' if unset else ' vars=M(%s:M(%s:D1),%s:A(),%s:F,%s:N,%s:S-,%s:D0)' % (hx('d'), hx('k'), hx('ea'), hx('f'), hx('n'), hx('s'), hx('z')))
    head += ' notes=-'
    cands = [p for p, _ in EMPTY_ORIGINALS]
    if unset: cands = ['vars.missing', 'vars.nx.y', 'notes', 'vars']
    rnd.shuffle(cands)
    paths = []
    for c in cands:
        t = c.split('.')
        if all(t[:len(u)] != u and u[:len(t)] != t for u in (x.split('.') for x in paths)):
            paths.append(c)
    paths = paths[:rnd.randint(1, 4)]
    lines = ['now %d' % T0, head]
    t = T0

    def val(p):
        if p == 'notes': return 'S' + hx(rnd.choice(['x', 'y', '', 'nl\nx', 'q"']))
        if p == 'vars': return 'M(%s:%s)' % (hx(rnd.choice(['a', 'b', ''])), gen_tval(rnd, 1))
        c = rnd.random()
        if c < 0.35: return 'D' + rnd.choice(['0', '1', '7', '0.5'])
        if c < 0.6: return 'S' + hx(rnd.choice(['', 'x', 'y']))
        if c < 0.75: return 'A(' + ','.join('D%d' % rnd.randint(0, 3) for _ in range(rnd.randint(0, 2))) + ')'
        return rnd.choice(['T', 'F', 'N'])
    count = {p: 0 for p in paths}
    todo = [p for p in paths for _ in range(rnd.randint(2, 4))]
    rnd.shuffle(todo)
    for p in todo:
        t += 1
        lines += ['now %d' % t, 'ps_mod path=%s val=%s' % (hx(p), val(p))]
        count[p] += 1
        c = rnd.random()
        if c < 0.12 and count[p] >= 2:
            t += 1
            lines += ['now %d' % t, 'ps_res path=%s' % hx(p)]
            count[p] = 0
        elif c < 0.2:
            t += 1
            lines += ['now %d' % t, rnd.choice(['ps_dma', 'ps_restart'])]
    order = list(paths)
    rnd.shuffle(order)
    for p in order:
        t += 1
        lines += ['now %d' % t, 'ps_res path=%s' % hx(p)]
    lines.append('ps_dma')
    return {'lines': lines, 'tags': {'family': 'repeat-empty-original'}}


def mk_repeat_perkey(rnd):
    """repeat-dict-perkey: the other two copies of the remember test (old value a dictionary: per key of the old dictionary, per
    key of a dictionary-valued new value) with empty-valued entries, the path modified 2-3 times.  This is the territory of the
    recorded findings restore-dict-original / modattr-dump-throws: the model follows the code, the trace comparison decides."""
    lines = ['now %d' % T0, 'ps_mnew vars=M(%s:M(%s:S-,%s:N,%s:D0,%s:D5))' % (hx('d'), hx('e'), hx('k'), hx('z'), hx('w'))]
    t = T0
    for i in range(rnd.randint(2, 3)):
        t += 1
        ks = sorted(set(rnd.choice(['e', 'k', 'z', 'w', 'm', 'm2']) for _ in range(rnd.randint(1, 3))), key=lambda k: k.encode())
        v = 'M(' + ','.join(hx(k) + ':' + rnd.choice(['D1', 'D2', 'S' + hx('x'), 'N', 'S-']) for k in ks) + ')'
        lines += ['now %d' % t, 'ps_mod path=%s val=%s' % (hx('vars.d'), v)]
        if rnd.random() < 0.3:
            t += 1
            lines += ['now %d' % t, 'ps_mod path=%s val=%s' % (hx('vars.d.' + rnd.choice(['e', 'k', 'm'])), rnd.choice(['D9', 'S' + hx('y')]))]
    t += 1
    lines += ['now %d' % t, 'ps_res path=%s' % hx(rnd.choice(['vars.d', 'vars.d.k', 'vars.d.e']))]
    if rnd.random() < 0.5: lines.append('ps_dma')
    return {'lines': lines, 'tags': {'family': 'repeat-dict-perkey'}}



PREFIX_PAIRS = [('vars.os', 'vars.os_family'), ('vars.a', 'vars.ab.c'), ('vars.disks', 'vars.disks_spare.count'), ('vars.a', 'vars.a_'), ('vars.n', 'vars.nn.x.y')]


def mk_prefix_sibling(rnd, pair=None, order=0):
    """restore-prefix-sibling: two modified paths of which one is a plain STRING prefix of the other without being a TOKEN prefix
    (vars.os / vars.os_family, vars.a / vars.ab.c ...): modify both (either order), restore the SHORTER one - the longer one must
    keep its value and its original_attributes entry (frame of RestoreAttribute) - then the longer one; sometimes a reload between."""
    a, b = pair or rnd.choice(PREFIX_PAIRS)
    lines = ['now %d' % T0, 'ps_mnew vars=M(%s:D1,%s:D7,%s:M(%s:D2),%s:D3,%s:M(%s:D1),%s:S%s,%s:S%s)' % (
        hx('a'), hx('a_'), hx('ab'), hx('c'), hx('disks'), hx('disks_spare'), hx('count'), hx('os'), hx('linux'), hx('os_family'), hx('unix'))]
    t = T0
    first = [a, b] if (order or rnd.randint(1, 2)) == 1 else [b, a]
    for p in first:
        t += 1
        lines += ['now %d' % t, 'ps_mod path=%s val=%s' % (hx(p), rnd.choice(['D9', 'S' + hx('changed'), 'T', 'A(D1)']))]
    if pair is None and rnd.random() < 0.25:
        t += 1
        lines += ['now %d' % t, rnd.choice(['ps_dma', 'ps_restart'])]
    t += 1
    lines += ['now %d' % t, 'ps_res path=%s' % hx(a)]
    if pair is None and rnd.random() < 0.3:
        lines.append('ps_dma')
    t += 1
    lines += ['now %d' % t, 'ps_res path=%s' % hx(b), 'ps_dma']
    return {'lines': lines, 'tags': {'family': 'restore-prefix-sibling'}}


def mk_text_special():
    out = []
    S = lambda fam, *ls: out.append({'lines': ['now %d' % T0] + list(ls), 'tags': {'family': fam}})
    # the empty key at depth 1, 2, 3 and inside an array, in a nested path and in the whole vars; empty containers
    S('dma-text', 'ps_mnew vars=M(61:D1)', 'ps_mod path=%s val=M(-:S%s)' % (hx('vars.x'), hx('value')), 'ps_dma')
    S('dma-text', 'ps_mnew vars=M(61:D1)', 'ps_mod path=%s val=M(61:M(-:M(-:D1)))' % hx('vars.x'), 'ps_restart')
    S('dma-text', 'ps_mnew vars=M(61:D1)', 'ps_mod path=%s val=A(A(),M(),M(-:A(M(-:S-))))' % hx('vars.x'), 'ps_dma')
    S('dma-text', 'ps_mnew', 'ps_mod path=%s val=M(-:D1,%s:M())' % (hx('vars'), hx('b')), 'ps_restart')
    S('dma-text', 'ps_mnew n=2 vars=M(61:D1)', 'ps_mod obj=0 path=%s val=S%s' % (hx('vars.a'), hx('ok')), 'ps_mod obj=1 path=%s val=M(-:D1)' % hx('vars.x'), 'ps_dma')
    # `in` / `debugger` as keys (finding modattr-keyword-key, fixed by 918cf68): must survive; before the fix one such line took the other object's block with it
    S('dma-text-keyword', 'ps_mnew vars=M(61:D1)', 'ps_mod path=%s val=M(%s:D1)' % (hx('vars.x'), hx('in')), 'ps_dma')
    S('dma-text-keyword', 'ps_mnew vars=M(61:D1)', 'ps_mod path=%s val=A(M(61:M(%s:N)))' % (hx('vars.x'), hx('debugger')), 'ps_restart')
    S('dma-text-keyword', 'ps_mnew n=2 vars=M(61:D1)', 'ps_mod obj=0 path=%s val=S%s' % (hx('vars.a'), hx('ok')), 'ps_mod obj=1 path=%s val=M(%s:D1)' % (hx('vars.x'), hx('in')), 'ps_dma')
    # every empty-valued original, modified three times, restored (seeded change: remember test on the VALUE)
    for p, _ in EMPTY_ORIGINALS:
        unset = p in ('vars',)
        head = 'ps_mnew notes=-' + ('' if unset else ' vars=M(%s:M(%s:D1),%s:A(),%s:F,%s:N,%s:S-,%s:D0)' % (hx('d'), hx('k'), hx('ea'), hx('f'), hx('n'), hx('s'), hx('z')))
        v = (lambda i: 'S' + hx('v%d' % i)) if p != 'vars' else (lambda i: 'M(%s:D%d)' % (hx('k'), i))
        S('repeat-empty-original', head, 'now %d' % (T0 + 1), 'ps_mod path=%s val=%s' % (hx(p), v(1)), 'now %d' % (T0 + 2), 'ps_mod path=%s val=%s' % (hx(p), v(2)),
          'now %d' % (T0 + 3), 'ps_mod path=%s val=%s' % (hx(p), v(3)), 'now %d' % (T0 + 4), 'ps_res path=%s' % hx(p), 'ps_dma')
    return out


# sizes around the buffer boundaries of the readers/writers: StreamReadContext::FillFromStream reads 4096-byte chunks up to
# 64 KiB per call (lib/base/stream.cpp), boost::iostreams buffers 4096 bytes, JSON-RPC caps anonymous messages at 1 MiB
# (the cap a state file must NOT have), netstring length prefixes grow a digit at 10^k
BIG_QUICK = [4095, 4096, 4097, 65535, 65536, 65537, 99999, 1048575, 1048576, 1048577]
BIG_THOROUGH = BIG_QUICK + [999999, 1000000, 2097152, 4194303, 4194304, 4194305, 9999999, 10000000]
PATTERNS = ['78', '225c', 'e282ac', '0a', '6162636465666768', '5c6e', 'c3bc']


def mk_big(rnd, tier):
    out = []

    def S(fam, *ls):
        out.append({'lines': ['now %d' % T0] + list(ls), 'tags': {'family': fam}})
    sizes = BIG_THOROUGH if tier == 'thorough' else BIG_QUICK
    # long strings in the three places a passive check result can put them, on host and service
    for n in sizes:
        pat = rnd.choice(PATTERNS) if n < 1048000 or tier == 'thorough' else rnd.choice(['78', '225c', 'e282ac'])
        pl = len(pat) // 2
        n = n - n % pl if pat in ('e282ac', 'c3bc') else n                 # whole UTF-8 sequences only
        where = rnd.choice(['out', 'cmd', 'perf', 'exec']) if n < 1048000 else 'out'
        svc = rnd.randint(0, 1)
        on = 'svc' if svc and rnd.random() < 0.5 else 'host'
        big = 'R%dx%s' % (n, pat)
        if where == 'out': op = 'ps_cr on=%s state=2 out=%s' % (on, big)
        elif where == 'cmd': op = 'ps_cr on=%s state=1 out=6f cmd=A(S%s,%s)' % (on, hx('/bin/x'), big)
        elif where == 'perf': op = 'ps_cr on=%s state=1 out=6f perf=A(%s,S%s)' % (on, big, hx('a=1'))
        else: op = 'ps_exec on=%s val=M(%s:M(%s:%s))' % (on, hx('id'), hx('output'), big)
        S('state-big-string', 'ps_snew svc=%d' % svc, op, 'ps_cr on=host state=0 out=%s' % hx('later') if on == 'svc' else 'ps_ack on=host author=61 comment=62 type=1 expiry=0', 'ps_dumprestore')
    # one record well above 1 MiB in EVERY tier and seed, plus a second object after it in the file
    S('state-big-string', 'ps_snew svc=1', 'ps_cr on=host state=2 out=R1500000x%s' % rnd.choice(['78', '225c']),
      'ps_cr on=svc state=1 out=%s perf=A(S%s)' % (hx('after the big one'), hx('x=1')), 'ps_dumprestore')
    # large containers
    for v in (['G100000(D1)', 'G100000(S%s)' % hx('ab'), 'K100000(D7)', 'G5000(M(%s:D1,%s:A(S%s)))' % (hx('a'), hx('b'), hx('c'))] if tier == 'thorough'
              else ['G100000(D%s)' % rnd.choice(['1', '0.5']), 'K30000(S%s)' % hx('v')]):
        if v[0] == 'K':
            S('state-big-container', 'ps_snew svc=0', 'ps_exec on=host val=%s' % v, 'ps_dumprestore')
        else:
            S('state-big-container', 'ps_snew svc=0', 'ps_cr on=host state=1 out=6f perf=%s' % v, 'ps_dumprestore')
    # many objects in one state file
    for n in ([1000, 3000] if tier == 'thorough' else [1000]):
        S('state-many-objects', 'ps_snew svc=1 n=%d' % n, 'ps_crall n=%d outlen=%d state=%d' % (n, rnd.choice((10, 200)), rnd.randint(0, 3)),
          'ps_cr on=svc state=2 out=%s' % hx('svc'), 'ps_dumprestore')
    # nesting around the JSON decoder's limit (128 containers; the record adds 3 around a check result's command /
    # performance_data, 2 around executions): deeper values are the recorded finding state-depth-limit
    for k in ([1, 60, 122, 123, 124, 125, 126, 127, 128, 129, 200, 300] if tier == 'thorough' else [123, 124, 125, rnd.choice([126, 127, 200])]):
        S('state-depth', 'ps_snew svc=1', 'ps_cr on=host state=1 out=6f perf=A(W%d(D1))' % k, 'ps_cr on=svc state=2 out=%s' % hx('sv'), 'ps_dumprestore')
    for k in ([124, 125, 126] if tier == 'thorough' else [rnd.choice([125, 126])]):
        S('state-depth', 'ps_snew svc=0', 'ps_cr on=host state=1 out=6f cmd=W%d(S%s)' % (k, hx('c')), 'ps_dumprestore')
        S('state-depth', 'ps_snew svc=0', 'ps_exec on=host val=V%d(D1)' % (k + 1), 'ps_dumprestore')
    return out


FAULTS = [('write', 'ENOSPC'), ('write', 'EIO'), ('write', 'EDQUOT'), ('fsync', 'EIO'), ('fsync', 'ENOSPC'), ('rename', 'ENOSPC'),
          ('rename', 'EACCES'), ('rename', 'EIO'), ('openat', 'ENOSPC'), ('openat', 'EMFILE'), ('openat', 'EACCES'), ('chmod', 'EPERM')]


def mk_faults(rnd, tier):
    """a write / fsync / rename / mkstemp / chmod of the persisting write FAILS (disk full, I/O error, quota, permissions);
    the process goes on; the file must be the complete old or the complete new version and loadable"""
    allf = [(w, c, e, n) for w in ('state', 'modattr', 'objcfg') for c, e in FAULTS
            for n in range(1, {'write': 8, 'openat': 4}.get(c, 2) + 1)]
    if tier == 'thorough':
        pick = allf
    else:
        must = [('state', 'write', 'ENOSPC', 1), ('state', 'write', 'ENOSPC', rnd.choice((2, 3, 4))), ('modattr', 'write', 'ENOSPC', 1),
                ('state', 'fsync', 'EIO', 1), ('state', 'rename', 'ENOSPC', 1), ('objcfg', 'write', 'ENOSPC', 1)]
        pick = must + rnd.sample([f for f in allf if f not in must and f[3] <= 2], 4)
    return [{'lines': ['ps_fault what=%s call=%s n=%d err=%s' % (w, c, n, e)], 'tags': {'family': 'atomic-fault'}} for w, c, e, n in pick]


def mk_atomic(rnd, tier):
    out = []
    for what in ('state', 'modattr', 'objcfg'):
        out.append({'lines': ['ps_atomic what=%s' % what], 'tags': {'family': 'atomic-trace'}})
    # every system call name that occurs between the start and the end of the three persisting writes (strace census,
    # see notes/C14.md), with n up to more than the observed count per window: every syscall boundary is a kill point
    calls = {'openat': 6, 'newfstatat': 14, 'getdents64': 3, 'close': 6, 'chmod': 2, 'write': 3, 'fsync': 2, 'rename': 2,
             'statx': 2, 'read': 6, 'mkdir': 2, 'futex': 40, 'rt_sigprocmask': 3, 'clone3': 2, 'lseek': 2}
    allk = [(w, c, n) for w in ('state', 'modattr', 'objcfg') for c, mx in calls.items() for n in range(1, mx + 1)
            if not (c == 'futex' and w != 'objcfg' and n > 4)]
    if tier == 'thorough':
        pick = allk
    else:
        must = [(w, c, 1) for w in ('state', 'modattr', 'objcfg') for c in ('write', 'rename')]
        rest = [k for k in allk if k not in must and k[1] in ('openat', 'close', 'chmod', 'fsync', 'getdents64', 'newfstatat') and k[2] <= 2]
        pick = must + rnd.sample(rest, 6 if tier == 'quick' else 12)
    for w, c, n in pick:
        out.append({'lines': ['ps_kill what=%s call=%s n=%d' % (w, c, n)], 'tags': {'family': 'atomic-kill'}})
    return out


def mk_shutdown(rnd, sched):
    """the final dump of OnShutdown next to a periodic dump (directed two-thread schedules, see harness/ops_ps.cpp (iv))"""
    n = rnd.randint(2, 4)
    strs = ['x', 'note "q"', 'a\\b', 'ü€', 'line\nbreak', '', '$m$', '}}}']
    head = 'ps_mnew n=%d' % n
    for i in range(n):
        sfx = str(i) if i else ''
        head += ' vars%s=M(61:D%d,62:S%s) notes%s=%s ci%s=%s' % (sfx, i + 1, hx(rnd.choice(strs)), sfx, hx('n%d' % i), sfx, rnd.choice(['300', '60']))
    t = T0
    lines = ['now %d' % t, head]

    def some_mods(k):
        nonlocal t
        for _ in range(k):
            t += rnd.choice((1, 2, 7, 60))
            o = rnd.randrange(n)
            p = rnd.choice(['vars.a', 'vars.b', 'check_interval', 'vars.c'])
            v = 'D' + rnd.choice(['5', '60', '0.5', '120']) if p == 'check_interval' else rnd.choice(['D7', 'S' + hx(rnd.choice(strs)), 'T', 'A(D1,D2)'])
            lines.extend(['now %d' % t, 'ps_mod obj=%d path=%s val=%s' % (o, hx(p), v)])
    some_mods(rnd.randint(0, 3))
    t += 5
    lines += ['now %d' % t, 'ps_crall n=%d state=%d' % (n, rnd.randint(0, 3))]
    t += 1
    lines += ['now %d' % t, 'ps_dumpstate']                       # the previous periodic dump, complete
    some_mods(rnd.randint(1, 3))                                  # changes since
    t += rnd.choice((10, 120, 299))
    lines += ['now %d' % t, 'ps_crall n=%d state=%d' % (n, rnd.randint(0, 3))]
    t += rnd.choice((1, 30))
    lines += ['now %d' % t, 'ps_shutdown sched=%s val=S%s state=%d' % (sched, hx(rnd.choice(strs) + 'z'), rnd.randint(0, 3))]
    return {'lines': lines, 'tags': {'family': 'shutdown-' + sched}}


def generate(seed, tier):
    rnd = random.Random(seed)
    k = {'quick': 1, 'thorough': 10, 'search': 4}.get(tier, 1)
    cases = []
    cases += mk_special(rnd)
    for i in range(250 * k): cases.append(mk_clean_pair(rnd))
    for i in range(500 * k): cases.append(mk_mod_case(rnd, 'modattr-random'))
    for i in range(150 * k): cases.append(mk_mod_case(rnd, 'dma-random', dma=True, clean_only=True))
    for i in range(30 * k): cases.append(mk_mod_case(rnd, 'dma-seven-decimals', dma=True, nums=NUMS + NUMS7, clean_only=True))
    for i in range(150 * k): cases.append(mk_history(rnd))
    for i in range(300 * k): cases.append(mk_state_case(rnd, False))
    for i in range(80 * k): cases.append(mk_state_case(rnd, True))
    for i in range(120 * k): cases.append(mk_population(rnd))
    cases += mk_text_special()
    for pr in PREFIX_PAIRS:
        for od in (1, 2): cases.append(mk_prefix_sibling(rnd, pr, od))
    for i in range(40 * k): cases.append(mk_prefix_sibling(rnd))
    for i in range(160 * k): cases.append(mk_text(rnd))
    for i in range(150 * k): cases.append(mk_repeat(rnd))
    for i in range(40 * k): cases.append(mk_repeat_perkey(rnd))
    for sched, cnt in (('parked', 10), ('late', 4), ('free', 4)):
        for i in range(cnt * (1 if tier == 'quick' else 3)): cases.append(mk_shutdown(rnd, sched))
    if tier != 'search':
        cases += mk_big(rnd, tier)
        cases += mk_atomic(rnd, tier)
        cases += mk_faults(rnd, tier)
    else:
        cases += [c for c in mk_big(rnd, 'quick') if c['tags']['family'] in ('state-big-string', 'state-depth')]
    return cases


def canon(lines):
    out = []
    for l in lines:
        if l.startswith('kill '):
            l = 'kill ok=1 loadable=1' if (l.startswith('kill beyond') or l.startswith('kill ok=1 loadable=1')) else l
        if l.startswith('fault '):
            l = 'fault ok=1 loadable=1 finished=1' if (l.startswith('fault beyond') or (l.startswith('fault ok=1 loadable=1') and ' finished=1' in l)) else l
        out.append(l)
    return out


def nontrivial(case, impl_lines):
    return any(l.split()[0] in ('ps_mod', 'ps_dumprestore', 'ps_atomic', 'ps_kill', 'ps_dma', 'ps_restart', 'ps_fault', 'ps_shutdown') for l in case['lines'])


def _supplied(case, slot):
    """texts of the values a script supplied for a state slot"""
    on, rest = slot.split('.', 1)
    res = []
    for l in case['lines']:
        t = l.split()
        kv = dict(x.split('=', 1) for x in t[1:] if '=' in x)
        if kv.get('on', 'host') != on:
            continue
        if t[0] == 'ps_cr' and rest == 'last_check_result.command' and 'cmd' in kv: res.append(kv['cmd'])
        if t[0] == 'ps_cr' and rest == 'last_check_result.performance_data' and 'perf' in kv: res.append(kv['perf'])
        if t[0] == 'ps_exec' and rest == 'executions': res.append(kv['val'])
    return res


def _mod_saw_dict(case, impl_lines):
    """did some successful ps_mod of this case hit a path whose value was a dictionary (per-key recording branch)"""
    ops = [l for l in case['lines'] if l.split()[0] in ('ps_mnew', 'ps_mod', 'ps_res', 'ps_dma')]
    prev = None
    for op, obs in zip(ops, impl_lines):
        kv = dict(x.split('=', 1) for x in obs.split()[1:] if '=' in x)
        if op.startswith('ps_mod') and prev is not None and kv.get('ok') == '1':
            path = bytes.fromhex(dict(x.split('=', 1) for x in op.split()[1:])['path']).decode('utf-8', 'replace').split('.')
            if path[0] == 'vars' and len(path) > 1:
                cur = prev
                for tk in path[1:]:
                    cur = cur.get(tk.encode().hex() or '-') if isinstance(cur, dict) else None
                if isinstance(cur, dict):
                    return True
        if 'vars' in kv:
            prev = parse(kv['vars'])
    return False



KW_HEX = ('696e', '6465627567676572')       # in, debugger


def has_kw_key(v):
    if isinstance(v, dict):
        return any(k in KW_HEX for k in v) or any(has_kw_key(x) for x in v.values())
    if isinstance(v, list):
        return any(has_kw_key(x) for x in v)
    return False


def _listed_keyword_key(case, impl_lines):
    """finding modattr-keyword-key: at the first failing reload, does the value of a LISTED attribute of some object (as the
    implementation reported it before the dump) contain a dictionary key `in` / `debugger` at any depth"""
    last = {}
    for l in impl_lines:
        if l.startswith(('mod ', 'res ', 'mnew ', 'dma ', 'rst ')) and ' vars=' in l:
            kv = dict(x.split('=', 1) for x in l.split()[1:] if '=' in x)
            if l.startswith(('dma ', 'rst ')) and kv.get('ok') == '0':
                break
            last[kv.get('obj', '0')] = kv
    for kv in last.values():
        if kv.get('orig', 'N') == 'N':
            continue
        vars_ = parse(kv['vars'])
        for k in parse(kv['orig']):
            toks = (_unhex(k) if k != '-' else '').split('.')
            if toks[0] != 'vars':
                continue
            cur = vars_
            for tk in toks[1:]:
                cur = cur.get(tk.encode().hex() or '-') if isinstance(cur, dict) else None
            if has_kw_key(cur):
                return True
    return False


def classify(case, detail, impl_lines):
    try:
        return _classify(case, detail, impl_lines)
    except Exception as e:     # a classification problem must never hide a hit
        return 'unclassified'


def _classify(case, detail, impl_lines):
    if 'crash' in detail or 'missing-observation' in detail:
        return 'crash'
    if detail.startswith('state-roundtrip'):
        m = re.search(r'diff=(\S+) slots=(\S*)', detail)
        diff = set(m.group(1).split(',')) if m.group(1) != '-' else set()
        slots = set(x for x in m.group(2).split(',') if x)
        if 'RESTORE-THROWS' in diff:
            return 'state-restore-throws'
        lost = set(d[:-2] for d in diff if d.endswith('.*'))
        if lost:
            # finding state-depth-limit: every object whose whole state is gone was given a value nested deeper than the
            # JSON decoder accepts once it sits inside the record (3 containers around command / performance_data, 2 around
            # executions), and nothing else differs
            def too_deep(o):
                for rest, outer in (('last_check_result.command', 3), ('last_check_result.performance_data', 3), ('executions', 2)):
                    if any(outer + depth(parse(v)) > JSON_DEPTH_LIMIT for v in _supplied(case, o + '.' + rest)):
                        return True
                return False
            if all(too_deep(o) for o in lost) and all(d.endswith('.*') for d in diff) and all(sl.split('.')[0] in lost for sl in slots):
                return 'state-depth-limit'
            return 'state-roundtrip'
        if slots and diff == slots and all(any(has_type_key(parse(v)) for v in _supplied(case, s)) for s in slots):
            return 'state-type-key'
        return 'state-roundtrip'
    if detail.startswith('restore-touches-sibling'):
        return 'restore-touches-sibling'
    if detail.startswith('restore-unmodified'):
        return 'restore-unmodified-wipes'
    if detail.startswith('restore-mismatch'):
        if ' olddict=1' in detail: return 'restore-dict-original'
        if ' overlap=1' in detail: return 'restore-overlap'
        return 'restore'
    if detail.startswith('modattr-dump-failed') or detail.startswith('restart-failed rst ok=0 dump-throws'):
        # the states before the FIRST failing dump: an original_attributes key whose path now runs into a non-dictionary
        last = {}
        for l in impl_lines:
            if l == 'dma ok=0' or l.startswith('rst ok=0 dump-throws'): break
            if l.startswith(('mod ', 'res ', 'mnew ', 'dma ', 'rst ')) and ' vars=' in l:
                kv0 = dict(x.split('=', 1) for x in l.split()[1:] if '=' in x)
                last[kv0.get('obj', '0')] = kv0
        for kv in last.values():
          if kv['orig'] != 'N':
              vars_ = parse(kv['vars'])
              for k in parse(kv['orig']):
                  toks = _unhex(k).split('.')
                  if toks[0] != 'vars' or len(toks) < 3: continue
                  cur = vars_
                  for tk in toks[1:-1]:
                      if not isinstance(cur, dict): break
                      h = tk.encode().hex() or '-'
                      if h not in cur: cur = None; break
                      cur = cur[h]
                  else:
                      if not isinstance(cur, dict): return 'modattr-dump-throws'
                  if cur is not None and not isinstance(cur, dict): return 'modattr-dump-throws'
        return 'modattr-dump'
    if detail.startswith('modattr-mismatch ok=0') and _listed_keyword_key(case, impl_lines):
        return 'modattr-keyword-key'
    if detail.startswith('modattr-mismatch'):
        m = re.search(r'ok=1 key=\S+ before=(\S+) after=(\S+) mentioned=1', detail)
        if m and round6(parse(m.group(1))) == parse(m.group(2)) and parse(m.group(1)) != parse(m.group(2)):
            return 'modattr-number-precision'
        if _mod_saw_dict(case, impl_lines):
            return 'restore-dict-original'
        pre = [l for l in impl_lines if l.startswith(('mod ', 'res ', 'mnew '))][-1]
        og = dict(x.split('=', 1) for x in pre.split()[1:]).get('orig', 'N')
        keys = [_unhex(k).split('.') for k in parse(og)] if og != 'N' else []
        if any(a != b and b[:len(a)] == a for a in keys for b in keys):
            return 'restore-overlap'
        return 'modattr'
    if detail.startswith('modattr-version'):
        return 'modattr-version'
    if detail.startswith('shutdown-dump-threw'):
        # finding shutdown-dump-cleanup-race: only in the schedule in which a periodic dump begins (clean-up of <file>.tmp.*)
        # while the shutdown dump has its temporary file open
        return 'shutdown-dump-cleanup-race' if ' sched=late' in detail else 'shutdown-dump-threw'
    if detail.startswith('shutdown-dump-stale'):
        return 'shutdown-dump-stale'
    if detail.startswith('shutdown') or detail.startswith('periodic-dump-failed'):
        return 'shutdown-state-lost'
    if detail.startswith('restart'):
        return 'restart'
    if detail.startswith('atomic'):
        return 'atomic'
    if detail.startswith('kill'):
        return 'atomic-kill'
    if detail.startswith('fault'):
        return 'atomic-fault'
    return 'other'


def keep_line(l):
    return l.startswith('ps_mnew') or l.startswith('ps_snew') or l.startswith('now ')


def extra_stats(cases, impl):
    st = {'modify_ok': 0, 'modify_rejected': 0, 'restore_ok': 0, 'restore_rejected': 0, 'dma': 0, 'dumprestore': 0,
          'state_roundtrip_identical': 0, 'traced_writes': 0, 'kills': 0, 'kill_left_old': 0, 'kill_left_new': 0, 'kill_left_absent': 0,
          'restarts': 0, 'population_reloads': 0, 'objects_reloaded_with_own_version': 0, 'faults': 0, 'fault_left_old': 0, 'fault_left_new': 0,
          'fault_left_absent': 0, 'largest_string_bytes': 0, 'records_over_1MiB': 0, 'objects_lost_to_depth_limit': 0,
          'shutdown_dumps_next_to_a_periodic_dump': 0, 'shutdown_dumps_that_threw': 0, 'modattr_blocks_text_compared': 0, 'empty_keys_written': 0, 'reloads_failed_to_compile': 0, 'repeated_modifications_of_a_listed_path': 0}
    for c in cases:
        for l in c['lines']:
            for m in re.finditer(r'R(\d+)x', l):
                st['largest_string_bytes'] = max(st['largest_string_bytes'], int(m.group(1)))
                if int(m.group(1)) > 1048576 and l.startswith(('ps_cr', 'ps_exec')): st['records_over_1MiB'] += 1
    for c in cases:
        seen = set()
        for l in c['lines']:
            if l.startswith('ps_mod') and (':M(-:' in l or '(-:' in l or ',-:' in l) and any(x in ('ps_dma', 'ps_restart') for x in c['lines']): st['empty_keys_written'] += 1
            if l.startswith('ps_mod'):
                key = tuple(x for x in l.split() if x.startswith(('obj=', 'path=')))
                if key in seen: st['repeated_modifications_of_a_listed_path'] += 1
                seen.add(key)
            elif l.startswith('ps_res'):
                seen.discard(tuple(x for x in l.split() if x.startswith(('obj=', 'path='))))
    for c in cases:
        for l in impl.get(c['id'], []):
            if l.startswith('mod ok=1'): st['modify_ok'] += 1
            elif l.startswith('mod ok=0'): st['modify_rejected'] += 1
            elif l.startswith('res ok=1'): st['restore_ok'] += 1
            elif l.startswith('res ok=0'): st['restore_rejected'] += 1
            elif l.startswith('dma '):
                st['dma'] += 1
                if ' txt=' in l and not l.endswith('txt=-'): st['modattr_blocks_text_compared'] += 1
                if ' ok=0 ' in l and ' vars=' in l: st['reloads_failed_to_compile'] += 1
                if ' obj=0 ' in l: st['population_reloads'] += 1
                if ' obj=' in l and ' orig=M(' in l and ' orig=M() ' not in l: st['objects_reloaded_with_own_version'] += 1
            elif l.startswith('rst '):
                if ' txt=' in l and not l.endswith('txt=-'): st['modattr_blocks_text_compared'] += 1
                if ' obj=0 ' in l or ' obj=' not in l: st['restarts'] += 1
                if ' obj=' in l and ' orig=M(' in l and ' orig=M() ' not in l: st['objects_reloaded_with_own_version'] += 1
            elif l.startswith('shut '):
                st['shutdown_dumps_next_to_a_periodic_dump'] += 1
                st['shutdown_dumps_that_threw'] += ' threw=1' in l
            elif l.startswith('fault ok'):
                st['faults'] += 1
                for w in ('old', 'new', 'absent'):
                    st['fault_left_' + w] += l.endswith('which=' + w)
            elif l.startswith('rt '):
                st['dumprestore'] += 1
                st['state_roundtrip_identical'] += l.startswith('rt all=1')
                st['objects_lost_to_depth_limit'] += l.count('.*')
            elif l == 'sysend': st['traced_writes'] += 1
            elif l.startswith('kill ok'):
                st['kills'] += 1
                for w in ('old', 'new', 'absent'):
                    st['kill_left_' + w] += l.endswith('which=' + w)
    return st
