"""C05 - downtimes.  Generators aimed at the window boundaries, flexible triggers, chains, children, ownership."""
import random

PID = 'C05'
HEADER = ['obs nr dttrig dtrem ref ncr tm']
T0 = 2000000000
RULE = ('scripts over the real Host/Service + Downtime objects (ops of harness/ops_ckfull.cpp: crf, dt_add, dt_remove, '
        'dt_starttimer, dt_cleanup (fires only if the REAL clean-up Timer is started and due), dt_pause (authority of the Downtime object), pause, ackread) on a whole-second grid that contains every start/end/trigger+duration '
        'instant and +-1 s: families fixed-boundary, flexible-edges, chain, children-remove, failover (pause->resume of the downtime object before its expiry, then the timer pump), owned, pause, pending, random; '
        '70 % of the cases avoid the recorded findings\' signatures so they cannot mask anything else. '
        'non-trivial = at least one downtime was added and at least one trigger/removal event was observed; distinct = distinct script text')
TRUSTED = ['model: coq/Ck/CkFull.v (transcription of Downtime::Start/IsInEffect/IsTriggered/IsExpired/CanBeTriggered/TriggerDowntime/'
           'RemoveDowntime, DowntimesStartTimerHandler, the clean-up timer callback, Checkable::TriggerDowntimes/IsInDowntime/GetDowntimeDepth, '
           'Checkable::NotifyDowntime*); agreement with the code is re-established on every run by differential execution',
           'ocaml/ops_c5.ml rebuilds the per-step records (downtimes before/after, events) from script + implementation trace',
           'hook H1 (virtual clock) in lib/base/utility.cpp; the start timer and the per-downtime clean-up timer are invoked by the script, their latency is an input',
           'all 14 oracle checks (attributes/trigger time never change, no trigger outside the window, removal events, DowntimeEnd count, ownership, '
           'clean-up, trigger on result, trigger on add, DowntimeStart count, OnDowntimeTriggered events, depth, chained triggers at every level; nothing changes '
           'when the clean-up timer is not armed and due; every downtime has a clean-up timer that, when armed, is due at its expiry, and is armed whenever the '
           'Downtime object is not paused) are proved to hold on every step of every model run without the lost-start signature (C05_timer_oracle_accepts_model)',
           'the clean-up timer is observed on the REAL Timer object (m_Started, m_Next) and fired through its own OnTimerExpired signal only when started and due at the '
           'virtual time; the periodic start timer / comment-expiry timer are file-static objects in downtime.cpp / comment.cpp that the harness cannot reach (internal linkage, like the registry l_Timers in timer.cpp; hook proposal repo_patches/verif-hook-H2-timer-registry.diff): their handlers are still called directly']
ASSUMPTIONS = ['timestamps are whole seconds (exact in binary64)',
               'the clock does not run backwards and check results are not stamped in the future (0 < execution_end <= now); checked by the oracle per step',
               'downtime names are fresh (Downtime::AddDowntime refuses an existing name)',
               'operations outside C05\'s quantifier (acknowledgements, comments, suppressed-notification timer, parent results) are not in the scripts']


class G:
    def __init__(self, rnd, clean, kind=None, pending=False):
        self.r = rnd
        self.clean = clean
        self.kind = kind or rnd.choice(('host', 'svc'))
        self.t = T0
        self.lines = ['now %d' % self.t,
                      'ckf_new kind=%s max=%d vol=0 flap=0 active=0 ci=300' % (self.kind, rnd.choice((1, 2, 3)))]
        self.dts = {}          # id -> dict(fixed,start,end,dur,owned)
        self.next = 1
        self.bound = set()
        self.paused = False
        if not pending:
            self.result(0 if rnd.random() < 0.7 else rnd.choice((1, 2, 3)), guard=False)

    # -- time
    def at(self, t):
        if t < self.t:
            return
        self.t = t
        self.lines.append('now %d' % t)

    def adv(self):
        r = self.r
        fut = sorted(b for b in self.bound if b >= self.t)
        if fut and r.random() < 0.7:
            self.at(r.choice(fut[:5]))
        else:
            self.at(self.t + r.choice((0, 1, 1, 2, 5, 9, 10, 11, 30)))

    # -- ops
    def fixed_end_now(self):
        return any(d['fixed'] and d['end'] == self.t for d in self.dts.values())

    def starttimer(self):
        if self.clean and self.fixed_end_now():
            return
        self.lines.append('dt_starttimer')

    def result(self, s=None, guard=True, end=None):
        r = self.r
        if s is None:
            s = r.choice((0, 0, 1, 2, 2, 3))
        if guard and self.clean and s != 0:
            # let the start timer run first, so that no untriggered fixed downtime is caught by the result
            if self.fixed_end_now():
                return
            self.lines.append('dt_starttimer')
        l = 'crf state=%d' % s
        if end is not None:
            l += ' end=%d' % end
        self.lines.append(l)

    def add(self, fixed=None, start=None, end=None, dur=None, trig=0, parent=0, owned=0):
        r = self.r
        i = self.next
        self.next += 1
        if fixed is None:
            fixed = int(r.random() < 0.45)
        if trig and self.clean:
            fixed = 0
        if start is None:
            start = self.t + r.choice((-10, -1, 0, 0, 1, 2, 5, 10))
        if end is None:
            end = start + r.choice((0, 1, 2, 5, 10, 20))
        if dur is None:
            dur = 0 if fixed else r.choice((0, 1, 3, 5, 10, 25))
        if self.clean and fixed and end == self.t:
            end += 1
        self.dts[i] = dict(fixed=fixed, start=start, end=end, dur=dur, owned=owned, parent=parent)
        for b in (start, end, end + dur, start + dur):
            self.bound.update((b - 1, b, b + 1))
        self.lines.append('dt_add id=%d fixed=%d start=%d end=%d dur=%d trig=%d parent=%d owned=%d' % (
            i, fixed, start, end, dur, trig, parent, owned))
        return i

    def remove(self, i=None, children=None, reason=None):
        r = self.r
        if not self.dts:
            return
        if i is None:
            i = r.choice(sorted(self.dts))
        if children is None:
            children = r.randint(0, 1)
        if reason is None:
            reason = r.choice(('user', 'user', 'owner', 'expired'))
        if reason == 'user' and children:
            # Downtime::GetChildren() is a pointer-ordered std::set: which children are already gone when the
            # recursion hits an owned one (and throws) depends on addresses.  Keep that case out of the scripts
            # (the model visits children in creation order); everything else about removal is order-independent.
            desc = self.descendants(i)
            if len(desc) > 1 and any(self.dts[j]['owned'] for j in desc):
                reason = 'owner' if r.random() < 0.5 else reason
                if reason == 'user':
                    children = 0
        self.lines.append('dt_remove id=%d children=%d reason=%s' % (i, children, reason))

    def descendants(self, i):
        out, todo = [], [i]
        while todo:
            p = todo.pop()
            for j, d in self.dts.items():
                if d.get('parent') == p and j not in out:
                    out.append(j)
                    todo.append(j)
        return out

    def cleanup(self, i=None):
        if not self.dts:
            return
        if i is None:
            i = self.r.choice(sorted(self.dts))
        self.lines.append('dt_cleanup id=%d' % i)

    def depth(self):
        self.lines.append('ackread')

    def dt_pause(self, i=None, p=None):
        """authority of the Downtime object itself (HA failover p=1 / failback p=0)"""
        if not self.dts:
            return
        if i is None:
            i = self.r.choice(sorted(self.dts))
        if p is None:
            p = self.r.randint(0, 1)
        self.lines.append('dt_pause id=%d p=%d' % (i, p))

    def pause(self, p=None):
        if p is None:
            p = self.r.randint(0, 1)
        self.lines.append('pause p=%d' % p)

    def case(self, fam):
        return {'lines': self.lines, 'tags': {'family': fam, 'clean': int(self.clean)}}


def around(rnd, g, instants, action):
    """visit each instant-1, instant, instant+1 (those still in the future) and act there"""
    for b in sorted(set(instants)):
        for d in (-1, 0, 1):
            if b + d >= g.t:
                g.at(b + d)
                action()


def fam_fixed(rnd, clean):
    g = G(rnd, clean)
    lead = rnd.choice((0, 1, 5, -3))
    S = g.t + lead + (1 if clean and lead <= 0 and rnd.random() < 0.5 else 0)
    E = S + rnd.choice((1, 2, 5, 10))
    i = g.add(fixed=1, start=S, end=E, dur=0, owned=int(rnd.random() < 0.2))
    def act():
        k = rnd.random()
        if k < 0.5: g.starttimer()
        g.depth()
        if k > 0.6: g.cleanup(i)
        if k > 0.9: g.result()
    around(rnd, g, (S, E), act)
    if rnd.random() < 0.5:
        g.remove(i, reason=rnd.choice(('user', 'owner')))
    g.cleanup(i)
    g.depth()
    return g.case('fixed-boundary')


def fam_flex(rnd, clean):
    g = G(rnd, clean)
    S = g.t + rnd.choice((0, 1, 3, -2))
    E = S + rnd.choice((0, 1, 4, 10))
    dur = rnd.choice((0, 1, 3, 7))
    i = g.add(fixed=0, start=S, end=E, dur=dur)
    hit = rnd.choice((S - 1, S, S + 1, E - 1, E, E + 1))
    trig = [None]
    def act():
        if g.t == hit or rnd.random() < 0.25:
            past = rnd.random() < 0.2
            g.result(rnd.choice((1, 2, 3)) if g.t == hit else None, end=(g.t - rnd.choice((1, 2, 5)) if past else None))
            if trig[0] is None and S <= g.t <= E:
                trig[0] = g.t
                for b in (g.t + dur,):
                    g.bound.update((b - 1, b, b + 1))
        g.depth()
        if rnd.random() < 0.3: g.cleanup(i)
    around(rnd, g, (S, E), act)
    if trig[0] is not None:
        around(rnd, g, (trig[0] + dur,), lambda: (g.depth(), g.cleanup(i) if rnd.random() < 0.5 else None))
    if rnd.random() < 0.4:
        g.remove(i)
    g.at(g.t + 30)
    g.cleanup(i)
    g.depth()
    return g.case('flexible-edges')


def fam_chain(rnd, clean):
    g = G(rnd, clean)
    pf = int(rnd.random() < 0.5)
    S = g.t + rnd.choice((0, 1, 2))
    E = S + rnd.choice((2, 5, 10))
    p = g.add(fixed=pf, start=S, end=E, dur=0 if pf else 5)
    kids = []
    for _ in range(rnd.randint(1, 3)):
        cs = S + rnd.choice((-1, 0, 1, 3))
        ce = cs + rnd.choice((0, 1, 3, 10))
        par = rnd.choice([p] + kids) if rnd.random() < 0.6 else p
        kids.append(g.add(fixed=None if not clean else 0, start=cs, end=ce, trig=par, parent=rnd.choice((0, 0, p))))
    if rnd.random() < 0.2 and kids:
        g.remove(rnd.choice(kids), children=0, reason='user')
    def act():
        k = rnd.random()
        if k < 0.5: g.starttimer()
        elif k < 0.8: g.result()
        g.depth()
    around(rnd, g, (S, E), act)
    g.remove(p, children=rnd.randint(0, 1), reason=rnd.choice(('user', 'owner')))
    g.at(g.t + 40)
    for i in [p] + kids:
        g.cleanup(i)
    return g.case('chain')


def fam_children(rnd, clean):
    g = G(rnd, clean)
    S = g.t + rnd.choice((-2, 0, 1))
    E = S + rnd.choice((3, 6))
    p = g.add(fixed=int(rnd.random() < 0.6), start=S, end=E, owned=int(rnd.random() < 0.25))
    kids = []
    for _ in range(rnd.randint(1, 3)):
        par = rnd.choice([p] + kids)
        kids.append(g.add(start=S + rnd.choice((0, 1)), end=E + rnd.choice((0, 2)), parent=par,
                          owned=int(rnd.random() < 0.25)))
    for _ in range(rnd.randint(0, 4)):
        g.adv()
        k = rnd.random()
        if k < 0.4: g.starttimer()
        elif k < 0.7: g.result()
        else: g.depth()
    g.remove(rnd.choice([p, p] + kids), children=rnd.choice((0, 1, 1)), reason=rnd.choice(('user', 'user', 'owner', 'expired')))
    g.depth()
    g.remove(p, children=1, reason='owner')
    return g.case('children-remove')


def fam_pending(rnd, clean):
    g = G(rnd, False, pending=True)
    S = g.t + rnd.choice((-1, 0, 1))
    g.add(fixed=0, start=S, end=S + rnd.choice((0, 5)), dur=rnd.choice((0, 5)))
    g.depth()
    g.adv()
    g.result(rnd.choice((0, 2)))
    g.depth()
    return g.case('pending')


def fam_failover(rnd, clean):
    """pause -> resume of the Downtime object before / around its expiry, then the timer pump after expiry"""
    g = G(rnd, clean)
    fixed = int(rnd.random() < 0.5)
    S = g.t + rnd.choice((-2, 0, 1))
    E = S + rnd.choice((3, 6, 10))
    dur = 0 if fixed else rnd.choice((2, 5))
    i = g.add(fixed=fixed, start=S, end=E, dur=dur)
    exp = E
    steps = ['pause', 'resume', 'trigger', 'pump', 'pause', 'resume', 'adv', 'adv']
    rnd.shuffle(steps)
    for k in steps[:rnd.randint(3, 8)]:
        if k == 'pause': g.dt_pause(i, 1)
        elif k == 'resume': g.dt_pause(i, 0)
        elif k == 'trigger':
            if fixed: g.starttimer()
            else:
                g.result(rnd.choice((1, 2, 3)))
                if S <= g.t <= E and exp == E: exp = g.t + dur
                for b in (exp - 1, exp, exp + 1): g.bound.add(b)
        elif k == 'pump': g.cleanup(i)
        else: g.adv()
    if rnd.random() < 0.8:
        g.dt_pause(i, 0)
    around(rnd, g, (exp,), lambda: (g.cleanup(i), g.depth()))
    g.at(g.t + 20)
    g.cleanup(i)
    g.depth()
    return g.case('failover')


def fam_random(rnd, clean, n):
    g = G(rnd, clean)
    ops = ['adv'] * 6 + ['result'] * 4 + ['add'] * 3 + ['remove'] + ['starttimer'] * 3 + ['cleanup'] * 3 + ['depth'] * 2 + ['pause'] + ['dt_pause'] * 2
    for _ in range(n):
        k = rnd.choice(ops)
        if k == 'adv': g.adv()
        elif k == 'result': g.result(end=(g.t - rnd.choice((1, 3)) if rnd.random() < 0.1 else None))
        elif k == 'add':
            trig = rnd.choice(sorted(g.dts)) if g.dts and rnd.random() < 0.3 else 0
            parent = rnd.choice(sorted(g.dts)) if g.dts and rnd.random() < 0.2 else 0
            g.add(trig=trig, parent=parent, owned=int(rnd.random() < 0.15))
        elif k == 'remove': g.remove()
        elif k == 'starttimer': g.starttimer()
        elif k == 'cleanup': g.cleanup()
        elif k == 'depth': g.depth()
        elif k == 'pause': g.pause()
        elif k == 'dt_pause': g.dt_pause()
    return g.case('random')


def generate(seed, tier):
    rnd = random.Random(seed)
    n = {'quick': 400, 'thorough': 6000, 'search': 1500}.get(tier, 400)
    cases = []
    for i in range(n):
        clean = rnd.random() < 0.7
        cases.append(fam_fixed(rnd, clean))
        cases.append(fam_flex(rnd, clean))
        cases.append(fam_chain(rnd, clean))
        cases.append(fam_children(rnd, clean))
        cases.append(fam_failover(rnd, clean))
        cases.append(fam_random(rnd, clean, rnd.randint(8, 40)))
        cases.append(fam_random(rnd, clean, rnd.randint(8, 40)))
        if i % 8 == 0:
            cases.append(fam_pending(rnd, clean))
    return cases


def nontrivial(case, impl_lines):
    return any(l.startswith('dt_add') for l in case['lines']) and any((' dttrig=' in l or ' dtrem=' in l) for l in impl_lines)


def classify(case, detail, impl_lines):
    if 'crash' in detail or 'missing-observation' in detail:
        return 'crash'
    for key in ('lost-start',):
        if 'finding=' + key + ' ' in detail:
            return key
    for part in detail.split():
        if part.startswith('check='):
            return 'downtime-' + part.split(':', 1)[1]
    return 'downtime'


def keep_line(l):
    return l.startswith('ckf_new')


def extra_stats(cases, impl):
    st = {'triggered_events': 0, 'downtime_start_requests': 0, 'downtime_end_requests': 0, 'removed_events': 0,
          'refused_owned_removals': 0, 'depth_reads': 0, 'depth_nonzero': 0, 'clean_cases': 0,
          'ops_at_window_boundary': 0}
    for c in cases:
        st['clean_cases'] += c.get('tags', {}).get('clean', 0)
        bounds = set()
        t = None
        for l in c['lines']:
            p = l.split()
            if p[0] == 'now':
                t = int(p[1])
            elif p[0] == 'dt_add':
                kv = dict(x.split('=') for x in p[1:])
                bounds.update((int(kv['start']), int(kv['end'])))
            elif t in bounds:
                st['ops_at_window_boundary'] += 1
        for l in impl.get(c['id'], []):
            toks = l.split()
            st['triggered_events'] += sum(1 for x in toks if x.startswith('dttrig='))
            st['downtime_start_requests'] += toks.count('nr=1')
            st['downtime_end_requests'] += toks.count('nr=2')
            st['removed_events'] += sum(1 for x in toks if x.startswith('dtrem='))
            st['refused_owned_removals'] += toks.count('ref=4')
            if toks and toks[0] == 'ackread':
                st['depth_reads'] += 1
                if 'depth=0' not in toks:
                    st['depth_nonzero'] += 1
    return st
