"""Generic check runner: verdict logic of DESIGN.md section 1.5."""
import os, sys, json, time, hashlib, shutil, tempfile, collections
from . import core

TRUSTED_COMMON = [
    'Coq 8.16.1 kernel (coqc; coqchk in the thorough tier); vm_compute where a theorem says so; no native_compute',
    'no Axiom/Parameter/Admitted in the development (scanned on every run); axioms reported by Print Assumptions are listed under "axioms"',
    'extraction: ExtrOcamlBasic only (bool, option, list, prod, unit, sumbool -> OCaml), no Extract Constant; Z/N/positive/nat stay inductives',
    'hand-written glue: ocaml/driver.ml (script parsing, int<->Z, printing), harness/*.cpp (op handlers), vlib/*.py (generators, differ, shrinker)',
    'correspondence is established on the generated population only (statistics below), not for all inputs',
    'modelled, not verified: C++ compiler and language semantics, Boost, libc, OpenSSL, threads/OS scheduler',
]



def _xlate(pid):
    """functions of this property that tools/facts_fn.py translated from /repo on this run (and the ones that fell back)"""
    try:
        rep = json.load(open(os.path.join(core.B, 'xlate_report.json')))
    except (OSError, ValueError):
        return None
    return [{k: f.get(k) for k in ('name', 'func', 'file', 'line', 'recognised', 'reason', 'tie', 'theorems', 'skipped', 'notes')}
            for f in rep.get('functions', []) if pid in f.get('props', [])]

def case_hash(c):
    return hashlib.sha1('\n'.join(c['lines']).encode()).hexdigest()


def run_check(mod, tier, seed, replay=None):
    pid = mod.PID
    t_start = time.time()
    log = []
    try:
        binfo = core.build_all(log)
    except core.HarnessError as e:
        print('HARNESS: cannot decide %s: %s' % (pid, e))
        return 2
    ps = core.proof_status(pid)
    forb = core.forbidden_scan()
    proofs_ok = ps['ok'] and not forb
    if tier == 'thorough' and ps['ok']:
        ck = core.coqchk(pid)
        ps['coqchk'] = ck
        ps['checker_cmd'] = ps.get('checker_cmd', '') + ' && ' + ck['cmd']
        if not ck['ok']:
            proofs_ok = False
            ps['failed_theorem'] = 'coqchk rejected Properties_%s' % pid
    if not binfo.get('vmodel_ok'):
        proofs_ok = False
    header = list(getattr(mod, 'HEADER', []))
    wd = tempfile.mkdtemp(prefix='vchk_%s_' % pid, dir=core.B)
    try:
        return _run(mod, tier, seed, replay, pid, t_start, binfo, ps, forb, proofs_ok, header, wd)
    finally:
        shutil.rmtree(wd, ignore_errors=True)


def _impl_fails(mod, header, wd, known_keys):
    """closure used by the shrinker: does this case still produce an oracle hit (of the same class)?"""
    ctr = [0]

    def fails(case, want_key):
        ctr[0] += 1
        sub = '%s/shr%d' % (wd, ctr[0])
        impl = core.run_impl_only(header, [case], sub, envx=getattr(mod, 'ENV', None))
        orc = core.run_oracle(mod.PID, header, [case], impl, sub)
        shutil.rmtree(sub, ignore_errors=True)
        d = orc.get(case['id'])
        if d is None:
            return False
        return mod.classify(case, d, impl.get(case['id'], [])) == want_key
    return fails


def _run(mod, tier, seed, replay, pid, t_start, binfo, ps, forb, proofs_ok, header, wd):
    known = [k for k in core.load_known() if k['property'] == pid and k.get('status') == 'known']
    known_keys = {k['key'] for k in known}
    if replay:
        rp = json.load(open(replay))
        cases = [rp['case']] if 'case' in rp else []
    else:
        cases = list(mod.generate(seed, tier))
    for i, c in enumerate(cases):
        c.setdefault('id', i + 1)
    stats = collections.Counter()
    impl, model, orc = {}, {}, {}
    mismatches = []
    if binfo.get('vmodel_ok') and cases:
        impl, model = core.run_both(header, cases, wd + '/main', envx=getattr(mod, 'ENV', None),
                                    timeout=getattr(mod, 'TIMEOUT', 900))
        canon = getattr(mod, 'canon', lambda ls: ls)
        for c in cases:
            if canon(impl.get(c['id'], ['MISSING'])) != canon(model.get(c['id'], ['MISSING'])):
                mismatches.append(c)
        orc = core.run_oracle(pid, header, cases, impl, wd + '/orc')
    hits = [(c, orc[c['id']]) for c in cases if orc.get(c['id'])]
    # classify
    known_hit = collections.OrderedDict()
    unknown = []
    for c, d in hits:
        key = mod.classify(c, d, impl.get(c['id'], []))
        if key in known_keys:
            known_hit.setdefault(key, []).append((c, d))
        else:
            unknown.append((c, d, key))
    # a mismatch that is explained by a known finding (the model follows the code, so normally there is none)
    corr_ok = not mismatches
    violations = 0
    rc = 0
    out_lines = []
    fails = _impl_fails(mod, header, wd, known_keys)
    replays = []
    if unknown:
        # shrink and report the first unknown hit of each class
        seen = set()
        for c, d, key in unknown:
            if key in seen:
                continue
            seen.add(key)
            if len(seen) > 3:
                break
            small = core.shrink(c, lambda cc: fails(cc, key), keep=getattr(mod, 'keep_line', lambda l: False))
            sub = wd + '/final'
            im = core.run_impl_only(header, [small], sub, envx=getattr(mod, 'ENV', None))
            oc = core.run_oracle(pid, header, [small], im, sub)
            mo = core.run_model_shard((header, [small], sub, 0, 300)) if binfo.get('vmodel_ok') else {}
            p = core.write_replay(pid, 'violation_%s' % (key or 'unclassified'), {
                'property': pid, 'kind': 'failing-input', 'class': key, 'oracle_detail': oc.get(small['id'], d),
                'case': small, 'header': header,
                'implementation_trace': im.get(small['id']), 'model_trace': mo.get(small['id']),
                'replay_cmd': './check %s --replay <this file>' % pid})
            replays.append(p)
            print('VIOLATION property=%s replay=%s' % (pid, p), flush=True)
            violations += 1
        rc = 1
    elif not proofs_ok or not corr_ok:
        # extended search for a failing input: thorough population, implementation + oracle only
        found = None
        if core.os.path.exists(core.VMODEL) and not replay:
            deadline = time.time() + float(os.environ.get('VERIF_SEARCH_S', '120'))
            for extra in range(1, 6):
                if time.time() > deadline:
                    break
                ecases = list(mod.generate(seed + 1000 * extra, 'search'))
                for i, c in enumerate(ecases):
                    c['id'] = i + 1
                eimpl = core.run_impl_only(header, ecases, wd + '/ext%d' % extra, envx=getattr(mod, 'ENV', None))
                eorc = core.run_oracle(pid, header, ecases, eimpl, wd + '/exto%d' % extra)
                for c in ecases:
                    d = eorc.get(c['id'])
                    if d:
                        key = mod.classify(c, d, eimpl.get(c['id'], []))
                        if key not in known_keys:
                            found = (c, d, key)
                            break
                if found:
                    break
        if found:
            c, d, key = found
            small = core.shrink(c, lambda cc: fails(cc, key), keep=getattr(mod, 'keep_line', lambda l: False))
            im = core.run_impl_only(header, [small], wd + '/final', envx=getattr(mod, 'ENV', None))
            p = core.write_replay(pid, 'violation_%s' % (key or 'unclassified'), {
                'property': pid, 'kind': 'failing-input', 'class': key, 'oracle_detail': d, 'case': small,
                'header': header, 'implementation_trace': im.get(small['id']),
                'replay_cmd': './check %s --replay <this file>' % pid})
            print('VIOLATION property=%s replay=%s' % (pid, p), flush=True)
        else:
            what = {}
            if not proofs_ok:
                what['proof'] = {'failed_theorem': ps.get('failed_theorem'), 'failed_at': ps.get('failed_at'),
                                 'bad_axioms': ps.get('bad_axioms'), 'forbidden': forb[:5], 'log': ps.get('log', '')[-1500:],
                                 'vmodel_ok': binfo.get('vmodel_ok'), 'vmodel_log': binfo.get('vmodel_log', '')[-800:]}
            if mismatches:
                c = mismatches[0]
                il, ml = impl.get(c['id'], []), model.get(c['id'], [])
                k = 0
                while k < min(len(il), len(ml)) and il[k] == ml[k]:
                    k += 1
                what['correspondence'] = {'mismatching_cases': len(mismatches), 'first_case': c,
                                          'first_diverging_observation': {'index': k, 'implementation': il[k:k + 1], 'model': ml[k:k + 1]},
                                          'implementation_trace': il, 'model_trace': ml}
            p = core.write_replay(pid, 'unproved', {
                'property': pid, 'kind': 'no-failing-input-found',
                'no_longer_checks': ('theorem %s in %s' % (ps.get('failed_theorem'), ps.get('file')) if not proofs_ok else
                                     'correspondence vdrive/vmodel (%s)' % getattr(mod, 'CORR_NAME', pid)),
                'details': what, 'header': header})
            print('VIOLATION property=%s replay=%s no-failing-input-found' % (pid, p), flush=True)
        violations += 1
        rc = 1
    for key, lst in known_hit.items():
        kf = [k for k in known if k['key'] == key][0]
        out_lines.append('KNOWN-FINDING: property=%s %s: %s (reproduced on %d generated cases)' % (pid, key, kf['text'], len(lst)))

    # ---------------- evidence
    nontriv = set()
    for c in cases:
        if mod.nontrivial(c, impl.get(c['id'], [])):
            nontriv.add(case_hash(c))
    steps = sum(len(impl.get(c['id'], [])) for c in cases)
    samples = []
    for c in (cases[:1] + cases[len(cases) // 2:len(cases) // 2 + 1] + cases[-1:]):
        samples.append({'script': c['lines'][:40], 'implementation_trace': impl.get(c['id'], [])[:40], 'tags': c.get('tags')})
    dist = collections.Counter()
    for c in cases:
        for l in c['lines']:
            dist[l.split()[0]] += 1
    fam = collections.Counter(c.get('tags', {}).get('family', '?') for c in cases)
    ev = {
        'property_id': pid, 'tier': tier if tier in ('quick', 'thorough') else 'quick', 'seed': seed, 'level': 'proof',
        'coverage': {
            'obligations': max(1, len(ps['theorems'])),
            'discharged': len(ps['theorems']) if ps['ok'] and not forb else 0,
            'checker_cmd': ps.get('checker_cmd', 'coqc'),
            'trusted_base': TRUSTED_COMMON + list(getattr(mod, 'TRUSTED', [])),
            'theorems': ps['theorems'],
            'axioms': ps.get('axioms', []),
            'coqchk': ps.get('coqchk'),
            'evaluations': len(cases),
            'distinct_nontrivial': len(nontriv),
            'rule': mod.RULE,
            'samples': samples,
            'traces_validated_against_impl': len(cases) - len(mismatches),
            'correspondence': {'cases': len(cases), 'observation_lines': steps, 'mismatches': len(mismatches),
                               'op_distribution': dict(dist), 'families': dict(fam)},
            'oracle': {'hits': len(hits), 'known_findings_reproduced': {k: len(v) for k, v in known_hit.items()},
                       'unknown_hits': len(unknown)},
            'extra': mod.extra_stats(cases, impl) if hasattr(mod, 'extra_stats') else {},
            'build': {k: v for k, v in binfo.items() if k.endswith('_s') or k.endswith('_ok')},
            'srcfacts': binfo.get('srcfacts_log', '')[-1500:],
            'translated_functions': _xlate(pid),
        },
        'assumptions': list(getattr(mod, 'ASSUMPTIONS', [])),
        'wall_s': round(time.time() - t_start, 1),
        'violations': violations,
    }
    core.write_evidence(pid, ev)
    for l in out_lines:
        print(l)
    print('%s: tier=%s seed=%d cases=%d mismatches=%d oracle_hits=%d (known %d) proofs_ok=%s theorems=%d wall=%.0fs -> exit %d' % (
        pid, tier, seed, len(cases), len(mismatches), len(hits), sum(len(v) for v in known_hit.values()), proofs_ok,
        len(ps['theorems']), time.time() - t_start, rc))
    if not proofs_ok:
        print('  proof status: ' + json.dumps({k: ps.get(k) for k in ('failed_theorem', 'failed_at', 'bad_axioms')}) + (' forbidden: %s' % forb[:3] if forb else ''))
    return rc
