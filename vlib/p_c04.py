"""C04 - scheduler.  Two families of cases:
 * unc: Checkable::UpdateNextCheck under the virtual clock, diffed line by line against the extracted
   rational model (sch_next_units) - the tie for C04_next_check;
 * run: the real CheckerComponent + thread pool in real time under a seeded storm (one script line per
   case: the storm is derived from the seed inside the harness, so seed + line = replay).  The model
   does not predict the interleaving; the extracted oracle validates the recorded trace
   (canon() therefore compares only the deterministic 'unc' lines).
"""
import os, random

PID = 'C04'
# the extended search of the generic runner (after a broken proof/correspondence without an oracle hit) is capped for C04: the
# quick tier stays below two minutes also when something broke (was 220 s); one round of the 'search' population takes 10-15 s
os.environ.setdefault('VERIF_SEARCH_S', '40')
HEADER = []
T0 = 2000000000
TIMEOUT = 3000   # real-thread cases queue for one of <par> machine-wide slots
RULE = ('tl: quiet timelines, 1-3 hosts that only run when forced or explicitly enabled, synchronous or asynchronous native check '
        'command that runs exactly until the script opens its gate; steps force / enable / disable / close / open period / pause / '
        'resume / reschedule / hold / release applied to the real objects while the real scheduler and pool run; after every step the '
        'harness waits for a stable state (read from idle/pending/m_PendingChecks/force_next_check) and prints executions started/'
        'finished, clears of force_next_check, the flag and the set of every checkable; the extracted step function decides the '
        'expected lines (14 templates: second request during a forced check, the same for an asynchronous command, check slower '
        'than its interval, resume while pending, one slot, ... + random ones under two rules that keep the outcome independent of '
        'timing); run: 0/30/60 % of the checkables have an ASYNCHRONOUS command (result delivered by another thread like '
        'PluginCheckTask, slot counted like PluginCheckTask), up to a quarter of the slots run longer than their interval or until '
        'a timeout of three intervals; exec: the REAL Checkable::ExecuteCheck under the virtual clock with a command that keeps its result: control, stored result '
        'stamped in the future, passive result racing the start, stale results, passive in flight, command_endpoint (connected / '
        'not connected) + random mixes; after ANY result processing the next ExecuteCheck must start the command, before it must not; '
        'run-quiet: max=1, slot holder paused/deleted mid-check, silence '
        'afterwards (lost wake-up); run: 10 % of the checkables deliver every 3rd result stamped older than the stored one; pcr: the REAL Checkable::ProcessCheckResult (local, origin null) under the virtual clock from the never-checked state: all result '
        'histories of length <= 3 over {OK,WARNING,CRITICAL} x {host,service} x max_check_attempts {1,2,3} (covers every pre state type x '
        'has-result x OK/non-OK x max 1/>1 combination) + random longer ones incl. passive results; next_check diffed against the '
        'model with the interval of the POST-state; unc: random (now, check_interval, retry_interval in quarter seconds incl. the interval<=1 boundary, soft/hard, with/without '
        'result, offset < 2^31); run: n in 5..300 checkables (hosts and services), max_concurrent_checks in {1,2,8,64}, intervals '
        '50-400 ms, fast/slow/throwing/state-flipping commands, storms of pause/resume(+quick flip)/reschedule/force/enable/disable/'
        'period/create/delete at 100-400 ops/s, a third of the checkables calm (only reschedule/force) so that liveness windows span '
        'the run. non-trivial = run case with >= 50 check executions and >= 100 snapshots, a complete timeline, or a deterministic case; distinct = script text')
TRUSTED = ['model: coq/Sched/SchModel.v (critical sections of CheckThreadProc, ExecuteCheckHelper, ObjectHandler, NextCheckChangedHandler, '
           'ExecuteCheck single-flight guard with synchronous / asynchronous / remote commands, pending-check counter), coq/Sched/SchNext.v (UpdateNextCheck over Q)',
           'real-thread runs SAMPLE interleavings; the theorems cover all interleavings of the model at lock granularity, the tie shows '
           'that every sampled execution satisfies what the theorems establish (trace validation, no step-by-step replay: no hook H3 needed)',
           'harness reads CheckerComponent::m_IdleCheckables/m_PendingCheckables under m_Mutex (-fno-access-control) and records check '
           'command start/end, ExecuteCheck entries (OnLastCheckStartedChanged), clears of force_next_check (OnForceNextCheckChanged), '
           'next_check updates (OnNextCheckChanged) with clock brackets taken on the same thread; the order of the records is the order in which one mutex was taken',
           'asynchronous commands are a native stand-in for PluginCheckTask (count the slot, return, deliver the result from another thread); real plugin processes are not spawned',
           'timelines: the canonical schedule that drives the extracted step function between two script steps and the stability test are hand-written OCaml / C++',
           'timing checks (N/W/F/Q records) are evaluated by hand-written OCaml glue in ocaml/ops_sch.ml, not by extracted code',
           'source facts coq/Facts/Facts_c04.v (site of SetForceNextCheck(false), sites of m_CheckRunning = false in ExecuteCheck) are recognised by regular expressions in tools/facts_c04.py',
           'hook H1 (virtual clock) for the unc/pcr/exec families only']
ASSUMPTIONS = ['binary64 rounding of fmod/division in UpdateNextCheck is outside the model: the Q result is strict, a one-ulp tie adj = interval is not excluded',
               'passive check results arriving while an active check runs clear m_CheckRunning (checkable-check.cpp:105); outside the quantifier, not generated in the real-thread runs',
               'a force request that arrives while an asynchronous check of the same checkable is in flight is consumed by a dispatch that returns at the m_CheckRunning guard: no further execution (the exception stated in C04_forced); the oracle accepts exactly that: an ExecuteCheck entered after the request began that returned at the guard while an execution was in flight',
               'liveness is proved as enabledness only (C04_progress_partial); at run time only its timed reading is a violation: the SAME head of the next-check index stays due with a free slot for > 2 s + 10 x max observed oversleep (decided from snapshots taken under m_Mutex); waiting for a slot, for earlier-due checkables, for a pool thread or for the CPU is never flagged; gaps between starts (W records) are statistics only',
               'a forced request is flagged if its clear of force_next_check is not followed by an ExecuteCheck entry of the checkable (order of records; NOT evaluated for checkables deleted during the run: the entry is observed through OnLastCheckStartedChanged, which the generated Notify suppresses for inactive objects), or if it was never served although snapshots show the checkable in idle behind a head whose key is beyond anything its own key can be (request + Imax + dmax + 0.1 s + 10 x oversleep); at most <par> real-thread cases run at a time machine-wide (flock slots in /var/tmp/verif_c04_slots)',
               'timelines: a state counts as stable when the condition holds unchanged for 150 ms (longer when the harness observes stalls); a scheduler thread preempted for longer than that inside the two statements between the insertion into pending and the clear of force_next_check would be misread',
               'all checkables are in the local zone (same_zone = true) in the real-thread runs; command_endpoint is exercised by direct ExecuteCheck calls only']


def unc_case(rnd, k):
    lines = []
    for _ in range(k):
        pick = lambda: rnd.choice((1, 2, 3, 4, 5, 6, 8, 12, 20, 40, 120, 240, 1200, rnd.randint(1, 2400)))
        off = rnd.choice((0, 1, rnd.randint(0, 1000), rnd.randint(0, 2 ** 31 - 1)))
        lines.append('sch_unc now=%d ci4=%d ri4=%d soft=%d hascr=%d off=%d' % (
            T0 + rnd.randint(0, 10 ** 6), pick(), pick(), rnd.randint(0, 1), rnd.randint(0, 1), off))
    return {'lines': lines, 'tags': {'family': 'unc'}}


def pcr_case(kind, mx, ci4, ri4, off, hist, t0, fam='pcr'):
    """real ProcessCheckResult from the never-checked state: hist = [(state, active)]"""
    lines = ['sch_cnew now=%d kind=%s max=%d ci4=%d ri4=%d off=%d' % (t0, kind, mx, ci4, ri4, off)]
    t = t0
    for (st, act) in hist:
        t += 7
        lines.append('sch_cr now=%d state=%d active=%d' % (t, st, act))
    return {'lines': lines, 'tags': {'family': fam}}


def pcr_cases(rnd, nrand):
    import itertools
    cases = []
    # every (pre state type x has-result x OK/non-OK x max 1/>1) combination, from the never-checked state:
    # all histories of length <= 3 over {OK, WARNING, CRITICAL}, hosts and services, max in {1, 2, 3}
    for kind in ('host', 'svc'):
        for mx in (1, 2, 3):
            for L in (1, 2, 3):
                for h in itertools.product((0, 1, 2), repeat=L):
                    ci4, ri4 = rnd.choice(((20, 8), (40, 5), (8, 20), (6, 6), (4, 2), (240, 40)))
                    cases.append(pcr_case(kind, mx, ci4, ri4, rnd.randint(0, 2 ** 31 - 1), [(s, 1) for s in h],
                                          T0 + rnd.randint(0, 10 ** 6), 'pcr-exhaustive'))
    for _ in range(nrand):
        hist = [(rnd.choice((0, 0, 1, 2, 2, 3)), 0 if rnd.random() < 0.15 else 1) for _ in range(rnd.randint(1, 12))]
        cases.append(pcr_case(rnd.choice(('host', 'svc')), rnd.choice((1, 2, 3, 5)), rnd.choice((5, 8, 20, 40, 240, rnd.randint(1, 400))),
                              rnd.choice((1, 4, 5, 8, 20, rnd.randint(1, 400))), rnd.randint(0, 2 ** 31 - 1), hist,
                              T0 + rnd.randint(0, 10 ** 6), 'pcr-random'))
    return cases


def exec_cases(rnd, nrand):
    """the REAL Checkable::ExecuteCheck under the virtual clock with a command that keeps its result (like a plugin):
    results that are rejected as older than the stored one (future-stamped stored result; passive result racing the
    start of the check), then the next ExecuteCheck must really execute"""
    cases = []
    def mk(kind, mx, ops, fam):
        t = T0 + rnd.randint(0, 10 ** 6)
        lines = ['sch_cnew now=%d kind=%s max=%d ci4=%d ri4=%d off=%d' % (t, kind, mx, rnd.choice((8, 20, 40)), rnd.choice((2, 4, 8)), rnd.randint(0, 2 ** 31 - 1))]
        for op in ops:
            t += rnd.choice((2, 3, 7))
            k = op[0]
            if k == 'exec': lines.append('sch_exec now=%d' % t)
            elif k == 'race': lines.append('sch_exec now=%d race=%d' % (t, op[1])); t += 1
            elif k == 'fin': lines.append('sch_finish now=%d state=%d' % (t, op[1]))
            elif k == 'passive': lines.append('sch_cr now=%d state=%d active=0' % (t, op[1]))
            elif k == 'future': lines.append('sch_cr now=%d state=%d active=0 start=%d' % (t, op[1], t + op[2])); t += op[2]
            elif k == 'stale': lines.append('sch_cr now=%d state=%d active=%d start=%d' % (t, op[1], op[2], t - 1000))
        return {'lines': lines, 'tags': {'family': fam}}
    for kind in ('host', 'svc'):
        for mx in (1, 3):
            for st in (0, 2):
                cases.append(mk(kind, mx, [('exec',), ('fin', st), ('exec',), ('exec',), ('fin', 0), ('exec',), ('fin', st)], 'exec-control'))
                cases.append(mk(kind, mx, [('exec',), ('future', st, 5), ('fin', 0), ('exec',), ('fin', st), ('exec',), ('fin', 0)], 'exec-skewed-clock'))
                cases.append(mk(kind, mx, [('race', st), ('fin', 0), ('exec',), ('fin', st), ('exec',), ('fin', 0)], 'exec-passive-racing-start'))
                cases.append(mk(kind, mx, [('exec',), ('fin', 0), ('exec',), ('stale', st, 1), ('exec',), ('fin', 0), ('exec',)], 'exec-stale-result'))
                cases.append(mk(kind, mx, [('exec',), ('passive', st), ('fin', 0), ('exec',), ('fin', 0)], 'exec-passive-in-flight'))
    # command_endpoint branch of ExecuteCheck (endpoint connected / not connected): the flag is released on return, every
    # ExecuteCheck gets through to the remote branch, also back to back and with passive results in between
    for kind in ('host', 'svc'):
        for conn in (0, 1):
            for mx in (1, 3):
                ops = [('exec',), ('exec',), ('passive', rnd.choice((0, 2))), ('exec',), ('fin', 0), ('exec',)]
                c = mk(kind, mx, ops, 'exec-remote')
                c['lines'][0] += ' remote=1 conn=%d' % conn
                cases.append(c)
    for _ in range(nrand):
        ops = []
        for _ in range(rnd.randint(3, 14)):
            r = rnd.random()
            if r < 0.35: ops.append(('exec',))
            elif r < 0.45: ops.append(('race', rnd.choice((0, 2))))
            elif r < 0.75: ops.append(('fin', rnd.choice((0, 0, 1, 2, 3))))
            elif r < 0.83: ops.append(('passive', rnd.choice((0, 2))))
            elif r < 0.92: ops.append(('future', rnd.choice((0, 2)), rnd.choice((1, 5, 30))))
            else: ops.append(('stale', rnd.choice((0, 2)), rnd.randint(0, 1)))
        cases.append(mk(rnd.choice(('host', 'svc')), rnd.choice((1, 2, 3)), ops, 'exec-random'))
    return cases


TL_TEMPLATES = [
    # (kinds, gates, max, steps)   steps: (op, c)
    ('s', 'c', 2, [('force', 0), ('release', 0)]),                                           # one forced check of a disabled checkable
    ('s', 'c', 2, [('force', 0), ('force', 0), ('release', 0)]),                             # second request while the forced check runs: 2 executions
    ('s', 'c', 2, [('close', 0), ('force', 0), ('force', 0), ('release', 0)]),               # the same outside the check period
    ('a', 'c', 2, [('force', 0), ('force', 0), ('release', 0)]),                             # asynchronous: the second request finds the check in flight (the exception)
    ('a', 'c', 2, [('enable', 0), ('disable', 0), ('release', 0)]),                          # asynchronous check slower than its interval: still one execution
    ('a', 'c', 4, [('enable', 0), ('force', 0), ('resched', 0), ('disable', 0), ('release', 0), ('force', 0)]),
    ('s', 'c', 2, [('force', 0), ('pause', 0), ('resume', 0), ('force', 0), ('release', 0)]),  # resume while pending, forced duplicate dispatch hits the guard
    ('s', 'c', 2, [('force', 0), ('force', 0), ('pause', 0), ('release', 0), ('resume', 0)]),  # request survives pause/resume
    ('s', 'o', 2, [('pause', 0), ('force', 0), ('resume', 0)]),                              # forced while paused, served on resume
    ('ss', 'cc', 1, [('force', 0), ('force', 1), ('release', 0), ('release', 1)]),           # one slot: the second forced check starts when the slot is free
    ('as', 'cc', 1, [('force', 0), ('force', 1), ('force', 1), ('release', 0), ('release', 1)]),
    ('sa', 'co', 2, [('enable', 0), ('force', 1), ('close', 0), ('force', 0), ('release', 0)]),
    ('s', 'c', 2, [('enable', 0), ('close', 0), ('force', 0), ('open', 0), ('disable', 0), ('release', 0)]),
    ('a', 'c', 2, [('force', 0), ('pause', 0), ('force', 0), ('resume', 0), ('release', 0), ('force', 0)]),
]


def tl_script(kinds, gates, maxc, iv, steps, fam):
    lines = ['sch_tl_new n=%d max=%d iv=%d kinds=%s gates=%s' % (len(kinds), maxc, iv, kinds, gates)]
    lines += ['sch_tl_do op=%s c=%d' % (op, c) for (op, c) in steps]
    lines.append('sch_tl_end')
    return {'lines': lines, 'tags': {'family': fam}}


def tl_random(rnd):
    """a random quiet timeline.  Two rules keep the outcome independent of timing: no checkable is ever left free-running
    (enabled, in its period, unpaused, gate open - it would execute every interval), and with fewer slots than checkables
    nothing is enabled (waiting forced checks are served in the order of the requests, regular ones in the order of keys that
    depend on the phase of the real clock)."""
    n = rnd.choice((1, 1, 2, 2, 3))
    maxc = rnd.choice((1, 2, 2, 4))
    kinds = ''.join(rnd.choice('sa') for _ in range(n))
    gate = [rnd.random() < 0.3 for _ in range(n)]
    gates = ''.join('o' if g else 'c' for g in gate)
    en = [False] * n; per = [True] * n; paused = [False] * n
    free = lambda c: en[c] and per[c] and not paused[c] and gate[c]
    steps = []
    for _ in range(rnd.randint(4, 11)):
        for _try in range(20):
            c = rnd.randrange(n)
            op = rnd.choice(('force', 'force', 'force', 'enable', 'disable', 'close', 'open', 'pause', 'resume', 'release', 'release', 'hold', 'resched'))
            if op == 'enable' and maxc < n: continue
            old = (en[c], per[c], paused[c], gate[c])
            if op == 'enable': en[c] = True
            elif op == 'disable': en[c] = False
            elif op == 'close': per[c] = False
            elif op == 'open': per[c] = True
            elif op == 'pause': paused[c] = True
            elif op == 'resume': paused[c] = False
            elif op == 'release': gate[c] = True
            elif op == 'hold': gate[c] = False
            if free(c):
                en[c], per[c], paused[c], gate[c] = old
                continue
            steps.append((op, c))
            break
    return tl_script(kinds, gates, maxc, rnd.choice((60, 80, 100)), steps, 'tl-random')


def tl_cases(rnd, nrand):
    cases = [tl_script(k, g, m, rnd.choice((60, 80, 100)), st, 'tl-template') for (k, g, m, st) in TL_TEMPLATES]
    cases += [tl_random(rnd) for _ in range(nrand)]
    return cases


def quiet_case(rnd, variant, maxc=1, dur=7000):
    """no storm: the slot holder is paused (1) / deleted (2) mid-check, the completion that frees the slot notifies nobody,
    other checkables are due - the lost-wake-up scenario; found by the head-stays-due-with-a-free-slot criterion"""
    line = 'sch_run seed=%d n=%d max=%d dur=%d tp=4 imin=100 imax=300 slow=0 thr=0 stale=0 rate=100 quiet=%d hold=%d slack=2500 tail=500 par=5' % (
        rnd.randint(1, 10 ** 6), rnd.choice((2, 3, 4)), maxc, dur, variant, rnd.choice((400, 600, 900)))
    return {'lines': [line], 'tags': {'family': 'run-quiet', 'n': 4, 'max': maxc}}


def run_case(rnd, n, maxc, dur, rate=None, par=4, tail=2500, asyn=None):
    tp = rnd.choice((4, 8, 16))
    imin = rnd.choice((50, 100)) if n <= 80 else 200
    imax = 400
    iavg = (imin + imax) / 2000.0
    if maxc == 1:
        dlo, dhi = 3, 15
    else:
        dlo, dhi = 20, 120
    davg = (dlo + dhi) / 2000.0
    cap = 0.25 * min(maxc, tp)
    slow = int(max(0, min(30, 100 * cap * iavg / (n * davg))))
    rate = rate or rnd.choice((100, 200, 400))
    if asyn is None:
        asyn = rnd.choice((0, 30, 30, 60))
    line = 'sch_run seed=%d n=%d max=%d dur=%d tp=%d imin=%d imax=%d slow=%d thr=%d rate=%d dlo=%d dhi=%d slack=2500 tail=%d par=%d async=%d' % (
        rnd.randint(1, 10 ** 6), n, maxc, dur, tp, imin, imax, slow, rnd.choice((5, 10, 20)), rate, dlo, dhi, tail, par, asyn)
    return {'lines': [line], 'tags': {'family': 'run', 'n': n, 'max': maxc, 'async': asyn}}


def generate(seed, tier):
    rnd = random.Random(seed)
    cases = []
    if tier == 'search':
        # extended search after a broken proof/correspondence: small and bounded (the quick tier must stay below two minutes
        # also when something broke): the deterministic families and the timelines find what they can find at once
        cases += tl_cases(rnd, 10)
        cases += exec_cases(rnd, 20)
        cases += pcr_cases(rnd, 10)[-40:]
        for (n, m) in ((8, 4), (20, 8)):
            cases.append(run_case(rnd, n, m, 3000, par=5, tail=1500, asyn=60))
        return cases
    if tier == 'quick':
        shapes = [(5, 1), (8, 2), (20, 1), (20, 4), (40, 8), (60, 2), (100, 8), (150, 64), (300, 8), (12, 64)]
        dur = 6000
        nunc, k = 20, 60
    else:
        shapes = []
        for rep in range(3):
            shapes += [(5, 1), (8, 2), (10, 1), (20, 1), (20, 4), (40, 8), (60, 2), (100, 8), (150, 64), (200, 8), (300, 8), (300, 64)]
        dur = 30000
        nunc, k = 200, 100
    for i, (n, m) in enumerate(shapes):
        # every second shape with max >= 4 is guaranteed to have asynchronous commands, some slower than their interval
        cases.append(run_case(rnd, n, m, dur, par=5 if tier == 'quick' else 4, asyn=(60 if (m >= 4 and i % 2 == 1) else None)))
    for _ in range(nunc):
        cases.append(unc_case(rnd, k))
    for v in (1, 2):
        for _ in range({'quick': 1}.get(tier, 3)):
            cases.insert(0, quiet_case(rnd, v))
    cases += tl_cases(rnd, {'quick': 26}.get(tier, 300))
    cases += pcr_cases(rnd, {'quick': 150}.get(tier, 2000))
    cases += exec_cases(rnd, {'quick': 150}.get(tier, 2000))
    return cases


def canon(lines):
    return [l for l in lines if l.startswith('unc ') or l.startswith('pcr ') or l.startswith('exec ') or l.startswith('fin ') or l.startswith('tl ') or l.startswith('CRASH') or l.startswith('HANG') or l.startswith('HARNESS') or l.startswith('NOT-RUN')]


def nontrivial(case, impl_lines):
    if case['lines'][0].startswith('sch_unc'):
        return True
    if case['lines'][0].startswith('sch_cnew'):
        return len(case['lines']) >= 2
    if case['lines'][0].startswith('sch_tl_new'):
        return len(case['lines']) >= 3 and any(l.startswith('tl end ') for l in impl_lines)
    s = sum(1 for l in impl_lines if l.startswith('S '))
    p = sum(1 for l in impl_lines if l.startswith('P '))
    return s >= 50 and p >= 100


def classify(case, detail, impl_lines):
    w = detail.split()[0] if detail else ''
    try:
        # diagnosis aid for timing-dependent hits (the confirming re-run of the runner may not hit again and then the
        # replay file has no detail): keep the original detail and the trace of real-thread cases next to the build
        import os, time
        d = os.environ.get('VERIF_BUILD', os.path.join(os.path.dirname(os.path.dirname(os.path.abspath(__file__))), 'build'))
        with open(os.path.join(d, 'C04_oracle_hits.log'), 'a') as f:
            f.write('%s | %s | %s\n' % (time.strftime('%Y-%m-%d %H:%M:%S'), ' ; '.join(case['lines'][:3]), detail))
        if case['lines'][0].startswith('sch_run') and not os.path.exists(os.path.join(d, 'C04_last_hit_trace.txt.keep')):
            with open(os.path.join(d, 'C04_last_hit_trace.txt'), 'w') as f:
                f.write(detail + '\n' + '\n'.join(case['lines']) + '\n' + '\n'.join(impl_lines))
    except Exception:
        pass
    if w == 'single-flight' and 'sch_exec' in detail and 'second-start' in detail:
        return 'single-flight-det'   # deterministic ExecuteCheck case (virtual clock): replay always reproduces
    if case['lines'][0].startswith('sch_tl_new'):
        return {'single-flight': 'single-flight-timeline', 'forced': 'forced-timeline', 'concurrency': 'concurrency'}.get(w, 'crash' if w == 'crash' else 'timeline')
    if w == 'single-flight' and 'wedged' in detail:
        return 'wedged-det' if 'sch_exec' in detail else 'wedged'
    if w == 'next-check' and 'after-result' in detail:
        return 'next-check-after-result'   # deterministic (virtual clock) ProcessCheckResult case: replay always reproduces
    return {'single-flight': 'single-flight', 'concurrency': 'concurrency', 'twice': 'scheduled-twice', 'dropped': 'dropped',
            'not-removed': 'not-removed', 'next-check': 'next-check', 'liveness': 'liveness', 'forced': 'forced',
            'slot-leak': 'slot-leak', 'pending-leak': 'pending-leak', 'crash': 'crash'}.get(w, 'other')


def keep_line(l):
    return l.startswith('sch_run') or l.startswith('sch_cnew') or l.startswith('sch_tl_new') or l.startswith('sch_tl_end')


def extra_stats(cases, impl):
    st = {'check_executions': 0, 'snapshots': 0, 'next_check_records': 0, 'liveness_windows': 0, 'liveness_windows_longer_than_bound': 0,
          'forced_requests': 0, 'max_hiccup_us': 0, 'max_lateness_us': 0, 'unc_lines': 0, 'runs': []}
    for c in cases:
        ls = impl.get(c['id'], [])
        if c['lines'][0].startswith('sch_cnew'):
            st['pcr_lines'] = st.get('pcr_lines', 0) + sum(1 for l in ls if l.startswith('pcr '))
            st['pcr_first_result_soft'] = st.get('pcr_first_result_soft', 0) + (1 if ls and ls[0].startswith('pcr ') and ' ty=0 ' in ls[0] else 0)
            continue
        if c['lines'][0].startswith('sch_unc'):
            st['unc_lines'] += sum(1 for l in ls if l.startswith('unc '))
            continue
        if c['lines'][0].startswith('sch_tl_new'):
            st['timeline_steps'] = st.get('timeline_steps', 0) + sum(1 for l in ls if l.startswith('tl ') and not l.startswith('tl end'))
            st['timeline_unstable'] = st.get('timeline_unstable', 0) + sum(1 for l in ls if ' UNSTABLE ' in l)
            st['timeline_executions'] = st.get('timeline_executions', 0) + sum(1 for l in ls if l.startswith('tlev S '))
            st['timeline_forced_clears'] = st.get('timeline_forced_clears', 0) + sum(1 for l in ls if l.startswith('tlev C '))
            continue
        s = p = nrec = w = wl = f = 0
        hic = 0
        for l in ls:
            k = l[:2]
            if k == 'S ': s += 1
            elif k == 'P ': p += 1
            elif k == 'N ': nrec += 1
            elif k == 'W ':
                w += 1
                t = l.split()
                if int(t[3]) - int(t[2]) > int(t[4]): wl += 1
            elif k == 'F ': f += 1
            elif k == 'Q ':
                pass
            if k == 'S ':
                lt = int(l.split()[3])
                st['max_lateness_us'] = max(st['max_lateness_us'], lt)
            if k == 'Q ':
                for t in l.split():
                    if t.startswith('hiccup='): hic = int(t[7:])
            if l.startswith('cfg '):
                for t in l.split():
                    if t.startswith('async='): st['async_checkables'] = st.get('async_checkables', 0) + int(t[6:])
                    if t.startswith('asynclong='): st['async_slower_than_interval'] = st.get('async_slower_than_interval', 0) + int(t[10:])
            if k == 'C ': st['force_clears'] = st.get('force_clears', 0) + 1
            if k == 'X ': st['executecheck_entries'] = st.get('executecheck_entries', 0) + 1
        st['check_executions'] += s; st['snapshots'] += p; st['next_check_records'] += nrec
        st['liveness_windows'] += w; st['liveness_windows_longer_than_bound'] += wl; st['forced_requests'] += f
        st['max_hiccup_us'] = max(st['max_hiccup_us'], hic)
        st['runs'].append({'n': c['tags'].get('n'), 'max': c['tags'].get('max'), 'executions': s, 'snapshots': p, 'hiccup_us': hic})
    return st
