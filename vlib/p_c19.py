"""C19 - sandboxed expressions cannot change or reveal protected state.

Generator: enumerates, from the LIVE vdrive process, every function reachable from the global namespace and every
prototype method of every type (so newly registered functions are picked up automatically), every type (constructor
calls) and every no_user_view field of a type that has a live object; adds every statement form of the language.
Each probe is run in a sandboxed frame the ways the product creates them (FilterUtility::GetFilterTargets,
EventQueue::ProcessEvent, EventsFilter::Push, ConsoleHandler::ExecuteScriptHelper) with deep snapshots before/after."""
import random, os, subprocess, tempfile, shutil, binascii, collections
from . import core

# the failing-input search of the runner (after a broken proof / correspondence without an oracle hit): bounded, and its
# populations (tier 'search') are of quick-tier size, ordered by what the MODEL predicts to fail (see generate())
os.environ.setdefault('VERIF_SEARCH_S', '60')

PID = 'C19'
HEADER = []
LIBS = 'base,config,remote,icinga,methods,checker,notification'
RULE = ('every statement form x {filter, event, inbox, console} x {marker probe, plain probe}; every live function / prototype method '
        '(enumerated from ScriptGlobal::GetGlobals() and the type prototypes of the running process) x {marker probe in filter+console, '
        'plain calls with 1-3 generated argument lists in console/filter/event, on local and on shared receivers, with lambda and '
        'native callbacks}; every UNSAFE live function as callback of every callback-taking safe Array method through GetFilterTargets '
        '(without and with a permission filter) and event filters; every live type as constructor; every no_user_view field of every '
        'type with a live object, dotted and as bare identifier after `using <object>`; hidden globals. '
        'WRITERS x POSITIONS x LEFT-HAND SIDES: Set with every operator (= += -= *= /= %= ^= &= |=) x 19 left-hand sides (bare identifier, string key, this.x, '
        'locals.x, globals.x, get_object(..).attr, get_objects(T)[0].vars.k, live container attributes, *ref, array-literal root) and const / var / namespace / '
        'function / use / for / while / apply / object / template / include / import / library / using, as statement, dictionary member (direct, after/before a '
        'sibling, nested 2-3 deep, inside an array), if / else / else-if / try / except / lambda / closure / loop / namespace bodies, the dictionary literal placed in 44 '
        'expression contexts (array element, argument of natives, conditions, both sides of && || ?: in ==, receiver, index, throw, use, using, deref, '
        'constructor argument, callback and receiver element of every higher-order safe native): any snapshot difference = changed:<construct>@<position>. '
        'PURITY: every function registered side-effect-free x every argument position and `this` x 28 live shared containers/objects (unsorted / '
        'duplicate / nested / empty / length-1 arrays, arrays of dictionaries and of arrays, dictionaries, namespaces, config objects, a type, a '
        'function, a reference, as attributes of the Host - vars.*, groups - and as globals) x fillers for the other positions, every '
        'callback-taking method x native callbacks (incl. union/intersection applied to the elements), in filter/console/event/inbox mode under '
        'deep snapshots (any difference = changed:call:<name>). HIDDEN VIA NATIVES: every side-effect-free function x every position x {ApiUser '
        'object, reference to .password/.password_hash, containers of them}: result handed back through the console (raw and JSON) or compared '
        'with the secret inside filter/event filters. '
        'marker probe = the sub-expression that is evaluated right after the sandbox test is a call of `sbmark()`, a function the harness registers '
        'side-effect-free and that sets a flag, so "marker reached" vs "stopped before" is read from that flag, never from error text. non-trivial = the probe reached the '
        'interpreter (compiled) and produced a verdict or executed; distinct = distinct probe text')
TRUSTED = ['model: coq/Sandbox/SbModel.v (effect-level semantics, one constructor per Expression subclass; the values computed by '
           'operators and pure builtins are inputs); whether a native may write what its receiver/arguments reach comes from the regenerated '
           'mutation-capability facts (f_sb_purity), the hand-written lists sb_pure_names/sb_higher_names are only the EXPECTED table',
           'tools/c19_purity.py: token-level, flow-insensitive alias analysis of the C++ bodies of registered functions; trusted tables READ_METHODS '
           '(cross-checked: declared const in the headers, own bodies analysed), PURE_CALLEES (by name: Utility::Match, JsonEncode, Array::FromSet, '
           'ConfigItem::GetItems, std:: algorithms, ...), FRESH_METHODS; declarations recognised syntactically; macros not expanded; implicit '
           'conversions (Value -> String) not seen; self-test of 5 pure and 19 mutating idioms on every run',
           'conditional sandbox guards (`Sandboxed && <cond>`): not counted as guards; the one condition the model interprets is a bool member of SetExpression whose only '
           'assignment is `= (scopeSpec == ScopeThis)` in BindToScope (recognised syntactically) = "member of a dictionary literal"; sb_bind_scope is a hand transcription of '
           'BindToScope, tied by the facts f_sb_bind_to_scope_shape / f_sb_dict_members_bound and by the writer-position probes',
           'source facts re-extracted each run by tools/facts_c19.py (regular expressions over expression.cpp, config_parser.yy, vmops.hpp, *-script.cpp, '
           'REGISTER_*FUNCTION, *.ti, object.cpp, reference.cpp, scriptframe.cpp, filterutility/eventqueue/consolehandler.cpp) -> coq/Facts/Facts_c19.v',
           'harness/ops_sb.cpp: deep snapshot (global namespace recursively, all fields of all config objects, config item registry, '
           'apply rules, type prototypes, scratch directory listing+SHA1, console session locals)']
ASSUMPTIONS = ['native functions registered side-effect-free are pure: established by the source analysis (sound only relative to its trusted '
               'tables, see TRUSTED) and behaviourally by executing each of them with live shared containers in every position under snapshots',
               'termination / resource use of sandboxed code is not part of C19 (While/For guards are recorded as facts only)',
               'the process environment (getenv) and the clock are not "attributes hidden from API users"']


def hx(s):
    return binascii.hexlify(s.encode()).decode() if s else '-'


def unhx(s):
    return '' if s == '-' else binascii.unhexlify(s).decode()


M = 'sbmark()'

# form -> (code with %s where the marker / plain sub-expression goes, plain sub-expression, modes or None)
FORMS = [
    ('set_local', 'x = %s', '1', None),
    ('set_global', 'globals.SbG@ = %s', '1', None),
    ('set_objattr', 'host.vars.os = %s', '"win"', ('filter',)),
    ('set_shared_elem', 'SbDict.a = %s', '7', None),
    ('set_add', 'SbArr += %s', '[ 9 ]', None),
    ('var', 'var x = %s', '1', None),
    ('const', 'const SbC@ = %s', '5', None),
    ('namespace', 'namespace SbN@ { %s }', 'y = 1', None),
    ('function', 'function sbf@(a) use(b = %s) { return a }', '1', None),
    ('apply', 'apply Service %s to Host { check_command = "sbcmd"; assign where true }', '"sbap@"', None),
    ('object', 'object Host %s { check_command = "sbcmd" }', '"sbo@"', None),
    ('template', 'template Host %s { }', '"sbt@"', None),
    ('import', 'import %s', '"sbtmpl"', None),
    ('include', 'include %s', '"/nonexistent/sb@.conf"', None),
    ('include_recursive', 'include_recursive %s', '"/nonexistent/sb@"', None),
    ('include_zones', 'include_zones "etc", %s', '"/nonexistent/sb@"', None),
    ('library', 'library %s', '"methods"', None),
    ('for', 'for (x in %s) { }', '[ 1, 2 ]', None),
    ('while', 'while (%s) { break }', 'true', None),
    ('dict_literal', '{ a = %s }', '1', None),
    ('try', 'try { throw "x" } except { %s }', '1', None),
    ('using', 'using System\n%s', '1', None),
    ('debugger', 'debugger\n%s', '1', None),
    ('throw', '%s\nthrow "x"', '1', None),
    ('if', 'if (%s) { 1 } else { 2 }', 'true', None),
    ('lambda', '[ (x => x), %s ]', '1', None),
    ('closure', '[ {{ 1 }}, %s ]', '1', None),
    ('ref', '[ &SbArr, %s ]', '1', None),
    ('deref', '[ *(&SbArr), %s ]', '1', None),
    ('empty_dict', '[ {}, %s ]', '1', None),
    ('array_literal', '[ 1, %s ]', '2', None),
    ('arith', '1 + %s', '2', None),
    ('compare', '1 < %s', '2', None),
    ('in', '%s in [ 1 ]', '1', None),
    ('not_in', '%s !in [ 1 ]', '1', None),
    ('and', 'true && %s', 'true', None),
    ('or', 'false || %s', 'true', None),
    ('not', '!%s', 'true', None),
    ('negate', '~%s', '5', None),
    ('indexer', 'SbDict[%s]', '"a"', None),
    ('scope_this', '[ this, %s ]', '1', None),
    ('scope_locals', '[ locals, %s ]', '1', None),
    ('scope_globals', '[ globals.SbArr, %s ]', '1', None),
    ('read_attr', '[ host.vars.os, %s ]', '1', ('filter',)),
]

# argument lists for plain calls, by registered name (fallback: generic lists by arity)
HOST = 'get_object(Host, "sbh")'
ARGS = {
    'System#regex': ['"^s.h$", "sbh"', '"a", [ "a", "b" ], MatchAny'], 'System#match': ['"sb*", "sbh"', '"x*", [ "ab", "xc" ], MatchAll'],
    'System#cidr_match': ['"127.0.0.0/8", "127.0.0.1"'], 'System#len': ['[ 1, 2 ]', '"abc"', 'SbDict'],
    'System#union': ['[ 1 ], [ 2 ]', 'SbArr, [ 9 ]'], 'System#intersection': ['[ 1, 2 ], [ 2 ]'],
    'System#typeof': ['1', HOST], 'System#keys': ['SbDict', 'globals'], 'System#random': [''],
    'System#get_template': ['Host, "sbtmpl"'], 'System#get_templates': ['Host'], 'System#get_object': ['Host, "sbh"', 'ApiUser, "sbu"'],
    'System#get_objects': ['Host', 'ApiUser'], 'System#string': ['5', HOST], 'System#number': ['"5"'], 'System#bool': ['"1"'],
    'System#get_time': [''], 'System#basename': ['"/a/b"'], 'System#dirname': ['"/a/b"'], 'System#getenv': ['"HOME"'],
    'System#msi_get_component_path': ['"x"'], 'System#track_parents': [HOST], 'System#escape_shell_cmd': ['"a;b"'],
    'System#escape_shell_arg': ['"a b"'], 'System#escape_create_process_arg': ['"a b"'],
    'System#log': ['"sb"', 'LogCritical, "sb", "x"'], 'System#range': ['3', '1, 5, 2'], 'System#exit': ['0'], 'System#assert': ['true'],
    'System#ptr': [HOST], 'System#sleep': ['0'], 'System#path_exists': ['"/"'], 'System#glob': ['"/nonexistent*"'],
    'System#glob_recursive': ['"/nonexistent", "*"'], 'System#parse_performance_data': ['"a=1"'],
    'Json#encode': ['[ 1, { a = 1 } ]'.replace('{ a = 1 }', 'SbDict'), HOST + '.vars', 'SbArr'], 'Json#decode': ['"[1,2]"'],
    'Icinga#get_host': ['"sbh"'], 'Icinga#get_service': ['"sbh", "sbs"'], 'Icinga#get_services': ['"sbh"'], 'Icinga#get_user': ['"x"'],
    'Icinga#get_check_command': ['"sbcmd"'], 'Internal#run_with_activation_context': ['function() { }'],
    'Array#set': ['0, 9'], 'Array#get': ['0'], 'Array#add': ['9'], 'Array#remove': ['0'], 'Array#contains': ['1'], 'Array#join': ['","'],
    'Array#sort': ['', '(a, b) => a < b', 'match'], 'Array#map': ['x => x', 'string'], 'Array#reduce': ['(a, b) => a + b', 'Math.max'],
    'Array#filter': ['x => true', 'bool'], 'Array#any': ['x => true', 'bool'], 'Array#all': ['x => true', 'bool'],
    'Dictionary#set': ['"k", 1'], 'Dictionary#get': ['"a"'], 'Dictionary#remove': ['"a"'], 'Dictionary#contains': ['"a"'],
    'Namespace#set': ['"k", 1'], 'Namespace#get': ['"x"'], 'Namespace#remove': ['"x"'], 'Namespace#contains': ['"x"'],
    'String#substr': ['1, 2'], 'String#split': ['","'], 'String#find': ['"b"'], 'String#contains': ['"b"'], 'String#replace': ['"a", "b"'],
    'Function#call': ['null, "a", "a"'], 'Function#callv': ['null, [ "a", "a" ]'], 'Reference#set': ['[ 1 ]'],
    'Object#notify_attribute': ['"vars"'], 'ConfigObject#modify_attribute': ['"vars.os", "win"'],
    'ConfigObject#restore_attribute': ['"vars.os"'], 'Checkable#process_check_result': ['{}'],
    'Type#register_attribute_handler': ['"vars", function() { }'], 'DateTime#format': ['"%Y"'],
}
CALLBACKS = {'x => x', '(a, b) => a < b', '(a, b) => a + b', 'x => true'}
NATIVE_CB = {'string': 'System#string', 'bool': 'System#bool', 'Math.max': 'Math#max', 'match': 'System#match'}
MATH1 = ['abs', 'acos', 'asin', 'atan', 'ceil', 'cos', 'exp', 'floor', 'log', 'round', 'sin', 'sqrt', 'tan', 'isnan', 'isinf', 'sign']

# receivers of prototype methods: type -> [(recv kind for the model, model type, expression)]
RECV = {
    'Array': [('lit', 'Array', '[ 3, 1, 2 ]'), ('shared', 'Array', 'SbArr'), ('shared', 'Array', HOST + '.vars.arr')],
    'Dictionary': [('lit', 'Dictionary', '{}'), ('shared', 'Dictionary', 'SbDict'), ('shared', 'Dictionary', HOST + '.vars')],
    'Namespace': [('shared', 'Namespace', 'SbNs'), ('shared', 'Namespace', 'Icinga')],
    'String': [('lit', 'String', '"a,b c"')], 'Number': [('lit', 'Number', '(42)')], 'Boolean': [('lit', 'Boolean', 'true')],
    'Object': [('shared', 'Host', HOST), ('shared', 'Array', 'SbArr')],
    'ConfigObject': [('shared', 'Host', HOST), ('shared', 'ApiUser', 'get_object(ApiUser, "sbu")')],
    'Checkable': [('shared', 'Host', HOST), ('shared', 'Service', 'get_object(Service, "sbh!sbs")')],
    'Function': [('fn', 'Function', 'regex')], 'Type': [('type', 'Type', 'Host')], 'Reference': [('ref', 'Reference', '(&SbArr)')],
    'DateTime': [('lit', 'DateTime', 'DateTime()')],
}

# ---------------------------------------------------------------- purity probes (every safe function x every position)
# live shared containers / objects: (tag, dynamic type, expression).  `@H` is `host` in filter mode (the variable
# FilterUtility binds) and get_object(Host, "sbh") elsewhere.
POOL = [
    ('hostvar-unsorted-strs', 'Array', '@H.vars.boot_order'), ('host-groups', 'Array', '@H.groups'),
    ('global-unsorted-strs', 'Array', 'SbArrU'), ('global-unsorted-nums', 'Array', 'SbArr'),
    ('hostvar-dups', 'Array', '@H.vars.dups'), ('global-dups', 'Array', 'SbDup'),
    ('hostvar-nested-list', 'Array', '@H.vars.nested.inner.list'), ('global-nested-list', 'Array', 'SbNest.list'),
    ('hostvar-array-of-dicts', 'Array', '@H.vars.dicts'), ('global-array-of-dicts', 'Array', 'SbDicts'),
    ('hostvar-array-of-arrays', 'Array', '@H.vars.aoa'), ('global-array-of-arrays', 'Array', 'SbAoa'),
    ('hostvar-empty-array', 'Array', '@H.vars.empty_arr'), ('hostvar-len1-array', 'Array', '@H.vars.one'),
    ('hostvar-dup-strs', 'Array', '@H.vars.strs'),
    ('host-vars', 'Dictionary', '@H.vars'), ('hostvar-nested-dict', 'Dictionary', '@H.vars.nested'),
    ('global-dict', 'Dictionary', 'SbDict'), ('global-nested-dict', 'Dictionary', 'SbNest'),
    ('hostvar-empty-dict', 'Dictionary', '@H.vars.empty_dict'),
    ('globals', 'Namespace', 'globals'), ('user-namespace', 'Namespace', 'SbNs'),
    ('host-object', 'Host', '@H'), ('apiuser-object', 'ApiUser', 'get_object(ApiUser, "sbu")'),
    ('type', 'Type', 'Host'), ('function', 'Function', 'regex'), ('reference', 'Reference', '(&SbArrU)'),
    ('live-string', 'String', '@H.name'),
]
# what the other positions hold while one position holds a live container
FILLERS = ['[ 2, 1 ]', '"a"', '1', '@SAME']
# native callbacks for sort/map/reduce/filter/any/all (script lambdas are not side-effect-free, so they are refused)
CB1 = ['string', 'bool', 'len', 'typeof', 'keys', 'Json.encode', 'number', 'get_objects', 'union', 'intersection']
CB2 = ['match', 'Math.max', 'Math.min', 'union', 'intersection', 'regex', 'cidr_match', 'Math.pow']
RECV_BY_TYPE = {'Array': ['Array'], 'Dictionary': ['Dictionary'], 'Namespace': ['Namespace'], 'String': ['String'],
                'Object': ['Array', 'Dictionary', 'Namespace', 'Host', 'ApiUser', 'ApiListener', 'Type', 'Function', 'Reference', 'String'],
                'Reference': ['Reference'], 'Number': [], 'Boolean': []}
LIT_RECV = {'String': ['"b,a c"', '""'], 'Number': ['(42)'], 'Boolean': ['true'], 'Array': ['[ 3, 1, 2 ]'], 'Dictionary': ['{ b = 1, a = 2 }']}
PURITY_MODES = ['filter', 'console', 'filter', 'console', 'event', 'console', 'filter', 'inbox']


def split_top(al):
    out, depth, cur = [], 0, ''
    for ch in al:
        if ch in '([{':
            depth += 1
        elif ch in ')]}':
            depth -= 1
        if ch == ',' and depth == 0:
            out.append(cur.strip())
            cur = ''
        else:
            cur += ch
    if cur.strip():
        out.append(cur.strip())
    return out


def purity_probes(fn, rnd, tier, fns):
    """every argument position (and `this`) of one function registered side-effect-free gets every live shared container
    -> list of (mode, code-template, description tokens)"""
    name, path = fn['name'], fn['path']
    declared = [x for x in fn['args'].split(',') if x]
    k = len(declared)
    is_cb = any(a in declared for a in ('func', 'less_cmp', 'reduce', 'callback', 'cmp'))
    out = []
    if path.startswith('@'):
        ty, key = path[1:].split('.', 1)
        recvs = [(t, x, 'shared') for (_, t, x) in POOL if t in RECV_BY_TYPE.get(ty, [])] + [(ty, x, 'lit') for x in LIT_RECV.get(ty, [])]
        if ty == 'Object':
            recvs += [('Number', '(42)', 'lit'), ('Boolean', 'true', 'lit')]
    else:
        ty, key, recvs = None, '-', [(None, None, 'none')]
    arities = sorted({k, max(0, k - 1)}) if k else [0, 1, 2, 3]
    known = [split_top(al) for al in ARGS.get(name, []) if al not in CALLBACKS]
    for rty, rx, rk in recvs:
        callee = '%s.%s' % (rx, key) if rx else path
        base = 'kind=call fn=%s recv=%s rty=%s key=%s lsafe=1' % (hx(name), rk, hx(rty or '-'), hx(key))
        if is_cb:
            # callback-taking method: every native callback of the fitting arity; the receiver is the live container
            cbs = CB2 if key in ('sort', 'reduce') else CB1
            for cbx in cbs + ([''] if key == 'sort' else []):
                cbn = [f['name'] for f in fns if f['path'] == cbx]
                out.append(('%s(%s)' % (callee, cbx), base + (' cb=native cbn=%s' % hx(cbn[0]) if cbn else ' cb=none nargs=0') +
                            ' shpos=%s' % ('s' if rk == 'shared' else '-')))
            continue
        for n in arities:
            if n == 0:
                if rk != 'none':
                    out.append(('%s()' % callee, base + ' cb=none nargs=0 shpos=%s' % ('s' if rk == 'shared' else '-')))
                continue
            fills = list(FILLERS)
            for kn in known:
                if len(kn) == n:
                    fills.append(kn)
            for p in range(n):
                for (_, xt, xx) in POOL:
                    for fl in (fills if n > 1 else fills[:1]):
                        if isinstance(fl, list):
                            args = list(fl)
                        else:
                            args = [xx if fl == '@SAME' else fl] * n
                        args[p] = xx
                        sh = ','.join(str(q) for q in range(n) if args[q] == xx)
                        out.append(('%s(%s)' % (callee, ', '.join(args)),
                                    base + ' cb=none nargs=%d shpos=%s%s' % (n, 's,' if rk == 'shared' else '', sh)))
    # quick tier: bound the population per function, keeping every (receiver, position, container) at least once
    seen, uniq = set(), []
    for code, desc in out:
        if code not in seen:
            seen.add(code)
            uniq.append((code, desc))
    cap = 420 if tier == 'quick' else 100000
    if len(uniq) > cap:
        rnd.shuffle(uniq)
        uniq = uniq[:cap]
    res = []
    for i, (code, desc) in enumerate(uniq):
        mode = PURITY_MODES[(i + rnd.randrange(8)) % 8]
        code = code.replace('@H', 'host' if mode == 'filter' else HOST)
        res.append((mode, code + '\n0', desc + ' restore=1'))
    return res


# ---------------------------------------------------------------- hidden reads through natives
USER = 'get_object(ApiUser, "sbu")'
LSN = 'get_object(ApiListener, "sbapi")'
# NOTE: a dictionary literal `{ u = <object> }` is an assignment and is refused in a sandbox, so containers that hold the objects
# are part of the fixture (harness: SbSecD, SbSecA, SbSecNest, SbSecRefs - dictionaries / arrays / nested ones holding the ApiUser,
# the ApiListener and references to their hidden fields)
SECRET_ARGS = [('ApiUser', USER), ('Reference', '(&%s.password)' % USER), ('Array', '[ %s ]' % USER),
               ('Array', '[ &%s.password ]' % USER), ('Array', 'get_objects(ApiUser)'),
               ('Reference', '(&%s.password_hash)' % USER),
               ('ApiListener', LSN), ('Reference', '(&%s.ticket_salt)' % LSN),
               ('Array', '[ &%s.ticket_salt, %s ]' % (LSN, LSN)), ('Array', 'get_objects(ApiListener)'),
               ('Array', '[ [ %s ], [ [ %s ] ] ]' % (USER, LSN)),
               ('Dictionary', 'SbSecD'), ('Array', 'SbSecA'), ('Dictionary', 'SbSecNest'), ('Dictionary', 'SbSecRefs'),
               ('Array', 'SbSecNest.a.b'), ('Array', 'SbSecD.values()'), ('Array', '[ SbSecD, SbSecA ]')]
SECRET_PAT = '"*sbS*"'          # matches the password (sbSECRETpw) and the ticket salt field (sbSALTfld)


# (mode, template over the call %C, truth of the result means a leak)
SECOND_STAGE = [
    ('console', '%C', 0), ('console', 'Json.encode(%C)', 0), ('filter', 'match(%P, Json.encode(%C))', 1),
    ('rot', '(%C) in [ "sbSECRETpw", "sbSALTfld" ]', 1),
    ('console', 'string(%C)', 0), ('console', '(%C).to_string()', 0), ('console', 'Json.encode([ %C ])', 0),
    ('console', 'Json.decode(Json.encode(%C))', 0), ('filter', 'match(%P, string(%C))', 1),
    ('filter', 'match(%P, Json.encode(Json.decode(Json.encode(%C))))', 1),
    ('console', 'Json.encode(keys(%C))', 0), ('console', '(%C).values()', 0), ('console', '(%C).clone()', 0),
    ('console', 'Json.encode((%C).shallow_clone())', 0), ('console', '[ %C ].map(Json.encode)', 0),
    ('console', '[ %C ].map(string).join(",")', 0), ('console', 'typeof(%C)', 0),
    ('rot', 'Json.decode(Json.encode(%C)).password == "sbSECRETpw" || Json.decode(Json.encode(%C)).ticket_salt == "sbSALTfld"', 1),
    ('filter', '"sbSECRETpw" in (%C) || "sbSALTfld" in (%C)', 1),
]


def hidden_native_probes(fn, rnd, tier, fns):
    """every side-effect-free function gets the object that owns a no_user_view field (ApiUser.password), a reference to that
    field, and containers of both, in every argument position and as receiver; what comes back is (a) returned through the
    console, raw and JSON-encoded, (b) compared with the secret inside filter / event filters -> (mode, code, desc, leak)"""
    name, path = fn['name'], fn['path']
    declared = [x for x in fn['args'].split(',') if x]
    k = len(declared)
    is_cb = any(a in declared for a in ('func', 'less_cmp', 'reduce', 'callback', 'cmp'))
    calls = []
    if path.startswith('@'):
        ty, key = path[1:].split('.', 1)
        ok_types = RECV_BY_TYPE.get(ty, [])
        recvs = [(t, x) for (t, x) in SECRET_ARGS if t in ok_types]
    else:
        ty, key, recvs = None, '-', [(None, None)]
    arities = sorted({k, max(0, k - 1)}) if k else [1, 2]
    for rty, rx in recvs:
        callee = '%s.%s' % (rx, key) if rx else path
        base = 'kind=call fn=%s recv=%s rty=%s key=%s lsafe=1' % (hx(name), 'shared' if rx else 'none', hx(rty or '-'), hx(key))
        if is_cb:
            for cbx in (CB2 if key in ('sort', 'reduce') else CB1) + ([''] if key == 'sort' else []):
                cbn = [f['name'] for f in fns if f['path'] == cbx]
                calls.append(('%s(%s)' % (callee, cbx), base + (' cb=native cbn=%s' % hx(cbn[0]) if cbn else ' cb=none nargs=0')))
            continue
        for n in arities:
            if n == 0:
                if rx:
                    calls.append(('%s()' % callee, base + ' cb=none nargs=0'))
                continue
            for p in range(n):
                for (_, sx) in SECRET_ARGS:
                    for fl in (['"*"', '1'] if n > 1 else ['1']):
                        args = [fl] * n
                        args[p] = sx
                        calls.append(('%s(%s)' % (callee, ', '.join(args)), base + ' cb=none nargs=%d' % n))
    out, seen = [], set()
    for i, (call, desc) in enumerate(calls):
        if call in seen:
            continue
        seen.add(call)
        # what comes back is handed back raw, or fed to a SECOND native that serialises / stringifies / walks it
        form = (i + rnd.randrange(len(SECOND_STAGE))) % len(SECOND_STAGE) if tier == 'quick' else -1
        for k_, (mode, tmpl, leak) in enumerate(SECOND_STAGE):
            if form in (k_, -1):
                if mode == 'rot':
                    mode = ('event', 'filter', 'inbox')[i % 3]
                out.append((mode, tmpl.replace('%P', SECRET_PAT).replace('%C', call), desc, leak))
    return out



# ---------------------------------------------------------------- writers x syntactic positions x left-hand sides
# Every WRITER construct, placed in every syntactic position an expression can occupy, with every kind of left-hand side.
# Assignments and the other statements are `lterm`s: they can only stand in a statement list - top level, `{ }` used as a
# value (dictionary literal: the members run when the literal is evaluated, with `this` = the new dictionary, after
# BindToScope(.., ScopeThis)), and the scopes of if / else / try / except / while / for / function / namespace.  A dictionary
# literal (and `if`) is an rterm, so it carries a writer into every expression position.

SET_OPS = [('set', '='), ('add', '+='), ('sub', '-='), ('mul', '*='), ('div', '/='), ('mod', '%='), ('xor', '^='), ('and', '&='), ('or', '|=')]

# left-hand sides: (shape, text, right-hand side).  @H = `host` in filter mode (bound by FilterUtility), else get_object(..)
W_LHS = [
    ('globals_new', 'globals.SbW@', '5'), ('globals_num', 'globals.SbNum', '5'),
    ('ident_new', 'sbx@', '5'), ('ident_global', 'SbNum', '5'), ('strkey', '"sbk"', '5'),
    ('this', 'this.sbx', '5'), ('locals', 'locals.sbx@', '5'),
    ('call_attr', 'get_object(Host, "sbh").display_name', '"sbw"'), ('call_vars', 'get_object(Host, "sbh").vars.num', '5'),
    ('call_idx_vars', 'get_objects(Host)[0].vars.num', '5'), ('call_idx_new', 'get_objects(Host)[0].vars.added@', 'true'),
    ('live_attr', 'host.vars.num', '5'), ('live_dict', 'SbDict.a', '5'), ('live_arr', 'SbArr[0]', '5'), ('live_ns', 'SbNs.x', '5'),
    ('deref', '*(&globals.SbNum)', '5'), ('deref_call', '*(&get_object(Host, "sbh").vars.num)', '5'),
    ('nested_lhs', 'globals.SbNest.d.z', '5'), ('array_root', '[ SbNest.d ][0].z', '5'),
]
# operators that make sense for a left-hand side (a string attribute only takes `=` and `+=`, a new key of a live dictionary `=`)
W_LHS_OPS = {'call_attr': ('set', 'add'), 'call_idx_new': ('set',)}
# the other writers: (name, text)
W_OTHER = [
    ('const', 'const SbWC@ = 1'), ('var', 'var sbv@ = 1'), ('namespace', 'namespace SbWN@ { }'),
    ('function', 'function sbwf@() { }'), ('function_use', 'function sbwf@() use(q = 1) { }'),
    ('for', 'for (q in [ 1 ]) { }'), ('for_kv', 'for (k => v in SbDict) { }'), ('while', 'while (false) { }'),
    ('apply', 'apply Service "sbwa@" to Host { check_command = "sbcmd"; assign where true }'),
    ('object', 'object Host "sbwo@" { check_command = "sbcmd" }'), ('template', 'template Host "sbwt@" { }'),
    ('include', 'include "/nonexistent/sbw@.conf"'), ('include_recursive', 'include_recursive "/nonexistent/sbw@"'),
    ('import', 'import "sbtmpl"'), ('library', 'library "methods"'), ('using', 'using SbNs'),
]
# how the writer W becomes a statement or an rterm R
W_FORMS = [
    ('stmt', '%s', False), ('dict', '{ %s }', True), ('dict_after', '{ sba = 1; %s }', True), ('dict_before', '{ %s; sbz = 2 }', True),
    ('dict_nested', '{ sba = { %s } }', True), ('dict_nested_arr', '{ sba = [ { %s } ] }', True), ('dict3', '{ sba = { sbb = { %s } } }', True),
    ('if_true', 'if (true) { %s }', True), ('if_else', 'if (false) { 0 } else { %s }', True),
    ('else_if', 'if (false) { 0 } else if (true) { %s }', True),
    ('try_body', 'try { %s } except { 0 }', False), ('try_except', 'try { throw "x" } except { %s }', False),
    ('lambda_call', '(() => { %s })()', True), ('closure', '{{ %s }}', True), ('function_body', 'function() { %s }', True),
    ('lambda_map', '[ 1 ].map(x => { %s })', True), ('while_body', 'while (true) { %s; break }', False),
    ('for_body', 'for (q in [ 1 ]) { %s }', False), ('namespace_body', 'namespace SbWNb@ { %s }', False),
]
# where the rterm R stands
W_CTXS = [
    ('array_elem', '[ 1, %s ]'), ('arg_len', 'len(%s)'), ('arg_json', 'Json.encode(%s)'), ('arg_typeof', 'typeof(%s)'), ('arg_keys', 'keys(%s)'),
    ('arg_match2', 'match("*", %s)'), ('arg_union2', 'union([ 1 ], %s)'),
    ('cond_if', 'if (%s) { 1 }'), ('cond_ternary', '%s ? 1 : 2'), ('ternary_then', 'true ? %s : 1'), ('ternary_else', 'false ? 1 : %s'),
    ('and_rhs', 'true && %s'), ('or_rhs', 'false || %s'), ('and_lhs', '%s && true'), ('or_lhs', '%s || true'),
    ('not', '!%s'), ('eq', '%s == 1'), ('plus', '1 + %s'), ('in_lhs', '%s in [ 1 ]'), ('in_rhs', '1 in %s'),
    ('receiver_len', '%s.len()'), ('receiver_keys', '%s.keys()'), ('receiver_contains', '%s.contains("a")'),
    ('index', 'SbDict[%s]'), ('member_of', '%s.a'), ('throw', 'throw %s'), ('use', 'function() use(q = %s) { 1 }'),
    ('using', 'using %s\nsbfoo'), ('deref', '*%s'), ('ctor', 'String(%s)'), ('call_arg_obj', 'get_object(Host, %s)'),
    ('try', 'try { %s } except { 0 }'),
]
W_MODES = ['filter', 'console', 'event', 'inbox', 'filter', 'console', 'filterperm', 'event']


def writer_position_probes(fns, rnd, tier):
    """-> list of (mode, code, desc)"""
    hof = sorted(f['path'].split('.', 1)[1] for f in fns if f['safe'] and f['path'].startswith('@Array.') and
                 any(a in f['args'].split(',') for a in ('func', 'less_cmp', 'reduce', 'callback', 'cmp')))
    ctxs = list(W_CTXS)
    for m_ in hof:      # every higher-order safe native: R as the callback argument, and R as an element of the receiver
        ctxs.append(('cb_' + m_, '[ 1, 2 ].%s(%%s)' % m_))
        ctxs.append(('recv_' + m_, '[ %%s ].%s(bool)' % m_))
    placements = [(f, 'none', ft) for f, ft, _ in W_FORMS]
    placements += [('dict', c, ct.replace('%s', '{ %s }')) for c, ct in ctxs]
    for f, ft, is_rterm in W_FORMS:
        if is_rterm and f not in ('stmt', 'dict'):
            for c in ('array_elem', 'arg_json', 'cond_if', 'and_rhs', 'cb_map', 'receiver_len'):
                ct = dict(ctxs).get(c)
                if ct:
                    placements.append((f, c, ct.replace('%s', ft)))
    writers = []
    for shape, lt, rhs in W_LHS:
        for opn, opt in SET_OPS:
            if opn in W_LHS_OPS.get(shape, [o for o, _ in SET_OPS]):
                writers.append(('set', opn, shape, '%s %s %s' % (lt, opt, rhs)))
    for wn, wt in W_OTHER:
        writers.append((wn, 'set', '-', wt))
    out = []
    k = 0
    for w, opn, shape, wt in writers:
        for form, ctx, pt in placements:
            k += 1
            # quick tier: every (left-hand side / writer, placement) with `=` and `+=`; the other operators on a seeded half
            if tier in ('quick', 'search') and w == 'set' and opn not in ('set', 'add') and rnd.random() < 0.5:
                continue
            mode = W_MODES[(k + rnd.randrange(len(W_MODES))) % len(W_MODES)]
            sh, text = shape, wt
            if shape == 'live_attr' and not mode.startswith('filter'):
                sh, text = 'call_vars', wt.replace('host.vars.num', 'get_object(Host, "sbh").vars.num')
            code = pt.replace('%s', text)
            out.append((mode, code, 'kind=wpos w=%s op=%s lhs=%s form=%s ctx=%s restore=1' % (w, opn, sh, form, ctx)))
    return out

_enum_cache = {}


def enumerate_live():
    """run vdrive once: the live function registry, the types and the no_user_view fields"""
    if 'r' in _enum_cache:
        return _enum_cache['r']
    d = tempfile.mkdtemp(prefix='sbenum_', dir=core.B)
    try:
        open(d + '/s', 'w').write('case 1\nsb_enum\nend\n')
        subprocess.run([core.VDRIVE, d + '/scratch', d + '/s', d + '/o'], timeout=120, capture_output=True)
        out = open(d + '/o').read() if os.path.exists(d + '/o') else ''
    finally:
        shutil.rmtree(d, ignore_errors=True)
    fns, types, hidden = [], [], []
    for l in out.splitlines():
        t = dict(x.split('=', 1) for x in l.split()[2:] if '=' in x) if l else {}
        if l.startswith('# fn '):
            t = dict(x.split('=', 1) for x in l.split()[2:] if '=' in x)
            fns.append({'name': t['name'], 'safe': int(t['safe']), 'path': unhx(t['i_path']), 'args': unhx(t['i_args'])})
        elif l.startswith('# type '):
            types.append({'name': t['name'], 'abstract': int(t['abstract']), 'object': unhx(t['object'])})
        elif l.startswith('# hidden '):
            hidden.append({'type': t['type'], 'field': t['field'], 'live': int(t['live'])})
    _enum_cache['r'] = (fns, types, hidden)
    return _enum_cache['r']


# half of the probes of the large families run below an outer frame (see statement forms)
OUTER = ['', ' outer=1', ' outer=2']


def outer_rot(i):
    return OUTER[(0, 1, 0, 2)[i % 4]]


def probe(pid, mode, marker, code, desc, leak=0):
    return 'sb_probe id=%d mode=%s marker=%d leak=%d code=%s %s' % (pid, mode, marker, leak, hx(code), desc)


def call_probes(fn, rnd, tier):
    """-> list of (mode, marker, code, desc)"""
    name, path = fn['name'], fn['path']
    nargs_decl = len([x for x in fn['args'].split(',') if x])
    if path.startswith('@'):
        ty, key = path[1:].split('.', 1)
        recvs = RECV.get(ty)
        if not recvs:
            return None
        variants = [(rk, rty, '%s.%s' % (rx, key), key) for rk, rty, rx in recvs]
    else:
        variants = [('none', '-', path, '-')]
    arglists = ARGS.get(name)
    if arglists is None:
        if name.startswith('Math#'):
            arglists = ['2, 3'] if nargs_decl == 2 else (['0.5'] if nargs_decl == 1 else ['', '1, 2'])
        else:
            arglists = [', '.join(['"a"'] * nargs_decl), ', '.join(['1'] * nargs_decl)] if nargs_decl else ['']
    out = []
    for rk, rty, callee, key in variants:
        base = 'kind=call fn=%s recv=%s rty=%s key=%s lsafe=%d' % (hx(name), rk, hx(rty), hx(key), fn['safe'])
        for mode in ('console', 'filter', 'event'):
            out.append((mode, 1, '%s(%s)\n0' % (callee, M), base))
        for al in arglists:
            first = al.split(',')[0].strip() if al else ''
            if al in CALLBACKS or first in CALLBACKS:
                cb = 'cb=lambda'
            elif al in NATIVE_CB:
                cb = 'cb=native cbn=%s' % hx(NATIVE_CB[al])
            else:
                cb = 'cb=none nargs=%d' % (len(al.split(',')) if al else 0)
            # always one mode in which the outcome is observable (console / filter); event filters swallow errors
            modes = ['console', 'filter', 'event'] if tier != 'quick' or rnd.random() < 0.4 else \
                [rnd.choice(['console', 'filter'])] + (['event'] if rnd.random() < 0.3 else [])
            if 'inbox' not in modes and rnd.random() < 0.15:
                modes.append('inbox')
            for mode in modes:
                call = '%s(%s)' % (callee, al)
                # the console hands the value back: config objects are serialised with all fields there (F-C19-c, probed
                # separately), so the generic probes return the JSON text of the result instead of the object
                out.append((mode, 0, 'Json.encode(%s)' % call if mode == 'console' else call, base + ' ' + cb))
    return out


def model_predicted_failures(cases):
    """indices of the cases in which the extracted model, evaluated over the CURRENT source facts, predicts a write or a hidden
    read (the known findings aside): on an unchanged tree none; after a source change that breaks a premise these are the
    inputs on which the model's evaluator exhibits the consequence"""
    if not os.path.exists(core.VMODEL):
        return set()
    wd = tempfile.mkdtemp(prefix='sbpred_', dir=core.B)
    try:
        tmp = [{'id': i + 1, 'lines': c['lines']} for i, c in enumerate(cases)]
        got = core.run_model_shard((HEADER, tmp, wd, 0, 300))
    except Exception:
        return set()
    finally:
        shutil.rmtree(wd, ignore_errors=True)
    bad = set()
    for i, c in enumerate(cases):
        if c['tags'].get('family') in ('hidden-global', 'console-returns-object', 'registry'):
            continue
        if any(l.startswith('sb_probe') and (' changed=1' in l or ' hidden=1' in l) for l in got.get(i + 1, [])):
            bad.add(i)
    return bad


def generate(seed, tier):
    """tier 'search' (the runner's failing-input search after a broken proof / correspondence): a population of quick-tier
    size from another seed, the cases the MODEL predicts to fail first"""
    search = tier == 'search'
    if search:
        tier = 'quick'
    cases = _generate(seed, tier)
    skip = [x for x in os.environ.get('VERIF_C19_SKIP_FAMILIES', '').split(',') if x]     # test knob: exercise the search path
    if skip and not search:
        cases = [c for c in cases if c['tags'].get('family') not in skip]
    if search:
        bad = model_predicted_failures(cases)
        cases = [c for i, c in enumerate(cases) if i in bad] + [c for i, c in enumerate(cases) if i not in bad]
        if cases:
            cases[0]['tags']['model_predicted_failing_cases'] = len(bad)
    return cases


def _generate(seed, tier):
    rnd = random.Random(seed)
    fns, types, hidden = enumerate_live()
    cases = []

    def add(lines, fam, **tags):
        t = {'family': fam}
        t.update(tags)
        cases.append({'lines': lines, 'tags': t})
    # 0. the live registry against the source facts
    add(['sb_fn name=%s' % hx(f['name']) for f in fns], 'registry')
    uid = [seed * 1000]

    def fresh(code):
        uid[0] += 1
        return code.replace('@', str(uid[0]))
    # 1. statement forms
    for form, tmpl, plain, modes in FORMS:
        lines = []
        k = 0
        for mode in (modes or ('filter', 'event', 'inbox', 'console')):
            for marker in (1, 0):
                # outer=1: the entry point is called while a non-sandboxed ScriptFrame lies on the thread's frame stack; outer=2: from
                # inside a native function run through Function::Invoke (how the built-in check functions emit check result events)
                for outer in (0, 1, 2):
                    k += 1
                    code = fresh(tmpl) % (M if marker else fresh(plain))
                    lines.append(probe(k, mode, marker, code, 'kind=form form=%s%s' % (form, OUTER[outer])))
        add(lines, 'statement-form', form=form)
    # 1b. WRITERS x POSITIONS x LEFT-HAND SIDES
    ps = writer_position_probes(fns, rnd, tier)
    for j in range(0, len(ps), 40):
        lines = []
        for i, (mode, code, desc) in enumerate(ps[j:j + 40]):
            lines.append(probe(i + 1, mode, 0, fresh(code), desc + outer_rot(i + j // 40)))
        add(lines, 'writer-position')
    # 2. every live function / prototype method
    skipped = []
    for fn in fns:
        ps = call_probes(fn, rnd, tier)
        if ps is None:
            skipped.append(fn['name'])
            continue
        rnd.shuffle(ps)
        lines = [probe(i + 1, mode, marker, code, desc + outer_rot(i)) for i, (mode, marker, code, desc) in enumerate(ps)]
        add(lines, 'function-call', fn=fn['name'], safe=fn['safe'])
    # 2c. PURITY: every function registered side-effect-free x every argument position (and `this`) x every live shared
    #     container / object, under deep snapshots (class changed:call:<name> on any difference)
    for fn in fns:
        if not fn['safe']:
            continue
        ps = purity_probes(fn, rnd, tier, fns)
        if not ps:
            continue
        for j in range(0, len(ps), 40):
            lines = [probe(i + 1, mode, 0, code, desc + outer_rot(i + j // 40)) for i, (mode, code, desc) in enumerate(ps[j:j + 40])]
            add(lines, 'purity', fn=fn['name'], safe=1)
    # 2d. HIDDEN READS THROUGH NATIVES: every side-effect-free function x every position x {owner of a no_user_view field,
    #     reference to the field, containers of them}; the value is handed back (console) or compared with the secret (filters)
    for fn in fns:
        if not fn['safe']:
            continue
        ps = hidden_native_probes(fn, rnd, tier, fns)
        for j in range(0, len(ps), 40):
            lines = [probe(i + 1, mode, 0, code, desc, leak=leak) for i, (mode, code, desc, leak) in enumerate(ps[j:j + 40])]
            add(lines, 'hidden-via-native', fn=fn['name'], safe=1)
    # 3. every type as constructor: VMOps::ConstructorCall has no sandbox test, so EVERY live type (enumerated from the running
    #    process) is constructed - and its temporary destroyed - inside sandboxed frames, without and with arguments, through every
    #    entry point, also below an outer script frame; besides the deep snapshots the harness compares the PROCESS-GLOBAL
    #    singletons and registries (Application / IcingaApplication / ApiListener instance, shutdown / restart flags, loggers,
    #    type and event-queue registries, dependency graph, per-type object counts): any difference = changed:construct:<Type>
    lines = []
    CT_MODES = ('console', 'filter', 'event', 'inbox', 'filterperm')
    CT_ARGS = [(0, ''), (1, '1'), (2, '"a", 1')]
    for i, t in enumerate(types):
        mode = CT_MODES[(i + seed) % 5]
        desc = 'kind=ctor ty=%s' % hx(t['name'])
        lines.append(probe(len(lines) + 1, mode, 1, 'Types.%s(%s)\n0' % (t['name'], M), desc))
        k = 0
        for n, al in CT_ARGS:
            for form in ('Types.%s(%s)', '[ Types.%s(%s) ].len()', 'typeof(Types.%s(%s))'):
                k += 1
                modes = CT_MODES if tier != 'quick' else (CT_MODES[(i + k + seed) % 5], CT_MODES[(i + k + seed + 2) % 5])
                for mode in modes:
                    call = form % (t['name'], al)
                    code = 'Json.encode(%s)' % call if mode == 'console' else call
                    outer = (i + k + len(lines)) % 3
                    lines.append(probe(len(lines) + 1, mode, 0, code, desc + ' nargs=%d restore=1%s' % (n, ' outer=%d' % outer if outer else '')))
    for j in range(0, len(lines), 20):
        add(lines[j:j + 20], 'constructor')
    # 4. every no_user_view field of every type with a live object
    objs = {t['name']: t['object'] for t in types if t['object']}
    lines = []
    k = 0
    # what the property names explicitly is probed whether or not the live type still flags it
    for ty, fld in (('ApiUser', 'password'), ('ApiListener', 'ticket_salt')):
        if ty in objs and not any(h['type'] == ty and h['field'] == fld for h in hidden):
            hidden = hidden + [{'type': ty, 'field': fld, 'live': 1}]
    for h in hidden:
        if not h['live'] or h['type'] not in objs:
            continue
        ox = 'get_object(%s, "%s")' % (h['type'], objs[h['type']])
        desc = 'kind=read ty=%s field=%s' % (hx(h['type']), hx(h['field']))
        for mode in ('console', 'filter'):
            k += 1
            lines.append(probe(k, mode, 1, '[ %s.%s, %s ]' % (ox, h['field'], M), desc))
        k += 1
        lines.append(probe(k, 'console', 0, '%s.%s' % (ox, h['field']), desc))
        if h['field'] in ('password', 'ticket_salt'):
            secret = 'sbSECRETpw' if h['field'] == 'password' else 'sbSALTfld'
            for mode in ('filter', 'event'):
                k += 1
                lines.append(probe(k, mode, 0, '%s.%s == "%s"' % (ox, h['field'], secret), desc, leak=1))
            oxs = 'get_objects(%s)' % h['type']
            for code in ('(&%s.%s).get()' % (ox, h['field']), '*(&%s.%s)' % (ox, h['field']), 'Json.encode(%s)' % ox, 'string(%s)' % ox,
                         '%s.to_string()' % ox, 'keys(%s)' % ox, '%s.clone()' % ox,
                         # serialisers / stringifiers as readers: the object nested in containers, results fed to a second native
                         'Json.encode([ %s ])' % ox, 'Json.encode([ [ %s ] ])' % ox, 'Json.encode(%s)' % oxs, 'string([ %s ])' % ox,
                         '[ %s ].to_string()' % ox, '[ %s ].join(",")' % ox, '%s.map(Json.encode)' % oxs, '%s.map(string)' % oxs,
                         '%s.map(typeof)' % oxs, 'Json.decode(Json.encode(%s))' % ox, 'Json.decode(Json.encode(%s)).%s' % (ox, h['field']),
                         'Json.encode(%s.clone())' % ox, 'Json.encode(%s.shallow_clone())' % oxs, 'Json.encode(SbSecD)', 'Json.encode(SbSecA)',
                         'Json.encode(SbSecNest)', 'Json.encode(SbSecRefs)', 'SbSecD.values()', 'SbSecD.to_string()', 'string(SbSecNest)',
                         'Json.encode(SbSecD.values())', 'Json.encode(SbSecD.shallow_clone())', 'SbSecA.map(Json.encode)',
                         'Json.encode(union(SbSecA, [ %s ]))' % ox, 'Json.encode(intersection(%s, %s))' % (oxs, oxs),
                         'Json.encode(SbSecRefs.r.get())', 'SbSecRefs.a.map(r => r)'.replace('r => r', 'string'),
                         'Json.encode(%s.__name)' % ox, 'parse_performance_data(Json.encode(%s))' % ox):
                k += 1
                lines.append(probe(k, 'console', 0, code, desc))
            secret_q = '"%s"' % secret
            for code in ('match("*%s*", Json.encode(%s))' % (secret[:5], ox), 'match("*%s*", Json.encode(%s))' % (secret[:5], oxs),
                         'match("*%s*", string([ %s ]))' % (secret[:5], ox), 'Json.decode(Json.encode(%s)).%s == %s' % (ox, h['field'], secret_q),
                         'match("*%s*", Json.encode(SbSecD))' % secret[:5], 'match("*%s*", Json.encode(SbSecNest))' % secret[:5],
                         '%s in SbSecD.values()' % secret_q, 'match("*%s*", %s.map(Json.encode).join(","))' % (secret[:5], oxs)):
                for mode in ('filter', 'event'):
                    k += 1
                    lines.append(probe(k, mode, 0, code, desc, leak=1))
    for j in range(0, len(lines), 25):
        add(lines[j:j + 25], 'hidden-field')
    # 4b. the same fields as BARE identifiers resolved through `using <live object>` (VMOps::FindVarImport)
    lines = []
    k = 0
    for h in hidden:
        if not h['live'] or h['type'] not in objs:
            continue
        ox = 'get_object(%s, "%s")' % (h['type'], objs[h['type']])
        desc = 'kind=using ty=%s field=%s' % (hx(h['type']), hx(h['field']))
        modes = ('console', 'filter', 'event') if h['field'].startswith('password') else (('console', 'filter', 'event')[(k + seed) % 3],)
        for mode in modes:
            k += 1
            lines.append(probe(k, mode, 1, 'using %s\n[ %s, %s ].len()' % (ox, h['field'], M), desc))
        k += 1
        lines.append(probe(k, 'console', 0, 'using %s\n%s' % (ox, h['field']), desc))
        if h['field'] in ('password', 'ticket_salt'):
            secret = 'sbSECRETpw' if h['field'] == 'password' else 'sbSALTfld'
            for mode in ('filter', 'filterperm', 'event'):
                k += 1
                lines.append(probe(k, mode, 0, 'using %s\n%s == "%s"' % (ox, h['field'], secret), desc, leak=1))
                k += 1
                lines.append(probe(k, mode, 0, 'using %s\nmatch("%s*", %s)' % (ox, secret[:6], h['field']), desc, leak=1))
    # controls: `using` does resolve bare identifiers of a live object (a visible field is readable)
    for ty, fld in (('Host', 'address'), ('ApiUser', 'permissions')):
        if ty in objs:
            for mode in ('console', 'filter'):
                k += 1
                lines.append(probe(k, mode, 1, 'using get_object(%s, "%s")\n[ %s, %s ].len()' % (ty, objs[ty], fld, M),
                                   'kind=using ty=%s field=%s' % (hx(ty), hx(fld))))
    for j in range(0, len(lines), 25):
        add(lines[j:j + 25], 'hidden-field-via-using')
    # 2b. every UNSAFE function reachable from the globals / the prototypes, handed as CALLBACK to every callback-taking
    #     safe method, through the real GetFilterTargets path (without and with a permission filter) and event filters
    hof = [f for f in fns if f['safe'] and f['path'].startswith('@Array.') and
           any(a in f['args'].split(',') for a in ('func', 'less_cmp', 'reduce', 'callback', 'cmp'))]
    unsafe = [f for f in fns if not f['safe']]
    for cbf in unsafe:
        if cbf['path'].startswith('@'):
            ty, key = cbf['path'][1:].split('.', 1)
            rcv = {'Namespace': 'globals', 'Array': 'SbArr', 'Dictionary': 'SbDict', 'Object': HOST, 'ConfigObject': HOST,
                   'Checkable': HOST, 'Function': 'regex', 'Type': 'Host', 'Reference': '(&SbArr)', 'DateTime': 'DateTime()'}.get(ty)
            if rcv is None:
                continue
            cbx = '%s.%s' % (rcv, key)
        else:
            cbx = cbf['path']
        ps = []
        for m_ in hof:
            key = m_['path'].split('.', 1)[1]
            desc = ('kind=call fn=%s recv=lit rty=%s key=%s lsafe=1 cb=native cbn=%s' % (hx(m_['name']), hx('Array'), hx(key), hx(cbf['name'])))
            modes = ['filter', 'filterperm'] + (['event', 'inbox', 'console'] if tier != 'quick' else [('event', 'inbox', 'console')[rnd.randrange(3)]])
            for mode in modes:
                uid[0] += 1
                ps.append((mode, 0, '[ "SbCb%d", 1 ].%s(%s)\n0' % (uid[0], key, cbx), desc))
        lines = [probe(i + 1, mode, marker, code, desc + outer_rot(i)) for i, (mode, marker, code, desc) in enumerate(ps)]
        add(lines, 'unsafe-callback', cb=cbf['name'])
    # 5. hidden globals (F-C19-b), each in a case of its own
    for mode, code, leak in (('console', 'TicketSalt', 0), ('console', 'globals.TicketSalt', 0), ('filter', 'TicketSalt == "sbSALTval"', 1),
                             ('event', 'TicketSalt == "sbSALTval"', 1), ('console', 'globals.values()', 0),
                             ('console', 'Json.encode(globals)', 0),
                             ('filter', '"sbSALTval" in globals.values()', 1)):
        add([probe(1, mode, 0, code, 'kind=global name=%s' % hx('TicketSalt'), leak=leak)], 'hidden-global')
    # 6. a config object handed back through the console (F-C19-c), each in a case of its own
    add([probe(1, 'console', 0, 'get_object(ApiUser, "sbu")', 'kind=retobj ty=%s' % hx('ApiUser'))], 'console-returns-object')
    add([probe(1, 'console', 0, 'get_objects(ApiUser)', 'kind=retobj ty=%s' % hx('ApiUser'))], 'console-returns-object')
    cases[0]['tags']['skipped_prototypes'] = skipped
    return cases


def canon(lines):
    out = []
    for l in lines:
        if l.startswith('# '):
            continue
        out.append(' '.join(t for t in l.split() if not t.startswith('i_')))
    return out


def nontrivial(case, impl_lines):
    for l in impl_lines:
        if l.startswith('sb_probe') and ('i_res=ok' in l or 'i_res=err' in l):
            return True
    return any(l.startswith('fn ') for l in impl_lines)


def classify(case, detail, impl_lines):
    d = dict(x.split('=', 1) for x in detail.split() if '=' in x)
    clause, what, mode = d.get('clause', ''), d.get('what', ''), d.get('mode', '')
    if clause == 'crash':
        return 'crash'
    if clause == 'changed' and what == 'form:const':
        return 'const-in-sandbox'
    if clause == 'hidden' and what == 'global:TicketSalt':
        return 'ticketsalt-global-readable'
    # Application::~Application() resets the process-global instance: only the singleton section differs, only for that type
    if clause == 'changed' and what == 'construct:IcingaApplication' and d.get('diff', '') == '~singletons':
        return 'application-dtor-resets-instance'
    if clause == 'hidden' and what.startswith('retobj:') and mode == 'console':
        return 'console-returns-hidden-fields'
    return '%s:%s' % (clause, what)


def keep_line(l):
    return False


def extra_stats(cases, impl):
    st = collections.Counter()
    fns_called, fns_ok = set(), set()
    for c in cases:
        il = [l for l in impl.get(c['id'], []) if l.startswith('sb_probe')]
        pl = [l for l in c['lines'] if l.startswith('sb_probe')]
        for p, l in zip(pl, il):
            kind = [t for t in p.split() if t.startswith('kind=')][0][5:]
            marker = ' marker=1 ' in p
            st['probes_' + kind] += 1
            if marker:
                for v in ('allowed', 'stopped', 'ok'):
                    if ' verdict=%s ' % v in l:
                        st['marker_%s_%s' % (kind, v)] += 1
            elif kind == 'call':
                fn = c['tags'].get('fn')
                fns_called.add(fn)
                if ' mode=event ' in l or ' mode=inbox ' in l:
                    st['calls_in_event_filters_result_not_observable'] += 1     # EventQueue swallows errors
                elif 'i_res=ok' in l:
                    st['calls_executed_ok'] += 1
                    fns_ok.add(fn)
                elif 'i_res=err' in l:
                    st['calls_raised_error'] += 1
            elif 'i_res=ok' in l:
                st['plain_%s_ok' % kind] += 1
        for l in impl.get(c['id'], []):
            if l.startswith('fn '):
                st['live_functions'] += 1
                if ' safe=1' in l:
                    st['live_functions_safe'] += 1
    # purity probes: per safe function, the positions (s = this, 0.. = argument) at which a live shared container was handed in
    # and the call returned normally in a mode where that is observable
    pos_ok, pos_all = collections.defaultdict(set), collections.defaultdict(set)
    for c in cases:
        fam = c['tags'].get('family')
        if fam not in ('purity', 'hidden-via-native'):
            continue
        il = [l for l in impl.get(c['id'], []) if l.startswith('sb_probe')]
        pl = [l for l in c['lines'] if l.startswith('sb_probe')]
        for p, l in zip(pl, il):
            st['%s_probes' % fam.replace('-', '_')] += 1
            ok = 'i_res=ok' in l and ' mode=event ' not in l and ' mode=inbox ' not in l
            if ok:
                st['%s_returned_ok' % fam.replace('-', '_')] += 1
            if fam == 'purity':
                sh = [t for t in p.split() if t.startswith('shpos=')]
                for q in (sh[0][6:].split(',') if sh else []):
                    if q and q != '-':
                        pos_all[c['tags']['fn']].add(q)
                        if ok:
                            pos_ok[c['tags']['fn']].add(q)
    # writers x positions x left-hand sides: every cell of the matrix must get past the PARSER (a cell that never compiles tests nothing)
    cells, cells_ok, lhs_ok, plc = set(), set(), set(), set()
    for c in cases:
        if c['tags'].get('family') != 'writer-position':
            continue
        il = [l for l in impl.get(c['id'], []) if l.startswith('sb_probe')]
        pl = [l for l in c['lines'] if l.startswith('sb_probe')]
        for p, l in zip(pl, il):
            t = dict(x.split('=', 1) for x in p.split() if '=' in x)
            w = t.get('w') if t.get('w') != 'set' else 'set:' + t.get('lhs', '')
            cell = (w, t.get('form'), t.get('ctx'))
            cells.add(cell)
            plc.add((t.get('form'), t.get('ctx')))
            st['wpos_probes'] += 1
            if ' i_compiles=1' in l:
                st['wpos_compiled'] += 1
                cells_ok.add(cell)
            if ' i_res=ok' in l and ' mode=event ' not in l and ' mode=inbox ' not in l:
                st['wpos_evaluated_without_error'] += 1         # e.g. swallowed by try/except, closures that are only built
    st['wpos_cells_writer_x_placement'] = len(cells)
    st['wpos_placements'] = len(plc)
    st['wpos_cells_never_compiled'] = sorted('%s@%s.%s' % c for c in cells - cells_ok)[:40]
    st['purity_function_positions_probed'] = sum(len(v) for v in pos_all.values())
    st['purity_function_positions_with_successful_call'] = sum(len(v) for v in pos_ok.values())
    st['purity_functions_without_successful_call_on_live_container'] = sorted(f for f in pos_all if not pos_ok[f])
    safe_fns = {c['tags']['fn'] for c in cases if c['tags'].get('family') == 'function-call' and c['tags'].get('safe')}
    st['safe_functions'] = len(safe_fns)
    st['safe_functions_without_successful_execution'] = sorted(safe_fns - fns_ok)
    st['functions_probed'] = len(fns_called)
    st['functions_with_a_successful_execution'] = len(fns_ok)
    st['prototype_methods_without_receiver_table_entry'] = len(cases[0]['tags'].get('skipped_prototypes', [])) if cases else 0
    return dict(st)
