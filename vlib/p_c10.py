"""C10 - HA authority.  Generators for the correspondence run (real ApiListener::UpdateObjectAuthority on real
Endpoint/Zone/Host/Service/Notification/Downtime/Comment/User objects against the extracted Gallina model)."""
import random, itertools, os, re

PID = 'C10'
HEADER = []
T0 = 2000000000
RULE = ('(1) Utility::SDBM and String::operator< on raw byte strings: empty, ASCII, UTF-8, bytes >= 0x80, up to 1000 bytes (object names in event cases up to 80 bytes: the extracted model hashes with unary-free but slow Z arithmetic), common prefixes; '
        '(2) exhaustive event sequences (timer A/B, connect, disconnect, restart+run of B, advance to one second before the end of the cold-start '
        'window, advance one second) of the stated length on a two-member zone, for both relative orders of the endpoint names and both creation orders; '
        '(3) random sequences of up to 60 events (one-sided connect/disconnect, restart without run, SendNotifications, notification-component timer with '
        'enable_ha on/off, clock steps across the window boundary at -1/0/+1 s) over zones with no/one/two members, every relative order of endpoint names '
        '(ASCII, UTF-8, prefix pairs), objects of every run-once type plus run-everywhere and inactive ones, names ASCII/UTF-8/long. '
        '(4) real threads: n in 2..8 threads released together by a barrier call the real UpdateObjectAuthority() (and, mixed, SetAuthority(false)) on a registered object with counted, randomly delayed Resume()/Pause(), 150 rounds per case (1500 thorough); the observed call sequences must alternate and agree with the final flag (judged by the extracted auc_round_ok, not compared with the model). non-trivial = at least one authority run and two events, or at least ten hash/order comparisons; distinct = distinct script text')
TRUSTED = ['model: coq/Auth/AuModel.v (transcription of Utility::SDBM, ApiListener::UpdateObjectAuthority, ConfigObject::SetAuthority and of the paused-guards of '
           'Checkable::SendNotifications, NotificationComponent::NotificationTimerHandler, CheckerComponent::ObjectHandler)',
           'source facts re-extracted each run (coq/Facts/Facts_c10.v): length and strictness of the cold-start window (parameters of the model, the theorems hold for all values); '
           'shape of SDBM / sort / SetAuthority / the three guards are recognised and logged, not used by a proof (compared only)',
           'the two cluster nodes share one vdrive process: harness/ops_au.cpp swaps in the per-node state (paused, start time, UpdatedObjectAuthority, clients of the peer '
           'endpoint, notification_number, stashed_notifications) before an operation of that node; a restart is simulated by restoring what the real constructor yields for paused',
           'ApiListener is constructed without OnConfigLoaded (no PKI) and its local endpoint is set by the harness; the peer is marked connected by a real, never started '
           'JsonRpcConnection registered through Endpoint::AddClient',
           'char is signed on this platform (parameter au_p_signed = true, confirmed by the SDBM comparison on bytes >= 0x80); hook H1 (virtual clock)']
ASSUMPTIONS = ['timestamps are whole seconds', 'concurrent model: loads/stores of paused are atomic (std::atomic<bool>), ObjectLock is mutual exclusion, Resume()/Pause() and the store to paused are separate steps in source order', 'both nodes run the same binary on platforms with the same signedness of char',
               'endpoint names of a zone are pairwise different (enforced by the config compiler)',
               'run-everywhere objects are produced by SetHAMode after activation (no feature with HARunEverywhere is linked into the harness)']
TIMEOUT = 900


def hx(s):
    if isinstance(s, str):
        s = s.encode('utf-8')
    return s.hex() if s else '-'


def window():
    """length of the cold-start window as the source has it now (aims the clock steps at the boundary)"""
    try:
        here = os.path.dirname(os.path.dirname(os.path.abspath(__file__)))
        m = re.search(r'f_au_window : option Z := Some \((\d+)\)', open(here + '/coq/Facts/Facts_c10.v').read())
        return int(m.group(1)) if m else 30
    except OSError:
        return 30


EP_PAIRS = [('a', 'b'), ('node-1', 'node-10'), ('Z', 'a'), ('icinga2-master1.localdomain', 'icinga2-master2.localdomain'),
            ('ä', 'z'), ('日本', '日'), ('m', 'm2'), ('sat-' + 'x' * 60, 'sat-' + 'x' * 59 + 'y')]
HOSTS = ['h1', 'h2', 'web-01', 'db.example.org', 'A', 'räksmörgås', '日本語', 'host with space', 'L' * 80, 'L' * 79 + 'M', '0', 'zz']
SVCS = ['ping', 'http', 's', 'disk /', 'über']
SMALL = ['mail', 'n1', 'x', 'd-é']


def objects(rnd, rich):
    """-> au_obj lines"""
    lines = []
    hosts = rnd.sample(HOSTS, rnd.randint(1, 3) if rich else 2)
    for i, h in enumerate(hosts):
        inactive = rich and i > 0 and rnd.random() < 0.15
        lines.append('au_obj kind=host h=%s%s' % (hx(h), ' active=0' if inactive else ''))
        if inactive:
            continue
        if rich:
            for s in rnd.sample(SVCS, rnd.randint(0, 2)):
                lines.append('au_obj kind=service h=%s s=%s' % (hx(h), hx(s)))
                if rnd.random() < 0.6:
                    lines.append('au_obj kind=notification h=%s s=%s n=%s' % (hx(h), hx(s), hx(rnd.choice(SMALL))))
                if rnd.random() < 0.3:
                    lines.append('au_obj kind=comment h=%s s=%s n=%s' % (hx(h), hx(s), hx(rnd.choice(SMALL))))
            if rnd.random() < 0.7:
                lines.append('au_obj kind=notification h=%s n=%s' % (hx(h), hx(rnd.choice(SMALL))))
            if rnd.random() < 0.5:
                lines.append('au_obj kind=downtime h=%s n=%s' % (hx(h), hx(rnd.choice(SMALL))))
            if rnd.random() < 0.3:
                lines.append('au_obj kind=comment h=%s n=%s' % (hx(h), hx(rnd.choice(SMALL))))
    if rich:
        if rnd.random() < 0.5:
            lines.append('au_obj kind=user n=%s once=0' % hx('every-' + rnd.choice(SMALL)))
        if rnd.random() < 0.3:
            lines.append('au_obj kind=user n=%s' % hx('u-' + rnd.choice(SMALL)))
    return lines


def cfg_line(lay, a, b, order, create, z):
    return 'au_cfg lay=%s a=%s b=%s order=%s create=%s z=%d' % (lay, hx(a), hx(b), order, create, z)


def gen_hash(rnd, n):
    lines = ['now %d' % T0]
    for _ in range(n):
        k = rnd.random()
        if k < 0.1:
            s = b''
        elif k < 0.4:
            s = bytes(rnd.randint(0, 255) for _ in range(rnd.randint(1, 12)))
        elif k < 0.6:
            s = rnd.choice(HOSTS + SVCS).encode('utf-8') + (b'!' + rnd.choice(SVCS).encode('utf-8') if rnd.random() < 0.5 else b'')
        elif k < 0.8:
            s = bytes(rnd.choice((0x7f, 0x80, 0xff, 0x00, 0x41, 0xc3)) for _ in range(rnd.randint(1, 40)))
        elif k < 0.97:
            s = bytes(rnd.randint(0, 255) for _ in range(rnd.randint(13, 80)))
        else:
            s = bytes(rnd.randint(0, 255) for _ in range(rnd.randint(100, 1000)))
        lines.append('au_sdbm %s' % hx(s))
        if rnd.random() < 0.5:
            t = bytes(rnd.choice((0x00, 0x41, 0x7f, 0x80, 0xff)) for _ in range(rnd.randint(0, 4)))
            u = t + bytes(rnd.choice((0x00, 0x41, 0x7f, 0x80, 0xff)) for _ in range(rnd.randint(0, 2)))
            x, y = (t, u) if rnd.random() < 0.5 else (u, t)
            lines.append('au_lt %s %s' % (hx(x), hx(y)))
    return {'lines': lines, 'tags': {'family': 'sdbm-and-name-order'}}


def gen_exhaustive(L, W, chunk=40):
    """all sequences of length L over the alphabet; `chunk' sequences share one configuration and are
    separated by a restart of both nodes (new processes: objects fresh, start time unset, not connected)"""
    letters = ['tA', 'tB', 'c', 'd', 'rB', 'wB', 'w1']
    seqs = [s for s in itertools.product(letters, repeat=L) if 'tA' in s or 'tB' in s]
    variants = [('a', 'b', 'ab', 'ab'), ('b', 'a', 'ba', 'ba'), ('ä', 'z', 'ab', 'ba'), ('node-1', 'node-10', 'ba', 'ab')]
    cases = []
    for z, k in enumerate(range(0, len(seqs), chunk)):
        a, b, order, create = variants[z % len(variants)]
        t = T0
        lines = ['now %d' % t, cfg_line('two', a, b, order, create, z + 1), 'au_obj kind=host h=%s' % hx('h1'), 'au_obj kind=host h=%s' % hx('h2'),
                 'au_begin']
        for seq in seqs[k:k + chunk]:
            t += 1
            lines += ['now %d' % t, 'au_restart A', 'au_restart B', 'au_run A', 'au_run B']
            for s in seq:
                if s == 'tA': lines.append('au_timer A')
                elif s == 'tB': lines.append('au_timer B')
                elif s == 'c': lines += ['au_connect A', 'au_connect B']
                elif s == 'd': lines += ['au_disconnect A', 'au_disconnect B']
                elif s == 'rB': lines += ['au_restart B', 'au_disconnect A', 'au_run B']
                elif s == 'wB':
                    t += W - 1
                    lines.append('now %d' % t)
                elif s == 'w1':
                    t += 1
                    lines.append('now %d' % t)
        cases.append({'lines': lines, 'tags': {'family': 'exhaustive-L%d' % L, 'sequences': len(seqs[k:k + chunk])}})
    return cases


def gen_random(rnd, z, W, maxlen):
    lay = rnd.choice(('two', 'two', 'two', 'two', 'one', 'none'))
    a, b = rnd.choice(EP_PAIRS)
    if rnd.random() < 0.5:
        a, b = b, a
    t = T0
    lines = ['now %d' % t, cfg_line(lay, a, b, rnd.choice(('ab', 'ba')), rnd.choice(('ab', 'ba')), z)]
    lines += objects(rnd, True)
    lines.append('au_begin')
    n = rnd.randint(3, maxlen)
    steps = (0, 0, 1, 1, 5, 10, W - 1, W, W + 1, W - 2)
    since = {'A': None, 'B': None}
    for _ in range(n):
        k = rnd.random()
        x = rnd.choice('AB')
        if k < 0.30:
            lines.append('au_timer %s' % x)
        elif k < 0.40:
            lines += ['au_connect A', 'au_connect B']
        elif k < 0.46:
            lines.append('au_connect %s' % x)
        elif k < 0.52:
            lines += ['au_disconnect A', 'au_disconnect B']
        elif k < 0.57:
            lines.append('au_disconnect %s' % x)
        elif k < 0.63:
            lines.append('au_restart %s' % x)
            since[x] = None
            if rnd.random() < 0.5:
                lines.append('au_disconnect %s' % ('B' if x == 'A' else 'A'))
            if rnd.random() < 0.8:
                if rnd.random() < 0.3:
                    lines.append('au_timer %s' % x)     # daemon start-up calls it before the start time is set
                lines.append('au_run %s' % x)
                since[x] = t
        elif k < 0.68:
            lines.append('au_run %s' % x)
            since[x] = t
        elif k < 0.76:
            lines.append('au_notify %s' % x)
        elif k < 0.82:
            lines.append('au_nctimer %s ha=%d' % (x, rnd.randint(0, 1)))
        else:
            # aim at the boundary of the node that (re)started last
            st = since[x]
            if st is not None and rnd.random() < 0.5 and st + W - 1 >= t:
                t = st + W + rnd.choice((-1, 0, 1))
            else:
                t += rnd.choice(steps)
            lines.append('now %d' % t)
    return {'lines': lines, 'tags': {'family': 'random-%s' % lay}}


def gen_concurrent(rnd, tier):
    """real threads: n threads released together call the real UpdateObjectAuthority()/SetAuthority on a counted object"""
    rounds = {'quick': 150, 'thorough': 1500, 'search': 300}.get(tier, 150)
    cases = []
    for n, p0, mix in ((4, 1, 0), (8, 1, 0), (2, 1, 0), (4, 0, 1), (8, 1, 1), (3, 1, 1), (6, 0, 0)):
        lines = ['now %d' % T0, 'au_conc n=%d rounds=%d p0=%d mix=%d delay=%d seed=%d' % (n, rounds, p0, mix, rnd.choice((0, 50, 150)), rnd.randint(1, 10 ** 6))]
        cases.append({'lines': lines, 'tags': {'family': 'concurrent-real-threads'}})
    return cases


def canon(lines):
    """the observed call sequences depend on the thread schedule: they are judged by the oracle, not compared"""
    return [re.sub(r' seqs=\S*', '', l) if l.startswith('cc ') else l for l in lines]


def generate(seed, tier):
    rnd = random.Random(seed)
    W = window()
    cases = gen_concurrent(rnd, tier)
    nh = {'quick': 30, 'thorough': 400, 'search': 60}.get(tier, 30)
    for _ in range(nh):
        cases.append(gen_hash(rnd, 60))
    # short random cases first: the runner shrinks the first failing case of a class
    nr = {'quick': 1000, 'thorough': 12000, 'search': 2000}.get(tier, 1000)
    rc = [gen_random(rnd, 100000 + i, W, 60 if i % 3 == 0 else 20) for i in range(nr)]
    rc.sort(key=lambda c: len(c['lines']))
    cases += rc
    L = {'quick': 5, 'thorough': 6, 'search': 4}.get(tier, 5)
    cases += gen_exhaustive(L, W)
    return cases


def nontrivial(case, impl_lines):
    ls = case['lines']
    ev = [l for l in ls if l.startswith('au_') and not l.startswith(('au_cfg', 'au_obj', 'au_begin', 'au_sdbm', 'au_lt'))]
    if any(l.startswith('au_timer') for l in ls) and len(ev) >= 2:
        return True
    if any(l.startswith('au_conc') for l in ls):
        return True
    return sum(1 for l in ls if l.startswith(('au_sdbm', 'au_lt'))) >= 10


def classify(case, detail, impl_lines):
    if 'crash' in detail or 'missing-observation' in detail:
        return 'crash'
    if 'sdbm-differs' in detail:
        return 'hash'
    if 'name-order' in detail:
        return 'name-order'
    if 'object-' in detail:
        return 'object-identity'
    m = re.search(r'kind=(\w+)', detail)
    return 'authority-' + (m.group(1) if m else 'unknown')


def keep_line(l):
    return l.startswith(('au_cfg', 'au_obj', 'au_begin', 'au_conc'))


def extra_stats(cases, impl):
    st = {'timer_runs': 0, 'timer_runs_cold_or_unchanged': 0, 'pause_calls': 0, 'resume_calls': 0, 'sdbm_compared': 0, 'name_order_compared': 0,
          'notifications_sent': 0, 'notify_ops': 0, 'concurrent_rounds': 0, 'concurrent_distinct_call_sequences': 0, 'concurrent_sequences_with_2plus_calls': 0, 'both_connected_timer_runs': 0, 'objects_observed': 0, 'hash_high_byte_names': 0}
    for c in cases:
        conn = {'A': False, 'B': False}
        for l in impl.get(c['id'], []):
            p = l.split()
            if not p:
                continue
            if p[0] == 'tm':
                st['timer_runs'] += 1
                kv = dict(t.split('=', 1) for t in p[2:] if '=' in t)
                pa = sum(int(d) for d in kv.get('pa', '') if d.isdigit())
                re_ = sum(int(d) for d in kv.get('re', '') if d.isdigit())
                st['pause_calls'] += pa
                st['resume_calls'] += re_
                if pa + re_ == 0:
                    st['timer_runs_cold_or_unchanged'] += 1
                if conn.get(p[1]):
                    st['both_connected_timer_runs'] += 1
            elif p[0] == 'cn':
                conn[p[1]] = p[2] == '1'
            elif p[0] == 'rs':
                conn[p[1]] = False
            elif p[0] == 'sdbm':
                st['sdbm_compared'] += 1
            elif p[0] == 'lt':
                st['name_order_compared'] += 1
            elif p[0] in ('nf', 'nt'):
                st['notify_ops'] += 1
                kv = dict(t.split('=', 1) for t in p[2:] if '=' in t)
                st['notifications_sent'] += sum(int(d) for d in kv.get('sent', '') if d.isdigit())
            elif p[0] == 'cc':
                kv = dict(t.split('=', 1) for t in p[1:] if '=' in t)
                st['concurrent_rounds'] += int(kv.get('rounds', 0))
                sq = [x for x in kv.get('seqs', '').split(',') if x]
                st['concurrent_distinct_call_sequences'] += len(sq)
                st['concurrent_sequences_with_2plus_calls'] += sum(1 for x in sq if len(x.split(':')[1]) >= 2)
            elif p[0] == 'objs':
                st['objects_observed'] += len(p) - 1
        for l in c['lines']:
            if l.startswith('au_sdbm ') and re.search(r'(?:^|\s)(?:[0-9a-f]{2})*[89a-f][0-9a-f](?:[0-9a-f]{2})*$', l.split()[1]):
                st['hash_high_byte_names'] += 1
    st['cold_start_window_s'] = window()
    return st
