"""C18 - API authorisation: permission and its filter are enforced on every access path.
Generators for the correspondence run (real ApiUser / Host / Service objects, real FilterUtility and HTTP handlers
against the extracted Gallina model)."""
import random, itertools, binascii, re

PID = 'C18'
HEADER = []
RULE = ('(a) Utility::Match against the Gallina glob matcher: ALL patterns of length <= 4 over {a,B,*,?,\\} x all texts of length <= 3 '
        'over {a,b,*,?,\\} (quick; <= 4 thorough) plus random permission-like pairs; '
        '(b) per case one random inventory (<= 4 hosts x <= 2 services, names colliding up to case, vars present/absent, navigation '
        'references check_command / check_period / event_command / command_endpoint present or null), one ApiUser with '
        '<= 4 permission entries (plain strings, {permission, filter} with real DSL lambdas, wildcards * ? \\*, mixed case, several '
        'matching entries with and without filter, filters that throw on hosts, filters reading a joined object such as '
        'command_endpoint.name), then 6-12 operations: HasPermission/CheckPermission for '
        'every registered required permission, GetFilterTargets with the QueryDescriptions of the object query/modify/delete handlers and '
        'of the actions handler (single name, plural lists, type only, type+filter, fast-path shapes and near misses, filter_vars, mixtures, '
        'missing/invalid/foreign type, names containing "!" or differing in case, default provider (fast path) and counting provider), and the '
        'real handlers through HttpHandler::ProcessRequest (GET/POST/DELETE /v1/objects/<type>[/<name>], POST /v1/actions/reschedule-check, '
        'joins); family nav-order: targets with a null reference evaluated right after targets with a non-null one, in inventory '
        'order, plural-name list order and fast-path order; family env-separation: the permission filter mentions a global constant (string, array, NodeName; '
        'declared per case through ScriptGlobal), the request carries filter_vars of that very name with a value that would flip the verdict (and names of navigation fields, this, globals), '
        'the user filter is on the generic path (match / regex / len / in) or on the targeted fast path, through GetFilterTargets with every handler\'s QueryDescription and the HTTP handlers; '
        'family join-same-name: Hosts named like CheckCommand / EventCommand / TimePeriod / Endpoint / Zone objects of the fixture, permissions differing per joined type, several joins per request '
        'in every order, hosts and services as primary type, every serialised join observed; 45% of the mixed cases also declare globals and use free-name / function-call atoms. family attrs (round 5): GET /v1/objects/<type> through the real ObjectQueryHandler with every shape of attrs (absent, empty, ordinary fields, [config, navigation] fields, the object-valued navigation field Service.host, no_user_view fields, unknown names, fields of the other type), joins (bare prefix, <join>.<field> with ordinary / hidden / unknown fields, foreign prefixes), all_joins and meta (used_by, location, unknown), for users whose permission for the joined types is absent / plain / filtered: the KEY SET of every attrs dictionary, the joined objects, every config object embedded anywhere in a serialised value and the number of hidden fields among the keys are observed; one case compares the live reflection data of Host, Service, CheckCommand, EventCommand, TimePeriod, Endpoint with the regenerated field tables; family race (round 5): directed schedules - a modify / delete / action / query request (by URL name, name parameter, name list, type scan, fast path) is parked while the permission filter evaluates the target, another writer takes the name lock, deletes the target and creates a new object of the same name with other attributes, the request continues: which OBJECT was acted on is observed. family permission-history (round 6): one user, a required permission, 2-4 requests (HasPermission, GetFilterTargets with both providers, the query / modify / delete / action handlers, the attribute query), then 1-4 rounds of [change the user\'s permissions in the running process: narrow / widen / revoke / add filter / remove filter / near miss through ModifyAttribute or - lists without filter - through POST /v1/objects/apiusers/<name> as another user, RestoreAttribute, delete + re-create the user object] followed by the SAME requests again plus fresh ones; family keepalive-identity (round 6): 2-4 additional ApiUsers (passwords incl. one containing a colon, names differing in case, some with client_cn; permission lists of different power), 1-4 real HttpServerConnections per case over TLS on a socketpair (25% with a certificate CN: of a user, of nobody), 6-12 steps: GET /v1/objects/<type> with valid credentials of changing users, wrong / prefix / extended / case-changed / empty password, unknown / deleted / case-changed user, credentials without colon, no header, other schemes (Bearer, basic, BASIC, Digest, bare Basic, bare base64), Connection: close, interleaved with runtime changes of users (permissions set / restored, user deleted, deleted and re-created with another password); requests are also sent on connections that correct code has already closed. non-trivial = the case contains a query that returned at least one object or was refused (401 / 404 / error); distinct = distinct script text')
TRUSTED = ['model: coq/Perm/PmModel.v (transcription of FilterUtility::HasPermission/CheckPermission/EvaluateFilter/GetFilterTargets, '
           'ApplyRule::GetTargetHosts/GetTargetServices, the filter_vars shadowing guard, the namespace resets of the permission frame, the joins loop of ObjectQueryHandler; glob matcher proved equivalent to a declarative '
           'spec and compared exhaustively with Utility::Match on short strings)',
           'filters are the DSL fragment {sc.name == "..", sc.vars.k == "..", sc.name == x, sc.vars.k == x, sc.name in x, match(x, sc.name), match("p", sc.name), len(sc.name) == n, '
           'regex("^s$", sc.name), &&, ||, !, true, false}, sc in {host, service, obj, check_command, check_period, event_command, command_endpoint}, x a free name (global constant or '
           'filter variable, string or array of strings), with three-valued evaluation (true/false/ScriptError); the rest of the DSL is C15',
           'environment of a filter frame: free names of the permission filter resolve in the global constants only, those of the user filter in filter_vars then the globals '
           '(tied by the source fact f_pm_perm_ns_private and by the env-separation family)',
           'source facts re-extracted each run: permission string and CheckPermission/GetFilterTargets call of every registered HTTP handler, '
           'navigation fields of Host/Service from the .ti files, structure of EvaluateFilter\'s binding loop (coq/Facts/Facts_c18.v)',
           'harness/ops_pm.cpp: exception classes (ScriptError / invalid_argument), object sets and HTTP status are observed; no log text',
           'attribute model coq/Perm/PmAttrs.v (transcription of ObjectQueryHandler::SerializeObjectAttrs and of the per-object part of HandleRequest: meta, attrs, joins), generic in the field table; the tables are regenerated from the .ti files and lib/base/objecttype.cpp (coq/Facts/Facts_c18.v f_pm_field_tables) and compared as sets with the live reflection data (op pm_fields); an embedded config object is recognised in a response as a dictionary with type = a config type and __name',
           'history model coq/Perm/PmUsers.v (transcription of ApiUser::GetByAuthHeader / GetByClientCN and of the identity part of HttpServerConnection::ProcessMessages; ConfigObject::ModifyAttribute / RestoreAttribute of a whole attribute = assignment / back to the config value; objects have identities, the registry maps names); the theorems are generic in the decision function of a request; Base64::Decode, the beast HTTP parser, TLS and the verification of client certificates are trusted (the harness passes the CN as identity, as ApiListener does after verification); the two configuration switches of the model are tied to the tree by the source facts f_pm_perms_read_fresh and f_pm_auth_user_per_request',
           'concurrency model coq/Perm/PmConc.v: GetFilterTargets is ONE atomic step whose result satisfies C18_only_permitted at that moment (linearised at the resolution of the target), registry operations are atomic, ObjectNameLock is mutual exclusion per name, an object keeps the attributes it had when it was authorised; the tie samples ONE directed schedule per request shape (parking inside the permission filter through a side-effect-free native function pm_sig registered by the harness; no hook in /repo)']
ASSUMPTIONS = ['ASCII permission strings and object names (String::ToLower and tolower agree on ASCII)',
               'object names are unique per type (ConfigObject registry) and contain no "!" (enforced by Icinga name validation)',
               'no empty-string values in filters (Icinga treats "" as Empty in ==)', 'filters do not mention the names EvaluateFilter binds (obj, host, service, navigation fields) as FREE names; as filter_vars KEYS those names are generated',
               'a free name keeps its kind (string / array of strings) in globals and filter_vars; regex literals are [A-Za-z0-9-]+',
               'the used_by meta list and get_object() inside user filters are outside the statement (DESIGN.md C18)',
               'attribute names and join selectors are non-empty ASCII strings; values nested inside vars never hold config objects',
               'ApiUser names are unique, non-empty, contain no colon; no ApiUser has an empty password; client_cn values are unique among the users of a case; Authorization values are well-formed (Basic + valid base64, or another scheme / no blank)',
               'histories are sequential: a user is not changed WHILE one of its requests is being processed',
               'the fixture objects are not API-created, so DELETE is refused by ConfigObjectUtility::DeleteObject for every object: for delete the race op can only observe that the NEW object stays untouched']


FREE_SHARE = [0.0]     # share of atoms with free names / function calls in random filters (set per case)


def hx(s):
    return binascii.hexlify(s.encode()).decode() if s else '-'


REQUIRED = ['objects/query/Host', 'objects/query/Service', 'objects/modify/Host', 'objects/modify/Service',
            'objects/delete/Host', 'objects/delete/Service', 'objects/create/Host', 'objects/create/Service',
            'actions/reschedule-check', 'actions/acknowledge-problem', 'actions/process-check-result', 'actions/remove-comment',
            'actions/schedule-downtime', 'actions/restart-process', 'actions/generate-ticket', 'actions/execute-command',
            'events/CheckResult', 'events/StateChange', 'status/query', 'console', 'config/query', 'config/modify',
            'templates/query/Host', 'types', 'variables', 'debug']
HOSTS = ['h1', 'H1', 'web', 'Web', 'db-1', 'a', 'A', 'ab']
SVCS = ['s1', 'S1', 'ping', 'Ping', 'a']
VKEYS = ['os', 'env', 'k']
VVALS = ['linux', 'Linux', 'win', 'prod', 'x']
FVNAMES = ['v1', 'v2', 'v3']
# global constants of the harness fixture (declared per case by pm_glob): name -> kind; NodeName is what vdrive's main() sets
GLOBALS = {'PmTeam': 's', 'PmPat': 's', 'NodeName': 's', 'PmHosts': 'a'}
NODENAME = 'vdrive-node'
FVARR = 'xs'                       # an array-valued filter variable
# names EvaluateFilter binds / keywords: as filter_vars KEYS they must stay without any effect on the permission filter
BOUNDNAMES = ['check_command', 'check_period', 'event_command', 'command_endpoint', 'this', 'globals', 'obj', 'host', 'service']
# objects of different types sharing a name (harness fixture: CheckCommand, EventCommand, TimePeriod, Endpoint, Zone)
SHARED = ['pmx', 'pmy', 'pmz']
# objects the navigation fields refer to (created once per harness process): scope char -> (script key, pool)
NAV = {'k': ('cc', ['pmdummy', 'pmdummy2']), 'p': ('cp', ['pm-tp1', 'pm-tp2']), 'e': ('ec', ['pm-ev1', 'pm-ev2']),
       'z': ('ce', ['pm-sat-a', 'pm-sat-b'])}


def nav_attrs(rnd, dense=0.35):
    """navigation references of one host/service: each of check_period / event_command / command_endpoint present or null"""
    out = ''
    for sc, (key, pool) in NAV.items():
        if rnd.random() < dense:
            out += ' %s=%s' % (key, hx(rnd.choice(pool)))
    return out


def nav_atom(rnd):
    sc = rnd.choice('pezzzpek')
    return '%s%s:%s' % (rnd.choice('nnnN'), sc, hx(rnd.choice(NAV[sc][1] + ['nope'])))


def mangle_case(rnd, s):
    m = rnd.random()
    if m < 0.5:
        return s
    if m < 0.65:
        return s.upper()
    if m < 0.8:
        return s.lower()
    return ''.join(c.upper() if rnd.random() < 0.4 else c.lower() for c in s)


def perm_pattern(rnd, req):
    """a permission string aimed at `req`: exact, wildcarded, near miss"""
    m = rnd.random()
    segs = req.split('/')
    if m < 0.2:
        p = req
    elif m < 0.3:
        p = '*'
    elif m < 0.45:
        k = rnd.randrange(len(segs))
        p = '/'.join(segs[:k] + ['*'] + ([] if rnd.random() < 0.5 else segs[k + 1:]))
    elif m < 0.55:
        i = rnd.randrange(len(req))
        p = req[:i] + '?' + req[i + 1:]
    elif m < 0.65:
        i = rnd.randrange(len(req) + 1)
        j = rnd.randrange(i, len(req) + 1)
        p = req[:i] + '*' + req[j:]
    elif m < 0.72:
        p = req[:-1] if rnd.random() < 0.5 else req + rnd.choice(['x', '/', '?', '*'])
    elif m < 0.78:
        p = rnd.choice(['\\*', segs[0] + '/\\*', req.replace('/', '\\?', 1), req + '\\', '\\' + req, '*\\**', '?*', '**', '*?*?'])
    elif m < 0.9:
        p = rnd.choice(REQUIRED)
    else:
        p = rnd.choice(['objects/*', 'objects/*/Host', 'objects/*/*', 'actions/*', '*/*', '*Host', '*s*', 'objects/query/?ost', 'o*y/*'])
    return mangle_case(rnd, p)


def atom(rnd, hosts, svcs, kind):
    """kind: 'perm' (permission filter), 'user' (user filter), fvars allowed only in user filters"""
    m = rnd.random()
    if rnd.random() < 0.2:
        return nav_atom(rnd)
    if rnd.random() < FREE_SHARE[0]:
        return free_atom(rnd, hosts, svcs, kind)
    sc = rnd.choice('hhhhosss' if kind == 'perm' else 'hhhoos')
    if m < 0.4:
        pool = (svcs + SVCS[:2]) if sc == 's' else (hosts + HOSTS[:2])
        return '%s%s:%s' % (rnd.choice('nnnN'), sc, hx(rnd.choice(pool)))
    if m < 0.85:
        return 'v%s:%s:%s' % (sc, hx(rnd.choice(VKEYS)), hx(rnd.choice(VVALS)))
    if m < 0.93:
        return 't' if rnd.random() < 0.5 else 'f'
    if kind == 'user':
        return '%s%s:%s' % (rnd.choice('cC'), sc, hx(rnd.choice(FVNAMES)))
    return 'f'


def free_atom(rnd, hosts, svcs, kind, names=None):
    """an atom mentioning a free name (a global constant; in user filters also a filter variable) or a function call that
    keeps a user filter off the targeted fast path"""
    sc = rnd.choice('hhhhoss' if kind == 'perm' else 'hhhoos')
    pool = list(GLOBALS) if kind == 'perm' else list(GLOBALS) + FVNAMES + [FVARR]
    if names:
        pool = names
    x = rnd.choice(pool)
    arr = GLOBALS.get(x) == 'a' or x == FVARR
    m = rnd.random()
    if kind == 'user' and m < 0.35:
        k = rnd.random()
        if k < 0.4:
            return 'm%s:%s' % (sc, hx(rnd.choice(['*', 'h*', '?1', '*b*', 'W*', 'pm?', rnd.choice(hosts)])))
        if k < 0.7:
            return 'l%s:%d' % (sc, rnd.choice((1, 2, 2, 3, 4, len(rnd.choice(hosts)))))
        return 'r%s:%s' % (sc, hx(rnd.choice(hosts + svcs + ['nope'])))
    if arr:
        return 'i%s:%s' % (sc, hx(x))
    if x == 'PmTeam':
        return 'w%s:%s:%s' % (sc, hx(rnd.choice(VKEYS)), hx(x))
    if x == 'PmPat':
        return 'M%s:%s' % (sc, hx(x))
    k = rnd.random()
    if k < 0.6:
        return '%s%s:%s' % (rnd.choice('cC'), sc, hx(x))
    if k < 0.8:
        return 'M%s:%s' % (sc, hx(x))
    return 'w%s:%s:%s' % (sc, hx(rnd.choice(VKEYS)), hx(x))


def gen_globals(rnd, hosts, dense=0.8):
    """pm_glob lines + the dictionary of what was declared"""
    lines, g = [], {}
    if rnd.random() < dense:
        g['PmTeam'] = rnd.choice(VVALS)
    if rnd.random() < dense:
        g['PmPat'] = rnd.choice(['h*', '*1', 'w?b', '*', rnd.choice(hosts), 'nope*'])
    g['NodeName'] = NODENAME        # always defined in the harness process (vdrive's main sets it): always declare it
    if rnd.random() < dense:
        g['PmHosts'] = rnd.sample(hosts, rnd.randint(0, min(2, len(hosts)))) + (['nope'] if rnd.random() < 0.3 else [])
    for k, v in g.items():
        if isinstance(v, list):
            lines.append('pm_glob name=%s a=%s' % (hx(k), ','.join(hx(x) for x in v) or '-'))
        else:
            lines.append('pm_glob name=%s s=%s' % (hx(k), hx(v)))
    return lines, g


def fv_value(rnd, name, hosts, svcs):
    """a value of the kind the name always has (string / array of strings)"""
    if GLOBALS.get(name) == 'a' or name == FVARR:
        return '@' + '+'.join(hx(x) for x in rnd.sample(hosts + ['nope'], rnd.randint(0, min(3, len(hosts) + 1))))
    if name == 'PmTeam':
        return hx(rnd.choice(VVALS))
    if name in ('PmPat',):
        return hx(rnd.choice(['*', '?*', 'h*', rnd.choice(hosts)]))
    return hx(rnd.choice((svcs + hosts + ['nope', '*']) if svcs else (hosts + ['nope', '*'])))


def gen_fv(rnd, names, hosts, svcs):
    return ','.join('%s:%s' % (hx(n), fv_value(rnd, n, hosts, svcs)) for n in names)


def rfilter(rnd, hosts, svcs, kind, depth=2):
    if depth == 0 or rnd.random() < 0.35:
        return [atom(rnd, hosts, svcs, kind)]
    m = rnd.random()
    if m < 0.2:
        return rfilter(rnd, hosts, svcs, kind, depth - 1) + ['not']
    return rfilter(rnd, hosts, svcs, kind, depth - 1) + rfilter(rnd, hosts, svcs, kind, depth - 1) + ['and' if m < 0.55 else 'or']


def fast_filter(rnd, t, hosts, svcs, allnames):
    """shapes ApplyRule::GetTargetHosts/GetTargetServices recognise, and near misses"""
    def hn():
        if rnd.random() < 0.2:
            return '%sh:%s' % (rnd.choice('cC'), hx(rnd.choice(FVNAMES)))
        return '%sh:%s' % (rnd.choice('nN'), hx(rnd.choice(allnames)))

    def sn():
        if rnd.random() < 0.15:
            return '%ss:%s' % (rnd.choice('cC'), hx(rnd.choice(FVNAMES)))
        return '%ss:%s' % (rnd.choice('nN'), hx(rnd.choice(svcs + SVCS[:3] + ['x!y'])))
    n = rnd.choice((1, 1, 2, 2, 3))
    toks = []
    for i in range(n):
        if t == 'Host':
            part = [hn()]
        else:
            a, b = hn(), sn()
            part = [a, b, 'and'] if rnd.random() < 0.5 else [b, a, 'and']
        nm = rnd.random()
        if nm < 0.08:      # near misses
            part = rnd.choice([[part[0].replace('h:', 'o:', 1)], part + ['not', 'not'], part + ['t', 'and'], [hn(), hn(), 'and']])
        toks += part
        if i:
            toks.append('or')
    return toks


def gen_inventory(rnd):
    nh = rnd.choice((1, 2, 2, 3, 3, 4))
    hosts = rnd.sample(HOSTS, nh)
    lines = []
    svcs = []
    pairs = []
    for h in hosts:
        vs = ''
        if rnd.random() < 0.75:
            ks = rnd.sample(VKEYS, rnd.choice((1, 1, 2)))
            vs = ' vars=' + ','.join('%s:%s' % (hx(k), hx(rnd.choice(VVALS))) for k in ks)
        lines.append('pm_host name=%s%s%s' % (hx(h), vs, nav_attrs(rnd)))
    for h in hosts:
        for s in rnd.sample(SVCS, rnd.choice((0, 1, 1, 2))):
            vs = ''
            if rnd.random() < 0.6:
                ks = rnd.sample(VKEYS, rnd.choice((1, 1, 2)))
                vs = ' vars=' + ','.join('%s:%s' % (hx(k), hx(rnd.choice(VVALS))) for k in ks)
            lines.append('pm_svc host=%s name=%s%s%s' % (hx(h), hx(s), vs, nav_attrs(rnd)))
            svcs.append(s)
            pairs.append((h, s))
    return hosts, svcs, pairs, lines


def gen_user(rnd, focus, hosts, svcs):
    m = rnd.random()
    if m < 0.03:
        return 'pm_user perms=none'
    n = rnd.choice((0, 1, 1, 2, 2, 3, 3, 4, 4)) if m > 0.1 else 0
    es = []
    for i in range(n):
        req = rnd.choice(focus) if rnd.random() < 0.8 else rnd.choice(REQUIRED)
        p = perm_pattern(rnd, req)
        k = rnd.random()
        if k < 0.4:
            es.append(hx(p))
        elif k < 0.45:
            es.append(hx(p) + '@')
        else:
            es.append(hx(p) + '@' + ','.join(rfilter(rnd, hosts, svcs, 'perm')))
    return 'pm_user perms=' + (';'.join(es) if es else '-')


def qname(rnd, t, hosts, pairs):
    """a name to address an object of type t: existing, case variant, nonexistent, containing '!'"""
    m = rnd.random()
    if t == 'Host':
        if m < 0.7 and hosts:
            return rnd.choice(hosts)
        if m < 0.8 and hosts:
            return rnd.choice(hosts).swapcase()
        if m < 0.9 and pairs:
            return '%s!%s' % rnd.choice(pairs)
        return rnd.choice(HOSTS + ['nope'])
    if m < 0.7 and pairs:
        return '%s!%s' % rnd.choice(pairs)
    if m < 0.8 and pairs:
        h, s = rnd.choice(pairs)
        return rnd.choice(['%s!%s' % (h.swapcase(), s), '%s!%s' % (h, s.swapcase()), '%s!%s!x' % (h, s)])
    if m < 0.9 and hosts:
        return rnd.choice(hosts)
    return 'nope!s1'


def gen_query(rnd, tys, hosts, svcs, pairs, http=False):
    """query parameters (without perm/types) in all shapes"""
    parts = []
    shape = rnd.choice(['single', 'plural', 'type', 'type', 'filter', 'filter', 'fast', 'fast', 'mix', 'mix', 'none', 'badtype'])
    t = rnd.choice(tys)
    allnames = hosts + [h.swapcase() for h in hosts[:1]] + ['nope', 'h1!s1']
    fv = None

    def add_filter(kind):
        nonlocal fv
        toks = fast_filter(rnd, t, hosts, svcs, allnames) if kind == 'fast' else rfilter(rnd, hosts, svcs, 'user')
        parts.append('filter=' + ','.join(toks))
        if any(x[0] in 'cCwiM' for x in toks) or rnd.random() < 0.1:
            names = list(FVNAMES if rnd.random() < 0.8 else rnd.sample(FVNAMES, 2))
            if FREE_SHARE[0] > 0:
                if rnd.random() < 0.7:
                    names.append(FVARR)
                names += [g for g in GLOBALS if rnd.random() < 0.4]          # the very names permission filters mention
                names += [b for b in BOUNDNAMES[:6] if rnd.random() < 0.12]     # navigation fields, this, globals
                if rnd.random() < 0.05:
                    names.append(rnd.choice(BOUNDNAMES[6:]))                  # obj / host / service: no fast path
                rnd.shuffle(names)
            fv = gen_fv(rnd, names, hosts, svcs)
            parts.append('fv=' + fv)

    def add_names(which):
        for ty in tys:
            if len(tys) > 1 and rnd.random() < 0.4:
                continue
            low = ty.lower()
            if which in ('single', 'both') or rnd.random() < 0.15:
                parts.append('%s=%s' % (low, hx(qname(rnd, ty, hosts, pairs))))
            if which in ('plural', 'both') or rnd.random() < 0.15:
                k = rnd.choice((0, 1, 1, 2, 3))
                parts.append('%ss=%s' % (low, ','.join(hx(qname(rnd, ty, hosts, pairs)) for _ in range(k)) or '-'))

    if shape == 'single':
        add_names('single')
        if rnd.random() < 0.3: parts.append('type=' + t)
    elif shape == 'plural':
        add_names('plural')
        if rnd.random() < 0.3: parts.append('type=' + t)
    elif shape == 'type':
        parts.append('type=' + t)
    elif shape == 'filter':
        parts.append('type=' + t); add_filter('any')
    elif shape == 'fast':
        parts.append('type=' + t); add_filter('fast')
    elif shape == 'mix':
        add_names(rnd.choice(['single', 'plural', 'both']))
        if rnd.random() < 0.85: parts.append('type=' + t)
        if rnd.random() < 0.7: add_filter(rnd.choice(['any', 'fast']))
    elif shape == 'none':
        if rnd.random() < 0.5: add_filter('any')
    else:
        parts.append('type=' + rnd.choice(['User', 'Bogus', 'host', 'Service' if tys == ['Host'] else 'Comment', 'Host' if tys == ['Service'] else 'hosts']))
        if rnd.random() < 0.4: add_filter('any')
    # de-duplicate keys (first wins)
    seen, out = set(), []
    for p in parts:
        k = p.split('=')[0]
        if k not in seen:
            seen.add(k); out.append(p)
    return out


QDS = [('objects/query/Host', ['Host']), ('objects/query/Service', ['Service']), ('objects/modify/Host', ['Host']),
       ('objects/modify/Service', ['Service']), ('objects/delete/Host', ['Host']), ('objects/delete/Service', ['Service']),
       ('actions/reschedule-check', ['Host', 'Service']), ('actions/acknowledge-problem', ['Host', 'Service']),
       ('actions/schedule-downtime', ['Host', 'Service'])]


def gen_case(rnd, http_share):
    hosts, svcs, pairs, lines = gen_inventory(rnd)
    FREE_SHARE[0] = 0.0
    if rnd.random() < 0.45:
        FREE_SHARE[0] = 0.3
        gl, _ = gen_globals(rnd, hosts)
        lines = gl + lines
    focus = [q[0] for q in rnd.sample(QDS, 2)]
    lines.append(gen_user(rnd, focus, hosts, svcs))
    lines.append('pm_load')
    fam = 'targets'
    for i in range(rnd.randint(6, 12)):
        m = rnd.random()
        if m < 0.15:
            lines.append('pm_perm perm=%s' % hx(mangle_case(rnd, rnd.choice(focus + REQUIRED)) if rnd.random() < 0.97 else ''))
            continue
        perm, tys = rnd.choice([q for q in QDS if q[0] in focus] * 8 + QDS)
        if m < 0.15 + http_share:
            fam = 'targets+http'
            if perm.startswith('actions/'):
                q = gen_query(rnd, tys, hosts, svcs, pairs)
                lines.append('pm_http kind=action act=reschedule-check ' + ' '.join(q))
            else:
                kind = perm.split('/')[1]
                t = tys[0]
                q = [p for p in gen_query(rnd, tys, hosts, svcs, pairs) if not p.startswith('type=') or rnd.random() < 0.3]
                extra = ''
                if rnd.random() < 0.4:
                    extra += ' name=%s' % hx(qname(rnd, t, hosts, pairs))
                if kind == 'query' and t == 'Service' and rnd.random() < 0.7:
                    extra += ' joins=%d' % rnd.choice((1, 2))
                lines.append(('pm_http kind=%s ptype=%ss%s ' % (kind, t.lower(), extra) + ' '.join(q)).rstrip())
            continue
        q = gen_query(rnd, tys, hosts, svcs, pairs)
        pcase = mangle_case(rnd, perm) if rnd.random() < 0.2 else perm
        lines.append(('pm_q types=%s perm=%s prov=%d ' % (','.join(tys), hx(pcase), rnd.choice((0, 0, 1))) + ' '.join(q)).rstrip())
    if FREE_SHARE[0] > 0:
        fam += '+globals'
    FREE_SHARE[0] = 0.0
    return {'lines': lines, 'tags': {'family': fam}}


def gen_match_cases(rnd, tier):
    pa = 'aB*?\\'
    ta = 'ab*?\\'
    lp = 4
    lt = {'quick': 3, 'thorough': 4, 'search': 3}.get(tier, 3)
    pats = [''.join(p) for n in range(lp + 1) for p in itertools.product(pa, repeat=n)]
    txts = [''.join(p) for n in range(lt + 1) for p in itertools.product(ta, repeat=n)]
    lines = ['pm_match pat=%s text=%s' % (hx(p), hx(t)) for p in pats for t in txts]
    cases = []
    chunk = 120
    for i in range(0, len(lines), chunk):
        cases.append({'lines': lines[i:i + chunk], 'tags': {'family': 'match-exhaustive'}})
    # random permission-like pairs (long strings, real permission alphabet)
    n = {'quick': 20000, 'thorough': 200000, 'search': 20000}.get(tier, 20000)
    rl = []
    for i in range(n):
        req = rnd.choice(REQUIRED)
        p = perm_pattern(rnd, req)
        if rnd.random() < 0.3:
            p = perm_pattern(rnd, p) if len(p) > 1 else p
        rl.append('pm_match pat=%s text=%s' % (hx(p), hx(mangle_case(rnd, req) if rnd.random() < 0.8 else perm_pattern(rnd, req))))
    for i in range(0, len(rl), chunk):
        cases.append({'lines': rl[i:i + chunk], 'tags': {'family': 'match-random'}})
    return cases


def gen_multi_type_case(rnd):
    """the actions' QueryDescription (Host + Service): a service addressed by name together with hosts selected by
    type / filter, under a permission filter that reads `service` (aims at the shared permission frame)"""
    FREE_SHARE[0] = 0.0
    hosts, svcs, pairs, lines = gen_inventory(rnd)
    while not pairs:
        hosts, svcs, pairs, lines = gen_inventory(rnd)
    act = rnd.choice(['actions/reschedule-check', 'actions/acknowledge-problem'])
    es = []
    for i in range(rnd.choice((1, 1, 2))):
        f = rnd.choice([['ns:' + hx(rnd.choice(svcs))], ['vs:%s:%s' % (hx(rnd.choice(VKEYS)), hx(rnd.choice(VVALS)))],
                        ['vs:%s:%s' % (hx(rnd.choice(VKEYS)), hx(rnd.choice(VVALS))), 'not'],
                        ['nh:' + hx(rnd.choice(hosts)), 'ns:' + hx(rnd.choice(svcs)), rnd.choice(['and', 'or'])]])
        es.append(hx(mangle_case(rnd, rnd.choice(['actions/*', act, '*']))) + '@' + ','.join(f))
    lines.append('pm_user perms=' + ';'.join(es))
    lines.append('pm_load')
    lines.append('pm_perm perm=' + hx(act))
    for i in range(rnd.randint(3, 6)):
        h, sv = rnd.choice(pairs)
        parts = []
        if rnd.random() < 0.8:
            parts.append(rnd.choice(['service=%s' % hx(h + '!' + sv), 'services=%s' % hx(h + '!' + sv)]))
        if rnd.random() < 0.3:
            parts.append('host=' + hx(rnd.choice(hosts)))
        parts.append('type=' + rnd.choice(['Host', 'Host', 'Service']))
        k = rnd.random()
        if k < 0.4:
            parts.append('filter=t')
        elif k < 0.7:
            parts.append('filter=nh:' + hx(rnd.choice(hosts)))
        if rnd.random() < 0.5:
            lines.append('pm_http kind=action act=reschedule-check ' + ' '.join(parts))
        else:
            lines.append('pm_q types=Host,Service perm=%s prov=%d ' % (hx(act), rnd.choice((0, 1))) + ' '.join(parts))
    return {'lines': lines, 'tags': {'family': 'multi-type-frame'}}


def gen_join_case(rnd):
    """GET /v1/objects/services with joins under users holding objects/query/Service and (filtered) objects/query/Host"""
    FREE_SHARE[0] = 0.0
    hosts, svcs, pairs, lines = gen_inventory(rnd)
    while not pairs:
        hosts, svcs, pairs, lines = gen_inventory(rnd)
    es = [hx(mangle_case(rnd, rnd.choice(['objects/query/Service', 'objects/query/*', 'objects/query/S*', '*'])))]
    if rnd.random() < 0.85:
        hp = mangle_case(rnd, rnd.choice(['objects/query/Host', 'objects/query/H*', 'objects/*/Host', 'objects/query/?ost', 'objects/query/Hos']))
        k = rnd.random()
        if k < 0.3:
            es.append(hx(hp))
        else:
            es.append(hx(hp) + '@' + ','.join(rfilter(rnd, hosts, svcs, 'perm', 1)))
    rnd.shuffle(es)
    lines.append('pm_user perms=' + ';'.join(es))
    lines.append('pm_load')
    lines.append('pm_perm perm=' + hx('objects/query/Host'))
    for i in range(rnd.randint(2, 4)):
        q = [p for p in gen_query(rnd, ['Service'], hosts, svcs, pairs) if not p.startswith('type=')]
        extra = ' joins=%d' % rnd.choice((1, 2))
        if rnd.random() < 0.3:
            extra += ' name=%s' % hx(qname(rnd, 'Service', hosts, pairs))
        lines.append(('pm_http kind=query ptype=services%s ' % extra + ' '.join(q)).rstrip())
    return {'lines': lines, 'tags': {'family': 'joins'}}


def gen_nav_order_case(rnd):
    """permission filters that read a joined object (command_endpoint / check_period / event_command / check_command of the
    target, `host` of a service), inventories in which targets with a null reference follow targets with a non-null one, and
    evaluation orders chosen by the request: inventory order (type, type+filter), plural-name list order, fast-path order"""
    FREE_SHARE[0] = 0.0
    sc = rnd.choice('zzzpek')
    key, pool = NAV[sc]
    t = rnd.choice(['Host', 'Host', 'Service'])
    nh = rnd.choice((2, 3, 3, 4))
    hosts = rnd.sample(HOSTS, nh)
    lines, objs = [], []          # objs: (full name, host, short)
    def refs(i):
        # alternate non-null / null for the field under test (random phase), others random
        r = ''
        for c2, (k2, pool2) in NAV.items():
            if c2 == sc:
                if c2 == 'k' or (i + phase) % 2 == 0:
                    r += ' %s=%s' % (k2, hx(pool2[(i // 2) % 2] if c2 != 'k' else pool2[(i + phase) % 2]))
            elif rnd.random() < 0.25:
                r += ' %s=%s' % (k2, hx(rnd.choice(pool2)))
        return r
    phase = rnd.randint(0, 1)
    for i, h in enumerate(hosts):
        vs = ' vars=%s:%s' % (hx('os'), hx(rnd.choice(VVALS))) if rnd.random() < 0.6 else ''
        lines.append('pm_host name=%s%s%s' % (hx(h), vs, refs(i) if t == 'Host' else nav_attrs(rnd, 0.2)))
        if t == 'Host':
            objs.append((h, h, None))
    if t == 'Service':
        i = 0
        for h in hosts:
            for sv in rnd.sample(SVCS, rnd.choice((1, 1, 2))):
                lines.append('pm_svc host=%s name=%s%s' % (hx(h), hx(sv), refs(i)))
                objs.append((h + '!' + sv, h, sv))
                i += 1
    want = pool[0]
    f = rnd.choice([['n%s:%s' % (sc, hx(want))], ['n%s:%s' % (sc, hx(want))], ['N%s:%s' % (sc, hx(pool[1]))],
                    ['n%s:%s' % (sc, hx(want)), 'n%s:%s' % (sc, hx(pool[1])), 'or'],
                    ['n%s:%s' % (sc, hx(want)), 'vh:%s:%s' % (hx('os'), hx(rnd.choice(VVALS))), rnd.choice(['and', 'or'])]])
    perm = {'Host': 'objects/query/Host', 'Service': 'objects/query/Service'}[t]
    act = 'actions/reschedule-check'
    es = [hx(mangle_case(rnd, rnd.choice([perm, 'objects/query/*', 'objects/*']))) + '@' + ','.join(f),
          hx(mangle_case(rnd, rnd.choice([act, 'actions/*']))) + '@' + ','.join(f)]
    if rnd.random() < 0.3:
        es.append(hx('objects/modify/*') + '@' + ','.join(f))
    lines.append('pm_user perms=' + ';'.join(es))
    lines.append('pm_load')
    lines.append('pm_perm perm=' + hx(perm))
    names = [o[0] for o in objs]
    low = t.lower()
    def fast(order):
        toks = []
        for j, (full, h, sv) in enumerate(order):
            toks += ['nh:' + hx(h)] if sv is None else ['nh:' + hx(h), 'ns:' + hx(sv), 'and']
            if j:
                toks.append('or')
        return ','.join(toks)
    for i in range(rnd.randint(5, 8)):
        k = rnd.random()
        order = list(objs)
        if rnd.random() < 0.6:
            rnd.shuffle(order)
        order = order[:rnd.choice((2, 3, 4))]
        if k < 0.2:
            q = 'type=' + t
        elif k < 0.35:
            q = 'type=%s filter=%s' % (t, ','.join(rfilter(rnd, hosts, [o[2] for o in objs if o[2]], 'user', 1)))
        elif k < 0.65:
            q = '%ss=%s' % (low, ','.join(hx(o[0]) for o in order))
        elif k < 0.9:
            q = 'type=%s filter=%s' % (t, fast(order))
        else:
            q = '%s=%s %ss=%s' % (low, hx(order[0][0]), low, ','.join(hx(o[0]) for o in order[1:]))
        m = rnd.random()
        if m < 0.5:
            lines.append('pm_q types=%s perm=%s prov=%d %s' % (t, hx(perm), rnd.choice((0, 0, 1)), q))
        elif m < 0.7:
            lines.append('pm_http kind=query ptype=%ss %s' % (low, ' '.join(p for p in q.split() if not p.startswith('type='))))
        elif m < 0.8:
            lines.append('pm_http kind=modify ptype=%ss %s' % (low, ' '.join(p for p in q.split() if not p.startswith('type='))))
        else:
            lines.append('pm_http kind=action act=reschedule-check ' + q)
    return {'lines': lines, 'tags': {'family': 'nav-order'}}


def gen_env_case(rnd):
    """family env-separation: the permission filter mentions a global constant (a string, an array, NodeName); requests carry
    filter_vars with that very name (a value that would flip the verdict), with names of navigation fields, `this`, `globals`;
    the user's filter is on the generic path (function calls: match, regex, len, in) or on the targeted fast path; every handler
    entry: query / modify / delete QueryDescriptions, the actions' one, and the HTTP handlers"""
    FREE_SHARE[0] = 0.0
    t = rnd.choice(['Host', 'Host', 'Service'])
    nh = rnd.choice((2, 3, 3, 4))
    hosts = rnd.sample(HOSTS + [NODENAME], nh)
    key = rnd.choice(VKEYS)
    team, other = rnd.sample(VVALS, 2)
    lines, svcs, pairs = [], [], []
    for h in hosts:
        lines.append('pm_host name=%s vars=%s:%s%s' % (hx(h), hx(key), hx(rnd.choice([team, other, other])), nav_attrs(rnd, 0.15)))
    for h in hosts:
        for sv in rnd.sample(SVCS, rnd.choice((0, 1, 1, 2)) if t == 'Host' else rnd.choice((1, 1, 2))):
            lines.append('pm_svc host=%s name=%s vars=%s:%s%s' % (hx(h), hx(sv), hx(key), hx(rnd.choice([team, other])), nav_attrs(rnd, 0.15)))
            svcs.append(sv); pairs.append((h, sv))
    admitted = rnd.sample(hosts, rnd.randint(1, max(1, nh - 1)))
    g = {'PmTeam': team, 'PmPat': rnd.choice(['h*', 'w*', '*1', admitted[0]]), 'NodeName': NODENAME, 'PmHosts': admitted}
    glines = ['pm_glob name=%s %s' % (hx(k), ('a=' + (','.join(hx(x) for x in v) or '-')) if isinstance(v, list) else 's=' + hx(v)) for k, v in g.items()]
    sc = 'h' if t == 'Host' else rnd.choice('hhs')
    gname = rnd.choice(['PmTeam', 'PmTeam', 'PmHosts', 'NodeName', 'PmPat'])
    pf = {'PmTeam': ['w%s:%s:%s' % (sc, hx(key), hx('PmTeam'))], 'PmHosts': ['i%s:%s' % ('h', hx('PmHosts'))],
          'NodeName': ['%sh:%s' % (rnd.choice('cC'), hx('NodeName'))], 'PmPat': ['Mh:%s' % hx('PmPat')]}[gname]
    k = rnd.random()
    if k < 0.2:
        pf = pf + ['not']
    elif k < 0.4:
        pf = pf + [atom(rnd, hosts, svcs or SVCS[:1], 'perm'), rnd.choice(['and', 'or'])]
    q = 'objects/query/' + t
    es = [hx(mangle_case(rnd, rnd.choice([q, 'objects/query/*', 'objects/*']))) + '@' + ','.join(pf),
          hx(mangle_case(rnd, rnd.choice(['actions/reschedule-check', 'actions/*']))) + '@' + ','.join(pf)]
    if rnd.random() < 0.6:
        es.append(hx(rnd.choice(['objects/modify/*', 'objects/modify/' + t, 'objects/delete/' + t])) + '@' + ','.join(pf))
    if rnd.random() < 0.15:
        es.append(hx('objects/query/' + t))       # an unfiltered entry next to it (the code keeps the filter)
    rnd.shuffle(es)
    lines = glines + lines
    lines.append('pm_user perms=' + ';'.join(es))
    lines.append('pm_load')
    lines.append('pm_perm perm=' + hx(q))
    low = t.lower()

    def flip():
        """a filter_vars value for gname that would admit other objects if the permission filter saw it"""
        if gname == 'PmTeam':
            return hx(other)
        if gname == 'PmHosts':
            return '@' + '+'.join(hx(x) for x in hosts)
        if gname == 'NodeName':
            return hx(rnd.choice([h for h in hosts if h != NODENAME] or hosts))
        return hx('*')

    for i in range(rnd.randint(5, 8)):
        names = [gname] if rnd.random() < 0.9 else []
        names += [x for x in GLOBALS if x != gname and rnd.random() < 0.3]
        names += [b for b in BOUNDNAMES[:6] if rnd.random() < 0.2]
        k = rnd.random()
        if k < 0.55:       # generic path: a function call in the user's filter
            a = rnd.choice(['m%s:%s' % (sc, hx(rnd.choice(['*', '*', '?*', 'h*', 'w*']))), 'M%s:%s' % (sc, hx('pat')),
                            'l%s:%d' % (sc, rnd.choice((1, 2, 3, len(hosts[0])))), 'i%s:%s' % (sc, hx(FVARR)),
                            'r%s:%s' % (sc, hx(rnd.choice(hosts))), 'mo:%s' % hx('*')])
            toks = [a]
            if a[0] == 'M':
                names.append('pat')
            if a[0] == 'i':
                names.append(FVARR)
            if rnd.random() < 0.3:
                toks = toks + rfilter(rnd, hosts, svcs or SVCS[:1], 'user', 1) + [rnd.choice(['and', 'or'])]
            if rnd.random() < 0.15:
                toks = toks + ['not', 'not']
        elif k < 0.85:     # targeted fast path (or a near miss)
            order = rnd.sample(hosts, rnd.randint(1, len(hosts))) if t == 'Host' else rnd.sample(pairs, rnd.randint(1, len(pairs)))
            toks = []
            for j, o in enumerate(order):
                if t == 'Host':
                    if rnd.random() < 0.25:
                        toks += ['ch:' + hx('v1')]; names.append('v1')
                    else:
                        toks += ['nh:' + hx(o)]
                else:
                    toks += ['nh:' + hx(o[0]), 'ns:' + hx(o[1]), 'and']
                if j:
                    toks.append('or')
        else:
            toks = ['t']
        rnd.shuffle(names)
        fvs = []
        for n in dict.fromkeys(names):
            if n == gname:
                fvs.append('%s:%s' % (hx(n), flip()))
            elif n == 'pat':
                fvs.append('%s:%s' % (hx(n), hx(rnd.choice(['*', '?*', 'h*']))))
            else:
                fvs.append('%s:%s' % (hx(n), fv_value(rnd, n, hosts, svcs)))
        qp = 'type=%s filter=%s' % (t, ','.join(toks)) + ((' fv=' + ','.join(fvs)) if fvs else '')
        if rnd.random() < 0.15:
            o = rnd.choice(hosts) if t == 'Host' else '%s!%s' % rnd.choice(pairs)
            qp = '%s=%s ' % (low, hx(o)) + qp
        m = rnd.random()
        if m < 0.4:
            perm, tys = rnd.choice([(q, [t]), (q, [t]), ('objects/modify/' + t, [t]), ('objects/delete/' + t, [t]),
                                    ('actions/reschedule-check', ['Host', 'Service']), ('actions/acknowledge-problem', ['Host', 'Service'])])
            lines.append('pm_q types=%s perm=%s prov=%d %s' % (','.join(tys), hx(perm), rnd.choice((0, 0, 0, 1)), qp))
        elif m < 0.7:
            lines.append('pm_http kind=query ptype=%ss %s' % (low, ' '.join(x for x in qp.split() if not x.startswith('type='))))
        elif m < 0.82:
            lines.append('pm_http kind=modify ptype=%ss %s' % (low, ' '.join(x for x in qp.split() if not x.startswith('type='))))
        else:
            lines.append('pm_http kind=action act=reschedule-check ' + qp)
    return {'lines': lines, 'tags': {'family': 'env-separation'}}


JOINFIELDS = ['check_command', 'check_period', 'event_command', 'command_endpoint', 'host']
JTYPES = {'check_command': 'CheckCommand', 'check_period': 'TimePeriod', 'event_command': 'EventCommand', 'command_endpoint': 'Endpoint', 'host': 'Host'}


def gen_join_names_case(rnd):
    """family join-same-name: Hosts named like the fixture's CheckCommand / EventCommand / TimePeriod / Endpoint objects
    (pmx, pmy, pmz), references to those objects, permissions that differ per joined type (plain, filtered on the name, absent,
    wildcard with filter), several joins in one request in every order, hosts and services as primary type"""
    FREE_SHARE[0] = 0.0
    names = list(SHARED)
    rnd.shuffle(names)
    hosts = names[:rnd.choice((1, 2, 2, 3))] + rnd.sample(['h1', 'web'], rnd.choice((0, 1)))
    rnd.shuffle(hosts)
    lines, svcs, pairs = [], [], []

    def refs(dense):
        r = ''
        for sc_, (key, pool) in NAV.items():
            if rnd.random() < dense:
                r += ' %s=%s' % (key, hx(rnd.choice(SHARED + SHARED + pool[:1])))
        return r
    for h in hosts:
        vs = ' vars=%s:%s' % (hx('os'), hx(rnd.choice(VVALS))) if rnd.random() < 0.5 else ''
        lines.append('pm_host name=%s%s%s' % (hx(h), vs, refs(0.7)))
    for h in hosts:
        for sv in rnd.sample(SVCS[:3] + SHARED[:1], rnd.choice((1, 1, 2))):
            lines.append('pm_svc host=%s name=%s%s' % (hx(h), hx(sv), refs(0.75)))
            svcs.append(sv); pairs.append((h, sv))
    t = rnd.choice(['Service', 'Service', 'Host'])
    es = [hx(mangle_case(rnd, 'objects/query/' + t))]
    target = rnd.choice(SHARED)
    for jt in ['Host', 'CheckCommand', 'TimePeriod', 'EventCommand', 'Endpoint']:
        if jt == t:
            continue
        k = rnd.random()
        pn = mangle_case(rnd, rnd.choice(['objects/query/' + jt, 'objects/query/' + jt, 'objects/query/' + jt[:-1] + '?', 'objects/*/' + jt]))
        if k < 0.3:
            es.append(hx(pn))                                                       # every object of that type
        elif k < 0.75:
            nm = rnd.choice([target, target, rnd.choice(SHARED), 'nope'])
            f = rnd.choice([['no:' + hx(nm)], ['no:' + hx(nm), 'not'], ['No:' + hx(nm)], ['mo:' + hx(nm[:2] + '?')],
                            ['nh:' + hx(nm)] if jt == 'Host' else ['no:' + hx(nm)],
                            ['vo:%s:%s' % (hx('os'), hx(rnd.choice(VVALS)))]])
            es.append(hx(pn) + '@' + ','.join(f))
        # else: no permission for that type
    if rnd.random() < 0.2:
        es.append(hx(mangle_case(rnd, 'objects/query/*')) + '@' + ','.join(rnd.choice([['no:' + hx(target)], ['no:' + hx(target), 'not']])))
    rnd.shuffle(es)
    lines.append('pm_user perms=' + ';'.join(es))
    lines.append('pm_load')
    for jt in rnd.sample(['Host', 'Endpoint', 'CheckCommand', 'EventCommand', 'TimePeriod'], 2):
        lines.append('pm_perm perm=' + hx('objects/query/' + jt))
    low = t.lower()
    fields = JOINFIELDS if t == 'Service' else JOINFIELDS[:4]
    for i in range(rnd.randint(4, 7)):
        k = rnd.random()
        if k < 0.2:
            sel = ' joins=2'
        else:
            fs = rnd.sample(fields, rnd.randint(2, len(fields)))          # request order: every permutation over the runs
            sel = ' jsel=' + ','.join(fs)
            if rnd.random() < 0.1:
                sel += ' joins=1'
        qp = ''
        k = rnd.random()
        if k < 0.25:
            order = rnd.sample(hosts, rnd.randint(1, len(hosts))) if t == 'Host' else rnd.sample(pairs, rnd.randint(1, len(pairs)))
            qp = ' %ss=%s' % (low, ','.join(hx(o if t == 'Host' else '%s!%s' % o) for o in order))
        elif k < 0.4:
            o = rnd.choice(hosts) if t == 'Host' else '%s!%s' % rnd.choice(pairs)
            qp = ' name=%s' % hx(o)
        elif k < 0.6:
            qp = ' filter=' + ','.join(rnd.choice([['mo:' + hx('*')], ['nh:' + hx(rnd.choice(hosts))], ['t'], ['lo:3', 'not']]))
        lines.append('pm_http kind=query ptype=%ss%s%s' % (low, sel, qp))
    return {'lines': lines, 'tags': {'family': 'join-same-name'}}



# ---------------------------------------------------------------- round 5 (f): attribute selection of the object query
A_ORD = {'Host': ['name', '__name', 'display_name', 'address', 'vars', 'zone', 'state', 'last_check_result', 'templates', 'type', 'active',
                  'groups', 'check_interval', 'notes', 'original_attributes', 'package', 'version', 'last_state_up', 'ha_mode'],
         'Service': ['name', '__name', 'display_name', 'host_name', 'vars', 'zone', 'state', 'last_check_result', 'templates', 'type', 'active',
                     'groups', 'check_interval', 'notes', 'original_attributes', 'package', 'version', 'last_state_ok', 'ha_mode']}
A_NAV = ['check_command', 'check_period', 'event_command', 'command_endpoint']       # [config, navigation]: the NAME is serialised
A_NAVOBJ = ['host']                                                                 # [no_storage, navigation] Host::Ptr (Service only)
A_HIDDEN = ['state_raw', 'last_state_raw', 'flapping_buffer', 'flapping_index', 'extensions', 'start_called', 'icingadb_identifier',
            'pending_executions', 'suppressed_notifications', 'state_loaded', 'last_check_started']
A_UNKNOWN = ['bogus', 'Host', 'HOST', 'host.name', 'Name', 'vars.os', 'service', 'hosts', 'check_command.name', 'attrs', '*']
J_FIELDS = {'host': ['name', 'address', 'vars', 'display_name', 'state', 'check_command', 'zone', 'type', '__name'],
            'check_command': ['name', 'command', 'arguments', 'timeout', 'vars', '__name', 'type'],
            'check_period': ['name', 'ranges', 'display_name', 'is_inside', 'segments', '__name'],
            'event_command': ['name', 'command', 'env', '__name'],
            'command_endpoint': ['name', 'host', 'port', 'connected', 'log_duration', '__name']}
J_BAD = ['bogus', 'host', 'service', 'password', '', 'Name', 'vars.os', 'address6x']


def gen_attr_list(rnd, t):
    k = rnd.random()
    if k < 0.12:
        return None                                     # no attrs: everything visible
    if k < 0.16:
        return []
    out = []
    for i in range(rnd.choice((1, 1, 2, 2, 3, 4))):
        m = rnd.random()
        if m < 0.4:
            out.append(rnd.choice(A_ORD[t]))
        elif m < 0.55:
            out.append(rnd.choice(A_NAV))
        elif m < 0.75:
            out.append(rnd.choice(A_NAVOBJ))            # on hosts: an unknown field
        elif m < 0.9:
            out.append(rnd.choice(A_HIDDEN))
        else:
            out.append(rnd.choice(A_UNKNOWN + A_ORD['Host' if t == 'Service' else 'Service'][:4]))
    return out


def gen_join_list(rnd, t):
    k = rnd.random()
    if k < 0.25:
        return None
    fields = JOINFIELDS if t == 'Service' else JOINFIELDS[:4]
    out = []
    for i in range(rnd.choice((1, 1, 2, 2, 3))):
        pfx = rnd.choice(fields + (['host'] if t == 'Service' else []) + ['host'] * (rnd.random() < 0.1))
        m = rnd.random()
        if m < 0.3:
            out.append(pfx)                             # the whole joined object
        elif m < 0.75:
            out.append(pfx + '.' + rnd.choice(J_FIELDS[pfx]))
        elif m < 0.85:
            out.append(pfx + '.' + rnd.choice(A_HIDDEN[:6] + ['host']))
        elif m < 0.93:
            out.append(pfx + '.' + rnd.choice(J_BAD))
        else:
            out.append(rnd.choice(['service.host', 'service', 'vars.os', 'bogus.name', 'zone', 'host.host.name', 'Host.name']))
    return out


def gen_attrs_case(rnd):
    """family attrs: GET /v1/objects/<type> with every shape of attrs / joins / all_joins / meta, for users whose permission for the
    joined types differs (none, plain, filtered): which KEYS are serialised, which joined objects, whether any value embeds an object"""
    FREE_SHARE[0] = 0.0
    names = rnd.sample(HOSTS[:6] + SHARED, rnd.choice((2, 3, 3)))
    lines, svcs, pairs = [], [], []

    def refs(dense):
        r = ''
        for sc_, (key, pool) in NAV.items():
            if rnd.random() < dense:
                r += ' %s=%s' % (key, hx(rnd.choice(SHARED + pool)))
        return r
    for h in names:
        vs = ' vars=%s:%s' % (hx('os'), hx(rnd.choice(VVALS))) if rnd.random() < 0.7 else ''
        lines.append('pm_host name=%s%s%s' % (hx(h), vs, refs(0.5)))
    for h in names:
        for sv in rnd.sample(SVCS[:3], rnd.choice((1, 1, 2))):
            lines.append('pm_svc host=%s name=%s%s' % (hx(h), hx(sv), refs(0.5)))
            svcs.append(sv); pairs.append((h, sv))
    es = []
    k = rnd.random()
    sp = mangle_case(rnd, rnd.choice(['objects/query/Service', 'objects/query/S*', 'objects/query/*ice']))
    es.append(hx(sp) if k < 0.6 else hx(sp) + '@' + ','.join(rnd.choice([['nh:' + hx(names[0])], ['nh:' + hx(names[0]), 'not'], ['t']])))
    k = rnd.random()
    hp = mangle_case(rnd, rnd.choice(['objects/query/Host', 'objects/query/H*', 'objects/*/Host']))
    if k < 0.3:
        es.append(hx(hp))
    elif k < 0.75:
        es.append(hx(hp) + '@' + ','.join(rnd.choice([['nh:' + hx(names[0])], ['nh:' + hx(names[-1]), 'not'], ['vh:%s:%s' % (hx('os'), hx(rnd.choice(VVALS)))], ['f']])))
    for jt in ['CheckCommand', 'TimePeriod', 'EventCommand', 'Endpoint']:
        k = rnd.random()
        if k < 0.45:
            es.append(hx('objects/query/' + jt))
        elif k < 0.7:
            es.append(hx('objects/query/' + jt) + '@' + ','.join(rnd.choice([['no:' + hx(rnd.choice(SHARED))], ['mo:' + hx('pm?')], ['no:' + hx('pmdummy'), 'not']])))
    rnd.shuffle(es)
    lines.append('pm_user perms=' + ';'.join(es))
    lines.append('pm_load')
    lines.append('pm_perm perm=' + hx('objects/query/Host'))
    for i in range(rnd.randint(6, 10)):
        t = rnd.choice(['Service', 'Service', 'Service', 'Host'])
        low = t.lower()
        parts = ['pm_aq ptype=%ss' % low]
        k = rnd.random()
        if k < 0.2:
            o = rnd.choice(names) if t == 'Host' else '%s!%s' % rnd.choice(pairs)
            parts.append('name=%s' % hx(o))
        elif k < 0.35:
            order = rnd.sample(names, rnd.randint(1, len(names))) if t == 'Host' else rnd.sample(pairs, rnd.randint(1, len(pairs)))
            parts.append('%ss=%s' % (low, ','.join(hx(o if t == 'Host' else '%s!%s' % o) for o in order)))
        elif k < 0.5:
            parts.append('filter=' + ','.join(rnd.choice([['mo:' + hx('*')], ['nh:' + hx(rnd.choice(names))], ['t'], ['nh:' + hx('nope')]])))
        al = gen_attr_list(rnd, t)
        if al is not None:
            parts.append('attrs=' + (','.join(hx(x) for x in al) or '-'))
        jl = gen_join_list(rnd, t)
        if jl is not None:
            jl = [x for x in jl if x]
            parts.append('aj=' + (','.join(hx(x) for x in jl if not x.endswith('.')) or '-'))
        if rnd.random() < 0.2:
            parts.append('alljoins=1')
        k = rnd.random()
        if k < 0.3:
            parts.append('meta=' + ','.join(hx(x) for x in rnd.choice([['used_by'], ['location'], ['used_by', 'location'], ['bogus'], ['location', 'Used_by']])))
        lines.append(' '.join(parts))
    return {'lines': lines, 'tags': {'family': 'attrs'}}


def gen_race_case(rnd):
    """family race (check-then-act): a write / action / query request is authorised for the object that has a name, another
    writer deletes that object and creates a new one of the same name (for which the permission filter is usually false) before
    the handler acts; directed schedule, see harness op pm_race.  Every addressing mode, with and without the name lock."""
    FREE_SHARE[0] = 0.0
    teams = ['blue', 'red', 'green']
    nh = rnd.choice((2, 3, 3))
    hosts = rnd.sample(HOSTS[:6], nh)
    lines, pairs = [], []
    hv = {}
    for h in hosts:
        hv[h] = rnd.choice(teams[:2])
        lines.append('pm_host name=%s vars=%s:%s%s' % (hx(h), hx('t'), hx(hv[h]), nav_attrs(rnd, 0.3)))
    svc_hosts = rnd.sample(hosts, rnd.randint(0, nh - 1))           # at least one host without services
    sv = {}
    for h in svc_hosts:
        for s_ in rnd.sample(SVCS[:3], rnd.choice((1, 1, 2))):
            sv[(h, s_)] = rnd.choice(teams[:2])
            lines.append('pm_svc host=%s name=%s vars=%s:%s%s' % (hx(h), hx(s_), hx('t'), hx(sv[(h, s_)]), nav_attrs(rnd, 0.3)))
            pairs.append((h, s_))
    free_hosts = [h for h in hosts if h not in svc_hosts]
    t = 'Service' if pairs and rnd.random() < 0.4 else 'Host'
    low = t.lower()
    sc = 'h' if t == 'Host' else rnd.choice('sso')
    team = rnd.choice(teams[:2])
    k = rnd.random()
    if k < 0.6:
        pf = ['v%s:%s:%s' % (sc, hx('t'), hx(team))]
    elif k < 0.75:
        pf = ['v%s:%s:%s' % (sc, hx('t'), hx(team)), 'not']
    elif k < 0.9:
        pf = ['v%s:%s:%s' % (sc, hx('t'), hx(team)), nav_atom(rnd), rnd.choice(['and', 'or'])]
    else:
        pf = ['n%s:%s' % ('h', hx(rnd.choice(hosts)))]              # by name: the new object is permitted as well
    es = []
    for pat in (['objects/modify/' + t, 'objects/modify/*', 'objects/*'], ['actions/reschedule-check', 'actions/*'],
                ['objects/query/' + t, 'objects/query/*'], ['objects/delete/' + t, 'objects/delete/*']):
        if rnd.random() < 0.9:
            es.append(hx(mangle_case(rnd, rnd.choice(pat))) + ('@' + ','.join(pf) if rnd.random() < 0.92 else ''))
    rnd.shuffle(es)
    lines.append('pm_user sig=1 perms=' + (';'.join(es) or '-'))
    lines.append('pm_load')
    lines.append('pm_perm perm=' + hx('objects/modify/' + t))
    targets = list(free_hosts) if t == 'Host' else ['%s!%s' % p for p in pairs]
    rnd.shuffle(targets)
    allnames = hosts if t == 'Host' else ['%s!%s' % p for p in pairs]
    for tgt in targets[:rnd.choice((1, 1, 2))]:
        kind = rnd.choice(['modify'] * 9 + ['action'] * 5 + ['query'] * 4 + ['delete'] * 2)
        cur = hv[tgt] if t == 'Host' else sv[tuple(tgt.split('!'))]
        k = rnd.random()
        if k < 0.75:
            nv = rnd.choice([x for x in teams if x != cur])
            nvars = 'nvars=%s:%s' % (hx('t'), hx(nv))
        elif k < 0.9:
            nvars = 'nvars=%s:%s,%s:%s' % (hx('t'), hx(cur), hx('os'), hx('x'))       # same team: the new object is permitted too
        else:
            nvars = 'nvars=%s:%s' % (hx('os'), hx('x'))                               # no team at all
        extra = nvars
        for sc2, (key, pool) in NAV.items():
            if sc2 != 'k' and rnd.random() < 0.25:
                extra += ' n%s=%s' % (key, hx(rnd.choice(pool)))
        k = rnd.random()
        if kind == 'action':
            if k < 0.4:
                q = 'type=%s %s=%s' % (t, low, hx(tgt))
            elif k < 0.6:
                q = '%s=%s' % (low, hx(tgt))
            elif k < 0.8:
                q = 'type=%s filter=%s' % (t, rnd.choice(['mo:' + hx('*'), 't']))
            else:
                others = [x for x in allnames if x != tgt]
                q = 'type=%s %ss=%s' % (t, low, ','.join(hx(x) for x in rnd.sample(others, min(len(others), 1)) + [tgt]))
        else:
            if k < 0.4:
                q = 'name=%s' % hx(tgt)
            elif k < 0.55:
                q = '%s=%s' % (low, hx(tgt))
            elif k < 0.7:
                others = [x for x in allnames if x != tgt]
                q = '%ss=%s' % (low, ','.join(hx(x) for x in rnd.sample(others, min(len(others), rnd.choice((0, 1)))) + [tgt]))
            elif k < 0.85:
                q = 'filter=%s' % rnd.choice(['mo:' + hx('*'), 't', 'lo:%d' % len(tgt), 'mo:' + hx(tgt[:1] + '*')])
            elif k < 0.93 and t == 'Host':
                q = 'filter=nh:%s' % hx(tgt)                           # targeted fast path
            else:
                q = ''
        lines.append(('pm_race kind=%s ptype=%ss target=%s %s lock=%d %s' % (kind, low, hx(tgt), extra, rnd.choice((1, 1, 1, 0)), q)).rstrip())
        # afterwards the name belongs to the new object: the same request, sequentially
        if rnd.random() < 0.6:
            if kind == 'action':
                lines.append('pm_http kind=action act=reschedule-check type=%s %s=%s' % (t, low, hx(tgt)))
            else:
                lines.append('pm_http kind=%s ptype=%ss name=%s' % (rnd.choice(['modify', 'query']), low, hx(tgt)))
    return {'lines': lines, 'tags': {'family': 'race'}}


# ---------------------------------------------------------------------------------------------------------------
# round 6: histories.  family permission-history: request, change the user's `permissions` in the running process, request
# again - through FilterUtility and the real handlers.  family keepalive-identity: one real HttpServerConnection, several
# requests with different Authorization headers over the same TLS session.
def wide_entry(rnd, perm):
    segs = perm.split('/')
    return mangle_case(rnd, rnd.choice([perm, '*', segs[0] + '/*', '/'.join(segs[:-1]) + '/*', perm[:-1] + '?', '*' + perm[3:]]))


def perm_list(rnd, kind, perm, hosts, svcs):
    """a permission list of a given power with respect to the required permission `perm`"""
    other = [hx(rnd.choice(['status/query', 'events/*', 'console', 'objects/create/*', 'types']))]
    if kind == 'wide':
        es = [hx(wide_entry(rnd, perm))]
        if rnd.random() < 0.3: es += other
    elif kind == 'filtered':
        es = [hx(wide_entry(rnd, perm)) + '@' + ','.join(rfilter(rnd, hosts, svcs, 'perm')) for _ in range(rnd.choice((1, 1, 2)))]
        if rnd.random() < 0.3: es = other + es
    elif kind == 'mixed':          # an unfiltered and a filtered entry both match: the filter still restricts (see notes)
        es = [hx(wide_entry(rnd, perm)), hx(wide_entry(rnd, perm)) + '@' + ','.join(rfilter(rnd, hosts, svcs, 'perm'))]
        rnd.shuffle(es)
    elif kind == 'none':
        es = other if rnd.random() < 0.7 else []
    else:                          # near miss
        es = [hx(mangle_case(rnd, rnd.choice([perm + 'x', perm[:-1], perm.replace('/', '\\?', 1), 'objects/query', '\\*'])))]
    return ';'.join(es) if es else '-'


def hist_requests(rnd, perm, tys, hosts, svcs, pairs, n):
    """n request lines for the QueryDescription (perm, tys): FilterUtility and the HTTP handlers"""
    out = []
    for _ in range(n):
        m = rnd.random()
        q = gen_query(rnd, tys, hosts, svcs, pairs)
        if m < 0.15:
            out.append('pm_perm perm=%s' % hx(mangle_case(rnd, perm) if rnd.random() < 0.3 else perm))
        elif m < 0.5:
            out.append(('pm_q types=%s perm=%s prov=%d ' % (','.join(tys), hx(perm), rnd.choice((0, 0, 1))) + ' '.join(q)).rstrip())
        elif perm.startswith('actions/'):
            out.append('pm_http kind=action act=reschedule-check ' + ' '.join(q))
        else:
            kind = perm.split('/')[1]
            t = tys[0]
            q = [x for x in q if not x.startswith('type=') or rnd.random() < 0.3]
            extra = ' name=%s' % hx(qname(rnd, t, hosts, pairs)) if rnd.random() < 0.35 else ''
            if kind == 'query' and rnd.random() < 0.25:
                out.append(('pm_aq ptype=%ss%s attrs=%s ' % (t.lower(), extra, ','.join(hx(x) for x in ['name', 'vars'])) + ' '.join(q)).rstrip())
            else:
                out.append(('pm_http kind=%s ptype=%ss%s ' % (kind, t.lower(), extra) + ' '.join(q)).rstrip())
    return out


HIST_QDS = [q for q in QDS if q[0] in ('objects/query/Host', 'objects/query/Service', 'objects/modify/Host', 'objects/modify/Service',
                                       'actions/reschedule-check', 'objects/delete/Host')]
CHANGES = ['narrow', 'widen', 'revoke', 'add-filter', 'remove-filter', 'restore', 'replace', 'near-miss']


def gen_history_case(rnd):
    hosts, svcs, pairs, lines = gen_inventory(rnd)
    FREE_SHARE[0] = 0.0
    perm, tys = rnd.choice(HIST_QDS)
    kind = rnd.choice(['wide', 'wide', 'filtered', 'mixed', 'none'])
    cur = perm_list(rnd, kind, perm, hosts, svcs)
    lines.append('pm_user perms=' + cur)
    lines.append('pm_load')
    me = hx('pmuser')
    changes = []
    reqs = hist_requests(rnd, perm, tys, hosts, svcs, pairs, rnd.randint(2, 4))
    if rnd.random() < 0.85:
        lines += reqs                       # the user is checked at least once BEFORE the change (15%: the change comes first)
    for r in range(rnd.randint(1, 4)):
        ch = rnd.choice(CHANGES)
        nk = {'narrow': 'filtered', 'widen': 'wide', 'revoke': 'none', 'add-filter': 'mixed', 'remove-filter': 'wide',
              'near-miss': 'near'}.get(ch, rnd.choice(['wide', 'filtered', 'none']))
        new = perm_list(rnd, nk, perm, hosts, svcs)
        if ch == 'restore':
            lines.append('pm_urestore name=%s%s' % (me, ' via=http' if rnd.random() < 0.4 else ''))
        elif ch == 'replace':
            lines.append('pm_udel name=%s' % me)
            lines.append('pm_auser name=%s pass=%s perms=%s' % (me, hx('pw'), new))
        else:
            via = ' via=http' if ('@' not in new or all(e.endswith('@') for e in new.split(';') if '@' in e)) and rnd.random() < 0.5 else ''
            lines.append('pm_uset name=%s perms=%s%s' % (me, new, via))
        changes.append(ch)
        # the same requests again (what the change must affect), plus fresh ones
        again = [x for x in reqs if rnd.random() < 0.8] + hist_requests(rnd, perm, tys, hosts, svcs, pairs, rnd.randint(0, 2))
        rnd.shuffle(again)
        lines += again
    return {'lines': lines, 'tags': {'family': 'permission-history', 'changes': '+'.join(changes)}}


CONN_USERS = ['alice', 'bob', 'Alice', 'carol', 'dave']
CONN_PASS = ['secret', 'pw2', 'p:w', 'Secret', 'x']


def gen_conn_case(rnd):
    hosts, svcs, pairs, lines = gen_inventory(rnd)
    FREE_SHARE[0] = 0.0
    t = rnd.choice(['Host', 'Host', 'Service'])
    perm = 'objects/query/' + t
    lines.append('pm_user perms=' + perm_list(rnd, rnd.choice(['wide', 'filtered', 'none']), perm, hosts, svcs))
    lines.append('pm_load')
    users = {'pmuser': 'pw'}                 # registered name -> password
    cns = {}
    names = rnd.sample(CONN_USERS, rnd.randint(2, 4))
    kinds = ['wide', 'none', 'filtered', 'wide', 'near']
    rnd.shuffle(kinds)

    def create(n, kind=None):
        pw = rnd.choice(CONN_PASS)
        cn = ''
        if rnd.random() < 0.3 and n not in cns:
            cns[n] = 'cn-' + n
            cn = ' cn=%s' % hx(cns[n])
        lines.append('pm_auser name=%s pass=%s%s perms=%s' % (hx(n), hx(pw), cn, perm_list(rnd, kind or rnd.choice(kinds), perm, hosts, svcs)))
        users[n] = pw
    for i, n in enumerate(names):
        create(n, kinds[i % len(kinds)])
    removed = {}

    def header():
        m = rnd.random()
        if m < 0.66 and users:
            n = rnd.choice(sorted(users))
            return 'b:' + hx('%s:%s' % (n, users[n])), 'valid'
        if m < 0.76 and users:
            n = rnd.choice(sorted(users))
            others = [p for p in CONN_PASS + ['pw'] if p != users[n]]
            bad = rnd.choice([rnd.choice(others), users[n][:-1], users[n] + 'x', users[n].swapcase() if users[n].swapcase() != users[n] else 'zz', ''])
            if bad == users[n]: bad = 'zz'
            return 'b:' + hx('%s:%s' % (n, bad)), 'wrong-password'
        if m < 0.83:
            n = rnd.choice(sorted(removed) + ['mallory', 'PMUSER', 'alice ', ''] if removed else ['mallory', 'PMUSER', 'pmuse', ''])
            if n in users: n = 'mallory'
            return 'b:' + hx('%s:%s' % (n, removed.get(n, rnd.choice(CONN_PASS)))), 'unknown-user'
        if m < 0.87 and users:
            return 'b:' + hx(rnd.choice(sorted(users))), 'no-colon'
        if m < 0.94:
            return 'none', 'no-header'
        n = rnd.choice(sorted(users)) if users else 'x'
        import base64
        b = base64.b64encode(('%s:%s' % (n, users.get(n, 'x'))).encode()).decode()
        return 'o:' + hx(rnd.choice(['Bearer ' + b, 'basic ' + b, 'BASIC ' + b, 'Digest username="%s"' % n, 'Basic', b])), 'other-scheme'

    nconn = 0
    opened = []
    dead = set()          # connections on which (correct code) a request was answered 401 or that were asked to close
    certs = set()         # connections whose certificate CN belongs to a user
    kindsused = []

    def open_conn():
        nonlocal nconn
        nconn += 1
        cn = ''
        if rnd.random() < 0.25:
            cn = ' cn=%s' % hx(rnd.choice(sorted(cns.values()) + ['cn-nobody']) if cns else 'cn-nobody')
        lines.append('pm_copen conn=%d%s' % (nconn, cn))
        opened.append(nconn)
        if cn and 'cn-nobody' not in cn and hx('cn-nobody') not in cn: certs.add(nconn)
    open_conn()
    for step in range(rnd.randint(6, 12)):
        m = rnd.random()
        if m < 0.10 and len(opened) < 3:
            open_conn()
            continue
        if m < 0.22:
            # the world changes between two requests of a connection
            n = rnd.choice(sorted(users))
            k = rnd.random()
            if k < 0.5:
                new = perm_list(rnd, rnd.choice(['wide', 'none', 'filtered', 'near']), perm, hosts, svcs)
                lines.append('pm_uset name=%s perms=%s' % (hx(n), new))
            elif k < 0.65:
                lines.append('pm_urestore name=%s' % hx(n))
            elif k < 0.85 and n != 'pmuser':
                lines.append('pm_udel name=%s' % hx(n))
                removed[n] = users.pop(n)
            elif n != 'pmuser':
                lines.append('pm_udel name=%s' % hx(n))
                removed[n] = users.pop(n)
                create(n)
            continue
        live = [x for x in opened if x not in dead]
        if not live and len(opened) < 4:
            open_conn()
            live = [opened[-1]]
        # mostly a connection that is still open; 25%: any (a request after a 401 must not be served either)
        c = rnd.choice(live) if live and rnd.random() < 0.75 else rnd.choice(opened)
        h, hk = header()
        kindsused.append(hk)
        q = [x for x in gen_query(rnd, [t], hosts, svcs, pairs) if not x.startswith('type=') or rnd.random() < 0.3]
        if rnd.random() < 0.5:
            q = []                            # plain listing of the type
        extra = ' name=%s' % hx(qname(rnd, t, hosts, pairs)) if rnd.random() < 0.25 else ''
        close = ' close=1' if rnd.random() < 0.06 else ''
        if (hk != 'valid' and c not in certs) or close: dead.add(c)
        lines.append(('pm_creq conn=%d hdr=%s ptype=%ss%s%s ' % (c, h, t.lower(), extra, close) + ' '.join(q)).rstrip())
    for c in opened:
        if rnd.random() < 0.5:
            lines.append('pm_cclose conn=%d' % c)
    return {'lines': lines, 'tags': {'family': 'keepalive-identity', 'headers': '+'.join(sorted(set(kindsused)))}}


def gen_field_tables_case():
    return {'lines': ['pm_fields type=%s' % t for t in ('Host', 'Service', 'CheckCommand', 'EventCommand', 'TimePeriod', 'Endpoint')],
            'tags': {'family': 'field-tables'}}


def generate(seed, tier):
    rnd = random.Random(seed)
    cases = gen_match_cases(rnd, tier)
    n = {'quick': 2500, 'thorough': 30000, 'search': 2500}.get(tier, 2500)
    for i in range(n):
        cases.append(gen_case(rnd, 0.25))
    for i in range(n // 10):
        cases.append(gen_multi_type_case(rnd))
    for i in range(n // 8):
        cases.append(gen_join_case(rnd))
    for i in range(n // 5):
        cases.append(gen_nav_order_case(rnd))
    for i in range(n // 4):
        cases.append(gen_env_case(rnd))
    for i in range(n // 6):
        cases.append(gen_join_names_case(rnd))
    cases.append(gen_field_tables_case())
    for i in range(n // 10):
        cases.append(gen_race_case(rnd))
    for i in range(n // 4):
        cases.append(gen_attrs_case(rnd))
    for i in range(n // 5):
        cases.append(gen_history_case(rnd))
    for i in range(n // 5):
        cases.append(gen_conn_case(rnd))
    return cases


def nontrivial(case, impl_lines):
    if case['lines'] and case['lines'][0].startswith(('pm_match', 'pm_fields')):
        return True
    return any((' objs=' in l and ' objs=-' not in l) or 'res=err' in l or 'code=404' in l or 'code=401' in l for l in impl_lines)


def classify(case, detail, impl_lines):
    if 'crash' in detail or 'missing-observation' in detail:
        return 'crash'
    if 'match-differs' in detail:
        return 'matcher'
    if 'decided-on-an-earlier-permission-list' in detail:
        return 'stale-permission-list'
    if 'identity:' in detail:
        return 'identity'
    if 'has-permission-differs' in detail or 'out-parameter' in detail or 'check-permission-disagrees' in detail:
        return 'permission-matching'
    if 'rejected-first' in detail or 'request-served' in detail:
        return 'reject-first'
    if 'race:' in detail:
        return 'act-on-unauthorised-object'
    if 'embedded-object' in detail:
        return 'embedded-object'
    if 'hidden-field' in detail:
        return 'hidden-field'
    if 'joined' in detail:
        return 'join-unpermitted'
    if 'unpermitted' in detail or 'forbidden' in detail:
        return 'unpermitted-object'
    return 'other'


def canon(lines):
    # pm_race: whether the request was parked inside the permission filter is an input of the schedule, not an observation
    return [re.sub(r' parked=[0-9?]', '', l) for l in lines]


def keep_line(l):
    return l.startswith(('pm_host', 'pm_svc', 'pm_user', 'pm_load', 'pm_copen'))


def _nav_order_stats(case, c):
    """count permission-filter evaluations in which a target with a NULL navigation reference is evaluated directly after a
    target with a non-null one, in the same namespace, under a permission filter that reads that reference (derived from the
    script: inventory order for type scans, list order for plural names, chain order on the fast path)"""
    KEY = {'z': 'ce', 'p': 'cp', 'e': 'ec'}
    objs = {'Host': [], 'Service': []}          # (full name, {key: value})
    reads = set()
    for l in case['lines']:
        t = l.split()
        kv = dict(x.split('=', 1) for x in t[1:] if '=' in x)
        unhx = lambda h: binascii.unhexlify(h).decode() if h and h != '-' else ''
        if t[0] == 'pm_host':
            objs['Host'].append((unhx(kv['name']), kv))
        elif t[0] == 'pm_svc':
            objs['Service'].append((unhx(kv['host']) + '!' + unhx(kv['name']), kv))
        elif t[0] == 'pm_user':
            for e in kv.get('perms', '-').split(';'):
                if '@' in e:
                    for tok in e.split('@', 1)[1].split(','):
                        if len(tok) > 2 and tok[0] in 'nNvcC' and tok[1] in KEY:
                            reads.add(tok[1])
        elif t[0] in ('pm_q', 'pm_http') and reads:
            if t[0] == 'pm_q':
                types = kv.get('types', '').split(',')
                fast_ok = kv.get('prov', '0') == '0'
                qtype = kv.get('type')
            elif kv.get('kind') == 'action':
                types, fast_ok, qtype = ['Host', 'Service'], True, kv.get('type')
            else:
                ty = 'Service' if kv.get('ptype') == 'services' else 'Host'
                types, fast_ok, qtype = [ty], True, ty
            seqs = []
            for ty in types:
                if ty not in objs:
                    continue
                byname = dict(objs[ty])
                seq = []
                low = ty.lower()
                if low in kv and unhx(kv[low]) in byname:
                    seq.append(byname[unhx(kv[low])])
                for n in (kv.get(low + 's', '-').split(',') if kv.get(low + 's', '-') != '-' else []):
                    if unhx(n) not in byname:
                        break
                    seq.append(byname[unhx(n)])
                seqs.append(seq)
            anynames = any(seqs) and any(len(x) for x in seqs)
            if qtype in objs and ('filter' in kv or not anynames):
                toks = kv.get('filter', '').split(',') if 'filter' in kv else None
                byname = dict(objs[qtype])
                if toks and fast_ok and all(x in ('and', 'or') or x[:2] in ('nh', 'Nh', 'ns', 'Ns') for x in toks):
                    names, pend = [], {}
                    for x in toks:
                        if x[:2] in ('nh', 'Nh'):
                            pend['h'] = unhx(x.split(':')[1])
                        elif x[:2] in ('ns', 'Ns'):
                            pend['s'] = unhx(x.split(':')[1])
                        if qtype == 'Host' and 'h' in pend:
                            names.append(pend.pop('h'))
                        elif qtype == 'Service' and 'h' in pend and 's' in pend:
                            names.append(pend.pop('h') + '!' + pend.pop('s'))
                    seqs.append([byname[n] for n in names if n in byname])
                    c['nav_eval_sequences_fast_path'] += 1
                else:
                    seqs.append([o[1] for o in objs[qtype]])
                    c['nav_eval_sequences_scan'] += 1
            for seq in seqs:
                if len(seq) > 1:
                    c['nav_eval_sequences_name_lists' if seq is not seqs[-1] else 'nav_eval_sequences_last'] += 0
                for a, b in zip(seq, seq[1:]):
                    for sc in reads:
                        if KEY[sc] in a and KEY[sc] not in b:
                            c['nav_null_after_nonnull_evals'] += 1
    if reads:
        c['cases_with_perm_filter_reading_joined_object'] += 1


def extra_stats(cases, impl):
    import collections
    c = collections.Counter()
    for cs in cases:
        if cs['lines'] and not cs['lines'][0].startswith('pm_match'):
            try:
                _nav_order_stats(cs, c)
            except Exception:
                c['nav_stats_errors'] += 1
    for cs in cases:
        pfree = set()
        for l in cs['lines']:
            if l.startswith('pm_user'):
                for e in l.split('=', 1)[1].split(';'):
                    if '@' in e:
                        for tok in e.split('@', 1)[1].split(','):
                            if tok[:1] in 'cCwiM' and ':' in tok:
                                pfree.add(tok.split(':')[-1])
            elif l.startswith(('pm_q', 'pm_http')) and pfree and ' fv=' in l:
                keys = set(x.split(':')[0] for x in l.split(' fv=', 1)[1].split()[0].split(','))
                if keys & pfree:
                    c['requests_whose_filter_vars_name_a_free_name_of_the_permission_filter'] += 1
                    if any(t[:1] in 'mMlri' for t in (l.split(' filter=', 1)[1].split()[0].split(',') if ' filter=' in l else [])):
                        c['...of_those_with_user_filter_on_generic_path'] += 1
    for cs in cases:
        for l in cs['lines']:
            op = l.split()[0]
            if op == 'pm_q':
                keys = set(p.split('=')[0] for p in l.split()[1:])
                shape = '+'.join(k for k in ('host', 'service', 'hosts', 'services', 'type', 'filter', 'fv') if k in keys) or 'empty'
                c['q_shape:' + shape] += 1
            elif op == 'pm_http':
                c['http:' + dict(p.split('=', 1) for p in l.split()[1:] if '=' in p).get('kind', '?')] += 1
                kv = dict(p.split('=', 1) for p in l.split()[1:] if '=' in p)
                if 'jsel' in kv or kv.get('joins'):
                    c['http_join_requests'] += 1
            elif op == 'pm_aq':
                kv = dict(p.split('=', 1) for p in l.split()[1:] if '=' in p)
                un = lambda h: binascii.unhexlify(h).decode() if h and h != '-' else ''
                al = [un(x) for x in kv['attrs'].split(',')] if 'attrs' in kv else None
                c['aq_attrs:' + ('absent' if al is None else 'given')] += 1
                if al and any(x in A_NAVOBJ for x in al): c['aq_attrs_names_object_valued_field'] += 1
                if al and any(x in A_HIDDEN for x in al): c['aq_attrs_names_no_user_view_field'] += 1
                if 'aj' in kv:
                    jl = [un(x) for x in kv['aj'].split(',')]
                    c['aq_joins_with_field_selector' if any('.' in x for x in jl) else 'aq_joins_bare'] += 1
                if 'alljoins' in kv: c['aq_all_joins'] += 1
                if 'meta' in kv: c['aq_meta'] += 1
            elif op == 'pm_race':
                kv = dict(p.split('=', 1) for p in l.split()[1:] if '=' in p)
                c['race:' + kv.get('kind', '?')] += 1
            elif op == 'pm_glob':
                c['globals_declared'] += 1
            elif op in ('pm_uset', 'pm_urestore', 'pm_udel', 'pm_auser'):
                c['user_change:' + op[3:] + (':via-http' if ' via=http' in l else '')] += 1
            elif op == 'pm_copen':
                c['conn_opened' + ('_with_certificate_cn' if ' cn=' in l else '')] += 1
            elif op == 'pm_creq':
                c['conn_requests'] += 1
            elif op == 'pm_user':
                n = 0 if l.endswith(('=-', '=none')) else l.count(';') + 1
                c['user_entries:%d' % n] += 1
                c['user_filtered_entries'] += len(re.findall(r'@[^;]', l))
        for l in impl.get(cs['id'], []):
            if l.startswith('pm_q'):
                if 'has=0' in l: c['q_no_permission'] += 1
                elif 'res=err:script' in l: c['q_err_script(denied/throw)'] += 1
                elif 'res=err:arg' in l: c['q_err_arg'] += 1
                elif 'objs=-' in l: c['q_ok_empty'] += 1
                else: c['q_ok_nonempty'] += 1
            elif l.startswith('pm_match'):
                c['match_true' if l.endswith('1') else 'match_false'] += 1
            elif l.startswith('pm_http'):
                c['http_404' if 'code=404' in l else 'http_ok'] += 1
                if 'joins=' in l and 'joins=-' not in l: c['http_join_serialised'] += 1
            elif l.startswith('pm_race'):
                c['race_parked_in_permission_filter' if 'parked=1' in l else 'race_not_parked'] += 1
                c['race_acted_' + (l.split('acted=')[1].split()[0] if 'acted=' in l else '?')] += 1
            elif l.startswith('pm_aq'):
                c['aq_' + (l.split('code=')[1].split()[0] if 'code=' in l else '?')] += 1
                if ' joins=' in l and ' joins=-' not in l: c['aq_join_serialised'] += 1
                if ' akeys=#' in l: c['aq_all_fields'] += 1
            elif l.startswith('pm_creq'):
                c['creq_' + (l.split('code=')[1].split()[0] if 'code=' in l else 'closed')] += 1
            elif l.startswith('pm_perm'):
                c['perm_has' if 'has=1' in l else 'perm_missing'] += 1
                if '!E' in l: c['perm_filter_throws'] += 1
    # round 6: how many requests FOLLOW a runtime change of the user they are decided for, and how many connections carry more than one identity
    for cs in cases:
        fam = cs.get('tags', {}).get('family')
        if fam == 'permission-history':
            changed = False
            for l in cs['lines']:
                op = l.split()[0]
                if op in ('pm_uset', 'pm_urestore', 'pm_udel'): changed = True
                elif op in ('pm_q', 'pm_http', 'pm_perm', 'pm_aq'):
                    c['history_requests_after_a_change' if changed else 'history_requests_before_any_change'] += 1
            for ch in cs['tags'].get('changes', '').split('+'):
                if ch: c['history_change:' + ch] += 1
        elif fam == 'keepalive-identity':
            per = {}
            for l, o in zip([x for x in cs['lines'] if x.startswith('pm_creq')], [x for x in impl.get(cs['id'], []) if x.startswith('pm_creq')]):
                kv = dict(p.split('=', 1) for p in l.split()[1:] if '=' in p)
                if 'closed' not in o: per.setdefault(kv['conn'], []).append(kv['hdr'])
            for hs in per.values():
                if len(set(hs)) > 1: c['connections_answering_under_more_than_one_header'] += 1
                if len(hs) > 1: c['connections_with_more_than_one_answered_request'] += 1
            for hk in cs['tags'].get('headers', '').split('+'):
                if hk: c['conn_cases_with_header:' + hk] += 1
    return {k: v for k, v in c.items() if v}
