"""C02 - Problem/Recovery on hard changes, suppression, release.  Generators + classification."""
import random, itertools, re, os, collections
from . import ckgen

PID = 'C02'
# the extended search for a failing input (only run when a proof or the correspondence broke without an oracle hit) starts with the
# directed families and is capped: the quick tier stays below two minutes also in that case
os.environ.setdefault('VERIF_SEARCH_S', '60')
HEADER = ['obs nr ref']
T0 = ckgen.T0
CORR_NAME = 'combined checkable model Ck/CkFull.v vs Host/Service/Downtime/Comment/Dependency objects'
RULE = ('operation sequences of length 4 (quick: every fourth one of the complete space, rotating with the seed; thorough: the complete space, plus every fourth of length 5) over {result OK/WARNING/CRITICAL, long fixed downtime start, '
        'downtime removal, acknowledge, clear ack, parent down, parent up, timer, +70 s} from {never checked, hard OK, hard CRITICAL, hard CRITICAL inside a downtime} '
        'for hosts and services with max_check_attempts 1..3, volatile on/off, each followed by clock +400 s and two timer firings; '
        'random sequences of length 40-200 (hosts/services, max 1..4, volatile, flapping on/off, active checks on/off, several check intervals) '
        'with long downtimes, (sticky/expiring) acknowledgements, parent down periods, pause/resume, flexible and chained downtimes, '
        'biased so that most steps happen under a suppression reason (fraction measured in extra.steps_under_reason_fraction); '
        'a family with flapping enabled in which the detector (simulated exactly by the generator) is driven to toggle by alternating results before / while / after a long downtime begins, '
        'FlappingStart/FlappingEnd are withheld, and the first hard changes of an episode follow inside the same suppression from hard problem, hard OK and hard OK with a stale non-OK remembered state, then release '
        '(extra.episodes_begun_while_flapping_bit_pending counts episodes whose first state notification is stashed while a flapping bit is pending); '
        'a family in which flapping ends or starts on the very result that is a hard change (the generator searches, with an exact copy of the detector, the number of steady results after which '
        'the soft-to-hard step of an unchanged non-OK state, max 2..4, or a further non-OK result of a volatile object in a hard problem ends the flapping; flapping starting on a hard problem / hard recovery / '
        'change between hard problem states; control: ending on a steady OK), each with no reason, inside a downtime begun before the flapping or just before the result, acknowledged, unreachable, '
        'with state events pending from an earlier episode, paused, then release (extra.flapping_toggle_on_hard_change counts, on the implementation traces, flapping ends whose state notification was sent / stashed); '
        'non-trivial = at least one state notification was requested or withheld in the case; distinct = distinct script text')
TRUSTED = ['model: coq/Ck/CkFull.v (transcription of Checkable::ProcessCheckResult, FireSuppressedNotifications, NotificationReasonSuppressed/Applies, '
           'IsLikelyToBeCheckedSoon, acknowledgement and downtime entry points; flapping in exact 1/100 % arithmetic); C02 proofs in coq/Ck/CkSupp*.v',
           'oracle glue ocaml/ops_cksupp.ml: per step the oracle reads state type, attempt, acknowledgement, expiry, suppressed bits, state_before_suppression, '
           'flapping flag and downtime trigger times from the IMPLEMENTATION line; raw state = result fed; parent state, next check, pause flag follow the script',
           'hook H1 (virtual clock) in lib/base/utility.cpp; timer handlers are called directly by the harness',
           'source facts re-extracted each run: NotificationType bit values (coq/Facts/Facts_enums.v)']
ASSUMPTIONS = ['timestamps are whole seconds (exact in binary64); flapping thresholds 30.05/25.05 lie off the 0.1 % grid of reachable flapping values',
               'theorems about requests assume authority (not paused): a paused node neither requests nor stashes, its HA peer does',
               'reachability is the one the fixture can express: one parent host behind a default Dependency (C07 decides reachability in general)',
               'next_check is an input: a recovering parent reschedules actively checked problem children to now + Utility::Random() % 60 (checkable-check.cpp:405-416); the generators script next_check explicitly after every parent recovery of an actively checked object',
               'liveness only as stated: release at a timer firing at which the four conditions hold; that the timer fires every 5 s is the runtime\'s',
               'the two defects found here (host release by raw states, volatile Recovery from a soft state) are fixed in /repo (5e50b7a, b9a7cb5); the model follows the fixed code and the theorems carry no exception for them; the generators keep producing their shapes']


def hdr(kind, mx, vol, flap=0, active=0, ci=300):
    return ['now %d' % T0, 'ckf_new kind=%s max=%d vol=%d flap=%d active=%d ci=%d' % (kind, mx, vol, flap, active, ci)]


ALPHA = ('r0', 'r1', 'r2', 'dt', 'dtrm', 'ack', 'unack', 'pdown', 'pup', 'fire', 'adv')


def short_case(kind, mx, vol, start, seq, sticky):
    lines = hdr(kind, mx, vol)
    t = T0
    ndt = 0

    def step(d=10):
        nonlocal t
        t += d
        lines.append('now %d' % t)
    if start in ('ok', 'crit', 'critdt'):
        step()
        lines.append('crf state=0')
    if start in ('crit', 'critdt'):
        for _ in range(mx):
            step()
            lines.append('crf state=2')
    if start == 'critdt':
        step()
        ndt += 1
        lines.append('dt_add id=%d fixed=1 start=%d end=%d dur=0 trig=0 parent=0 owned=0' % (ndt, t, t + 100000))
    for a in seq:
        if a == 'adv':
            step(70)
            continue
        step()
        if a[0] == 'r':
            lines.append('crf state=%s' % a[1])
        elif a == 'dt':
            ndt += 1
            lines.append('dt_add id=%d fixed=1 start=%d end=%d dur=0 trig=0 parent=0 owned=0' % (ndt, t, t + 100000))
        elif a == 'dtrm':
            if ndt:
                lines.append('dt_remove id=%d children=0 reason=user' % ndt)
        elif a == 'ack':
            lines.append('ack via=api sticky=%d notify=0 pers=0 eg=0 expiry=0' % sticky)
        elif a == 'unack':
            lines.append('unack via=api')
        elif a == 'pdown':
            lines.append('parent up=0')
        elif a == 'pup':
            lines.append('parent up=1')
        elif a == 'fire':
            lines.append('fire')
    step(400)
    lines.append('fire')
    lines.append('fire')
    return {'lines': lines, 'tags': {'family': 'exhaustive-' + start}}


class G2(ckgen.Gen):
    def dt_long(self):
        r = self.r
        i = self.next_dt
        self.next_dt += 1
        fixed = int(r.random() < 0.7)
        start = self.t + r.choice((-5, 0, 0, 0, 3))
        end = start + r.choice((30, 120, 600, 3000))
        dur = 0 if fixed else r.choice((20, 60, 400))
        self.dts[i] = (fixed, start, end, dur)
        self.boundaries.update((start, end - 1, end, end + 1, start + dur))
        self.lines.append('dt_add id=%d fixed=%d start=%d end=%d dur=%d trig=0 parent=0 owned=0' % (i, fixed, start, end, dur))

    def ack_long(self):
        r = self.r
        eg = int(r.random() < 0.35)
        expiry = self.t + r.choice((20, 60, 300, 1000)) if eg else 0
        if eg:
            self.boundaries.update((expiry, expiry + 1))
        self.lines.append('ack via=api sticky=%d notify=%d pers=0 eg=%d expiry=%d' % (int(r.random() < 0.6), r.randint(0, 1), eg, expiry))


W_C02 = {'adv': 5, 'result': 8, 'ack_long': 2.0, 'unack': 0.35, 'dt_long': 2.4, 'dt_add': 0.5, 'dt_remove': 0.6, 'dt_starttimer': 0.6,
         'dt_cleanup': 0.8, 'fire': 4.5, 'pdown': 1.2, 'pup': 0.6, 'pause': 0.25, 'nextcheck': 0.5, 'ackread': 0.3}


def random_case(rnd, n, fam, **cfg):
    g = G2(rnd, **cfg)
    names = list(W_C02)
    ws = [W_C02[k] for k in names]
    if g.active:
        g.nextcheck()
    # open under a reason most of the time
    g.adv(10)
    g.result(rnd.choice((0, 0, 2, 2, 1)))
    for _ in range(g.mx if rnd.random() < 0.5 else 0):
        g.adv(10)
        g.result(rnd.choice((2, 2, 3, 1)))
    g.adv(5)
    k0 = rnd.random()
    if k0 < 0.5:
        g.dt_long()
    elif k0 < 0.75:
        g.lines.append('parent up=0')
    elif k0 < 0.95:
        g.ack_long()
    for _ in range(n):
        k = rnd.choices(names, ws)[0]
        if k == 'adv':
            # mostly small steps: long jumps end every downtime at once
            g.adv(None if rnd.random() < 0.35 else rnd.choice((1, 1, 5, 5, 10, 10, 30, 61)))
        elif k == 'result':
            g.result()
        elif k == 'ack_long': g.ack_long()
        elif k == 'unack': g.unack()
        elif k == 'dt_long': g.dt_long()
        elif k == 'dt_add': g.dt_add()
        elif k == 'dt_remove': g.dt_remove()
        elif k == 'dt_starttimer': g.simple('dt_starttimer')
        elif k == 'dt_cleanup': g.dt_cleanup()
        elif k == 'fire': g.simple('fire')
        elif k == 'pdown': g.lines.append('parent up=0')
        elif k == 'pup':
            g.lines.append('parent up=1')
            # a recovering parent reschedules actively checked problem children to now + Utility::Random() % 60
            # (checkable-check.cpp:405-416): next_check is an input C02 does not decide, so it is scripted explicitly
            if g.active:
                g.nextcheck()
        elif k == 'pause':
            g.pause()
            if g.lines[-1].endswith('p=1') and rnd.random() < 0.8:
                g.adv(5); g.result(); g.lines.append('pause p=0')
        elif k == 'nextcheck': g.nextcheck()
        elif k == 'ackread': g.simple('ackread')
    g.adv(400)
    g.simple('fire')
    return g.case(fam)



class FlapSim:
    """Checkable::UpdateFlappingStatus in exact arithmetic (as coq/Ck/CkFull.v: update_flap), thresholds 30.05 / 25.05."""

    def __init__(self):
        self.buf = [False] * 20
        self.index = 0
        self.last = 3
        self.flapping = False

    def feed(self, state):
        self.buf[self.index] = (state != self.last)
        oldest = (self.index + 1) % 20
        v = sum(400 + 10 * i for i in range(20) if self.buf[(oldest + i) % 20])
        self.flapping = v > (2505 if self.flapping else 3005)
        self.index = oldest
        self.last = state
        return self.flapping


def flap_case(rnd, kind, start, where):
    """Flapping toggles around / inside a suppression, then the FIRST hard change of an episode is withheld while a
    flapping bit may already be pending, then release.  `where`: when the long downtime begins relative to the flapping."""
    mx = rnd.choice((1, 1, 1, 2))
    lines = ['now %d' % T0, 'ckf_new kind=%s max=%d vol=0 flap=1 active=0 ci=300' % (kind, mx)]
    t = [T0]
    sim = FlapSim()
    ndt = [0]
    bad = 2 if kind == 'host' else rnd.choice((1, 2, 2, 3))

    def res(s):
        t[0] += rnd.choice((5, 10, 10, 30))
        lines.append('now %d' % t[0])
        lines.append('crf state=%d' % s)
        return sim.feed(s)

    def op(l):
        t[0] += rnd.choice((1, 5))
        lines.append('now %d' % t[0])
        lines.append(l)

    def dt():
        ndt[0] += 1
        op('dt_add id=%d fixed=1 start=%d end=%d dur=0 trig=0 parent=0 owned=0' % (ndt[0], t[0] + 1, t[0] + 100000))

    def undt():
        op('dt_remove id=%d children=0 reason=user' % ndt[0])

    res(0)
    if start in ('crit', 'ok-stale'):
        for _ in range(mx):
            res(bad)
    if start == 'ok-stale':
        # an earlier episode that leaves a non-OK remembered state behind: CRITICAL -> [downtime: OK] -> released Recovery
        dt(); res(0); undt()
        t[0] += 400
        op('fire')
    base = bad if start == 'crit' else 0
    other = 0 if base else bad
    if where == 'before':
        dt()
    # phase A: alternate until the detector says flapping
    n = 0
    cur = base
    while not sim.flapping and n < 24:
        cur = other if cur == base else base
        res(cur)
        n += 1
        if where == 'during' and n == 4:
            dt()
    for _ in range(rnd.choice((0, 0, 1, 2))):
        cur = other if cur == base else base
        res(cur)
    if where == 'after':
        dt()
    if where == 'none' and rnd.random() < 0.5:
        op('ack via=api sticky=1 notify=0 pers=0 eg=0 expiry=0')
    if rnd.random() < 0.25:
        op('parent up=0')
    if rnd.random() < 0.2:
        op('fire')
    # phase B: steady results until the detector says not flapping any more (FlappingEnd: withheld inside the downtime)
    n = 0
    steady = base if rnd.random() < 0.8 else cur
    while (sim.flapping or n < 1) and n < 40:
        res(steady)
        n += 1
    for _ in range(rnd.choice((0, 0, 1))):
        res(steady)
    # phase C: the first hard changes of the episode, still inside the suppression
    cur = steady
    for _ in range(rnd.choice((1, 1, 2, 3))):
        nxt = rnd.choice([x for x in ((0, bad) if kind == 'host' else (0, 1, 2, 3)) if x != cur])
        for _ in range(mx if nxt != 0 else 1):
            res(nxt)
        cur = nxt
        if rnd.random() < 0.15:
            op('fire')
    # phase D: release
    if 'parent up=0' in lines:
        op('parent up=1')
        res(cur)
    if ndt[0]:
        undt()
    t[0] += 400
    lines.append('now %d' % t[0])
    lines.append('fire')
    lines.append('fire')
    return {'lines': lines, 'tags': {'family': 'flapping-inside-suppression'}}


class _Obj:
    """Rough state type / attempt bookkeeping used ONLY to aim the generator (what counts is measured on the implementation's
    traces in extra_stats: flapping_end_with_state_notification_*)."""

    def __init__(self, host, mx, vol):
        self.host, self.mx, self.vol = host, mx, vol
        self.state, self.hard, self.att = 0, False, 1
        self.fresh = True

    def ok(self, s):
        return s in (0, 1) if self.host else s == 0

    def feed(self, s):
        """-> 'problem' / 'recovery' / None: would a state notification be due (flapping and reasons aside)"""
        old, oldhard = self.state, self.hard
        out = None
        if self.ok(s):
            if not self.ok(old) and oldhard and not self.fresh:
                out = 'recovery'
            self.hard, self.att = True, 1
        else:
            if self.ok(old) or self.fresh:
                self.att = 1
                self.hard = self.mx == 1
                if self.hard:
                    out = 'problem'
            elif not oldhard:
                self.att += 1
                if self.att >= self.mx:
                    self.hard, self.att = True, 1
                    out = 'problem'
            else:
                hs = (lambda x: x in (0, 1)) if self.host else (lambda x: x)
                if hs(s) != hs(old) or (self.vol):
                    out = 'problem'
        self.state = s
        self.fresh = False
        return out


TOGGLE_GOALS = ('end-soft-to-hard', 'end-volatile-repeat', 'end-steady-ok', 'start-hard-change')
TOGGLE_REASONS = ('none', 'downtime', 'ack', 'unreachable', 'pending', 'paused', 'downtime-early')


def toggle_case(rnd, kind, goal, reason):
    """The flapping detector (simulated exactly: FlapSim) toggles on the very result that is a hard change:
    end-soft-to-hard     max >= 2, flapping ends on the result that takes an UNCHANGED non-OK state from soft to hard
                         (a result with a state change raises the flapping value, so flapping can only end on an unchanged state);
    end-volatile-repeat  volatile object resting in a hard problem, flapping ends on a further non-OK result;
    end-steady-ok        control: flapping ends on a steady OK result (no state notification due);
    start-hard-change    flapping starts on a hard problem / hard recovery / change between hard problem states;
    each with no reason / inside a downtime (begun before the flapping or just before the result) / acknowledged / unreachable /
    state events still pending from an earlier episode / paused; afterwards the reason is lifted and the timer fires."""
    host = kind == 'host'
    vol = 1 if goal == 'end-volatile-repeat' else (1 if rnd.random() < 0.15 else 0)
    if goal == 'end-soft-to-hard':
        mx = rnd.choice((2, 2, 3, 3, 4))
    elif goal == 'start-hard-change':
        mx = rnd.choice((1, 1, 1, 2))
    else:
        mx = rnd.choice((1, 2, 3))
    for _attempt in range(40):
        c = _toggle_try(rnd, kind, host, vol, mx, goal, reason)
        if c is not None:
            return c
    return None


def _toggle_try(rnd, kind, host, vol, mx, goal, reason):
    lines = ['now %d' % T0, 'ckf_new kind=%s max=%d vol=%d flap=1 active=0 ci=300' % (kind, mx, vol)]
    t = [T0]
    sim = FlapSim()
    ob = _Obj(host, mx, vol)
    ndt = [0]
    bad = 2 if host else rnd.choice((1, 2, 2, 3))

    def res(s):
        t[0] += rnd.choice((5, 10, 10, 30))
        lines.append('now %d' % t[0])
        lines.append('crf state=%d' % s)
        ob.feed(s)
        return sim.feed(s)

    def op(l):
        t[0] += rnd.choice((1, 5))
        lines.append('now %d' % t[0])
        lines.append(l)

    def dt():
        ndt[0] += 1
        op('dt_add id=%d fixed=1 start=%d end=%d dur=0 trig=0 parent=0 owned=0' % (ndt[0], t[0] + 1, t[0] + 100000))

    def undt():
        op('dt_remove id=%d children=0 reason=user' % ndt[0])

    lifted = []

    def begin_reason():
        if reason == 'downtime':
            dt(); lifted.append('dt')
        elif reason == 'ack':
            if not ob.ok(ob.state):
                op('ack via=api sticky=%d notify=0 pers=0 eg=0 expiry=0' % rnd.choice((0, 1, 1))); lifted.append('ack')
        elif reason == 'unreachable':
            op('parent up=0'); lifted.append('parent')
        elif reason == 'paused':
            op('pause p=1'); lifted.append('pause')

    res(0)
    if reason == 'pending':
        # an earlier episode whose events are still pending (downtime removed, timer not yet fired)
        if rnd.random() < 0.5:
            # only the Recovery bit pending (remembered state: the hard problem): the Problem due later adds its bit
            for _ in range(mx):
                res(bad)
            dt()
            res(0)
        else:
            dt()
            for _ in range(mx):
                res(bad)
            if rnd.random() < 0.5:
                res(0)
        undt()
    elif reason == 'downtime-early':
        dt(); lifted.append('dt')

    if goal == 'start-hard-change':
        # alternate between two states whose every change is a hard change; the reason is in place before the flapping starts
        if mx > 1 or (not host and rnd.random() < 0.4):
            for _ in range(mx):
                res(bad)
            a_, b_ = (bad, (3 if bad != 3 else 2)) if (host or rnd.random() < 0.7) else (bad, 0)
            if host:
                a_, b_ = 2, 0
                if mx > 1:
                    return None
        else:
            a_, b_ = 0, bad
        k = rnd.randint(0, 4)
        cur = ob.state
        for _ in range(k):
            cur = b_ if cur == a_ else a_
            res(cur)
        if sim.flapping:
            return None
        begin_reason()
        n = 0
        while not sim.flapping and n < 24:
            cur = b_ if cur == a_ else a_
            res(cur)
            n += 1
        if not sim.flapping:
            return None
        for _ in range(rnd.choice((0, 1, 2))):
            cur = b_ if cur == a_ else a_
            res(cur)
        # calm down again (FlappingEnd), then one more hard change
        n = 0
        while sim.flapping and n < 40:
            res(cur)
            n += 1
        nxt = 0 if not ob.ok(cur) else bad
        for _ in range(mx if nxt else 1):
            res(nxt)
    else:
        # phase A: alternate until the detector says flapping (hosts sometimes between raw OK and WARNING: both Up)
        other = 1 if (host and rnd.random() < 0.25) else bad
        cur = 0
        n = 0
        while not sim.flapping and n < 24:
            cur = other if cur == 0 else 0
            res(cur)
            n += 1
        if not sim.flapping:
            return None
        for _ in range(rnd.choice((0, 0, 1, 2, 3))):
            cur = other if cur == 0 else 0
            res(cur)
        when = rnd.choice(('early', 'late', 'late'))
        if goal == 'end-steady-ok':
            if reason not in ('pending', 'downtime-early', 'ack') and when == 'early':
                begin_reason()
            n = 0
            while sim.flapping and n < 40:
                if n == 3 and not lifted and reason != 'ack':
                    begin_reason()
                res(0)
                n += 1
        elif goal == 'end-volatile-repeat':
            # rest in a hard problem; every further non-OK result is a (withheld) Problem while flapping, the one ending it is due
            if ob.ok(cur):
                res(bad)
            while not ob.hard:
                res(bad)
            if when == 'early':
                begin_reason()
            # how many steady results until the detector lets go?
            probe = _copy_sim(sim)
            need = 0
            while probe.flapping and need < 40:
                probe.feed(bad); need += 1
            if need >= 40 or need < 1:
                return None
            for i in range(need):
                if i == need - 1 and not lifted:
                    begin_reason()
                res(bad)
            if sim.flapping:
                return None
        else:
            # end-soft-to-hard: n steady OK results, then `mx` equal non-OK results the last of which is hard AND ends the flapping
            fit = []
            for n in range(0, 30):
                probe = _copy_sim(sim)
                okk = True
                for _ in range(n):
                    if not probe.feed(0):
                        okk = False
                        break
                if not okk:
                    break
                fl = [probe.feed(bad) for _ in range(mx)]
                if all(fl[:-1]) and not fl[-1]:
                    fit.append(n)
            if not fit:
                return None
            n = rnd.choice(fit)
            if reason not in ('ack',) and when == 'early':
                begin_reason()
            for _ in range(n):
                res(0)
            for i in range(mx):
                if i == mx - 1 and not lifted:
                    begin_reason()
                res(bad)
            if sim.flapping or not ob.hard:
                return None
        # what follows the decisive result
        k = rnd.random()
        if k < 0.3:
            res(ob.state)
        elif k < 0.5:
            res(0)
        elif k < 0.6 and not host:
            res(3 if ob.state != 3 else 2)
    if rnd.random() < 0.2:
        op('fire')
    # release
    for what in lifted:
        if what == 'dt':
            undt()
        elif what == 'ack':
            op('unack via=api')
        elif what == 'parent':
            op('parent up=1')
            res(ob.state)
        elif what == 'pause':
            op('pause p=0')
    t[0] += 400
    lines.append('now %d' % t[0])
    lines.append('fire')
    lines.append('fire')
    return {'lines': lines, 'tags': {'family': 'flapping-toggle-on-hard-change', 'goal': goal, 'reason': reason}}


def _copy_sim(sim):
    c = FlapSim()
    c.buf = list(sim.buf)
    c.index, c.last, c.flapping = sim.index, sim.last, sim.flapping
    return c


def toggle_cases(rnd, n):
    out = []
    i = 0
    tries = 0
    while len(out) < n and tries < 4 * n:
        tries += 1
        goal = ('end-soft-to-hard', 'end-volatile-repeat', 'end-soft-to-hard', 'start-hard-change', 'end-volatile-repeat',
                'end-soft-to-hard', 'end-steady-ok')[i % 7]
        reason = TOGGLE_REASONS[(i // 7) % len(TOGGLE_REASONS)]
        kind = ('host', 'svc')[(i + i // 7 + i // 49) % 2]
        i += 1
        c = toggle_case(rnd, kind, goal, reason)
        if c is not None:
            out.append(c)
    return out


def generate(seed, tier):
    rnd = random.Random(seed)
    cases = []
    # flapping toggling on the very result that is a hard change: first in the list, so the extended search for a failing input starts with it
    cases += toggle_cases(random.Random(seed * 7919 + 13), {'quick': 840, 'thorough': 8400, 'search': 2800}.get(tier, 840))
    # (length, start states, keep one in `stride` sequences); the thorough tier has the complete length-4 space
    plan = {'quick': [(4, ('pending', 'ok', 'critdt'), 4)],
            'thorough': [(4, ('pending', 'ok', 'crit', 'critdt'), 1), (5, ('pending', 'critdt'), 4)],
            'search': [(4, ('pending', 'ok', 'crit', 'critdt'), 3)]}.get(tier, [(4, ('pending', 'ok', 'critdt'), 4)])
    n = 0
    for (L, starts, stride) in plan:
        for kind in ('host', 'svc'):
            for start in starts:
                for seq in itertools.product(ALPHA, repeat=L):
                    # sequences without any result or timer after the start exercise nothing of C02
                    if not any(a[0] == 'r' or a == 'fire' for a in seq):
                        continue
                    n += 1
                    if stride > 1 and (n + seed) % stride:
                        continue
                    mx = (1, 2, 1, 3)[(n // stride) % 4]
                    vol = 1 if (n // (4 * stride)) % 5 == 0 else 0
                    cases.append(short_case(kind, mx, vol, start, seq, sticky=(n // 20) % 2))
    nrand = {'quick': 1000, 'thorough': 12000, 'search': 2500}.get(tier, 1000)
    for i in range(nrand):
        cases.append(random_case(rnd, rnd.randint(40, 200), 'random-long'))
    # host-only stream with WARNING/UNKNOWN results inside suppression (shape of the fixed defect 5e50b7a: release by raw-state comparison)
    for i in range(nrand // 5):
        cases.append(random_case(rnd, rnd.randint(40, 120), 'random-long-host', kind='host', mx=rnd.choice((1, 1, 2)), vol=0, flap=0))
    # volatile objects with soft -> OK/Up transitions (shape of the fixed defect b9a7cb5)
    for i in range(nrand // 5):
        cases.append(random_case(rnd, rnd.randint(40, 120), 'random-long-volatile', vol=1, mx=rnd.choice((1, 2, 3, 4))))
    for i in range(nrand // 5):
        cases.append(random_case(rnd, rnd.randint(60, 200), 'random-long-flapping', flap=1, vol=0))
    nflap = {'quick': 600, 'thorough': 6000, 'search': 1200}.get(tier, 600)
    for i in range(nflap):
        cases.append(flap_case(rnd, ('host', 'svc')[i % 2], ('crit', 'ok', 'ok-stale')[(i // 2) % 3],
                               ('after', 'after', 'before', 'during', 'none')[(i // 6) % 5]))
    return cases


_tok = re.compile(r'(\w+)=(\S+)')


def _kv(line):
    return dict(_tok.findall(line))


def nontrivial(case, impl_lines):
    for l in impl_lines:
        if ' nr=32' in l or ' nr=64' in l:
            return True
        m = re.search(r' supp=(\d+)', l)
        if m and int(m.group(1)) & 96:
            return True
    return False


def _up(s):
    return s in (0, 1)


def classify(case, detail, impl_lines):
    if 'crash' in detail or 'CRASH' in detail or 'HANG' in detail:
        return 'crash'
    d = _kv(detail)
    code = int(d.get('code', -1))
    if code == 21:
        # signature: host, release conditions met, raw state differs from the remembered raw state although Up/Down is the same
        raw0, sbs0 = int(d.get('raw0', -1)), int(d.get('sbs0', -1))
        if d.get('kind') == 'host' and raw0 != sbs0 and _up(raw0) == _up(sbs0) and d.get('paused') == '0' and d.get('reason') == '0':
            return 'host-raw-state-release'
        return 'release-rule'
    if code == 11:
        # signature: volatile, result OK/Up, previous state soft (or never checked) and not OK/Up
        new, raw0 = int(d.get('new', -1)), int(d.get('raw0', -1))
        host = d.get('kind') == 'host'
        ok = (lambda s: _up(s)) if host else (lambda s: s == 0)
        if d.get('vol') == '1' and d.get('hard0') == '0' and ok(new) and not ok(raw0):
            return 'volatile-soft-recovery'
        return 'request-rule'
    return {1: 'two-notifications', 2: 'sent-while-suppressed', 3: 'remembered-state-overwritten', 4: 'bits-changed-by-unrelated-op',
            10: 'request-rule', 22: 'release-rule', 30: 'flapping', 31: 'flapping', 32: 'flapping', 33: 'flapping', 34: 'flapping'}.get(code, 'unclassified')


def keep_line(l):
    return l.startswith('ckf_new')


def _in_effect(now, p, trig):
    fixed, start, end, dur = p
    if fixed:
        return start <= now < end
    if trig == 0:
        return False
    return now < trig + dur


def extra_stats(cases, impl):
    steps = under = 0
    sent_p = sent_r = stashed = released = dismissed = flap_n = paused_steps = 0
    flap_withheld = stash_with_flap_pending = cases_stash_with_flap_pending = 0
    tg = collections.Counter()
    tg_by = collections.Counter()
    by = {'downtime': 0, 'ack': 0, 'unreachable': 0, 'pending': 0}
    for c in cases:
        il = impl.get(c['id'], [])
        k = 0
        now = T0
        dts = {}
        pdown = False
        prev_supp = 0
        prev_fl = '0'
        prev_o = {}
        hit = False
        tag = c.get('tags', {})
        flap_on = False     # with enable_flapping off the detector still runs, IsFlapping() is false
        for l in c['lines']:
            w = l.split()
            if w[0] == 'now':
                now = int(w[1]); continue
            if w[0] == 'ckf_new':
                flap_on = _kv(l).get('flap') == '1'
                continue
            a = _kv(l)
            if w[0] == 'dt_add':
                dts[int(a['id'])] = (int(a['fixed']), int(a['start']), int(a['end']), int(a['dur']))
            if w[0] == 'parent':
                pdown = a['up'] == '0'
            if k >= len(il):
                break
            o = il[k]; k += 1
            ov = _kv(o)
            if 'supp' not in ov:
                break
            steps += 1
            supp = int(ov['supp'])
            indt = False
            if ov.get('dts', '-') != '-':
                for e in ov['dts'].split(','):
                    i, tr = e.split(':')
                    if int(i) in dts and _in_effect(now, dts[int(i)], int(tr)):
                        indt = True
            acked = ov.get('ack', '0') != '0' and not (ov.get('exp', '0') != '0' and int(ov['exp']) < now)
            pend = bool(supp & 96)
            if indt: by['downtime'] += 1
            if acked: by['ack'] += 1
            if pdown: by['unreachable'] += 1
            if pend: by['pending'] += 1
            if indt or acked or pdown or pend:
                under += 1
            nrs = [int(x[3:]) for x in o.split() if x.startswith('nr=')]
            sent_p += nrs.count(32); sent_r += nrs.count(64); flap_n += nrs.count(128) + nrs.count(256)
            if (supp & 96) and not (prev_supp & 96):
                stashed += 1
                if prev_supp & 384:
                    stash_with_flap_pending += 1
                    hit = True
            if (supp & 384) & ~(prev_supp & 384):
                flap_withheld += 1
            # flapping toggling on the very result that is a hard change (measured on the implementation's trace)
            fl = ov.get('fl', '0')
            if w[0] == 'crf' and fl != prev_fl and flap_on:
                sent = 32 in nrs or 64 in nrs
                stashed_now = bool((supp & 96) & ~(prev_supp & 96))
                went_hard = ov.get('ty') == '1' and (prev_o.get('ty') == '0' or prev_o.get('st') != ov.get('st'))
                if fl == '0':
                    what = 'sent' if sent else 'stashed' if stashed_now else 'neither'
                    tg['flapping_end_with_state_notification_' + what] += 1
                    if went_hard and ov.get('st') != '0':
                        tg['flapping_end_on_soft_to_hard_step'] += 1
                    if sent or stashed_now:
                        tg_by[tag.get('reason', 'other-families')] += 1
                else:
                    if went_hard:
                        tg['flapping_start_on_hard_change'] += 1
                        if sent or stashed_now:
                            tg['flapping_start_on_hard_change_but_state_notification'] += 1
            prev_fl = fl
            prev_o = ov
            if w[0] == 'fire' and (prev_supp & 96) and not (supp & 96):
                if 32 in nrs or 64 in nrs: released += 1
                else: dismissed += 1
            prev_supp = supp
        if hit:
            cases_stash_with_flap_pending += 1
    return {'flapping_toggle_on_hard_change': dict(tg), 'flapping_end_with_state_notification_by_reason': dict(tg_by),
            'flapping_toggles_withheld': flap_withheld, 'episodes_begun_while_flapping_bit_pending': stash_with_flap_pending,
            'cases_with_episode_begun_while_flapping_bit_pending': cases_stash_with_flap_pending,
            'steps': steps, 'steps_under_reason': under, 'steps_under_reason_fraction': round(under / max(1, steps), 3),
            'steps_by_reason': by, 'problem_requests': sent_p, 'recovery_requests': sent_r, 'suppression_episodes': stashed,
            'released_with_notification': released, 'released_without_notification': dismissed, 'flapping_requests': flap_n}
