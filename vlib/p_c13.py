"""C13 - cluster message authorisation.  Generators for the correspondence run."""
import random, collections, re

PID = 'C13'
HEADER = []
T0 = 2000000000
TIMEOUT = 600
RULE = ('for every registered JSON-RPC method (28, taken from REGISTER_APIFUNCTION) on a depth-4 zone forest '
        '(grandparent/parent/receiver/child/grandchild/sibling/unrelated root + child/global): every sender relation x every object zone '
        '(state/event methods) x {authenticated endpoint, unauthenticated connection under an endpoint name, authenticated under an unconfigured name, '
        'the receiver\'s own identity (authenticated / not)}; '
        'every method x every sender relation x every claimed originZone (none, receiver zone, parent, grandparent, child, grandchild, sibling, unrelated, global, nonexistent name); accept_config/accept_commands in all four combinations for the config/command methods; '
        'messages with no/newer/older/EQUAL "ts" (ts=eq: equal to the sender\'s remote log position - a second event of the same clock tick, twice in a row); check results from the command endpoint; '
        'event::ExecuteCommand with an "endpoint" argument (forwarding): sender relation x target endpoint (none, unknown name, receiver itself, own-zone peer, child, grandchild, parent, sibling, unrelated) x claimed originZone x checkable (missing, own zone, child, grandchild, global, zone-less) x capability of the child endpoints x accept_commands, receiver being / not being the routing master of its zone, receivers at the root, in the middle and at a leaf - observed: which zones got an event::ExecuteCommand / event::ExecutedCommand queued; '
        'config::UpdateObject with the zone named by the message (none, unknown name, own, parent, child, sibling, unrelated, global) x zone of the existing object / of the config text of the new object (observed: zone of the created object), config::DeleteObject of zoned runtime objects; '
        'related objects in DIFFERENT zones (family cross-zone-objects: 28 groups Host / its Service / the attached Notification-on-service, Notification-on-host, Comment, Downtime with zone attributes '
        'set independently to the receiver\'s zone, parent, child, grandchild, sibling, unrelated, global, none): every handler that names an object x every choice of the object named (host / service, '
        'the service\'s / the host\'s notification, comment / downtime / an unknown object type) x the senders for which access to the object changed differs from access to a related object, '
        'the trusted peer relaying for other zones, other receivers - observed additionally: the zones of ALL fixture objects whose state changed (plain setters); '
        'local command execution (family command-kinds): command_type check / event / notification / unknown x "source" present or not x accept_commands x command exists or not x deadline passed x '
        'params.host naming a local checkable or not x entitled and other senders - observed: which kind of native command ran (after the remote-check thread drained) and what was queued for the sender '
        '(ExecutedCommand exit code / UNKNOWN check result); '
        'then random forests (4-9 zones, random receiver, sender, object, flags, forwarding targets, cross groups, command kinds). '
        'Each message goes through the real JsonRpcConnection::MessageHandler with parameters that are prepared so that an accepted message has a visible effect. '
        'non-trivial = the case contains at least one applied and one refused message; distinct = distinct script text')
TRUSTED = ['model: coq/Msg/MzModel.v (transcription of Zone::IsChildOf/CanAccessObject, JsonRpcConnection ctor + MessageHandler origin construction, '
           'and one normalised origin-check pattern per handler), coq/Msg/MzFwd.v (the "endpoint" branch of ExecuteCommandAPIHandler, SyncRelayMessage/RelayMessageOne at zone granularity), '
           'coq/Msg/MzCfg.v (params.zone of config::UpdateObject), coq/Msg/MzObj.v (which object\'s zone the entitlement test reads: follows the generated fact f_mz_tested), '
           'coq/Msg/MzExec.v (ClusterEvents::ExecuteCheckFromQueue per command type; what a command reports after it ran is not modelled - the harness\'s native commands only count executions)',
           'source facts re-extracted each run: tools/facts_c13.py normalises the refusal checks of all REGISTER_APIFUNCTION handlers into coq/Facts/Facts_c13.v, '
           'lists every registration (method, handler function, file; number of macro uses; registrations bypassing the macro), decides per handler whether the recognised checks '
           'stand at the top level and precede every effect (regex-based scan: pure accessors and writes to message-local data are not effects), and recognises the shapes of the forwarding branch, '
           'of RelayMessageOne/SyncRelayMessage and of the params.zone test; per handler the relation between the variable handed to CanAccessObject and the variables the handler changes after its checks '
           '(addressed / checkable_of / host_of / other / none / unknown - unknown is logged and left to the run); for ExecuteCheckFromQueue that the accept_commands branch is a top-level statement '
           'every path of which returns (else the flag is unrecognised), its reply shape and the three command-type branches (logged when not recognised); '
           'the specification side (which class each method belongs to, coq/Msg/MzModel.v mz_class_table) is hand-written - it is the statement\'s classification of the methods',
           'harness/ops_mz.cpp: builds zones/endpoints/objects from config text, sets ApiListener::m_Instance/m_LocalEndpoint/accept flags and Endpoint capabilities directly (no PKI, no network), '
           'calls the private JsonRpcConnection::MessageHandler on a connection object over an unconnected stream, decodes the JSON strings queued for the other endpoints; '
           'script fields oz= (zone attribute of the object the handler CHANGES), ckz= / hz= (zone of its checkable / host) and ce= (sender is the command endpoint) are computed by the generator from the same forest; '
           'the harness brings the related checkable of a cross group into the same prepared state as the one named (so that a stray write to it shows); '
           'ocaml/ops_mz.ml derives "who is connected" (two endpoints per zone, receiver a = routing master) from the script',
           'hook H1 (virtual clock) in lib/base/utility.cpp']
ASSUMPTIONS = ['objects held by a node are in its own zone, below it, or global (hypothesis mz_placed of C13_sound; cases outside it are still compared with the model)',
               'Endpoint objects always have a zone (Endpoint::OnAllConfigLoaded; exercised by op mz_zoneless on the real code)',
               'forwarding theorems about relay zones assume no global zone among the ancestors of the target zone (global zones have no endpoints and no children in any generated forest)',
               'the relay model is at zone granularity: which endpoint of a zone gets the copy (std::set order of Endpoint pointers) is not modelled',
               'reading of the statement for forwarded commands: accept_commands governs EXECUTION on a node; passing a command down to a child zone is decided by zone relations alone (that is what the code does: C13_forward_ignores_accept_flags)',
               'config::Update is exercised up to the staging directory (no validation child process)',
               'the changed-objects observation (chz=) is made for plain setters only (SetNextCheck, SetLastCheckStarted, SetNextNotification, SetForceNext*, Set/ClearAcknowledgement, UpdateExecutions, SetRemovalInfo): '
               'a check result legitimately triggers follow-up processing on other objects of the receiver',
               'no registered handler names a Dependency; config::UpdateObject / DeleteObject decide by the sender\'s zone and accept_config only, never by the zone of the object (C13_update_object_zone_param)']

METHODS = ['event::CheckResult', 'event::SetNextCheck', 'event::SetLastCheckStarted', 'event::SetStateBeforeSuppression',
           'event::SetSuppressedNotifications', 'event::SetSuppressedNotificationTypes', 'event::SetNextNotification',
           'event::UpdateLastNotifiedStatePerUser', 'event::ClearLastNotifiedStatePerUser', 'event::SetForceNextCheck',
           'event::SetForceNextNotification', 'event::SetAcknowledgement', 'event::ClearAcknowledgement', 'event::ExecuteCommand',
           'event::SendNotifications', 'event::NotificationSentUser', 'event::NotificationSentToAllUsers', 'event::ExecutedCommand',
           'event::UpdateExecutions', 'event::SetRemovalInfo', 'event::Heartbeat', 'config::Update', 'config::UpdateObject',
           'config::DeleteObject', 'log::SetLogPosition', 'icinga::Hello', 'pki::RequestCertificate', 'pki::UpdateCertificate']
CHECKABLE_ADDR = {'event::CheckResult', 'event::SetNextCheck', 'event::SetLastCheckStarted', 'event::SetForceNextCheck',
                  'event::SetForceNextNotification', 'event::SetAcknowledgement', 'event::ClearAcknowledgement', 'event::UpdateExecutions'}
NOTIF_ADDR = {'event::SetNextNotification', 'event::SetRemovalInfo'}     # notification / comment carry the zone (also a global one)
OBJ_METHODS = CHECKABLE_ADDR | NOTIF_ADDR | {'event::ExecutedCommand'}
FLAG_METHODS = ['config::Update', 'config::UpdateObject', 'config::DeleteObject', 'event::ExecuteCommand']
EXPENSIVE = {'config::DeleteObject': 0.35, 'pki::RequestCertificate': 0.6, 'pki::UpdateCertificate': 0.6}

CANON = ['-', '0', '1', '2', '3', '1', '-', '6', 'g']     # 0 gp, 1 parent, 2 receiver, 3 child, 4 grandchild, 5 sibling, 6 unrelated, 7 its child, 8 global


NOTIF_METHODS = {'event::SetNextNotification', 'event::SetSuppressedNotificationTypes', 'event::UpdateLastNotifiedStatePerUser',
                 'event::ClearLastNotifiedStatePerUser', 'event::NotificationSentUser', 'event::NotificationSentToAllUsers'}
PLAIN_SETTERS = {'event::SetNextCheck', 'event::SetLastCheckStarted', 'event::SetNextNotification', 'event::SetForceNextCheck',
                 'event::SetForceNextNotification', 'event::SetAcknowledgement', 'event::ClearAcknowledgement', 'event::UpdateExecutions',
                 'event::SetRemovalInfo'}
CK_BOOKKEEPING = {'event::SetStateBeforeSuppression', 'event::SetSuppressedNotifications', 'event::SendNotifications'}


class Forest:
    def __init__(self, tid, par, xg=()):
        self.tid, self.par = tid, par
        self.xg = list(xg)      # cross groups (h, s, o): Host in zone h, Service in s, notifications/comment/downtime in o ('n' = none)
        self.n = len(par)
        self.real = [i for i in range(self.n) if par[i] != 'g']
        self.glob = [i for i in range(self.n) if par[i] == 'g']

    def children(self, z):
        return [i for i in range(self.n) if self.par[i] == str(z)]

    def decl(self):
        x = (' x=' + ','.join('%s_%s_%s' % g for g in self.xg)) if self.xg else ''
        return 'mz_tree id=%d z=%s%s' % (self.tid, ','.join(self.par), x)


def _zs(z):
    return '-' if z in ('n', None) else str(z)


def msg(F, recv, snd, method, obj, auth=1, ident='ep', claim='-', ts='none', ac=1, ak=1, xz=None, var=None, xt=None, xcap=1, xh=1, rep='a', zp=None, cz=None,
        ck=None, nt=None, ro=None, q=None):
    """obj: int zone | 'nz' | ('k', zone) | ('x', h, s, o).  Computes the model-facing fields: oz= zone of the object the
    handler CHANGES, ckz= / hz= zone of that object's checkable / host (when they differ), ce= sender is the command endpoint.
    ck=h|s which checkable is named, nt=n|hn the service's / the host's notification, ro=c|d comment / downtime;
    q = dict(ct, src, dl, cx, hl): the command-execution family of event::ExecuteCommand."""
    ce = 0
    rel = ''
    if isinstance(obj, tuple) and obj[0] == 'x':
        _, h, sv, o = obj
        tag = 'x%s_%s_%s' % (h, sv, o)
        ck = ck or 'h'
        nt = nt or 'n'
        ro = ro or 'c'
        ckzone = sv if ck == 's' else h
        if method in NOTIF_METHODS:
            oz, ckz = _zs(o), _zs(sv if nt == 'n' else h)
        elif method == 'event::SetRemovalInfo':
            oz, ckz = _zs(o), _zs(sv if ro == 'd' else h)
        else:
            oz, ckz = _zs(ckzone), _zs(ckzone)
        rel = ' ckz=%s hz=%s' % (ckz, _zs(h))
        if method in PLAIN_SETTERS:
            rel += ' chz=1'      # observe WHICH objects changed (plain setters only: no follow-up processing on the receiver)
    elif obj == 'nz':
        tag, oz = 'nz', '-'
    elif isinstance(obj, tuple):
        z = obj[1]
        tag, oz = 'k%d' % z, str(z)
        ch = F.children(z)
        if ch and snd == '%da' % ch[0]:
            ce = 1
    else:
        tag = str(obj)
        if F.par[obj] == 'g':
            oz = str(obj) if method in NOTIF_ADDR else '-'
            if method in NOTIF_ADDR:
                rel = ' ckz=- hz=-'        # the global-zone fixture: notification/comment in the global zone, their checkable in none
        else:
            oz = str(obj)
    extra = rel
    for k, v in (('ck', ck), ('nt', nt), ('ro', ro)):
        if v:
            extra += ' %s=%s' % (k, v)
    if q:
        extra += ' ct=%s src=%d dl=%d cx=%d hl=%d' % (q['ct'], q.get('src', 0), q.get('dl', 0), q.get('cx', 1), q.get('hl', 0))
    if method == 'event::ExecutedCommand':
        if xz is None:
            xz = obj if isinstance(obj, int) and F.par[obj] != 'g' else recv
        oz = str(xz)
        extra += ' xz=%d' % xz
    if var:
        extra += ' var=' + var
    if xt is not None:
        # forwarding family of event::ExecuteCommand: params.endpoint, capability of the child endpoints, params.host exists
        extra += ' xt=%s xcap=%d xh=%d' % (xt, xcap, xh)
    if rep != 'a':
        extra += ' rep=' + rep
    if zp is not None:
        extra += ' zp=' + str(zp)      # config::UpdateObject: the zone the message names (e none, x unknown name, <zone>)
    if cz is not None:
        extra += ' cz=' + str(cz)      # config::UpdateObject var=new: the zone the config text states (- none)
    return 'mz_msg t=%d recv=%d snd=%s auth=%d ident=%s claim=%s m=%s obj=%s oz=%s ce=%d ts=%s ac=%d ak=%d%s' % (
        F.tid, recv, snd, auth, ident, claim, method, tag, oz, ce, ts, ac, ak, extra)


def _below(F, q, r):
    """zone q is r or lies below r"""
    while True:
        if q == r:
            return True
        if F.par[q] in ('-', 'g'):
            return False
        q = int(F.par[q])


def _access(F, recv, sz, oz):
    """Zone::CanAccessObject of the sender's zone sz for an object whose zone attribute is oz ('n' = none -> the receiver's zone)"""
    z = recv if oz in ('n', None) else oz
    if F.par[z] == 'g':
        return True
    return _below(F, z, sz)


# related objects in DIFFERENT zones (canonical forest, receiver 2): (host zone, service zone, zone of the attached objects)
XGROUPS = [(2, 3, 2), (3, 2, 3), (3, 4, 3), (4, 3, 4), (1, 2, 1), (2, 1, 2), (3, 5, 3), (5, 3, 5),          # service vs host
           (3, 3, 2), (2, 2, 3), (3, 3, 1), (4, 4, 3), (3, 3, 4), (5, 5, 2), (2, 2, 5), (3, 3, 8), (2, 2, 8),  # attached vs checkable
           (3, 3, 'n'), ('n', 'n', 3), (2, 2, 1), (1, 1, 2), (4, 4, 2), (6, 6, 2),
           (3, 4, 2), (2, 3, 1), (4, 3, 2), (3, 2, 8), ('n', 3, 5)]                                           # all three differ


def _cross_variants(rnd, frac):
    """(method, kwargs) for every handler that names an object, with each choice of the object named"""
    out = []
    for m in sorted(CHECKABLE_ADDR):
        for ck in 'hs':
            out.append((m, dict(ck=ck)))
    for nt in ('n', 'hn'):
        out.append(('event::SetNextNotification', dict(nt=nt, ck='s' if nt == 'n' else 'h')))
    for ro in 'cdx':       # x: an object_type the handler does not know
        if ro != 'x' or rnd.random() < 0.3:
            out.append(('event::SetRemovalInfo', dict(ro=ro)))
    for m in sorted(NOTIF_METHODS - {'event::SetNextNotification'}):
        for nt in ('n', 'hn'):
            if rnd.random() < frac:
                out.append((m, dict(nt=nt, ck='s' if nt == 'n' else 'h')))
    for m in sorted(CK_BOOKKEEPING) + ['event::ExecutedCommand']:
        for ck in 'hs':
            if rnd.random() < frac:
                out.append((m, dict(ck=ck)))
    return out


def _changed_and_related(method, g, kw):
    h, sv, o = g
    ckzone = sv if kw.get('ck', 'h') == 's' else h
    if method in NOTIF_METHODS:
        return o, [sv if kw.get('nt', 'n') == 'n' else h, h]
    if method == 'event::SetRemovalInfo':
        return o, [sv if kw.get('ro', 'c') == 'd' else h, h]
    return ckzone, [h, sv, o]


def generate(seed, tier):
    rnd = random.Random(seed)
    scale = {'quick': 1.0, 'thorough': 4.0, 'search': 1.5}.get(tier, 1.0)
    msgs = []      # (family, forest, line)
    F = Forest(1, CANON)
    recv = 2
    senders = [('0a', 1, 'ep'), ('1a', 1, 'ep'), ('2b', 1, 'ep'), ('3a', 1, 'ep'), ('4a', 1, 'ep'), ('5a', 1, 'ep'), ('6a', 1, 'ep'),
               ('1a', 0, 'ep'), ('2b', 0, 'ep'), ('1a', 1, 'unk')]
    objs_all = [2, 1, 3, 4, 5, 6, 8, 'nz']
    def keep(method, p=1.0):
        return rnd.random() < min(1.0, EXPENSIVE.get(method, 1.0) * p * (scale if scale < 1 else 1.0))

    # the sender presents the RECEIVER's own identity (2a is the receiver): authenticated = a peer of the own zone; unauthenticated = nobody
    for m in METHODS:
        for (auth, claim) in [(1, '-'), (1, '3'), (1, '1'), (1, 'x'), (0, '-')]:
            for obj in (rnd.sample(objs_all, 3) if m in OBJ_METHODS else [2]):
                if keep(m):
                    msgs.append(('sender-is-self', F, msg(F, recv, '2a', m, obj, auth=auth, claim=claim,
                                                          ts=rnd.choice(['none', 'none', 'new', 'old', 'eq']))))

    for m in METHODS:
        for (snd, auth, ident) in senders:
            for obj in (objs_all if m in OBJ_METHODS else [2, 3]):
                if not keep(m):
                    continue
                msgs.append(('relation-x-object', F, msg(F, recv, snd, m, obj, auth=auth, ident=ident)))
    # claimed originZone: every method x every sender relation x every claim (none, receiver's zone, parent, grandparent,
    # child, grandchild, sibling, unrelated, global, nonexistent name).  Only a peer of the receiver's own zone is trusted.
    CLAIMS = ['-', '2', '1', '0', '3', '4', '5', '6', '8', 'x']
    for m in METHODS:
        for (snd, auth, ident) in senders:
            for claim in CLAIMS:
                if claim == '-' and snd != '2b':
                    continue          # covered by relation-x-object
                objs = [2, 1, 3, 5] if m in OBJ_METHODS else [2]
                if snd == '2b' and auth == 1 and ident == 'ep':
                    sel = objs[:3]                       # trusted peer: several object zones per claim
                else:
                    sel = [rnd.choice(objs)]
                for obj in sel:
                    if keep(m):
                        fam = 'peer-claimed-origin' if (snd == '2b' and auth == 1 and ident == 'ep') else 'foreign-claimed-origin'
                        msgs.append((fam, F, msg(F, recv, snd, m, obj, auth=auth, ident=ident, claim=claim)))
    # accept flags
    for m in FLAG_METHODS:
        for (snd, auth, ident) in senders:
            for (ac, ak) in [(0, 0), (1, 0), (0, 1)]:
                if keep(m):
                    msgs.append(('accept-flags', F, msg(F, recv, snd, m, 2, auth=auth, ident=ident, ac=ac, ak=ak)))
    # variants
    for (snd, auth, ident) in senders:
        msgs.append(('variants', F, msg(F, recv, snd, 'config::UpdateObject', 2, auth=auth, ident=ident, var='new')))
        msgs.append(('variants', F, msg(F, recv, snd, 'event::ExecuteCommand', 2, auth=auth, ident=ident, var='localep')))
        msgs.append(('variants', F, msg(F, recv, snd, 'pki::UpdateCertificate', 2, auth=auth, ident=ident, var='other')))
        for xz in (2, 3, 1, 5):
            msgs.append(('variants', F, msg(F, recv, snd, 'event::ExecutedCommand', 2, auth=auth, ident=ident, xz=xz)))
    # config::UpdateObject / DeleteObject: the zone the message names vs. the zone of the existing object / of the config text
    for (snd, auth, ident) in senders + [('2a', 1, 'ep')]:
        for zp in ['e', 'x', '2', '1', '3', '5', '6', '8']:
            for obj in rnd.sample([2, 3, 1, 5, 8, 'nz'], 2):
                if keep('config::UpdateObject', 0.8):
                    msgs.append(('object-zone', F, msg(F, recv, snd, 'config::UpdateObject', obj, auth=auth, ident=ident, zp=zp,
                                                       ac=0 if rnd.random() < 0.15 else 1)))
            if keep('config::UpdateObject', 0.8):
                msgs.append(('object-zone', F, msg(F, recv, snd, 'config::UpdateObject', 2, auth=auth, ident=ident, var='new', zp=zp,
                                                   cz=rnd.choice(['-', '2', '3', '1', '5']), ac=0 if rnd.random() < 0.15 else 1)))
        for obj in [2, 3, 1, 5]:
            if keep('config::DeleteObject', 1.5):
                msgs.append(('object-zone', F, msg(F, recv, snd, 'config::DeleteObject', obj, auth=auth, ident=ident, var='zoned')))
    # ExecuteCommand with an "endpoint" parameter (forwarding branch): receiver 2 has child 3 and grandchild 4.
    # sender relation x target endpoint (none, unknown, receiver itself, own-zone peer, child, grandchild, parent, sibling,
    # unrelated) x claimed originZone x checkable (missing / zone 2 / 3 / 4 / global / zone-less) x capability x accept_commands
    XT = ['-', 'unk', '2a', '2b', '3a', '3b', '4a', '4b', '1a', '0a', '5a', '6b', '7a']
    for (snd, auth, ident) in senders + [('2a', 1, 'ep')]:
        for xt in XT:
            trusted = auth == 1 and ident == 'ep' and snd in ('2b', '2a', '1a')
            reps = 3 if (trusted and xt in ('3a', '4a', '4b', '2b')) else 1
            for _ in range(reps):
                claim = rnd.choice(['-', '-', '1', '3', '4', '2', '0', 'x', '8']) if snd[0] == '2' else rnd.choice(['-', '-', '-', '1', '3', '0'])
                obj = rnd.choice([2, 3, 4, 4, 8, 'nz', 5])
                xh = 0 if rnd.random() < 0.15 else 1
                xcap = 0 if rnd.random() < 0.15 else 1
                msgs.append(('exec-forward', F, msg(F, recv, snd, 'event::ExecuteCommand', obj, auth=auth, ident=ident, claim=claim,
                                                    ak=rnd.randint(0, 1), ts=rnd.choice(['none', 'none', 'none', 'new', 'old']),
                                                    xt=xt, xcap=xcap, xh=xh)))
    # the receiver is NOT the routing master of its zone (endpoint b; a is): only the master gets relayed copies
    for (snd, auth, ident) in [('2a', 1, 'ep'), ('1a', 1, 'ep'), ('1b', 1, 'ep'), ('3a', 1, 'ep'), ('0a', 1, 'ep')]:
        for xt in ['3a', '4b', '2a', '2b', '-', '5a']:
            msgs.append(('exec-forward', F, msg(F, recv, snd, 'event::ExecuteCommand', rnd.choice([2, 3, 4]), auth=auth, ident=ident,
                                                claim=rnd.choice(['-', '-', '1', '3']) if snd[0] == '2' else '-',
                                                ak=rnd.randint(0, 1), xt=xt, xcap=rnd.choice([1, 1, 1, 0]), xh=1, rep='b')))
    # other receivers: the root (no parent zone), a leaf (nothing below), the unrelated root
    for r in (0, 1, 4, 6, 3):
        for _ in range(int(10 * scale)):
            z = rnd.choice(F.real)
            snd = '%d%s' % (z, rnd.choice('ab'))
            if rnd.random() < 0.6:
                snd = '%d%s' % (rnd.choice([r] + ([int(F.par[r])] if F.par[r] not in '-g' else [])), rnd.choice('ab'))
            below = [q for q in F.real if q != r and _below(F, q, r)]
            pool = ['-', 'unk', '%da' % r, '%db' % r] + ['%d%s' % (q, e) for q in below for e in 'ab'] * 2 + ['%da' % rnd.choice(F.real)]
            msgs.append(('exec-forward', F, msg(F, r, snd, 'event::ExecuteCommand', rnd.choice([q for q in F.real] + ['nz', 8]),
                                                claim=rnd.choice(['-', '-', str(rnd.choice(F.real)), 'x']), ak=rnd.randint(0, 1),
                                                xt=rnd.choice(pool), xcap=rnd.choice([1, 1, 1, 0]), xh=rnd.choice([1, 1, 1, 0]))))
    # ---- related objects in different zones: for EVERY handler that names an object, and every choice of the object named
    # (host / service, the service's / the host's notification, comment / downtime), all senders for which access to the
    # object CHANGED differs from access to one of its related objects (checkable, host, attached objects), plus others
    X = Forest(2, CANON, XGROUPS)
    xsenders = [('0a', 1, 'ep'), ('1a', 1, 'ep'), ('2b', 1, 'ep'), ('3a', 1, 'ep'), ('4a', 1, 'ep'), ('5a', 1, 'ep'), ('6a', 1, 'ep')]
    for g in XGROUPS:
        for (m, kw) in _cross_variants(rnd, 0.12 * scale):
            changed, related = _changed_and_related(m, g, kw)
            dec = [sd for sd in xsenders if sd[0] != '2b' and
                   any(_access(X, recv, int(sd[0][:-1]), changed) != _access(X, recv, int(sd[0][:-1]), rz) for rz in related)]
            pick = list(dec)
            rest = [sd for sd in xsenders if sd not in dec]
            if len(pick) > 2 and scale <= 1:
                pick = rnd.sample(pick, 2)
            if rest and rnd.random() < (0.5 if pick else 1.0):
                pick.append(rnd.choice(rest))
            for (snd, auth, ident) in pick:
                claim = '-'
                if snd == '2b' and rnd.random() < 0.7:
                    claim = rnd.choice(['3', '1', '4', '5', '2', '8'])     # the trusted peer relays for another zone
                xz = rnd.choice([2, 3, 1, 5]) if m == 'event::ExecutedCommand' else None
                msgs.append(('cross-zone-objects', X, msg(X, recv, snd, m, ('x',) + g, auth=auth, ident=ident, claim=claim, xz=xz, **kw)))
    # the trusted own-zone peer relaying for a child / parent / sibling zone, and anonymous senders, on a sample
    for _ in range(int(60 * scale)):
        g = rnd.choice(XGROUPS)
        (m, kw) = rnd.choice(_cross_variants(rnd, 1.0))
        snd, auth, ident, claim = rnd.choice([('2b', 1, 'ep', '3'), ('2b', 1, 'ep', '1'), ('2b', 1, 'ep', '4'), ('2b', 1, 'ep', '5'),
                                              ('2b', 1, 'ep', '-'), ('3a', 0, 'ep', '-'), ('1a', 1, 'unk', '-'), ('2a', 1, 'ep', '3')])
        xz = rnd.choice([2, 3, 1, 5]) if m == 'event::ExecutedCommand' else None
        msgs.append(('cross-zone-objects', X, msg(X, recv, snd, m, ('x',) + g, auth=auth, ident=ident, claim=claim, xz=xz, **kw)))
    # other receivers on the same fixture (parent, child, grandparent, sibling)
    for _ in range(int(80 * scale)):
        g = rnd.choice(XGROUPS)
        (m, kw) = rnd.choice(_cross_variants(rnd, 0.3))
        r = rnd.choice([1, 3, 0, 5, 4])
        snd = '%d%s' % (rnd.choice(X.real), rnd.choice('ab'))
        if snd == '%da' % r:
            snd = '%db' % r
        xz = rnd.choice(X.real) if m == 'event::ExecutedCommand' else None
        msgs.append(('cross-zone-objects', X, msg(X, r, snd, m, ('x',) + g, xz=xz,
                                                  claim=rnd.choice(['-', '-', str(rnd.choice(X.real))]), **kw)))
    # ---- command execution (ExecuteCheckFromQueue): every kind of command x "source" x accept_commands x command exists,
    # deadline passed / not, params.host naming a checkable of the receiver or not; entitled and other senders
    KINDS = ['check', 'event', 'notif', 'other']
    for (snd, auth, ident) in senders + [('2a', 1, 'ep')]:
        entitled = auth == 1 and ident == 'ep' and snd[0] in '12'
        combos = [(ct, src, ak, cx) for ct in KINDS for src in (0, 1) for ak in (0, 1) for cx in (0, 1)]
        if not entitled:
            combos = rnd.sample(combos, 6)
        elif snd != '1a' and scale <= 1:
            combos = [cb for cb in combos if cb[3] == 1 or rnd.random() < 0.4]
        for (ct, src, ak, cx) in combos:
            claim = rnd.choice(['-', '-', '-', '1', '3', 'x']) if snd[0] == '2' else '-'
            msgs.append(('command-kinds', F, msg(F, recv, snd, 'event::ExecuteCommand', rnd.choice([2, 3, 'nz']), auth=auth, ident=ident,
                                                claim=claim, ak=ak, ac=rnd.randint(0, 1), ts=rnd.choice(['none', 'none', 'none', 'new', 'old']),
                                                q=dict(ct=ct, src=src, dl=0, cx=cx, hl=rnd.randint(0, 1)))))
    for snd in ('1a', '1b', '2b'):          # entitled sender, flag on, command present: every kind with and without "source"
        for ct in KINDS:
            for src in (0, 1):
                msgs.append(('command-kinds', F, msg(F, recv, snd, 'event::ExecuteCommand', rnd.choice([2, 3, 'nz']), ak=1, ac=rnd.randint(0, 1),
                                                    q=dict(ct=ct, src=src, dl=0, cx=1, hl=rnd.randint(0, 1)))))
    for _ in range(int(16 * scale)):       # deadline in the past (only read with "source")
        snd = rnd.choice(['1a', '2b', '1b'])
        msgs.append(('command-kinds', F, msg(F, recv, snd, 'event::ExecuteCommand', 2, ak=rnd.randint(0, 1),
                                            q=dict(ct=rnd.choice(KINDS), src=rnd.choice([1, 1, 1, 0]), dl=1, cx=rnd.randint(0, 1), hl=rnd.randint(0, 1)))))
    for r in (0, 4, 6, 3):                 # other receivers: root (no parent), leaf, unrelated root
        for _ in range(int(8 * scale)):
            sz = rnd.choice([r] + ([int(F.par[r])] if F.par[r] not in '-g' else []) + [rnd.choice(F.real)])
            snd = '%d%s' % (sz, 'b' if sz == r else rnd.choice('ab'))
            msgs.append(('command-kinds', F, msg(F, r, snd, 'event::ExecuteCommand', r, ak=rnd.randint(0, 1),
                                                q=dict(ct=rnd.choice(KINDS), src=rnd.randint(0, 1), dl=0, cx=rnd.choice([1, 1, 0]), hl=rnd.randint(0, 1)))))
    # command endpoint: host k<z> is checked by the first endpoint of z's first child zone
    for z in (0, 1, 2, 3, 6):
        ch = F.children(z)[0]
        for snd in ('%da' % ch, '%db' % ch, '0a', '5a'):
            for r in (2, 1):
                msgs.append(('command-endpoint', F, msg(F, r, snd, 'event::CheckResult', ('k', z))))
                msgs.append(('command-endpoint', F, msg(F, r, snd, 'event::SetNextCheck', ('k', z))))
    # other receivers in the same forest (root, leaf, unrelated)
    for r in (0, 4, 6, 5):
        for m in METHODS:
            for _ in range(2):
                z = rnd.choice(F.real)
                snd = '%d%s' % (z, rnd.choice('ab'))
                if snd == '%da' % r:
                    snd = '%db' % r
                obj = rnd.choice(objs_all) if m in OBJ_METHODS else r
                if keep(m, 0.7):
                    msgs.append(('other-receivers', F, msg(F, r, snd, m, obj, ac=rnd.randint(0, 1), ak=rnd.randint(0, 1),
                                                           claim=rnd.choice(['-', '-', str(rnd.choice(F.real)), '8', 'x']))))
    # ts handling
    for _ in range(int(120 * scale)):
        m = rnd.choice(METHODS)
        if not keep(m):
            continue
        (snd, auth, ident) = rnd.choice(senders)
        obj = rnd.choice(objs_all) if m in OBJ_METHODS else 2
        msgs.append(('ts', F, msg(F, recv, snd, m, obj, auth=auth, ident=ident, ts=rnd.choice(['old', 'new', 'eq', 'eq']))))
    # equal time stamps: every method from the entitled senders (several distinct events of one clock tick: each must be handled)
    for m in METHODS:
        if not keep(m):
            continue
        for (snd, auth, ident) in rnd.sample(senders, min(len(senders), 3)):
            obj = rnd.choice(objs_all) if m in OBJ_METHODS else 2
            msgs.append(('ts', F, msg(F, recv, snd, m, obj, auth=auth, ident=ident, ts='eq')))
            msgs.append(('ts', F, msg(F, recv, snd, m, obj, auth=auth, ident=ident, ts='eq')))
    # random forests
    nforest = {'quick': 4, 'thorough': 12, 'search': 6}.get(tier, 4)
    for fi in range(nforest):
        n = rnd.randint(4, 9)
        par = ['-']
        for i in range(1, n):
            u = rnd.random()
            nonglob = [j for j in range(i) if par[j] != 'g']
            if u < 0.12:
                par.append('g')
            elif u < 0.27:
                par.append('-')
            else:
                par.append(str(rnd.choice(nonglob)))
        gnon = [j for j in range(n) if par[j] != 'g']
        gx = []
        for _ in range(5):
            gg = (rnd.choice(gnon + ['n']), rnd.choice(gnon + ['n']), rnd.choice(list(range(n)) + ['n']))
            if gg not in gx and len(set(gg)) > 1:
                gx.append(gg)
        G = Forest(100 * (seed % 1000) + 10 + fi, par, gx)
        for _ in range(int(300 * scale)):
            m = rnd.choice(METHODS)
            if not keep(m, 0.5):
                continue
            r = rnd.choice(G.real)
            z = rnd.choice(G.real)
            snd = '%d%s' % (z, rnd.choice('ab'))
            if snd == '%da' % r:
                snd = '%db' % r
            kind = rnd.random()
            auth, ident = (1, 'ep') if kind < 0.8 else ((0, 'ep') if kind < 0.92 else (1, 'unk'))
            if m in OBJ_METHODS:
                u = rnd.random()
                if u < 0.12:
                    obj = 'nz'
                elif u < 0.25 and m in ('event::CheckResult', 'event::SetNextCheck') and [q for q in G.real if G.children(q)]:
                    q = rnd.choice([q for q in G.real if G.children(q)])
                    obj = ('k', q)
                    if rnd.random() < 0.5:
                        snd = '%da' % G.children(q)[0]
                        if snd == '%da' % r:
                            obj = q
                else:
                    obj = rnd.randrange(G.n)
            else:
                obj = r
            claim = '-'
            if rnd.random() < (0.6 if z == r else 0.4):
                claim = rnd.choice([str(rnd.randrange(G.n)), str(rnd.randrange(G.n)), 'x', str(r), str(z)])
            xz = rnd.choice(G.real) if m == 'event::ExecutedCommand' else None
            xkw = {}
            if G.xg and rnd.random() < 0.3 and (m in OBJ_METHODS or m in NOTIF_METHODS or m in CK_BOOKKEEPING):
                obj = ('x',) + rnd.choice(G.xg)
                xkw = dict(ck=rnd.choice('hs'), ro=rnd.choice('cd'))
                xkw['nt'] = 'n' if xkw['ck'] == 's' else 'hn'
            if m == 'event::ExecuteCommand' and rnd.random() < 0.25:
                if rnd.random() < 0.7:
                    sz = rnd.choice([r] + ([int(G.par[r])] if G.par[r] not in '-g' else []))
                    snd = '%d%s' % (sz, 'b' if sz == r else rnd.choice('ab'))
                xkw = dict(q=dict(ct=rnd.choice(['check', 'event', 'notif', 'other']), src=rnd.randint(0, 1), dl=1 if rnd.random() < 0.1 else 0,
                                  cx=rnd.choice([1, 1, 0]), hl=0))
                obj = r
            if m == 'event::ExecuteCommand' and 'q' not in xkw and rnd.random() < 0.8:
                if rnd.random() < 0.7:       # aim at an accepted stage 1: sender from the own or the parent zone
                    sz = rnd.choice([r] + ([int(G.par[r])] if G.par[r] not in '-g' else []))
                    snd = '%d%s' % (sz, rnd.choice('ab'))
                below = [q for q in G.real if _below(G, q, r)]
                xkw = dict(xt=rnd.choice(['-', 'unk'] + ['%d%s' % (q, e) for q in below for e in 'ab'] * 2 + ['%da' % rnd.choice(G.real)]),
                           xcap=rnd.choice([1, 1, 1, 0]), xh=rnd.choice([1, 1, 1, 0]))
                obj = rnd.choice(['nz'] + list(range(G.n)))
            msgs.append(('random-forest', G, msg(G, r, snd, m, obj, auth=auth, ident=ident, claim=claim,
                                                 ts=rnd.choice(['none', 'none', 'none', 'new', 'old']),
                                                 ac=rnd.randint(0, 1), ak=rnd.randint(0, 1), xz=xz, **xkw)))
    # pack into cases of ~10 messages per (family, forest); global virtual time increases with the case index
    groups = collections.OrderedDict()
    for fam, G, line in msgs:
        groups.setdefault((fam, G.tid), (G, []))[1].append(line)
    cases = []
    for (fam, tid), (G, lines) in groups.items():
        rnd.shuffle(lines)
        for i in range(0, len(lines), 10):
            ci = len(cases)
            t = T0 + 1000 * ci
            cl = ['now %d' % t, G.decl()]
            if i == 0:
                cl.append('mz_zoneless')
            for j, l in enumerate(lines[i:i + 10]):
                cl.append('now %d' % (t + 10 * (j + 1)))
                cl.append(l)
            cases.append({'lines': cl, 'tags': {'family': fam}})
    return cases


def canon(lines):
    return [l.split('#')[0].rstrip() for l in lines]


def nontrivial(case, impl_lines):
    a = sum(1 for l in impl_lines if l.startswith('msg ') and ' app=1' in l)
    r = sum(1 for l in impl_lines if l.startswith('msg ') and ' app=0' in l)
    return a >= 1 and r >= 1


def _msg_lines(case):
    return [l for l in case['lines'] if l.startswith('mz_msg ')]


def classify(case, detail, impl_lines):
    if 'crash' in detail:
        return 'crash'
    m = re.match(r'msg=(\d+) code=(\d+) (\S+) m=(\S+) ep=(\S+)', detail)
    if not m:
        return 'zoneless-endpoint' if 'zoneless' in detail else 'other'
    idx, code, what, method, ep = int(m.group(1)), int(m.group(2)), m.group(3), m.group(4), m.group(5)
    if code == 2 and method == 'pki::UpdateCertificate' and ep == 'none':
        return 'anon-update-certificate'
    mm = method.replace('::', '.')
    if code == 2 and ep == 'none':
        return 'applied-for-sender-without-endpoint@' + mm
    if code == 2:
        return 'applied-not-entitled@' + mm
    return what + '@' + mm


def keep_line(l):
    return l.startswith('mz_tree') or l.startswith('now ')


def extra_stats(cases, impl):
    per = collections.Counter()
    kinds = collections.Counter()
    claims = collections.Counter()
    applied = refused = 0
    for c in cases:
        ml = _msg_lines(c)
        il = [l for l in impl.get(c['id'], []) if l.startswith('msg ')]
        for s, o in zip(ml, il):
            meth = re.search(r' m=(\S+)', s).group(1)
            f = dict(t.split('=', 1) for t in s.split()[1:] if '=' in t)
            if f.get('claim', '-') != '-':
                claims['messages_carrying_originZone'] += 1
                trusted = f['auth'] == '1' and f['ident'] == 'ep' and f['snd'][:-1] == f['recv']
                k = 'from_peer_of_receiver_zone(honoured)' if trusted else ('from_sender_without_endpoint(no zone at all)' if (f['auth'] == '0' or f['ident'] != 'ep') else 'from_other_zone(must_be_ignored)')
                claims[k] += 1
                claims[k + (' applied' if ' app=1' in o else ' not_applied')] += 1
                if f['claim'] == 'x':
                    claims['nonexistent_zone_name'] += 1
            if ' app=1' in o:
                applied += 1
                per[meth + ' applied'] += 1
                for tok in o.split('#', 1)[1].split()[1:] if '#' in o else []:
                    k = tok.lstrip('+-~').split(':')[0].split('!')[0]
                    kinds[k] += 1
            else:
                refused += 1
                per[meth + ' refused'] += 1
    fwd = collections.Counter()
    zpc = collections.Counter()
    selfc = 0
    for c in cases:
        ml = _msg_lines(c)
        il = [l for l in impl.get(c['id'], []) if l.startswith('msg ')]
        for s, o in zip(ml, il):
            f = dict(t.split('=', 1) for t in s.split()[1:] if '=' in t)
            if f['snd'] == f['recv'] + f.get('rep', 'a'):
                selfc += 1
            if 'xt' in f:
                ob = dict(t.split('=', 1) for t in o.split('#')[0].split()[1:] if '=' in t)
                kind = ('forwarded' if ob.get('xc', '-') != '-' else 'error-reply-relayed' if ob.get('xd', '-') != '-'
                        else 'executed-locally-or-other-effect' if ob.get('app') == '1' else 'discarded')
                fwd[kind] += 1
                tgt = f['xt']
                tk = ('none' if tgt == '-' else 'unknown-name' if tgt == 'unk' else 'receiver-itself' if tgt == f['recv'] + f.get('rep', 'a')
                      else 'own-zone-peer' if tgt[:-1] == f['recv'] else 'other-endpoint')
                fwd['target:' + tk + ' ' + kind] += 1
                if f.get('rep', 'a') == 'b':
                    fwd['receiver_not_routing_master'] += 1
                if ob.get('xc', '-') != '-':
                    fwd['forwarded_to_%d_zones' % len(ob['xc'].split(','))] += 1
            if 'zp' in f:
                zk = 'none' if f['zp'] == 'e' else 'unknown-name' if f['zp'] == 'x' else ('same-as-object' if f['zp'] == f.get('oz') else 'other-known-zone')
                zpc[zk + (' applied' if ' app=1' in o else ' not_applied')] += 1
    cross = collections.Counter()
    kinds_q = collections.Counter()
    for c in cases:
        ml = _msg_lines(c)
        il = [l for l in impl.get(c['id'], []) if l.startswith('msg ')]
        for s, o in zip(ml, il):
            f = dict(t.split('=', 1) for t in s.split()[1:] if '=' in t)
            ob = dict(t.split('=', 1) for t in o.split('#')[0].split()[1:] if '=' in t)
            if f.get('obj', '').startswith('x'):
                rel = 'related-zone-differs' if (f.get('ckz', f['oz']) != f['oz'] or f.get('hz', f['oz']) != f['oz']) else 'same-zones'
                cross[rel + (' applied' if ob.get('app') == '1' else ' not_applied')] += 1
                if 'chz' in ob:
                    cross['changed_objects_observed'] += 1
                    if ',' in ob['chz']:
                        cross['more_than_one_zone_changed'] += 1
            if 'ct' in f:
                k = 'ct=%s src=%s ak=%s cx=%s' % (f['ct'], f['src'], f['ak'], f['cx'])
                kinds_q[k + ' -> ex=%s rp=%s' % (ob.get('ex'), ob.get('rp'))] += 1
                kinds_q['executed' if ob.get('ex', '-') != '-' else 'not_executed'] += 1
    return {'cross_zone_objects': dict(sorted(cross.items())), 'command_kinds': dict(sorted(kinds_q.items())),
            'exec_forwarding': dict(sorted(fwd.items())), 'update_object_zone_named_by_message': dict(sorted(zpc.items())),
            'messages_under_the_receivers_own_identity': selfc,
            'messages_applied': applied, 'messages_refused_or_inert': refused,
            'accepted_messages_with_visible_effect': 'all: the model line app=1 means "authorised and effectful"; any accepted message without a visible change would be a trace mismatch (mismatches are reported above)',
            'origin_claims': dict(sorted(claims.items())),
            'what_changed_tokens': dict(kinds), 'per_method': dict(sorted(per.items()))}
