"""C15 - configuration language.  Generators: random ASTs printed with MINIMAL parentheses according to the
DOCUMENTED precedence table (doc/17-language-reference.md) + the same AST as an S-expression for the model;
syntax-error programs with a known error position; hostile inputs for the real parser/evaluator."""
import random, binascii, os, subprocess, tempfile, re, sys
sys.setrecursionlimit(50000)
from . import core

PID = 'C15'
HEADER = []
RULE = ('random programs (3-9 statements: var/assignment operators/if-else/while/for/function+lambda with use()/return/break/'
        'continue/try-except/throw/dictionary+array literals/indexers/prototype methods/System functions) over exactly '
        'representable numbers incl. durations, printed with minimal parentheses per the documented precedence table and '
        'evaluated twice by ConfigCompiler::CompileText + Expression::Evaluate; operator typing matrix (every binary operator '
        'x every pair of operand kinds); precedence pairs (a op1 b op2 c for all operator pairs); scoping/closure/this '
        'templates; Type objects and typeof (every operand kind x every primitive type, Type fields, constructor calls); union/intersection (0-4 arguments, duplicates, null, scalars, mixed kinds); match() glob patterns x texts, array form with MatchAll/MatchAny/other modes; references (&local/&this member/&global/&unknown/&a.b/&a[i]/&*p/&p, reads, assignments and compound assignments through *p, Reference#get/#set, closures capturing references, invalid operands); const, namespace blocks and using imports (constness rules, scoping inside the block, lookup order local > this > imports in textual order > System > Types > globals, imports that are dictionaries/namespaces/arrays/scalars/null); Json.encode/decode (all operand kinds, nested containers, escapes, malformed texts, nesting limit, round trip); evaluation-order family: else-if chains with 0-4 branches with/without else over overlapping conditions and with probes that log the evaluation order, nested chains, chains as values, argument/array/dictionary/use()/parameter lists with >= 3 elements, ||/&& chains, statement lists, right-nested ternaries, same-operator chains; closure-state family (closures with 0-2 parameters x use-lists of 0-2 variables that read/assign/+= captured variables, redeclare locals, rely on unset body locals, nested closures, recursion through captured function values, each called 2-3 times interleaved with outer mutations); callbacks that resize the array they iterate (map/filter/any/all); loop-mutates-iterated family (for over array / dictionary k=>v / keys() / range(len) / locals / this / globals / a namespace block, while with a container condition, Array#map/filter/any/all/reduce callbacks x body that adds after or before the current key, removes the current / an earlier / a later element, replaces the current / next / a later value, clears, clears and refills, rebinds the variable - directly, through an alias, a called closure or a global - always / on the first / second iteration / at one key, before or after the order-observable log entry, with an iteration counter and a 30-iteration emergency exit; each on the main thread, a 512 KiB thread and a coroutine stack); loop-mutated-random (random programs with loops into whose bodies mutations of the iterated collection are injected, preferring - by the extracted model - those whose loop runs at least twice); error-then-retry (in ONE environment on one stack: a succeeding call A, a failing call B, B, B, A, B compiled anew, B three times in a loop body under try/except, A - for regex with unbalanced parentheses/brackets, bad escapes, bad quantifiers, very long patterns, cidr_match, Math.*, DateTime, Json.decode of malformed text, get_object(s) with wrong types, and modelled built-ins; identical expressions must have identical outcomes: B an error every time, A the same value every time; same-group and cross-group pairs, three stacks); loops that freeze the iterated container and Array#sort comparators that change the array (expected values, hostile stream); depth-limit programs (recursion and nesting around 300); recorded crash reproducers; programs broken at a '
        'known token (syntax error position); hostile stream: mutated programs, random bytes, deep nesting, deep recursion on '
        'main thread / 512 KiB thread / 256 KiB coroutine stack. Candidates whose model result leaves the exact-number domain '
        'are dropped before the run. non-trivial = program with at least 3 AST nodes whose evaluation did not end in a '
        'syntax error; distinct = distinct script text')
TRUSTED = ['model: coq/Dsl/DslDefs.v, DslOps.v, DslJson.v, DslEval.v (hand transcription of lib/config/expression.cpp, vmops.hpp, '
           'lib/base/value-operators.cpp, value.cpp, convert.cpp, scriptframe.cpp, array/dictionary/string/number/namespace/reference-script.cpp, namespace.cpp, reference.cpp, scriptutils.cpp, json.cpp via the codec model coq/Codec/JsModel.v)',
           'match(): the glob matcher is a specification-style recursive matcher; its equality with the backtracking C routine third-party/mmatch match() is compared (patterns x texts), not proved; only 7-bit text without NUL is followed',
           'union/intersection: std::set / std::sort / std::set_intersection over Value::operator< are followed for numbers-only and non-empty-strings-only operands (and the always-throwing number/string mixtures); other mixtures are outside the model',
           'Json: non-integer numbers are followed when their exact decimal expansion has at most 15 significant digits (e <= 6, |m| < 2^26) - there the shortest round-trip text nlohmann prints is that expansion; decoded float tokens when exactly representable',
           'regex(), cidr_match(), Math.*, DateTime, Function#call/callv, freeze, Array#sort with a comparator, basename/dirname/escape_shell_arg are NOT modelled (hostile stream / outcome classes only; for loops that freeze their container and comparators that change the sorted array the expected VALUES are written out in vlib/p_c15.py from the code)',
           'the parser (bison/flex tables) is not modelled: precedence/associativity is COMPARED through the minimal-parenthesis printer in vlib/p_c15.py; PROVED is only that the printer table, the documented table and the %left/%right/%nonassoc declarations of config_parser.yy (all regenerated into Facts_c15.v) agree on the 20 binary operators (C15_precedence_tables_agree)',
           'numbers: the model computes with exact dyadic rationals and aborts outside |m|<2^53; generated programs are screened with the extracted model to stay inside (binary64 is exact there)',
           'error kinds are not compared (only value vs script error vs syntax error): to a program all are one ScriptError; the 300 limit is observed through values (recursion counters)',
           'Coq String.string is extracted as a plain inductive (ocaml/vcore.ml re-binds the OCaml type name string)',
           'never-crashes for arbitrary input is supported by the hostile stream only (no proof about the C++ parser)']
ASSUMPTIONS = ['generated numbers are dyadic rationals with |m| < 2^53 (exact in binary64)',
               'programs run in a fresh ScriptFrame with this = new Dictionary; globals created by a program are removed after it',
               'per-loop iteration budget L=400 in the model (generated loops are far below)']
TIMEOUT = 600


def hx(s):
    if isinstance(s, str):
        s = s.encode('latin-1')
    return binascii.hexlify(s).decode() or '-'


# ----------------------------------------------------------------------------- surface AST
# expressions: ('num', text, m, e) ('str', s) ('bool', b) ('null',) ('var', x) ('this',) ('globals',) ('locals',)
#   ('neg', e) [unary minus] ('not', e) ('bnot', e) ('bin', op, a, b) ('call', f, [args]) ('arr', [es]) ('dict', [(k, e)])
#   ('idx', a, i) ('dot', a, name) ('tern', c, t, f) ('lam', [params], [(name, expr|None)], body_expr) ('fn', params, uses, [stmts])
#   ('ifx', c, [stmts], [stmts]|None)
# statements: ('var', x, e) ('set', op, lhs, e) ('expr', e) ('if', c, [s], [s]|None | ('elif', ...)) ('while', c, [s]) ('for', k, v|None, e, [s])
#   ('func', name, params, uses, [s]) ('ret', e) ('break',) ('cont',) ('throw', e) ('try', [s], [s])

BINOPS = {  # op -> (documented precedence level, source text, sexp)
    '*': (3, 'bin mul'), '/': (3, 'bin div'), '%': (3, 'bin mod'),
    '+': (4, 'bin add'), '-': (4, 'bin sub'),
    '<<': (5, 'bin shl'), '>>': (5, 'bin shr'),
    '<': (6, 'bin lt'), '>': (6, 'bin gt'), '<=': (6, 'bin le'), '>=': (6, 'bin ge'),
    'in': (7, 'in'), '!in': (7, 'nin'),
    '==': (8, 'bin eq'), '!=': (8, 'bin ne'),
    '&': (9, 'bin band'), '^': (10, 'bin xor'), '|': (11, 'bin bor'),
    '&&': (12, 'and'), '||': (13, 'or'),
}
NONASSOC = {6, 8}
SETOPS = {'=': 'set', '+=': 'add', '-=': 'sub', '*=': 'mul', '/=': 'div', '%=': 'mod', '^=': 'xor', '&=': 'band', '|=': 'bor'}


def esc_str(s):
    out = '"'
    for ch in s:
        if ch == '"': out += '\\"'
        elif ch == '\\': out += '\\\\'
        elif ch == '\n': out += '\\n'
        elif ch == '\t': out += '\\t'
        else: out += ch
    return out + '"'


def level(e):
    t = e[0]
    if t in ('num', 'str', 'bool', 'null', 'var', 'this', 'globals', 'locals', 'call', 'arr', 'dict', 'idx', 'dot'):
        return 1
    if t in ('neg', 'not', 'bnot', 'ref', 'deref'):
        return 2
    if t == 'bin':
        return BINOPS[e[1]][0]
    if t in ('lam', 'fn', 'lam1'):
        return 15
    if t == 'lam0':
        return 1
    return 16   # tern, ifx


def src_e(e, maxlev=16, first=False):
    """print with parentheses only where the documented precedence requires them"""
    t = e[0]
    lv = level(e)
    if t == 'num': s = e[1]
    elif t == 'str': s = esc_str(e[1])
    elif t == 'bool': s = 'true' if e[1] else 'false'
    elif t == 'null': s = 'null'
    elif t == 'var': s = e[1]
    elif t in ('this', 'globals', 'locals'): s = t
    elif t == 'neg': s = '-' + src_e(e[1], 2)
    elif t == 'not':
        inner = src_e(e[1], 2)
        s = '!' + (' ' if inner.startswith('in') else '') + inner
    elif t == 'bnot': s = '~' + src_e(e[1], 2)
    elif t == 'ref':
        inner = src_e(e[1], 2)
        s = '&' + (' ' if inner.startswith('&') else '') + inner      # "&&" is one token
    elif t == 'deref': s = '*' + src_e(e[1], 2)
    elif t == 'lam1': s = e[1] + ' => ' + lam_body(e[2])               # single identifier form, no use()
    elif t == 'lam0': s = '{{ ' + '; '.join(src_s(x) for x in e[1]) + ' }}'      # nullary lambda
    elif t == 'bin':
        op = e[1]
        if lv in NONASSOC:
            s = src_e(e[2], lv - 1) + ' ' + op + ' ' + src_e(e[3], lv - 1)
        else:
            s = src_e(e[2], lv) + ' ' + op + ' ' + src_e(e[3], lv - 1)
    elif t == 'call': s = src_e(e[1], 1, True) + '(' + ', '.join(src_e(a) for a in e[2]) + ')'
    elif t == 'arr': s = '[' + ', '.join(src_e(a) for a in e[1]) + ']'
    elif t == 'dict':
        s = '{ ' + ', '.join('%s = %s' % (k if re.match(r'^[a-z_][a-z0-9_]*$', k) else esc_str(k), src_e(v)) for k, v in e[1]) + ' }'
        if first:
            s = '(' + s + ')'
    elif t == 'idx': s = src_e(e[1], 1, True) + '[' + src_e(e[2]) + ']'
    elif t == 'dot': s = src_e(e[1], 1, True) + '.' + e[2]
    elif t == 'tern':         # %right '?' ':' - a ternary in the else position needs no parentheses
        s = src_e(e[1], 13) + ' ? ' + src_e(e[2], 13) + ' : ' + src_e(e[3], 16 if e[3][0] == 'tern' else 13)
    elif t == 'lam':
        s = '(' + ', '.join(e[1]) + ')' + src_uses(e[2]) + ' => ' + lam_body(e[3])
    elif t == 'fn':
        s = 'function(' + ', '.join(e[1]) + ')' + src_uses(e[2]) + ' ' + src_block(e[3])
    elif t == 'ifx':
        s = 'if (' + src_e(e[1]) + ') ' + src_block(e[2]) + (' else ' + src_block(e[3]) if e[3] is not None else '')
    elif t == 'ifchain':      # ('ifchain', [(cond, [stmts]), ...], [stmts]|None): if .. else if .. else if .. [else ..]
        s = ' else '.join('if (' + src_e(c) + ') ' + src_block(b) for c, b in e[1]) + (' else ' + src_block(e[2]) if e[2] is not None else '')
    else:
        raise ValueError(t)
    if lv > maxlev:
        s = '(' + s + ')'
    return s


def lam_body(e):
    body = src_e(e, 13, True)
    if body.startswith('{'):
        body = '(' + body + ')'      # "=> {" would start a statement block
    return body


def src_uses(uses):
    if not uses:
        return ''
    return ' use(' + ', '.join(n if x is None else '%s = %s' % (n, src_e(x, 13)) for n, x in uses) + ')'


def src_block(stmts):
    return '{ ' + '; '.join(src_s(s) for s in stmts) + ' }' if stmts else '{ }'


def src_s(s):
    t = s[0]
    if t == 'var': return 'var %s = %s' % (s[1], src_e(s[2]))
    if t == 'set':
        if s[2][0] == 'deref': return '%s %s %s' % (src_e(s[2], 2), s[1], src_e(s[3]))      # *p = v
        return '%s %s %s' % (src_e(s[2], 1, True), s[1], src_e(s[3]))
    if t == 'var0': return 'var %s' % s[1]
    if t == 'varop': return 'var %s %s %s' % (s[1], s[2], src_e(s[3]))
    if t == 'const': return 'const %s = %s' % (s[1], src_e(s[2]))
    if t == 'using': return 'using %s' % src_e(s[1])
    if t == 'namespace': return 'namespace %s %s' % (s[1], src_block(s[2]))
    if t == 'expr':
        r = src_e(s[1], 16, True)
        return '(' + r + ')' if r.startswith('{') else r
    if t == 'if':
        r = 'if (' + src_e(s[1]) + ') ' + src_block(s[2])
        els = s[3]
        while els is not None:
            if isinstance(els, tuple) and els[0] == 'elif':
                r += ' else if (' + src_e(els[1]) + ') ' + src_block(els[2])
                els = els[3]
            else:
                r += ' else ' + src_block(els)
                els = None
        return r
    if t == 'while': return 'while (' + src_e(s[1]) + ') ' + src_block(s[2])
    if t == 'for':
        if s[2] is None: return 'for (%s in %s) %s' % (s[1], src_e(s[3]), src_block(s[4]))
        return 'for (%s => %s in %s) %s' % (s[1], s[2], src_e(s[3]), src_block(s[4]))
    if t == 'func': return 'function %s(%s)%s %s' % (s[1], ', '.join(s[2]), src_uses(s[3]), src_block(s[4]))
    if t == 'ret': return 'return ' + src_e(s[1])
    if t == 'break': return 'break'
    if t == 'cont': return 'continue'
    if t == 'throw': return 'throw ' + src_e(s[1])
    if t == 'try': return 'try ' + src_block(s[1]) + ' except ' + src_block(s[2])
    raise ValueError(t)


def src_prog(stmts):
    return '\n'.join(src_s(s) for s in stmts) + '\n'


# ---- lowering to the model's AST (S-expression) ----
def sx_str(s): return '(s %s)' % hx(s)


_IMPORTS = []     # lowered `using` expressions in effect (textual order); `using` is generated at top level only


def sx_e(e):
    t = e[0]
    if t == 'var' and _IMPORTS: return '(varu (%s) %s)' % (' '.join(_IMPORTS), hx(e[1]))
    if t == 'ref': return '(ref %s)' % sx_e(e[1])
    if t == 'deref': return '(deref %s)' % sx_e(e[1])
    if t == 'ifchain':
        # the grammar folds the else-if branches from the LAST to the first: each is the false-branch of the one before it
        tail = sx_block(e[2]) if e[2] is not None else None
        for c, b in reversed(e[1]):
            tail = '(cond %s %s%s)' % (sx_e(c), sx_block(b), ' ' + tail if tail is not None else '')
        return tail
    if t == 'lam1': return '(func (%s) () %s)' % (hx(e[1]), sx_e(e[2]))
    if t == 'lam0': return '(func () () %s)' % sx_block(e[1])
    if t == 'num': return '(n %d %d)' % (e[2], e[3])
    if t == 'str': return sx_str(e[1])
    if t == 'bool': return '(b %d)' % (1 if e[1] else 0)
    if t == 'null': return '(null)'
    if t == 'var': return '(var %s)' % hx(e[1])
    if t in ('this', 'globals', 'locals'): return '(%s)' % t
    if t == 'neg': return '(bin sub (n 0 0) %s)' % sx_e(e[1])
    if t == 'not': return '(not %s)' % sx_e(e[1])
    if t == 'bnot': return '(neg %s)' % sx_e(e[1])
    if t == 'bin': return '(%s %s %s)' % (BINOPS[e[1]][1], sx_e(e[2]), sx_e(e[3]))
    if t == 'call': return '(call %s%s)' % (sx_e(e[1]), ''.join(' ' + sx_e(a) for a in e[2]))
    if t == 'arr': return '(arr%s)' % ''.join(' ' + sx_e(a) for a in e[1])
    if t == 'dict': return '(dict 0%s)' % ''.join(' (set set (idx (this) %s) %s)' % (sx_str(k), sx_e(v)) for k, v in e[1])
    if t == 'idx': return '(idx %s %s)' % (sx_e(e[1]), sx_e(e[2]))
    if t == 'dot': return '(idx %s %s)' % (sx_e(e[1]), sx_str(e[2]))
    if t == 'tern': return '(cond %s %s %s)' % (sx_e(e[1]), sx_e(e[2]), sx_e(e[3]))
    if t == 'lam': return '(func (%s) (%s) %s)' % (' '.join(hx(p) for p in e[1]), sx_uses(e[2]), sx_e(e[3]))
    if t == 'fn': return '(func (%s) (%s) %s)' % (' '.join(hx(p) for p in e[1]), sx_uses(e[2]), sx_block(e[3]))
    if t == 'ifx':
        return '(cond %s %s%s)' % (sx_e(e[1]), sx_block(e[2]), ' ' + sx_block(e[3]) if e[3] is not None else '')
    raise ValueError(t)


def sx_uses(uses):
    # std::map: evaluated in key order, first occurrence of a name wins
    seen = {}
    for n, x in uses:
        seen.setdefault(n, x)
    return ' '.join('(%s %s)' % (hx(n), sx_e(('var', n)) if x is None else sx_e(x)) for n, x in sorted(seen.items()))


def sx_block(stmts): return '(dict 1%s)' % ''.join(' ' + sx_s(s) for s in stmts)


def sx_lhs(e):
    return sx_e(e)


def sx_s(s):
    t = s[0]
    if t == 'var': return '(set set (idx (locals) %s) %s)' % (sx_str(s[1]), sx_e(s[2]))
    if t == 'set': return '(set %s %s %s)' % (SETOPS[s[1]], sx_lhs(s[2]), sx_e(s[3]))
    if t == 'var0': return '(set set (idx (locals) %s) (null))' % sx_str(s[1])
    if t == 'varop': return '(set %s (idx (locals) %s) %s)' % (SETOPS[s[2]], sx_str(s[1]), sx_e(s[3]))
    if t == 'const': return '(const %s %s)' % (hx(s[1]), sx_e(s[2]))
    if t == 'using':
        _IMPORTS.append(sx_e(s[1]))      # the import expression itself is compiled with the imports before it
        return '(null)'
    if t == 'namespace': return '(set set (idx (globals) %s) (nsdef %s))' % (sx_str(s[1]), sx_block(s[2]))
    if t == 'expr': return sx_e(s[1])
    if t == 'if':
        els = s[3]
        if els is None: return '(cond %s %s)' % (sx_e(s[1]), sx_block(s[2]))
        if isinstance(els, tuple) and els[0] == 'elif':
            return '(cond %s %s %s)' % (sx_e(s[1]), sx_block(s[2]), sx_s(('if', els[1], els[2], els[3])))
        return '(cond %s %s %s)' % (sx_e(s[1]), sx_block(s[2]), sx_block(els))
    if t == 'while': return '(while %s %s)' % (sx_e(s[1]), sx_block(s[2]))
    if t == 'for': return '(for %s %s %s %s)' % (hx(s[1]), hx(s[2] or ''), sx_e(s[3]), sx_block(s[4]))
    if t == 'func': return '(set set (idx (this) %s) (func (%s) (%s) %s))' % (sx_str(s[1]), ' '.join(hx(p) for p in s[2]), sx_uses(s[3]), sx_block(s[4]))
    if t == 'ret': return '(ret %s)' % sx_e(s[1])
    if t == 'break': return '(break)'
    if t == 'cont': return '(cont)'
    if t == 'throw': return '(throw %s)' % sx_e(s[1])
    if t == 'try': return '(try %s %s)' % (sx_block(s[1]), sx_block(s[2]))
    raise ValueError(t)


def sx_prog(stmts):
    del _IMPORTS[:]
    try:
        return sx_block(stmts)
    finally:
        del _IMPORTS[:]


def count_nodes(x):
    if isinstance(x, (tuple, list)):
        return (1 if isinstance(x, tuple) else 0) + sum(count_nodes(y) for y in x)
    return 0


def mk_case(stmts, fam):
    src = src_prog(stmts)
    return {'lines': ['dsl_eval ast=%s src=%s' % (hx(sx_prog(stmts)), hx(src))],
            'tags': {'family': fam, 'src': src, 'nodes': count_nodes(stmts)}}


# ----------------------------------------------------------------------------- random generation
NUMS = [('0', 0, 0), ('1', 1, 0), ('2', 2, 0), ('3', 3, 0), ('4', 4, 0), ('5', 5, 0), ('7', 7, 0), ('8', 8, 0), ('10', 10, 0), ('12', 12, 0),
        ('17', 17, 0), ('100', 100, 0), ('255', 255, 0), ('0.5', 1, 1), ('1.5', 3, 1), ('2.25', 9, 2), ('3.5', 7, 1), ('0.25', 1, 2),
        ('5m', 300, 0), ('2h', 7200, 0), ('1.5h', 5400, 0), ('30s', 30, 0), ('1d', 86400, 0), ('500ms', 1, 1), ('2.5m', 150, 0)]
STRS = ['', 'a', 'ab', 'abc', 'B', 'hello world', ' x ', '7', '12', 'a,b,c', '-3', 'Zz', 'q"q', 't\tt', 'ba', 'abd', 'b\\c']
LOCALS = ['va', 'vb', 'vc', 'vd']
GLOBALS = ['ga', 'gb']
KEYS = ['ka', 'kb', 'kc']
ARITH = ['+', '-', '*', '/', '%']
BITS = ['&', '|', '^', '<<', '>>']
CMPS = ['<', '>', '<=', '>=', '==', '!=']


class Gen:
    def __init__(self, rnd):
        self.r = rnd
        self.vars = {}       # local name -> kind hint
        self.funcs = {}      # name -> arity (functions defined with `function f` on this)
        self.in_func = False
        self.in_loop = False
        self.counters = []
        self.consts = []     # constants defined so far (globals, numeric)
        self.namespaces = set()
        self.using = False
        self.top = False     # generating a top-level statement (`using`, `namespace`, `const` are emitted there only)

    def num(self):
        return ('num',) + self.r.choice(NUMS)

    def smallint(self):
        return ('num',) + self.r.choice(NUMS[:10])

    def string(self):
        return ('str', self.r.choice(STRS))

    def lit(self):
        r = self.r.random()
        if r < 0.45: return self.num()
        if r < 0.8: return self.string()
        if r < 0.9: return ('bool', self.r.random() < 0.5)
        return ('null',)

    def var_of(self, kind):
        c = [v for v, k in self.vars.items() if k == kind or kind == 'any']
        return ('var', self.r.choice(c)) if c else None

    def expr(self, kind='any', d=3):
        r = self.r
        if kind == 'any':
            kind = r.choice(['num', 'num', 'str', 'bool', 'arr', 'dict', 'mixed'])
        if kind == 'mixed':
            return self.expr(r.choice(['num', 'str', 'bool', 'arr', 'dict', 'null']), d)
        if kind == 'null':
            return ('null',)
        if d <= 0:
            v = self.var_of(kind)
            if v and r.random() < 0.5: return v
            if kind == 'num': return self.num()
            if kind == 'str': return self.string()
            if kind == 'bool': return ('bool', r.random() < 0.5)
            if kind == 'arr': return ('arr', [self.lit() for _ in range(r.randint(0, 3))])
            if kind == 'dict': return ('dict', [(k, self.lit()) for k in r.sample(KEYS, r.randint(0, 2))])
        x = r.random()
        v = self.var_of(kind)
        if v and x < 0.2:
            return v
        if d > 0 and r.random() < 0.12:
            n = self.new_expr(kind, d)
            if n is not None:
                return n
        if kind == 'num':
            if x < 0.3: return self.num()
            if x < 0.6:
                op = r.choice(ARITH)
                if op in ('/', '%'):
                    rhs = ('num',) + r.choice([('2', 2, 0), ('4', 4, 0), ('8', 8, 0), ('0.5', 1, 1), ('1', 1, 0), ('0', 0, 0), ('3', 3, 0)] if op == '/' else
                                              [('2', 2, 0), ('3', 3, 0), ('7', 7, 0), ('0', 0, 0), ('2.25', 9, 2), ('5', 5, 0)])
                    if op == '/' and rhs[1] == '3' and r.random() < 0.8: rhs = ('num', '2', 2, 0)
                    return ('bin', op, self.expr('num', d - 1), rhs)
                return ('bin', op, self.expr('num', d - 1), self.expr('num' if r.random() < 0.9 else 'mixed', d - 1))
            if x < 0.7:
                op = r.choice(BITS)
                return ('bin', op, self.expr('num', d - 1), self.smallint() if op in ('<<', '>>') else self.expr('num', d - 1))
            if x < 0.75: return ('neg', self.expr('num', d - 1))
            if x < 0.78: return ('bnot', self.expr('num', d - 1))
            if x < 0.84: return ('call', ('dot', self.expr(r.choice(['arr', 'str', 'dict']), d - 1), 'len'), [])
            if x < 0.88: return ('call', ('var', 'len'), [self.expr('mixed', d - 1)])
            if x < 0.91: return ('call', ('dot', self.expr('str', d - 1), 'find'), [self.string()])
            if x < 0.94: return ('idx', self.expr('arr', d - 1), self.smallint())
            if x < 0.97: return ('tern', self.expr('bool', d - 1), self.expr('num', d - 1), self.expr('num', d - 1))
            return ('call', ('var', 'number'), [self.expr('mixed', d - 1)])
        if kind == 'str':
            if x < 0.3: return self.string()
            if x < 0.55: return ('bin', '+', self.expr('str', d - 1), self.expr(r.choice(['str', 'num', 'str', 'null']), d - 1))
            if x < 0.6: return ('bin', '+', self.expr('num', d - 1), self.expr('str', d - 1))
            if x < 0.8:
                m = r.choice(['upper', 'lower', 'trim', 'reverse', 'to_string', 'substr', 'replace'])
                base = self.expr('str', d - 1)
                if m == 'substr': return ('call', ('dot', base, m), [self.smallint()] + ([self.smallint()] if r.random() < 0.5 else []))
                if m == 'replace': return ('call', ('dot', base, m), [('str', r.choice(['a', 'b', 'ab', ' '])), self.string()])
                return ('call', ('dot', base, m), [])
            if x < 0.86: return ('call', ('dot', self.expr('arr', d - 1), 'join'), [('str', r.choice([',', '', '-']))])
            if x < 0.9: return ('call', ('var', 'string'), [self.expr(r.choice(['num', 'bool', 'str', 'null']), d - 1)])
            if x < 0.94: return ('call', ('dot', self.expr('num', d - 1), 'to_string'), [])
            return ('idx', self.expr('dict', d - 1), ('str', r.choice(KEYS)))
        if kind == 'bool':
            if x < 0.15: return ('bool', r.random() < 0.5)
            if x < 0.45:
                k = r.choice(['num', 'num', 'str', 'mixed'])
                return ('bin', r.choice(CMPS), self.expr(k, d - 1), self.expr(k, d - 1))
            if x < 0.6: return ('bin', r.choice(['&&', '||']), self.expr(r.choice(['bool', 'mixed']), d - 1), self.expr(r.choice(['bool', 'mixed']), d - 1))
            if x < 0.7: return ('not', self.expr('mixed', d - 1))
            if x < 0.82: return ('bin', r.choice(['in', '!in']), self.expr(r.choice(['num', 'str']), d - 1), self.expr(r.choice(['arr', 'arr', 'null', 'mixed']), d - 1))
            if x < 0.88: return ('call', ('dot', self.expr('arr', d - 1), 'contains'), [self.lit()])
            if x < 0.92: return ('call', ('dot', self.expr('str', d - 1), 'contains'), [self.string()])
            if x < 0.96: return ('call', ('dot', self.expr('dict', d - 1), 'contains'), [('str', r.choice(KEYS))])
            return ('call', ('var', 'bool'), [self.expr('mixed', d - 1)])
        if kind == 'arr':
            if x < 0.4: return ('arr', [self.expr(r.choice(['num', 'str', 'mixed']), d - 1) for _ in range(r.randint(0, 4))])
            if x < 0.55: return ('bin', r.choice(['+', '-']), self.expr('arr', d - 1), self.expr('arr', d - 1))
            if x < 0.62: return ('call', ('var', 'range'), [self.smallint()] + ([self.smallint()] if r.random() < 0.4 else []))
            if x < 0.7: return ('call', ('dot', self.expr('str', d - 1), 'split'), [('str', r.choice([',', ' ', 'b', ', ']))])
            if x < 0.78: return ('call', ('dot', self.expr('dict', d - 1), r.choice(['keys', 'values'])), [])
            if x < 0.84: return ('call', ('dot', self.expr('arr', d - 1), r.choice(['reverse', 'shallow_clone'])), [])
            if x < 0.88: return ('call', ('dot', ('arr', [self.num() for _ in range(r.randint(0, 5))]), r.choice(['sort', 'unique'])), [])
            if x < 0.9: return ('call', ('dot', ('arr', [('str', r.choice(STRS[1:])) for _ in range(r.randint(0, 4))]), r.choice(['sort', 'unique'])), [])
            if x < 0.96:
                m = r.choice(['map', 'filter'])
                body = self.expr('num' if m == 'map' else 'bool', 1) if r.random() < 0.3 else \
                    (('bin', r.choice(['+', '*', '-']), ('var', 'pa'), self.smallint()) if m == 'map' else ('bin', r.choice(CMPS), ('var', 'pa'), self.smallint()))
                return ('call', ('dot', self.expr('arr', d - 1), m), [('lam', ['pa'], [], body)])
            return ('call', ('var', 'keys'), [self.expr('dict', d - 1)])
        if kind == 'dict':
            if x < 0.6: return ('dict', [(k, self.expr(r.choice(['num', 'str', 'mixed']), d - 1)) for k in r.sample(KEYS, r.randint(0, 3))])
            if x < 0.8: return ('bin', '+', self.expr('dict', d - 1), self.expr('dict', d - 1))
            if x < 0.9: return ('call', ('dot', self.expr('dict', d - 1), 'shallow_clone'), [])
            return ('this',)
        return self.lit()

    TYPES = ['Number', 'String', 'Boolean', 'Array', 'Dictionary', 'Object', 'Function', 'Type', 'Namespace', 'Reference']
    GLOBS = ['a*', '*b', '?b*', 'A?', '*', 'a\\*', 'ab', '', '*c*', 'h*o w?rld', '??', 'a*b*c', '\\?', 'x*']

    def new_expr(self, kind, d):
        """the constructs added with the widened model: typeof/Type objects, union/intersection, match, dereference,
        constants/namespace members/imported names, shorthand lambdas"""
        r = self.r
        c = r.random()
        if kind == 'bool':
            if c < 0.35: return ('bin', r.choice(['==', '!=']), ('call', ('var', 'typeof'), [self.expr('mixed', d - 1)]), ('var', r.choice(self.TYPES)))
            if c < 0.5: return ('bin', '==', ('call', ('var', 'typeof'), [self.expr('mixed', d - 1)]), ('call', ('var', 'typeof'), [self.expr('mixed', d - 1)]))
            if c < 0.8:
                text = self.expr('str', d - 1) if r.random() < 0.6 else ('arr', [self.string() for _ in range(r.randint(0, 3))])
                args = [('str', r.choice(self.GLOBS)), text]
                if r.random() < 0.5: args.append(r.choice([('var', 'MatchAll'), ('var', 'MatchAny'), ('var', 'MatchAny'), N(2)]))
                return ('call', ('var', 'match'), args)
            return ('call', ('var', 'Boolean'), [self.expr('mixed', d - 1)])
        if kind == 'str':
            if c < 0.4: return ('dot', ('call', ('var', 'typeof'), [self.expr('mixed', d - 1)]), 'name')
            if c < 0.6: return ('call', ('var', 'String'), [self.expr(r.choice(['num', 'str', 'bool', 'null']), d - 1)])
            if c < 0.8: return ('call', ('var', 'string'), [('var', r.choice(self.TYPES))])
            return ('dot', ('dot', ('var', r.choice(self.TYPES)), 'base'), 'name')
        if kind == 'arr':
            pool = 'num' if r.random() < 0.6 else 'str'
            def arr():
                if r.random() < 0.15: return ('null',)
                v = self.var_of('arr')
                if v and r.random() < 0.2: return v
                return ('arr', [self.num() if pool == 'num' else ('str', r.choice(STRS[1:])) for _ in range(r.randint(0, 4))])
            f = r.choice(['union', 'intersection'])
            n = r.choice([0, 1, 2, 2, 2, 3, 3]) if f == 'intersection' else r.choice([0, 1, 2, 2, 3])
            return ('call', ('var', f), [arr() for _ in range(n)])
        if kind == 'num':
            refs = [v for v, k in self.vars.items() if k == 'ref:num']
            if refs and c < 0.5: return ('deref', ('var', r.choice(refs)))
            if self.consts and c < 0.8: return ('var', r.choice(self.consts))
            if c < 0.9: return ('call', ('var', 'Number'), [self.expr(r.choice(['num', 'bool', 'null']), d - 1)])
            return ('call', (r.choice(['lam1']), 'pa', ('bin', '+', ('var', 'pa'), self.smallint())), [self.expr('num', d - 1)])
        return None

    def kind(self):
        return self.r.choice(['num', 'num', 'str', 'bool', 'arr', 'dict'])

    def block(self, n, d, require_side_effect=False):
        out = []
        saved, self.top = self.top, False
        for i in range(n):
            out.append(self.stmt(d, last=(i == n - 1) and not require_side_effect))
        self.top = saved
        return out

    def stmt(self, d, last=False):
        r = self.r
        x = r.random()
        if last and x < 0.5:
            return ('expr', self.expr('any', 2))
        if self.top and self.vars and r.random() < 0.12:
            n = self.new_stmt()
            if n is not None:
                return n
        if x < 0.25 or not self.vars:
            k = self.kind()
            name = r.choice(LOCALS)
            e = self.expr(k, 3)
            self.vars[name] = k
            return ('var', name, e)
        if x < 0.4:
            name = r.choice(list(self.vars))
            k = self.vars[name]
            if k == 'num':
                op = r.choice(['=', '+=', '-=', '*=', '/=', '%=', '&=', '|=', '^='])
                rhs = self.expr('num', 2) if op not in ('/=', '%=') else ('num',) + r.choice([('2', 2, 0), ('4', 4, 0), ('0', 0, 0), ('3', 3, 0)])
                return ('set', op, ('var', name), rhs)
            if k in ('str', 'arr', 'dict'):
                op = r.choice(['=', '+=', '+=', '-=' if k == 'arr' else '+='])
                return ('set', op, ('var', name), self.expr(k, 2))
            return ('set', '=', ('var', name), self.expr(k, 2))
        if x < 0.5:
            arrs = [v for v, k in self.vars.items() if k == 'arr']
            dicts = [v for v, k in self.vars.items() if k == 'dict']
            if arrs and r.random() < 0.5:
                a = r.choice(arrs)
                c = r.random()
                if c < 0.4: return ('expr', ('call', ('dot', ('var', a), 'add'), [self.expr('mixed', 2)]))
                if c < 0.6: return ('set', r.choice(['=', '+=']), ('idx', ('var', a), self.smallint()), self.expr('num', 2))
                if c < 0.75: return ('expr', ('call', ('dot', ('var', a), 'remove'), [self.smallint()]))
                if c < 0.9: return ('expr', ('call', ('dot', ('var', a), 'set'), [self.smallint(), self.expr('mixed', 1)]))
                return ('expr', ('call', ('dot', ('var', a), 'clear'), []))
            if dicts:
                dn = r.choice(dicts)
                c = r.random()
                if c < 0.4: return ('set', r.choice(['=', '+=']), ('dot', ('var', dn), r.choice(KEYS)), self.expr('mixed', 2))
                if c < 0.55: return ('set', '=', ('idx', ('var', dn), ('str', r.choice(KEYS))), self.expr('mixed', 2))
                if c < 0.7: return ('set', '=', ('dot', ('dot', ('var', dn), r.choice(KEYS)), r.choice(KEYS)), self.expr('num', 1))
                if c < 0.85: return ('expr', ('call', ('dot', ('var', dn), 'set'), [('str', r.choice(KEYS)), self.expr('mixed', 1)]))
                return ('expr', ('call', ('dot', ('var', dn), 'remove'), [('str', r.choice(KEYS))]))
            return ('set', '=', ('dot', ('this',), r.choice(KEYS)), self.expr('mixed', 2))
        if x < 0.6 and d > 0:
            c = self.expr(r.choice(['bool', 'mixed']), 2)
            t = self.block(r.randint(1, 2), d - 1)
            e = None
            y = r.random()
            if y < 0.4: e = self.block(r.randint(1, 2), d - 1)
            elif y < 0.55: e = ('elif', self.expr('bool', 2), self.block(1, d - 1), self.block(1, d - 1) if r.random() < 0.5 else None)
            elif y < 0.7:
                branches = [(c, legalize(flatten(t)))] + [(self.expr(r.choice(['bool', 'mixed']), 2), legalize(flatten(self.block(1, d - 1)))) for _ in range(r.randint(2, 3))]
                return ('expr', ('ifchain', branches, legalize(flatten(self.block(1, d - 1))) if r.random() < 0.5 else None))
            return ('if', c, t, e)
        if x < 0.67 and d > 0:
            # bounded while: counter loop
            free = [v for v in LOCALS if v not in self.counters]
            if not free:
                return ('expr', ('call', ('var', 'len'), [self.expr('mixed', 1)]))
            cn = r.choice(free)
            self.vars[cn] = 'num'
            saved = self.in_loop
            self.in_loop = True
            self.counters.append(cn)
            body = self.block(r.randint(1, 2), d - 1)
            self.counters.pop()
            self.in_loop = saved
            body = [s for s in body if not (s[0] in ('var', 'set') and s[1 if s[0] == 'var' else 2] in (cn, ('var', cn)))]
            body.insert(r.randint(0, len(body)) if r.random() < 0.3 else 0, ('set', '+=', ('var', cn), ('num', '1', 1, 0)))
            self.vars[cn] = 'num'
            return ('block2', ('var', cn, ('num', '0', 0, 0)), ('while', ('bin', '<', ('var', cn), self.smallint()), body))
        if x < 0.75 and d > 0:
            saved = self.in_loop
            self.in_loop = True
            if r.random() < 0.6:
                kn = r.choice(LOCALS)
                coll = self.expr('arr', 2)
                self.vars[kn] = 'any'
                body = self.block(r.randint(1, 2), d - 1, True)
                self.in_loop = saved
                return ('for', kn, None, coll, body)
            kn, vn = r.sample(LOCALS, 2)
            coll = self.expr('dict', 2)
            self.vars[kn] = 'str'
            self.vars[vn] = 'any'
            body = self.block(r.randint(1, 2), d - 1, True)
            self.in_loop = saved
            return ('for', kn, vn, coll, body)
        if x < 0.83 and d > 0:
            # function definition + call
            fname = r.choice(['fa', 'fb'])
            params = r.sample(['pa', 'pb'], r.randint(0, 2))
            uses = [(v, None) for v in r.sample(list(self.vars), min(len(self.vars), r.randint(0, 2)))]
            if r.random() < 0.2: uses.append(('vc', self.expr('num', 1)))
            sub = Gen(r)
            sub.vars = {p: 'num' for p in params}
            sub.vars.update({u[0]: self.vars.get(u[0], 'num') for u in uses})
            sub.in_func = True
            sub.funcs = dict(self.funcs)
            body = sub.block(r.randint(1, 3), d - 1)
            if r.random() < 0.6: body.append(('ret', sub.expr('any', 2)))
            self.funcs[fname] = len(params)
            if r.random() < 0.5:
                return ('func', fname, params, uses, body)
            self.vars[fname] = 'fn'
            return ('var', fname, ('fn', params, uses, body))
        if x < 0.9 and (self.funcs or any(k == 'fn' for k in self.vars.values())):
            names = list(self.funcs) + [v for v, k in self.vars.items() if k == 'fn']
            f = r.choice(names)
            ar = self.funcs.get(f, 1)
            nargs = ar if r.random() < 0.85 else max(0, ar + r.choice([-1, 1]))
            call = ('call', ('var', f), [self.expr(r.choice(['num', 'mixed']), 2) for _ in range(nargs)])
            if r.random() < 0.5:
                name = r.choice(LOCALS)
                self.vars[name] = 'any'
                return ('var', name, call)
            return ('expr', call)
        if x < 0.93 and d > 0:
            return ('try', self.block(r.randint(1, 2), d - 1), self.block(1, d - 1))
        if x < 0.95:
            return ('throw', self.expr('str', 1))
        if x < 0.97 and self.in_loop and not self.in_func_in_loop():
            return (r.choice(['break', 'cont']),)
        if x < 0.98 and self.in_func and not self.in_loop:
            return ('ret', self.expr('any', 2))
        g = r.choice(GLOBALS)
        if r.random() < 0.6:
            return ('set', r.choice(['=', '+=']), ('dot', ('globals',), g), self.expr('num', 2))
        name = r.choice(LOCALS)
        self.vars[name] = 'any'
        return ('var', name, ('var', g))

    def in_func_in_loop(self):
        return False

    def new_stmt(self):
        r = self.r
        c = r.random()
        nums = [v for v, k in self.vars.items() if k == 'num']
        if c < 0.2:
            name = r.choice(['Ca', 'Cb'])
            if name not in self.consts: self.consts.append(name)     # a second definition of the same constant is a script error
            return ('const', name, self.expr('num', 2))
        if c < 0.4 and nums:
            tgt = r.choice(nums)
            pn = r.choice(['ve', 'vf'])
            self.vars[pn] = 'ref:num'
            return ('var', pn, ('ref', ('var', tgt)))
        if c < 0.6:
            refs = [v for v, k in self.vars.items() if k == 'ref:num']
            if refs:
                return ('set', r.choice(['=', '+=', '*=']), ('deref', ('var', r.choice(refs))), self.expr('num', 2))
        if c < 0.75:
            name = r.choice(['Nx', 'Ny'])
            body = [('set', '=', ('var', k), self.expr(r.choice(['num', 'str']), 1)) for k in r.sample(KEYS, r.randint(1, 3))]
            if r.random() < 0.3: body.append(('var', 'vz', N(1)))
            if r.random() < 0.3: body.append(('func', 'fn', ['pa'], [], [('ret', ('bin', '+', ('var', 'pa'), N(1)))]))
            self.namespaces.add(name)
            return ('namespace', name, body)
        if c < 0.9:
            dicts = [v for v, k in self.vars.items() if k == 'dict']
            cands = [('var', dn) for dn in dicts] + [('var', n) for n in sorted(self.namespaces)]
            if cands:
                self.using = True
                return ('using', r.choice(cands))
        if self.namespaces or self.using:
            name = r.choice(LOCALS)
            self.vars[name] = 'any'
            src = ('dot', ('var', r.choice(sorted(self.namespaces))), r.choice(KEYS)) if self.namespaces and r.random() < 0.5 else ('var', r.choice(KEYS))
            return ('try', [('var', name, src)], [('var', name, S('caught'))])
        return None


def flatten(stmts):
    out = []
    for s in stmts:
        if s[0] == 'block2':
            out.append(s[1]); out.append(fix_blocks(s[2]))
        else:
            out.append(fix_blocks(s))
    return out


def fix_blocks(s):
    """expand the pseudo statement block2 inside nested blocks"""
    t = s[0]
    if t == 'if':
        els = s[3]
        if isinstance(els, list): els = flatten(els)
        elif isinstance(els, tuple): els = ('elif', els[1], flatten(els[2]), flatten(els[3]) if els[3] is not None else None)
        return ('if', s[1], flatten(s[2]), els)
    if t == 'while': return ('while', s[1], flatten(s[2]))
    if t == 'for': return ('for', s[1], s[2], s[3], flatten(s[4]))
    if t == 'func': return ('func', s[1], s[2], s[3], flatten(s[4]))
    if t == 'try': return ('try', flatten(s[1]), flatten(s[2]))
    if t == 'var' and s[2][0] == 'fn': return ('var', s[1], ('fn', s[2][1], s[2][2], flatten(s[2][3])))
    return s


SIDE_EFFECT = ('var', 'set', 'if', 'while', 'for', 'func', 'ret', 'break', 'cont', 'throw', 'try', 'var0', 'varop', 'const', 'using', 'namespace')


def is_side_effect(s):
    if s[0] in SIDE_EFFECT: return True
    if s[0] == 'expr':
        if s[1][0] == 'tern':
            # `{ k = v } == x ? a : b` has to be printed inside parentheses (a statement must not start with `{`), and a parenthesised
            # expression is never a statement with a side effect for the grammar ("(1 ? 2 : 3); f()" is a syntax error)
            return not src_e(s[1], 16, True).startswith('{')
        return s[1][0] in ('call', 'ifx', 'ifchain')
    return False


def legalize(stmts, all_required=False):
    """drop value-only statements where the grammar demands a side effect ("Value computed is not used")"""
    out = []
    for i, s in enumerate(stmts):
        lastok = (i == len(stmts) - 1) and not all_required
        s = legalize_inner(s)
        if is_side_effect(s) or lastok:
            out.append(s)
    return out


def legalize_inner(s):
    t = s[0]
    if t == 'if':
        els = s[3]
        if isinstance(els, list): els = legalize(els)
        elif isinstance(els, tuple): els = ('elif', els[1], legalize(els[2]), legalize(els[3]) if els[3] is not None else None)
        return ('if', s[1], legalize(s[2]), els)
    if t == 'while': return ('while', s[1], legalize(s[2]))
    if t == 'for': return ('for', s[1], s[2], s[3], legalize(s[4], True))
    if t == 'func': return ('func', s[1], s[2], s[3], legalize(s[4]))
    if t == 'try': return ('try', legalize(s[1]), legalize(s[2]))
    if t == 'var' and s[2][0] == 'fn': return ('var', s[1], ('fn', s[2][1], s[2][2], legalize(s[2][3])))
    return s


def random_program(rnd):
    g = Gen(rnd)
    g.top = True
    n = rnd.randint(3, 8)
    stmts = [g.stmt(2) for _ in range(n)]
    stmts.append(('expr', g.expr('any', 2)) if rnd.random() < 0.8 else g.stmt(1, True))
    return legalize(flatten(stmts))


# ----------------------------------------------------------------------------- targeted families
def N(i): return ('num', str(i), i, 0)
def S(s): return ('str', s)
def V(x): return ('var', x)


OPERANDS = [('null',), N(0), N(6), ('num', '3.5', 7, 1), ('bool', True), ('bool', False), S(''), S('ab'), S('7'),
            ('arr', []), ('arr', [N(1), S('a')]), ('arr', [N(1), N(2)]), ('dict', []), ('dict', [('ka', N(1))]),
            ('lam', ['pa'], [], V('pa')), ('dot', S('x'), 'len'), N(2147483647), ('neg', N(3))]


def fam_operator_matrix():
    cases = []
    for op in BINOPS:
        for a in OPERANDS:
            for b in OPERANDS:
                cases.append(mk_case([('var', 'va', a), ('var', 'vb', b), ('expr', ('bin', op, V('va'), V('vb')))], 'operator-matrix'))
    for a in OPERANDS:
        for u in ('not', 'bnot', 'neg'):
            cases.append(mk_case([('var', 'va', a), ('expr', (u, V('va')))], 'operator-matrix'))
    return cases


def fam_precedence(rnd):
    """a op1 b op2 c without parentheses in both groupings (as trees), all operator pairs, small operands"""
    cases = []
    ops = [o for o in BINOPS if o not in ('in', '!in')]
    vals = [N(1), N(2), N(3), N(5), N(12), N(7), ('bool', True), ('bool', False), N(0)]
    for o1 in ops:
        for o2 in ops:
            a, b, c = rnd.sample(vals, 3)
            cases.append(mk_case([('expr', ('bin', o2, ('bin', o1, a, b), c))], 'precedence'))
            cases.append(mk_case([('expr', ('bin', o1, a, ('bin', o2, b, c)))], 'precedence'))
    for o1 in ops:
        a, b = rnd.sample(vals, 2)
        for u in ('neg', 'not', 'bnot'):
            cases.append(mk_case([('expr', ('bin', o1, (u, a), b))], 'precedence'))
            cases.append(mk_case([('expr', (u, ('bin', o1, a, b)))], 'precedence'))
        cases.append(mk_case([('expr', ('bin', 'in', ('bin', o1, a, b), ('arr', [N(1), N(3), ('bool', True)])))], 'precedence'))
        cases.append(mk_case([('var', 'va', ('arr', [N(1), N(2)])), ('expr', ('bin', o1, ('bin', 'in', a, V('va')), b))], 'precedence'))
        cases.append(mk_case([('expr', ('tern', ('bin', o1, a, b), N(1), N(2)))], 'precedence'))
    return cases


def fam_short_circuit():
    cases = []
    boom = ('call', ('var', 'fa'), [])
    for lhs in [('bool', False), N(0), S(''), ('null',), ('arr', []), ('bool', True), N(3), S('x'), ('arr', [N(1)]), ('dict', [])]:
        for op in ('&&', '||'):
            cases.append(mk_case([('var', 'vc', ('arr', [])), ('func', 'fa', [], [('vc', None)], [('expr', ('call', ('dot', V('vc'), 'add'), [N(1)])), ('ret', S('rhs'))]),
                                  ('var', 'vd', ('bin', op, lhs, boom)), ('expr', ('arr', [V('vd'), V('vc')]))], 'short-circuit'))
    for c in [('bool', True), ('bool', False), N(0), S('a')]:
        cases.append(mk_case([('var', 'vc', ('arr', [])),
                              ('if', c, [('expr', ('call', ('dot', V('vc'), 'add'), [S('then')]))], [('expr', ('call', ('dot', V('vc'), 'add'), [S('else')]))]),
                              ('expr', ('tern', c, ('call', ('dot', V('vc'), 'len'), []), ('bin', '/', N(1), N(0))))], 'short-circuit'))
    return cases


def fam_scoping():
    cs = []
    add = lambda stmts: cs.append(mk_case(stmts, 'scoping'))
    # locals of a call do not leak
    add([('var', 'va', N(1)), ('func', 'fa', ['pa'], [], [('var', 'vb', ('bin', '+', V('pa'), N(1))), ('var', 'va', N(99)), ('ret', V('vb'))]),
         ('var', 'vc', ('call', V('fa'), [N(5)])), ('expr', ('arr', [V('va'), V('vc'), ('dot', ('locals',), 'vb')]))])
    # use captures by value at definition time
    add([('var', 'va', N(1)), ('var', 'fb', ('fn', [], [('va', None)], [('ret', V('va'))])), ('set', '=', V('va'), N(2)),
         ('expr', ('arr', [('call', V('fb'), []), V('va')]))])
    # ... but containers are shared references
    add([('var', 'va', ('arr', [N(1)])), ('var', 'fb', ('fn', ['pa'], [('va', None)], [('expr', ('call', ('dot', V('va'), 'add'), [V('pa')]))])),
         ('expr', ('call', V('fb'), [N(7)])), ('set', '=', V('va'), ('arr', [])), ('expr', ('call', V('fb'), [N(8)])), ('expr', V('va'))])
    # without use() the outer local is not visible
    add([('var', 'va', N(1)), ('var', 'fb', ('fn', [], [], [('ret', V('va'))])), ('try', [('var', 'vb', ('call', V('fb'), []))], [('var', 'vb', S('caught'))]), ('expr', V('vb'))])
    # this: method call, plain call (this = caller's locals), immediate lambda (this = globals)
    add([('var', 'va', ('dict', [('ka', N(5))])), ('set', '=', ('dot', V('va'), 'kb'), ('fn', [], [], [('ret', ('dot', ('this',), 'ka'))])),
         ('expr', ('call', ('dot', V('va'), 'kb'), []))])
    add([('var', 'va', N(3)), ('var', 'fb', ('fn', [], [], [('ret', ('dot', ('this',), 'va'))])), ('expr', ('call', V('fb'), []))])
    add([('func', 'fa', [], [], [('ret', N(4))]), ('var', 'va', ('dict', [('kb', ('fn', [], [], [('ret', ('call', V('fa'), []))]))])),
         ('try', [('var', 'vb', ('call', ('dot', V('va'), 'kb'), []))], [('var', 'vb', S('caught'))]), ('expr', V('vb'))])
    # assignment to an unknown name lands on this; inside a method on the method's this
    add([('set', '=', V('vd'), N(1)), ('expr', ('arr', [('dot', ('this',), 'vd'), V('vd')]))])
    add([('var', 'va', ('dict', [])), ('set', '=', ('dot', V('va'), 'kb'), ('fn', [], [], [('set', '=', V('kc'), N(9))])),
         ('expr', ('call', ('dot', V('va'), 'kb'), [])), ('expr', V('va'))])
    # globals resolution order: local shadows this shadows global
    add([('set', '=', ('dot', ('globals',), 'ga'), N(1)), ('var', 'vb', V('ga')), ('set', '=', ('dot', ('this',), 'ga'), N(2)), ('var', 'vc', V('ga')),
         ('var', 'ga', N(3)), ('expr', ('arr', [V('vb'), V('vc'), V('ga'), ('dot', ('globals',), 'ga')]))])
    add([('set', '=', ('dot', ('globals',), 'ga'), N(1)), ('set', '+=', V('ga'), N(5)), ('expr', ('arr', [V('ga'), ('dot', ('this',), 'ga')]))])
    # for-loop variables are function scoped; dict literal entries see this
    add([('for', 'va', None, ('arr', [N(1), N(2)]), [('var', 'vb', V('va'))]), ('expr', ('arr', [V('va'), V('vb')]))])
    add([('var', 'va', ('dict', [('ka', N(2)), ('kb', ('bin', '*', ('dot', ('this',), 'ka'), N(3)))])), ('expr', V('va'))])
    # nested dictionary auto-creation, array growth by index assignment
    add([('var', 'va', ('dict', [])), ('set', '=', ('dot', ('dot', ('dot', V('va'), 'ka'), 'kb'), 'kc'), N(1)), ('expr', V('va'))])
    add([('var', 'va', ('arr', [])), ('set', '=', ('idx', V('va'), N(3)), S('x')), ('set', '+=', ('idx', V('va'), N(0)), N(2)), ('expr', V('va'))])
    # aliasing
    add([('var', 'va', ('arr', [N(1)])), ('var', 'vb', V('va')), ('expr', ('call', ('dot', V('vb'), 'add'), [N(2)])), ('var', 'vc', ('bin', '+', V('va'), ('arr', []))),
         ('expr', ('call', ('dot', V('vc'), 'add'), [N(3)])), ('expr', ('arr', [V('va'), V('vb'), V('vc'), ('bin', '==', V('va'), V('vc'))]))])
    # return/break/continue
    add([('var', 'va', ('arr', [])), ('for', 'vb', None, ('call', V('range'), [N(10)]),
         [('if', ('bin', '==', ('bin', '%', V('vb'), N(2)), N(0)), [('cont',)], None), ('if', ('bin', '>', V('vb'), N(6)), [('break',)], None),
          ('expr', ('call', ('dot', V('va'), 'add'), [V('vb')]))]), ('expr', V('va'))])
    add([('func', 'fa', ['pa'], [], [('for', 'vb', None, V('pa'), [('if', ('bin', '>', V('vb'), N(2)), [('ret', V('vb'))], None)]), ('ret', S('none'))]),
         ('expr', ('arr', [('call', V('fa'), [('arr', [N(1), N(5), N(9)])]), ('call', V('fa'), [('arr', [N(1)])])]))])
    # too few / too many arguments
    add([('func', 'fa', ['pa', 'pb'], [], [('ret', ('arr', [V('pa'), V('pb')]))]), ('var', 'va', ('call', V('fa'), [N(1), N(2), N(3)])),
         ('try', [('var', 'vb', ('call', V('fa'), [N(1)]))], [('var', 'vb', S('caught'))]), ('expr', ('arr', [V('va'), V('vb')]))])
    # mutation of the array being looped over with for (index based, terminates)
    add([('var', 'va', ('arr', [N(1), N(2), N(3)])), ('for', 'vb', None, V('va'), [('if', ('bin', '<', ('call', ('dot', V('va'), 'len'), []), N(6)), [('expr', ('call', ('dot', V('va'), 'add'), [V('vb')]))], None)]),
         ('expr', V('va'))])
    # reduce / any / all
    add([('var', 'va', ('arr', [N(1), N(2), N(3), N(4)])),
         ('expr', ('arr', [('call', ('dot', V('va'), 'reduce'), [('lam', ['pa', 'pb'], [], ('bin', '+', V('pa'), V('pb')))]),
                           ('call', ('dot', V('va'), 'any'), [('lam', ['pa'], [], ('bin', '>', V('pa'), N(3)))]),
                           ('call', ('dot', V('va'), 'all'), [('lam', ['pa'], [], ('bin', '>', V('pa'), N(3)))])]))])
    return cs


def fam_depth():
    cs = []
    # recursion: the counter tells at which depth the limit struck
    for extra in (0, 1, 2):
        body = [('set', '+=', ('idx', V('pa'), N(0)), N(1))]
        inner = ('call', V('fa'), [V('pa')])
        for _ in range(extra):
            inner = ('bin', '+', N(0), inner)
        body.append(('expr', inner))
        cs.append(mk_case([('var', 'va', ('arr', [N(0)])), ('set', '=', ('dot', ('globals',), 'fa'), ('fn', ['pa'], [], body)),
                           ('try', [('expr', ('call', V('fa'), [V('va')]))], [('var', 'vb', S('caught'))]), ('expr', ('arr', [V('va'), V('vb')]))], 'depth'))
    # nesting of 1+(1+(1+...)) around the limit
    for n in (100, 290, 296, 297, 298, 299, 300, 301, 305, 400):
        e = N(1)
        for _ in range(n):
            e = ('bin', '+', N(1), e)
        cs.append(mk_case([('expr', e)], 'depth'))
        e = ('bool', True)
        for _ in range(n):
            e = ('not', e)
        cs.append(mk_case([('expr', e)], 'depth'))
    for n in (100, 295, 298, 299, 300, 310):
        e = N(1)
        for _ in range(n):
            e = ('arr', [e])
        cs.append(mk_case([('var', 'va', S('init')), ('try', [('set', '=', V('va'), e)], [('set', '=', V('va'), S('caught'))]), ('expr', ('bin', '==', V('va'), S('caught')))], 'depth'))
    # many caught errors in a row must not accumulate depth (the counter is restored when an exception unwinds)
    for n, thrower in ((150, ('throw', S('x'))), (300, ('expr', ('bin', '/', N(1), N(0)))), (120, ('expr', ('call', V('nosuchfn'), []))),
                       (200, ('expr', ('idx', ('arr', [N(1)]), N(5))))):
        cs.append(mk_case([('var', 'va', N(0)), ('for', 'vb', None, ('call', V('range'), [N(n)]), [('try', [thrower], [('set', '+=', V('va'), N(1))])]),
                           ('func', 'fa', ['pa'], [], [('if', ('bin', '<=', V('pa'), N(0)), [('ret', N(0))], None), ('ret', ('bin', '+', N(1), ('call', V('fa'), [('bin', '-', V('pa'), N(1))])))]),
                           ('expr', ('arr', [V('va'), ('call', V('fa'), [N(20)])]))], 'depth'))
    # left-deep chains are shallow for the depth counter?  no: each level nests one Evaluate
    for n in (200, 298, 299, 300, 301):
        e = N(1)
        for _ in range(n):
            e = ('bin', '+', e, N(1))
        cs.append(mk_case([('expr', e)], 'depth'))
    return cs


def fam_findings():
    """deterministic crash reproducers of the recorded findings + neighbours that must NOT crash"""
    cs = []
    add = lambda stmts: cs.append(mk_case(stmts, 'finding-reproducer'))
    cyc = [('var', 'va', ('arr', [])), ('expr', ('call', ('dot', V('va'), 'add'), [V('va')])), ('var', 'vb', ('arr', [])), ('expr', ('call', ('dot', V('vb'), 'add'), [V('vb')]))]
    add(cyc + [('expr', ('bin', '==', V('va'), V('vb')))])
    add(cyc + [('expr', ('bin', '!=', V('va'), V('vb')))])
    add(cyc + [('expr', ('call', ('dot', V('va'), 'to_string'), []))])
    add(cyc + [('expr', ('call', ('dot', ('arr', [V('vb')]), 'contains'), [V('va')]))])
    add(cyc + [('expr', ('bin', 'in', V('va'), ('arr', [V('vb')])))])
    add(cyc + [('expr', ('bin', '-', ('arr', [V('va')]), ('arr', [V('vb')])))])
    add(cyc + [('expr', ('bin', '+', S('x'), V('va')))])
    add([('var', 'va', ('dict', [])), ('set', '=', ('dot', V('va'), 'ka'), V('va')), ('expr', ('call', ('dot', V('va'), 'to_string'), []))])
    # neighbours that are fine: identity short cut, length mismatch, cyclic but never traversed
    add(cyc + [('expr', ('arr', [('bin', '==', V('va'), V('va')), ('call', ('dot', V('va'), 'len'), []), ('bin', '==', V('va'), ('arr', []))]))])
    add(cyc + [('expr', ('call', ('dot', V('va'), 'contains'), [N(1)]))])
    # array - null
    add([('expr', ('bin', '-', ('arr', [N(1)]), ('null',)))])
    add([('var', 'va', ('arr', [N(1), N(2)])), ('var', 'vb', ('null',)), ('set', '-=', V('va'), V('vb')), ('expr', V('va'))])
    add([('expr', ('arr', [('bin', '-', ('arr', []), ('null',)), ('bin', '-', ('null',), ('arr', [N(1)])), ('bin', '+', ('arr', [N(1)]), ('null',))]))])
    # modulo by a fraction
    add([('expr', ('bin', '%', N(5), ('num', '0.5', 1, 1)))])
    add([('var', 'va', N(7)), ('set', '%=', V('va'), ('num', '0.25', 1, 2)), ('expr', V('va'))])
    add([('expr', ('arr', [('bin', '%', N(5), ('num', '1.5', 3, 1)), ('bin', '%', ('num', '7.5', 15, 1), N(2)), ('bin', '%', ('neg', N(7)), N(3))]))])
    # `using` of a null value: the next lookup that reaches the imports is a script error (fix 9625736; before it a null Object::Ptr was dereferenced)
    add([('using', ('null',)), ('expr', V('foo'))])
    add([('var', 'va', ('null',)), ('using', V('va')), ('expr', C('len', S('abc')))])
    add([('var', 'va', ('dict', [])), ('using', ('dot', V('va'), 'nosuch')), ('try', [('set', '=', V('kz'), N(1))], [('var', 'vb', S('caught'))]), ('expr', N(1))])
    add([('var', 'va', ('dict', [('ka', N(1))])), ('using', V('va')), ('using', ('null',)), ('try', [('var', 'vb', V('kb'))], [('var', 'vb', S('caught'))]), ('expr', V('vb'))])
    # neighbours that are fine: no lookup reaches the null import (locals / this / an earlier import answer first; no lookup at all)
    add([('using', ('null',)), ('expr', ('bin', '+', N(1), N(2)))])
    add([('var', 'va', N(1)), ('set', '=', ('dot', ('this',), 'kt'), N(2)), ('using', ('null',)), ('expr', ('arr', [V('va'), V('kt'), ('dot', ('locals',), 'va')]))])
    add([('var', 'va', ('dict', [('ka', N(1))])), ('using', V('va')), ('using', ('null',)), ('expr', V('ka'))])
    return cs


def fam_callback_resize():
    """Array#map/filter/any/all whose callback resizes the array (well defined since fix 2c1ef52: index based, length re-read)"""
    cs = []
    add = lambda stmts: cs.append(mk_case(stmts, 'callback-resize'))
    A = lambda *xs: ('arr', [N(x) for x in xs])
    lenlt = lambda n: ('bin', '<', ('call', ('dot', V('va'), 'len'), []), N(n))
    for m in ('map', 'filter', 'any', 'all'):
        for ret in (V('pa'), ('bin', '>', V('pa'), N(1)), ('bool', True), N(0)):
            # grow while short
            add([('var', 'va', A(1, 2, 3)), ('var', 'vb', ('call', ('dot', V('va'), m), [('fn', ['pa'], [('va', None)],
                 [('if', lenlt(7), [('expr', ('call', ('dot', V('va'), 'add'), [('bin', '+', V('pa'), N(10))]))], None), ('ret', ret)])])), ('expr', ('arr', [V('va'), V('vb')]))])
            # shrink: remove the first element / clear
            add([('var', 'va', A(1, 2, 3, 4, 5)), ('var', 'vb', ('call', ('dot', V('va'), m), [('fn', ['pa'], [('va', None)],
                 [('expr', ('call', ('dot', V('va'), 'remove'), [N(0)])), ('ret', ret)])])), ('expr', ('arr', [V('va'), V('vb')]))])
            add([('var', 'va', A(1, 2, 3)), ('var', 'vb', ('call', ('dot', V('va'), m), [('fn', ['pa'], [('va', None)],
                 [('expr', ('call', ('dot', V('va'), 'clear'), [])), ('ret', ret)])])), ('expr', ('arr', [V('va'), V('vb')]))])
            # clear and refill with many elements (reallocation)
            add([('var', 'va', A(1, 2, 3)), ('var', 'vc', N(0)), ('var', 'vb', ('call', ('dot', V('va'), m), [('fn', ['pa'], [('va', None)],
                 [('if', lenlt(40), [('expr', ('call', ('dot', V('va'), 'clear'), [])), ('for', 'vd', None, ('call', V('range'), [N(50)]), [('expr', ('call', ('dot', V('va'), 'add'), [V('vd')]))])], None),
                  ('ret', ret)])])), ('expr', ('arr', [('call', ('dot', V('va'), 'len'), []), ('call', V('len'), [V('vb')])]))])
            # replace elements in place
            add([('var', 'va', A(1, 2, 3)), ('var', 'vb', ('call', ('dot', V('va'), m), [('fn', ['pa'], [('va', None)],
                 [('set', '=', ('idx', V('va'), N(2)), S('x')), ('ret', ret)])])), ('expr', ('arr', [V('va'), V('vb')]))])
    # unbounded growth: legal endless loop; the model runs out of loop budget and the candidate is dropped by the screen
    return cs


def fam_closure_state(rnd, n):
    """closures with 0..2 parameters x use-lists of 0..2 variables whose bodies read / assign / += captured variables, redeclare
    locals named like captured or outer variables, rely on a body `var` being unset at every call, mutate captured containers
    (reference semantics) - each closure is called 2-3 times, interleaved with mutations of the outer variables"""
    cs = []
    def add(stmts, multi):
        c = mk_case(stmts, 'closure-state')
        c['tags']['closure_assign_multi'] = bool(multi)
        cs.append(c)
    L = lambda name: ('dot', ('locals',), name)
    call = lambda f, *a: ('call', V(f), list(a))
    # ---- fixed templates
    add([('var', 'va', N(10)), ('var', 'fa', ('fn', [], [('va', None)], [('set', '+=', V('va'), N(1)), ('ret', V('va'))])),
         ('expr', ('arr', [call('fa'), call('fa'), call('fa'), V('va')]))], True)
    add([('var', 'va', N(10)), ('func', 'fa', [], [('va', None)], [('set', '=', V('va'), ('bin', '*', V('va'), N(2))), ('ret', V('va'))]),
         ('var', 'vb', call('fa')), ('set', '=', V('va'), N(1)), ('expr', ('arr', [V('vb'), call('fa'), call('fa'), V('va')]))], True)
    # a body-declared local must be unset at every call
    add([('var', 'va', N(1)), ('var', 'fa', ('fn', [], [('va', None)], [('var', 'vc', ('bin', '+', L('vc'), N(1))), ('ret', ('arr', [V('vc'), ('call', ('dot', ('locals',), 'len'), [])]))])),
         ('expr', ('arr', [call('fa'), call('fa'), call('fa')]))], True)
    add([('var', 'fa', ('fn', [], [], [('var', 'vc', ('bin', '+', L('vc'), N(1))), ('ret', V('vc'))])), ('expr', ('arr', [call('fa'), call('fa')]))], False)
    add([('var', 'va', N(1)), ('var', 'fa', ('fn', ['pa'], [('va', None)], [('var', 'vc', ('bin', '+', L('vc'), V('pa'))), ('set', '+=', V('va'), V('vc')), ('ret', ('arr', [V('va'), V('vc')]))])),
         ('expr', ('arr', [call('fa', N(1)), call('fa', N(2)), call('fa', N(3))]))], True)
    # captured containers are shared references; rebinding the captured name is local to one call
    add([('var', 'va', ('arr', [])), ('var', 'fa', ('fn', [], [('va', None)], [('expr', ('call', ('dot', V('va'), 'add'), [('call', ('dot', V('va'), 'len'), [])])), ('set', '=', V('va'), ('arr', [N(99)])), ('ret', V('va'))])),
         ('var', 'vb', ('arr', [call('fa'), call('fa')])), ('expr', ('call', ('dot', V('va'), 'add'), [S('outer')])), ('expr', ('arr', [V('vb'), call('fa'), V('va')]))], True)
    add([('var', 'va', ('dict', [('ka', N(0))])), ('var', 'fa', ('fn', [], [('va', None)], [('set', '+=', ('dot', V('va'), 'ka'), N(1)), ('set', '=', V('va'), ('dict', [])), ('ret', ('call', ('dot', V('va'), 'len'), []))])),
         ('expr', ('arr', [call('fa'), call('fa'), call('fa'), V('va')]))], True)
    # closure returning closure: every mk() call captures its own value; each inner call starts from the captured value again
    add([('var', 'fa', ('fn', ['pa'], [], [('var', 'vc', V('pa')), ('ret', ('fn', [], [('vc', None)], [('set', '+=', V('vc'), N(1)), ('ret', V('vc'))]))])),
         ('var', 'va', call('fa', N(5))), ('var', 'vb', call('fa', N(7))), ('expr', ('arr', [call('va'), call('va'), call('vb'), call('va'), ('call', call('fa', N(1)), [])]))], True)
    add([('var', 'va', N(1)), ('var', 'fa', ('fn', [], [('va', None)], [('set', '+=', V('va'), N(1)), ('ret', ('fn', [], [('va', None)], [('set', '+=', V('va'), N(10)), ('ret', V('va'))]))])),
         ('var', 'vb', call('fa')), ('var', 'vc', call('fa')), ('expr', ('arr', [call('vb'), call('vb'), call('vc'), V('va')]))], True)
    # state kept in a captured holder; recursion through a captured function value
    add([('var', 'va', ('dict', [('ka', N(0))])), ('set', '=', ('dot', V('va'), 'kb'), ('fn', [], [('va', None)],
          [('set', '+=', ('dot', V('va'), 'ka'), N(1)), ('if', ('bin', '<', ('dot', V('va'), 'ka'), N(4)), [('expr', ('call', ('dot', V('va'), 'kb'), []))], None), ('ret', ('dot', V('va'), 'ka'))])),
         ('expr', ('arr', [('call', ('dot', V('va'), 'kb'), []), ('call', ('dot', V('va'), 'kb'), [])]))], False)
    add([('var', 'fa', ('fn', ['pa', 'pb'], [], [('if', ('bin', '<=', V('pa'), N(0)), [('ret', N(0))], None), ('ret', ('bin', '+', V('pa'), ('call', V('pb'), [('bin', '-', V('pa'), N(1)), V('pb')])))])),
         ('var', 'fb', ('fn', ['pa'], [('fa', None)], [('ret', ('call', V('fa'), [V('pa'), V('fa')]))])), ('expr', ('arr', [call('fb', N(4)), call('fb', N(2))]))], False)
    # a parameterless closure that re-enters itself through a holder while assigning its captured scalar: fresh copy per call
    add([('var', 'va', N(0)), ('var', 'vb', ('dict', [('ka', N(0))])), ('set', '=', ('dot', V('vb'), 'kb'), ('fn', [], [('va', None), ('vb', None)],
          [('set', '+=', V('va'), N(1)), ('set', '+=', ('dot', V('vb'), 'ka'), N(1)),
           ('if', ('bin', '<', ('dot', V('vb'), 'ka'), N(3)), [('var', 'vc', ('call', ('dot', V('vb'), 'kb'), []))], None), ('ret', ('arr', [V('va'), L('vc')]))])),
         ('expr', ('call', ('dot', V('vb'), 'kb'), []))], True)
    # use(x = expr) and shadowing of a parameter by a captured name of the same spelling (arguments are bound after the copy)
    add([('var', 'va', N(3)), ('var', 'fa', ('fn', ['va'], [('va', None)], [('set', '+=', V('va'), N(1)), ('ret', V('va'))])), ('expr', ('arr', [call('fa', N(50)), call('fa', N(60)), V('va')]))], True)
    add([('var', 'va', N(3)), ('var', 'fa', ('fn', [], [('vb', ('bin', '*', V('va'), N(2)))], [('set', '-=', V('vb'), N(1)), ('ret', V('vb'))])), ('set', '=', V('va'), N(0)),
         ('expr', ('arr', [call('fa'), call('fa')]))], True)
    # ---- random ones
    scal = lambda: N(rnd.choice([0, 1, 5, 10])) if rnd.random() < 0.7 else S(rnd.choice(['a', 'xy']))
    for _ in range(n):
        outer = {}
        stmts = []
        for name in rnd.sample(['va', 'vb', 'vc'], rnd.randint(1, 3)):
            kind = rnd.choice(['num', 'num', 'arr', 'dict', 'str'])
            outer[name] = kind
            stmts.append(('var', name, {'num': N(rnd.choice([0, 1, 5, 10])), 'str': S(rnd.choice(['a', 'xy'])), 'arr': ('arr', [N(1)] if rnd.random() < 0.5 else []),
                                        'dict': ('dict', [('ka', N(0))])}[kind]))
        params = rnd.sample(['pa', 'pb'], rnd.choice([0, 0, 0, 1, 2]))
        uses = rnd.sample(list(outer), rnd.randint(0, min(2, len(outer))))
        body = []
        assigned = False
        for _k in range(rnd.randint(1, 4)):
            c = rnd.random()
            tgt = rnd.choice(uses) if uses and rnd.random() < 0.8 else rnd.choice(['va', 'vb', 'vc', 'vd'])
            kind = outer.get(tgt, 'num')
            inc = V(rnd.choice(params)) if params and rnd.random() < 0.5 else N(rnd.choice([1, 2, 3]))
            if c < 0.35:
                if tgt in uses:
                    assigned = True
                    if kind == 'num': body.append(('set', rnd.choice(['+=', '=', '*=', '-=']), V(tgt), inc))
                    elif kind == 'str': body.append(('set', '+=', V(tgt), S('z')))
                    elif kind == 'arr': body.append(('set', rnd.choice(['=', '+=']), V(tgt), ('arr', [inc])))
                    else: body.append(('set', rnd.choice(['=', '+=']), V(tgt), ('dict', [('kb', inc)])))
                else:
                    body.append(('var', tgt, ('bin', '+', L(tgt), inc)))      # relies on the local being unset at each call
            elif c < 0.55:
                body.append(('var', tgt, ('bin', '+', L(tgt), inc)))          # redeclare a name that may be captured or outer
                assigned = assigned or tgt in uses
            elif c < 0.75 and tgt in uses and kind in ('arr', 'dict'):
                body.append(('expr', ('call', ('dot', V(tgt), 'add'), [inc])) if kind == 'arr' else ('set', '+=', ('dot', V(tgt), 'ka'), inc))
            elif c < 0.85:
                body.append(('set', '+=', ('dot', ('this',), 'kc'), N(1)))     # plain call: this = the caller's locals
            else:
                body.append(('if', ('bin', '>', ('call', ('dot', ('locals',), 'len'), []), N(len(uses) + len(params))), [('set', '=', ('dot', ('globals',), 'ga'), S('leak'))], None))
        body.append(('ret', ('arr', [L(x) for x in ['va', 'vb', 'vc', 'vd']] + [('call', ('dot', ('locals',), 'len'), [])])))
        as_stmt = rnd.random() < 0.4
        stmts.append(('func', 'fa', params, [(u, None) for u in uses], body) if as_stmt else ('var', 'fa', ('fn', params, [(u, None) for u in uses], body)))
        ncalls = rnd.randint(2, 3)
        results = []
        for i in range(ncalls):
            args = [N(rnd.choice([1, 2, 7])) for _p in params]
            if rnd.random() < 0.3 and params: args = args[:-1] if rnd.random() < 0.5 else args + [N(0)]
            name = 'r%d' % i
            stmts.append(('try', [('var', name, ('call', V('fa'), args))], [('var', name, S('caught'))]))
            results.append(V(name))
            if rnd.random() < 0.6:
                o = rnd.choice(list(outer))
                k = outer[o]
                if k == 'num': stmts.append(('set', rnd.choice(['=', '+=']), V(o), N(100)))
                elif k == 'str': stmts.append(('set', '+=', V(o), S('!')))
                elif k == 'arr': stmts.append(('expr', ('call', ('dot', V(o), 'add'), [S('o')])) if rnd.random() < 0.7 else ('set', '=', V(o), ('arr', [])))
                else: stmts.append(('set', '=', ('dot', V(o), 'kc'), N(i)))
        stmts.append(('expr', ('arr', results + [V(x) for x in outer])))
        add(stmts, assigned and ncalls >= 2)
    return cs


TYPE_NAMES = ['Object', 'Number', 'Boolean', 'String', 'Array', 'Dictionary', 'Namespace', 'Function', 'Type', 'Reference']
C = lambda f, *a: ('call', V(f), list(a))
A = lambda *xs: ('arr', [N(x) if isinstance(x, int) else (S(x) if isinstance(x, str) else x) for x in xs])


def fam_types():
    """typeof / Type objects: reflection type of every operand kind, Type fields, identity comparison, conversion of a Type,
    constructor calls String()/Number()/Boolean() with 0..2 arguments"""
    cs = []
    add = lambda stmts: cs.append(mk_case(stmts, 'types'))
    vals = OPERANDS + [('globals',), ('locals',), ('this',), V('len'), V('Json'), V('Number'), ('call', V('typeof'), [N(1)])]
    for a in vals:
        add([('var', 'va', a), ('expr', ('arr', [('dot', C('typeof', V('va')), 'name')] + [('bin', '==', C('typeof', V('va')), V(t)) for t in TYPE_NAMES]))])
    add([('var', 'va', N(1)), ('var', 'vp', ('ref', V('va'))), ('expr', ('arr', [('dot', C('typeof', V('vp')), 'name'), ('bin', '==', C('typeof', V('vp')), V('Reference')), ('dot', V('vp'), 'type')]))])
    for t in TYPE_NAMES:
        add([('expr', ('arr', [('dot', V(t), 'name'), ('dot', V(t), 'base'), ('dot', V(t), 'type'), C('string', V(t)), ('call', ('dot', V(t), 'to_string'), []), C('bool', V(t)),
                               ('bin', '==', V(t), V(t)), ('bin', '!=', V(t), V('Number')), C('len', V(t)), C('keys', V(t)), ('bin', 'in', V(t), ('arr', [V('Number'), V('Array')])),
                               ('not', V(t)), ('bin', '&&', V(t), N(1)), ('dot', C('typeof', V(t)), 'name')]))])
        add([('try', [('var', 'va', ('dot', V(t), 'nosuchfield'))], [('var', 'va', S('caught'))]), ('expr', V('va'))])
        for op in ('<', '<=', '+', '-', '*'):
            add([('expr', ('bin', op, V(t), V('String')))])
            add([('expr', ('bin', op, N(1), V(t)))])
        add([('expr', ('bin', '+', S('x'), V(t)))])
        add([('expr', C('number', V(t)))])
    for t in ('String', 'Number', 'Boolean'):
        add([('expr', C(t))])
        add([('expr', C(t, N(1), N(2)))])
        for a in OPERANDS:
            add([('var', 'va', a), ('expr', C(t, V('va')))])
    # side effects of the arguments happen before the arity/type decision; a non-callable is refused before the arguments
    add([('var', 'va', ('arr', [])), ('try', [('expr', C('String', ('call', ('dot', V('va'), 'add'), [N(1)]), ('call', ('dot', V('va'), 'add'), [N(2)])))], [('expr', ('call', ('dot', V('va'), 'add'), [S('caught')]))]), ('expr', V('va'))])
    add([('var', 'va', ('arr', [])), ('var', 'vb', N(5)), ('try', [('expr', ('call', V('vb'), [('call', ('dot', V('va'), 'add'), [N(1)])]))], [('expr', ('call', ('dot', V('va'), 'add'), [S('caught')]))]), ('expr', V('va'))])
    # a local shadows the Types member; assignment through the bare name lands where the lookup finds it
    add([('var', 'Number', N(3)), ('expr', ('arr', [V('Number'), ('bin', '==', C('typeof', N(1)), V('Number'))]))])
    add([('set', '=', ('dot', ('this',), 'String'), N(4)), ('expr', ('arr', [V('String'), ('dot', C('typeof', S('a')), 'name')]))])
    return cs


def fam_sets(rnd, n):
    """union / intersection: 0..4 arguments out of number arrays (with duplicates), string arrays, empty arrays, null, scalars,
    mixed singletons; the single-argument and null-argument quirks of intersection (transcribed, see DslEval.dsl_isect_args)"""
    cs = []
    add = lambda stmts: cs.append(mk_case(stmts, 'sets'))
    fixed = [[], [A(3, 1, 2)], [A(1, 2)], [('null',)], [N(5)], [S('')], [S('ab')], [('dict', [])], [A(), A()], [A(1, 2, 3), A()], [A(), A(1)],
             [A(1, 2, 2, 3), A(2, 2, 3, 4)], [A(3, 1), A(1, 3), A(1)], [A(1, 2, 3), A(2, 3), ('null',)], [A(1, 2), ('null',)], [('null',), A(1)], [A(1, 2), N(3)],
             [A(1, 2), A('a')], [A('b', 'a'), A('a', 'c', 'b')], [A('a'), A(1)], [A(A(1))], [A(('dict', []))], [A(('null',))], [A(('bool', True))], [A(1), A(('null',))],
             [A(5, 4, 3, 2, 1), A(1, 3, 5), A(5, 1)], [A(1, 2, 3), A(1, 2, 3), A(1, 2, 3)], [A(1, 2), A(2), A(), A(1)], [A('x', 'y'), A('y'), A('y')],
             [A(1, ('num', '1.5', 3, 1), ('num', '0.5', 1, 1)), A(('num', '0.5', 1, 1), 1)], [A(1, 1, 1), A(1, 1)], [A(2, 1), ('bool', True)], [('bool', False), A(1)]]
    for args in fixed:
        for f in ('union', 'intersection'):
            add([('expr', C(f, *args))])
    # the arguments are not modified; the result is a fresh array
    add([('var', 'va', A(3, 1, 2)), ('var', 'vb', A(2, 3, 9)), ('var', 'vc', C('intersection', V('va'), V('vb'))), ('var', 'vd', C('union', V('va'), V('vb'))),
         ('expr', ('call', ('dot', V('vc'), 'add'), [N(7)])), ('expr', ('arr', [V('va'), V('vb'), V('vc'), V('vd')]))])
    add([('var', 'va', A(1)), ('var', 'vb', C('union', V('va'))), ('expr', ('call', ('dot', V('vb'), 'add'), [N(2)])), ('expr', ('arr', [V('va'), V('vb'), ('bin', '==', V('va'), V('vb'))]))])
    pools = {'num': [0, 1, 2, 3, 5, 7, 7, -2], 'str': ['a', 'b', 'ab', 'c', 'B']}
    for _ in range(n):
        kind = rnd.choice(['num', 'num', 'str'])
        def arr():
            x = rnd.random()
            if x < 0.1: return ('null',)
            if x < 0.15: return rnd.choice([N(1), S('a'), ('dict', []), ('bool', True), S('')])
            k = kind if rnd.random() < 0.92 else ('str' if kind == 'num' else 'num')
            return A(*[rnd.choice(pools[k]) for _ in range(rnd.randint(0, 5))])
        f = rnd.choice(['union', 'intersection', 'intersection'])
        args = [arr() for _ in range(rnd.choice([1, 2, 2, 2, 3, 3, 4]))]
        if f == 'intersection' and len(args) >= 3 and rnd.random() < 0.5:
            args.sort(key=lambda a: -len(a[1]) if a[0] == 'arr' else 0)      # half of them with decreasing sizes, the rest in any order
        add([('var', 'va', C(f, *args)), ('expr', ('arr', [V('va'), C('len', V('va'))]))])
    return cs


def fam_match(rnd, n):
    """match(): glob patterns (`*`, `?`, escaped, case folding) x texts; array form with MatchAll / MatchAny / other modes; argument typing"""
    cs = []
    add = lambda stmts: cs.append(mk_case(stmts, 'match'))
    pats = ['', '*', '?', 'a', 'A', 'a*', '*a', '*a*', 'a?c', 'a*c', '?*', '*?', '**', 'a**b', 'ab*ab', '*ab*ab', 'a\\*', 'a\\?b', '\\*', '\\', 'a\\b', 'h*o w?rld',
            '*.example.com', 'web-??', '*b*b*', 'x*y*z', '?a*a?', 'a*?', '[a]', 'a*b?c*d']
    texts = ['', 'a', 'A', 'ab', 'abc', 'aXc', 'ac', 'abab', 'ababab', 'a*', 'a?b', 'a\\b', 'hello world', 'HELLO WORLD', 'www.example.com', 'web-01', 'web-1', 'bb', 'b', 'xyz', 'xaybzc', 'aaaa',
             'aaa', '[a]', 'axbycd', 'abcd']
    for p_ in pats:
        add([('expr', ('arr', [C('match', S(p_), S(t)) for t in texts]))])
    modes = [None, V('MatchAll'), V('MatchAny'), N(0), N(1), N(2), N(-1), ('num', '1.5', 3, 1), S('1'), S('x'), ('null',), ('bool', True), ('arr', [])]
    arrs = [A(), A('abc'), A('abc', 'b'), A('b', 'abc'), A('b', 'c'), A('abc', 'abd'), A('abc', 1), A(12, 'a'), A(('null',)), A('', 'a'), A(A('a'))]
    for m_ in modes:
        for a in arrs:
            for p_ in ('a*', '*', '1?'):
                add([('expr', C('match', S(p_), a, *([] if m_ is None else [m_])))])
    for t in OPERANDS:
        add([('var', 'va', t), ('expr', C('match', S('*'), V('va')))])
        add([('var', 'va', t), ('expr', C('match', V('va'), S('1')))])
        add([('var', 'va', t), ('expr', C('match', S('a'), S('a'), V('va')))])
    add([('expr', C('match'))])
    add([('expr', C('match', S('a')))])
    add([('expr', C('match', S('a'), S('a'), N(0), N(4)))])
    alpha = 'ab*?'
    for _ in range(n):
        p_ = ''.join(rnd.choice(alpha) for _k in range(rnd.randint(0, 6)))
        ts = [''.join(rnd.choice('abAB') for _k in range(rnd.randint(0, 6))) for _j in range(6)]
        add([('expr', ('arr', [C('match', S(p_), S(t)) for t in ts] + [C('match', S(p_), A(*ts[:3]), V(rnd.choice(['MatchAll', 'MatchAny'])))]))])
    return cs


def fam_refs(rnd, n):
    """references: &local / &this member / &global / &unknown name / &a.b / &a[i] / &*p / &p, reads and (compound) writes through them,
    Reference#get/#set, identity, capture in closures, invalid operands of & and * (fix 45d9f22: *null is a script error)"""
    cs = []
    add = lambda stmts: cs.append(mk_case(stmts, 'references'))
    R = lambda e: ('ref', e)
    D = lambda e: ('deref', e)
    add([('var', 'va', N(1)), ('var', 'vp', R(V('va'))), ('set', '=', D(V('vp')), N(5)), ('set', '+=', D(V('vp')), N(2)), ('expr', ('arr', [V('va'), D(V('vp')), ('bin', '*', D(V('vp')), N(2))]))])
    add([('var', 'vp', R(V('vz'))), ('var', 'vb', D(V('vp'))), ('set', '=', D(V('vp')), N(3)), ('expr', ('arr', [V('vb'), D(V('vp')), ('dot', ('this',), 'vz')]))])
    add([('set', '=', ('dot', ('globals',), 'ga'), N(1)), ('var', 'vp', R(V('ga'))), ('set', '+=', D(V('vp')), N(10)), ('expr', ('arr', [V('ga'), D(V('vp'))]))])
    add([('set', '=', ('dot', ('this',), 'ka'), N(1)), ('var', 'vp', R(V('ka'))), ('var', 'ka', N(50)), ('set', '=', D(V('vp')), N(2)), ('expr', ('arr', [V('ka'), ('dot', ('this',), 'ka'), D(V('vp'))]))])
    add([('var', 'va', ('dict', [('ka', ('dict', [('kb', N(1))]))])), ('var', 'vp', R(('dot', ('dot', V('va'), 'ka'), 'kb'))), ('set', '+=', D(V('vp')), N(2)), ('expr', ('arr', [V('va'), D(V('vp'))]))])
    add([('var', 'va', A(1, 2)), ('var', 'vp', R(('idx', V('va'), N(1)))), ('set', '=', D(V('vp')), N(9)), ('var', 'vq', R(('idx', V('va'), N(5)))),
         ('try', [('var', 'vb', D(V('vq')))], [('var', 'vb', S('caught'))]), ('set', '=', D(V('vq')), S('grown')), ('expr', ('arr', [V('va'), V('vb'), D(V('vq'))]))])
    add([('var', 'va', ('dict', [])), ('try', [('var', 'vp', R(('dot', ('dot', V('va'), 'ka'), 'kb')))], [('var', 'vp', S('caught'))]), ('expr', ('arr', [V('va'), ('bin', '==', V('vp'), S('caught'))]))])
    add([('var', 'va', S('abc')), ('try', [('var', 'vp', R(('dot', V('va'), 'len')))], [('var', 'vp', S('caught'))]), ('expr', ('bin', '==', V('vp'), S('caught')))])
    for bad in (N(5), S('a'), ('null',), ('arr', []), ('bin', '+', N(1), N(2)), C('len', S('a')), ('this',), ('locals',)):
        add([('try', [('var', 'va', R(bad))], [('var', 'va', S('caught'))]), ('expr', ('bin', '==', V('va'), S('caught')))])
        add([('try', [('var', 'va', D(bad))], [('var', 'va', S('caught'))]), ('expr', ('bin', '==', V('va'), S('caught')))])
        add([('var', 'vb', bad), ('try', [('set', '=', D(V('vb')), N(1))], [('var', 'va', S('caught'))]), ('expr', ('arr', [V('va')]))])
    add([('var', 'va', N(3)), ('var', 'vp', R(V('va'))), ('var', 'vq', R(D(V('vp')))), ('var', 'vr', R(V('vp'))), ('set', '=', D(V('vq')), N(4)),
         ('expr', ('arr', [D(V('vq')), D(D(V('vr'))), V('va'), ('bin', '==', V('vp'), V('vq')), ('bin', '==', V('vp'), V('vp')), ('bin', '==', V('vp'), D(V('vr'))), C('bool', V('vp')), C('string', V('vp'))]))])
    add([('var', 'va', N(1)), ('var', 'vp', R(V('va'))), ('expr', ('call', ('dot', V('vp'), 'set'), [N(7)])), ('expr', ('arr', [('call', ('dot', V('vp'), 'get'), []), V('va'), ('dot', V('vp'), 'type')]))])
    add([('var', 'va', N(1)), ('var', 'vp', R(V('va'))), ('expr', ('call', ('dot', ('locals',), 'remove'), [S('va')])), ('var', 'vb', D(V('vp'))), ('set', '=', D(V('vp')), N(2)), ('expr', ('arr', [V('vb'), V('va')]))])
    add([('var', 'va', N(1)), ('var', 'vp', R(V('va'))), ('var', 'fa', ('fn', [], [('vp', None)], [('set', '*=', D(V('vp')), N(10)), ('ret', D(V('vp')))])), ('expr', ('arr', [C('fa'), C('fa'), V('va')]))])
    add([('var', 'fa', ('fn', ['pa'], [], [('set', '=', D(V('pa')), ('bin', '+', D(V('pa')), N(1)))])), ('var', 'va', N(1)), ('var', 'vb', ('dict', [('ka', N(5))])),
         ('expr', C('fa', R(V('va')))), ('expr', C('fa', R(('dot', V('vb'), 'ka')))), ('expr', ('arr', [V('va'), V('vb')]))])
    add([('var', 'va', ('fn', ['pa'], [], [('ret', ('bin', '*', V('pa'), N(2)))])), ('var', 'vp', R(V('va'))), ('expr', ('arr', [('call', D(V('vp')), [N(4)])]))])
    add([('var', 'va', ('dict', [('ka', N(1))])), ('var', 'vp', R(V('va'))), ('set', '=', ('dot', D(V('vp')), 'kb'), N(2)), ('set', '+=', ('dot', D(V('vp')), 'ka'), N(1)), ('expr', ('arr', [V('va'), ('dot', D(V('vp')), 'ka')]))])
    add([('var', 'vp', R(V('len'))), ('expr', ('arr', [('call', D(V('vp')), [S('abc')])]))])
    add([('var', 'va', ('null',)), ('try', [('set', '=', D(V('va')), N(1))], [('var', 'vb', S('caught'))]), ('try', [('expr', ('call', D(V('va')), [N(1)]))], [('var', 'vc', S('caught'))]),
         ('try', [('set', '=', ('dot', D(V('va')), 'ka'), N(1))], [('var', 'vd', S('caught'))]), ('expr', ('arr', [V('vb'), V('vc'), V('vd')]))])
    # precedence of the prefix operators against the binary ones and the postfix ones
    add([('var', 'va', N(3)), ('var', 'vp', R(V('va'))), ('expr', ('arr', [('bin', '*', N(2), D(V('vp'))), ('bin', '*', D(V('vp')), D(V('vp'))), ('neg', D(V('vp'))), ('bin', '-', D(V('vp')), D(V('vp'))), ('not', D(V('vp'))),
                                                                        ('bin', '&', D(V('vp')), N(1)), ('bin', '&&', D(V('vp')), N(1))]))])
    add([('var', 'va', ('dict', [('ka', N(3))])), ('var', 'vb', ('dict', [('vp', R(('dot', V('va'), 'ka')))])), ('expr', ('arr', [D(('dot', V('vb'), 'vp')), ('dot', D(R(V('va'))), 'ka')]))])
    kinds = {'num': lambda: N(rnd.choice([0, 1, 5])), 'arr': lambda: A(1, 2), 'dict': lambda: ('dict', [('ka', N(1))]), 'str': lambda: S('s')}
    for _ in range(n):
        stmts = []
        names = rnd.sample(['va', 'vb', 'vc'], rnd.randint(1, 3))
        kd = {}
        for nm in names:
            kd[nm] = rnd.choice(list(kinds))
            stmts.append(('var', nm, kinds[kd[nm]]()))
        refs = []
        for i in range(rnd.randint(1, 3)):
            nm = rnd.choice(names)
            tgt = V(nm)
            if kd[nm] == 'arr' and rnd.random() < 0.6: tgt = ('idx', V(nm), N(rnd.choice([0, 1, 3])))
            elif kd[nm] == 'dict' and rnd.random() < 0.6: tgt = ('dot', V(nm), rnd.choice(['ka', 'kb']))
            if refs and rnd.random() < 0.2: tgt = D(V(rnd.choice(refs)))
            pn = 'vp%d' % i
            stmts.append(('var', pn, R(tgt)))
            refs.append(pn)
        for _k in range(rnd.randint(1, 4)):
            pn = rnd.choice(refs)
            x = rnd.random()
            if x < 0.4: stmts.append(('try', [('set', rnd.choice(['=', '+=', '-=', '*=']), D(V(pn)), rnd.choice([N(2), S('t'), A(9)]))], [('set', '=', ('dot', ('this',), 'ke'), S('caught'))]))
            elif x < 0.6:
                nm = rnd.choice(names)
                stmts.append(('set', '=', V(nm), kinds[rnd.choice(list(kinds))]()))
            elif x < 0.8: stmts.append(('expr', ('call', ('dot', V(pn), 'set'), [N(rnd.choice([7, 8]))])))
            else: stmts.append(('try', [('var', 'vr', D(V(pn)))], [('var', 'vr', S('caught'))]))
        stmts.append(('try', [('var', 'vs', ('arr', [D(V(pn)) for pn in refs]))], [('var', 'vs', S('caught'))]))
        stmts.append(('expr', ('arr', [V(nm) for nm in names] + [V('vs')])))
        add(stmts)
    return cs


def fam_namespaces(rnd, n):
    """const, namespace blocks and `using` imports: constness rules (a constant cannot be redefined or assigned, every member of
    a namespace block is a constant, Namespace#remove refuses constants), scoping inside the block (fresh locals, this = the
    namespace), lookup order local > this > using imports (textual order) > System > Types > globals, imports that are dictionaries,
    namespaces, arrays, scalars (script error) - and null (the recorded crash, reproduced in the finding family)"""
    cs = []
    add = lambda stmts: cs.append(mk_case(stmts, 'namespaces'))
    T = lambda body, name='vr': ('try', body, [('var', name, S('caught'))])
    add([('const', 'Ca', N(5)), ('expr', ('arr', [V('Ca'), ('dot', ('globals',), 'Ca'), ('bin', '+', V('Ca'), N(1))]))])
    add([('const', 'Ca', N(5)), T([('const', 'Ca', N(6))]), ('expr', ('arr', [V('Ca'), V('vr')]))])
    add([('const', 'Ca', N(5)), T([('set', '=', V('Ca'), N(6))]), T([('set', '+=', ('dot', ('globals',), 'Ca'), N(1))], 'vs'), T([('expr', ('call', ('dot', ('globals',), 'remove'), [S('Ca')]))], 'vt'),
         ('expr', ('arr', [V('Ca'), V('vr'), V('vs'), V('vt')]))])
    add([('set', '=', ('dot', ('globals',), 'ga'), N(1)), ('const', 'ga', N(2)), ('set', '=', ('dot', ('globals',), 'ga'), N(3)), ('expr', V('ga'))])      # redefining a plain global as const only overwrites the value
    add([('var', 'Ca', N(1)), ('const', 'Ca', N(2)), ('expr', ('arr', [V('Ca'), ('dot', ('globals',), 'Ca')]))])
    add([('const', 'Ca', ('arr', [N(1)])), ('expr', ('call', ('dot', V('Ca'), 'add'), [N(2)])), ('expr', V('Ca'))])
    add([('const', 'Ca', ('bin', '/', N(1), N(0))), ('expr', N(1))])
    add([('func', 'fa', [], [], [('const', 'Cb', N(7)), ('ret', V('Cb'))]), ('var', 'va', C('fa')), T([('var', 'vr', C('fa'))]), ('expr', ('arr', [V('va'), V('vr')]))])
    add([('expr', ('call', ('dot', ('globals',), 'set'), [S('ga'), N(4)])), ('var', 'va', ('arr', [V('ga'), ('call', ('dot', ('globals',), 'get'), [S('ga')]), ('call', ('dot', ('globals',), 'contains'), [S('ga')]), ('call', ('dot', ('globals',), 'contains'), [S('gz')])])),
         ('expr', ('call', ('dot', ('globals',), 'remove'), [S('ga')])), T([('var', 'vr', ('call', ('dot', ('globals',), 'get'), [S('ga')]))]), ('expr', V('vr'))])
    ns1 = ('namespace', 'Nx', [('set', '=', V('ka'), N(1)), ('set', '=', V('kb'), ('bin', '+', V('ka'), N(1))), ('var', 'vz', N(10)), ('set', '=', V('kc'), ('bin', '+', V('vz'), V('kb'))),
                               ('func', 'fn', ['pa'], [], [('ret', ('bin', '+', V('pa'), ('dot', ('this',), 'ka')))])])
    add([ns1, ('expr', ('arr', [('dot', V('Nx'), 'ka'), ('dot', V('Nx'), 'kb'), ('dot', V('Nx'), 'kc'), ('dot', V('Nx'), 'vz'), C('keys', V('Nx')), ('call', ('dot', V('Nx'), 'fn'), [N(5)]), ('dot', C('typeof', V('Nx')), 'name'),
                                ('call', ('dot', V('Nx'), 'keys'), []), ('call', ('dot', V('Nx'), 'contains'), [S('ka')]), ('call', ('dot', V('Nx'), 'get'), [S('kb')]), ('dot', ('locals',), 'vz'), ('dot', V('Nx'), 'nosuch')]))])
    add([ns1, T([('set', '=', ('dot', V('Nx'), 'ka'), N(9))]), T([('set', '=', ('dot', V('Nx'), 'kd'), N(9))], 'vs'), T([('set', '=', ('dot', V('Nx'), 'kd'), N(10))], 'vt'), T([('expr', ('call', ('dot', V('Nx'), 'remove'), [S('kd')]))], 'vu'),
         T([('expr', ('call', ('dot', V('Nx'), 'remove'), [S('nosuch')]))], 'vw'), T([('var', 'vx', ('call', ('dot', V('Nx'), 'get'), [S('nosuch')]))], 'vx'),
         ('expr', ('arr', [V('vr'), V('vs'), V('vt'), V('vu'), V('vw'), V('vx'), ('call', ('dot', V('Nx'), 'values'), [])]))])
    add([ns1, ('namespace', 'Nx', [('set', '=', V('kq'), N(5))]), ('expr', C('keys', V('Nx')))])       # a second block replaces the global
    add([('namespace', 'Nx', [('set', '=', V('ka'), N(1)), ('set', '=', V('ka'), N(2))]), ('expr', N(1))])    # ... but inside one block every member is a constant at once
    add([('var', 'va', N(3)), ('namespace', 'Nx', [('set', '=', V('ka'), ('bin', '+', ('dot', ('locals',), 'va'), N(1)))]), ('expr', ('dot', V('Nx'), 'ka'))])     # the block does not see the outer locals
    add([('var', 'va', N(3)), ('namespace', 'Nx', [('set', '=', V('ka'), V('va'))]), ('expr', N(1))])
    add([('namespace', 'Nx', [('namespace', 'Ny', [('set', '=', V('ka'), N(1))]), ('set', '=', V('kb'), ('dot', V('Ny'), 'ka'))]), ('expr', ('arr', [('dot', V('Nx'), 'kb'), ('dot', V('Ny'), 'ka'), C('keys', V('Nx'))]))])
    add([('func', 'fa', [], [], [('namespace', 'Nx', [('set', '=', V('ka'), N(1)), ('ret', N(5)), ('set', '=', V('kb'), N(2))]), ('ret', N(6))]), ('var', 'va', C('fa')), T([('var', 'vr', C('keys', V('Nx')))]), ('expr', ('arr', [V('va'), V('vr')]))])
    add([('namespace', 'Nx', [('set', '=', V('ka'), N(1))]), ('for', 'vk', 'vv', V('Nx'), [('set', '=', ('idx', ('this',), V('vk')), V('vv'))]), ('expr', ('this',))])
    # using
    dn = ('var', 'vd', ('dict', [('ka', N(1)), ('len', S('shadow?')), ('vl', S('import'))]))
    add([dn, ('using', V('vd')), ('var', 'vl', S('local')), ('set', '=', ('dot', ('this',), 'kt'), S('this')), ('set', '=', ('dot', V('vd'), 'kt'), S('import')),
         T([('var', 'vr', V('len'))]), ('expr', ('arr', [V('ka'), V('vl'), V('kt'), V('vr')]))])
    add([dn, ('using', V('vd')), ('set', '=', V('ka'), N(5)), ('set', '+=', V('ka'), N(1)), ('set', '=', V('kz'), N(7)), ('expr', ('arr', [V('vd'), ('this',)]))])      # assignment through an imported name lands in the import
    add([dn, ('var', 've', ('dict', [('ka', N(2)), ('kb', N(3))])), ('using', V('vd')), ('using', V('ve')), ('expr', ('arr', [V('ka'), V('kb')]))])            # textual order: first import wins
    add([dn, ('var', 've', ('dict', [('ka', N(2)), ('kb', N(3))])), ('using', V('ve')), ('using', V('vd')), ('expr', ('arr', [V('ka'), V('kb')]))])
    add([T([('var', 'vr', V('ka'))]), dn, ('using', V('vd')), ('expr', ('arr', [V('vr'), V('ka')]))])                                           # an import only affects names compiled after it
    add([dn, ('func', 'fa', [], [('vd', None)], [T([('var', 'vr', V('ka'))]), ('ret', V('vr'))]), ('using', V('vd')), ('func', 'fb', [], [('vd', None)], [('ret', V('ka'))]), T([('var', 'vr', C('fb'))]), ('expr', ('arr', [C('fa'), V('vr')]))])
    add([dn, ('using', V('vd')), ('var', 'fa', ('fn', [], [], [T([('var', 'vr', V('ka'))]), ('ret', V('vr'))])), ('expr', ('arr', [C('fa')]))])   # inside a call `vd` is not a local: the import expression itself fails
    add([dn, ('using', V('vd')), ('set', '=', V('vd'), ('dict', [('ka', S('second'))])), ('expr', V('ka'))])                                               # the import expression is evaluated at every lookup
    add([dn, ('using', V('vd')), ('expr', ('call', ('dot', V('vd'), 'remove'), [S('ka')])), T([('var', 'vr', V('ka'))]), ('expr', V('vr'))])
    add([('namespace', 'Nx', [('set', '=', V('ka'), N(1)), ('set', '=', V('kb'), N(2))]), ('using', V('Nx')), T([('set', '=', V('ka'), N(3))]), T([('var', 'vs', V('kc'))], 'vs'), ('expr', ('arr', [V('ka'), V('kb'), ('dot', ('locals',), 'vr'), V('vs')]))])
    add([('using', ('dict', [('ka', N(4))])), ('expr', ('arr', [V('ka'), V('ka')]))])
    add([('var', 'va', ('arr', [])), ('using', ('bin', '||', ('call', ('dot', V('va'), 'add'), [N(1)]), ('dict', [('ka', N(4))]))), ('expr', ('arr', [V('ka'), V('va')]))])    # ... with its side effects (also for `va` itself)
    for bad in (N(5), S('x'), S(''), ('bool', True), ('arr', [N(1)]), V('nosuchname'), ('bin', '/', N(1), N(0))):
        add([('using', bad), T([('var', 'vr', V('ka'))]), T([('var', 'vs', C('len', S('ab')))], 'vs'), T([('set', '=', V('kz'), N(1))], 'vt'), ('var', 'vu', N(1)), ('expr', ('arr', [V('vr'), V('vs'), V('vt'), V('vu')]))])
    add([('using', V('Json')), ('expr', ('arr', [C('typeof', V('encode')), C('keys', V('Json'))]))])
    add([('using', V('Number')), ('expr', ('arr', [V('name'), V('base')]))])
    for _ in range(n):
        stmts = []
        members = rnd.sample(KEYS, rnd.randint(1, 3))
        stmts.append(('namespace', 'Nx', [('set', '=', V(k), N(rnd.randint(1, 9))) for k in members]))
        stmts.append(('var', 'vd', ('dict', [(k, S('d' + k)) for k in rnd.sample(KEYS + ['kd'], rnd.randint(0, 3))])))
        for k in rnd.sample(KEYS, rnd.randint(0, 2)):
            stmts.append(rnd.choice([('var', k, S('l' + k)), ('set', '=', ('dot', ('this',), k), S('t' + k)), ('set', '=', ('dot', ('globals',), k), S('g' + k)), ('const', k, S('c' + k))]))
        order = [V('Nx'), V('vd')]
        rnd.shuffle(order)
        for u in order[:rnd.randint(1, 2)]:
            stmts.append(('using', u))
        for k in rnd.sample(KEYS + ['kd'], 2):
            stmts.append(T([('set', rnd.choice(['=', '+=']), V(k), S('!'))], 'vw'))
        stmts.append(('expr', N(0)))
        res = []
        for i, k in enumerate(KEYS + ['kd']):
            stmts.insert(-1, T([('var', 'vr%d' % i, V(k))], 'vr%d' % i))
            res.append(V('vr%d' % i))
        stmts[-1] = ('expr', ('arr', res + [V('vd'), ('call', ('dot', V('Nx'), 'values'), [])]))
        add(stmts)
    return cs


def fam_json(rnd, n):
    """Json.encode / Json.decode: every operand kind, nested acyclic containers, strings with escapes / control / non-ASCII bytes,
    exactly printable fractions, decode of valid and malformed texts, the nesting limit, value-level round trip"""
    cs = []
    add = lambda stmts: cs.append(mk_case(stmts, 'json'))
    JE = lambda e: ('call', ('dot', V('Json'), 'encode'), [e])
    JD = lambda e: ('call', ('dot', V('Json'), 'decode'), [e])
    for a in OPERANDS + [V('Number'), ('num', '0.5', 1, 1), ('neg', ('num', '2.25', 9, 2)), ('num', '0.015625', 1, 6), N(123456789012), S('q"q\\'), S('t\tt\nn'), S('\x01\x7f'), S('\xe4\xc3\xa4'),
                         ('arr', [('arr', [('arr', [])]), ('dict', [('kb', ('null',)), ('ka', ('arr', [N(1), S('x')]))])]), ('dict', [('k"q', N(1)), ('', N(2))])]:
        add([('var', 'va', a), ('var', 'vb', JE(V('va'))), ('expr', ('arr', [V('vb'), C('len', V('vb'))]))])
        add([('var', 'va', a), ('try', [('var', 'vb', JD(JE(V('va'))))], [('var', 'vb', S('caught'))]), ('expr', ('arr', [V('vb'), ('bin', '==', V('vb'), V('va'))]))])
    texts = ['null', 'true', 'false', '0', '-0', '12', '-7', '007', '1.5', '1e2', '"a"', '"a\\u0041\\n"', '"\\ud83d\\ude00"', '"\\ud800"', '[]', '[1,2]', '[1,]', '[1 2]', '{}', '{"a":1}', '{"a":1,"a":2}', '{"b":1,"a":[true,null]}',
             '{a:1}', "{'a':1}", '', ' ', ' [ 1 , 2 ] ', '[1]x', '[[[[[[[[]]]]]]]]', 'nul', 'NaN', '1 2', '"unterminated', '\xef\xbb\xbf[1]', '[1]\n', '9007199254740993', '12345678901234567890123', '-', '.5', '5.', '"\\x"', '[null,[null,{"k":null}]]',
             '"tab\there"', '{"":{"":[]}}']
    for t in texts:
        add([('try', [('var', 'va', JD(S(t)))], [('var', 'va', S('caught'))]), ('expr', ('arr', [V('va'), C('len', V('va')), ('dot', C('typeof', V('va')), 'name')]))])
    for depth in (5, 127, 128, 129, 200):
        add([('try', [('var', 'va', JD(S('[' * depth + ']' * depth)))], [('var', 'va', S('caught'))]), ('expr', ('bin', '==', V('va'), S('caught')))])
        add([('try', [('var', 'va', JD(S('{"a":' * depth + '1' + '}' * depth)))], [('var', 'va', S('caught'))]), ('expr', ('bin', '==', V('va'), S('caught')))])
    add([('expr', ('arr', [JD(N(5)), JD(('bool', True)), JD(('null',)) if False else JD(S('null'))]))])
    add([('try', [('var', 'va', JD(('null',)))], [('var', 'va', S('caught'))]), ('expr', V('va'))])
    add([('try', [('var', 'va', JE(N(1)) if False else ('call', ('dot', V('Json'), 'encode'), []))], [('var', 'va', S('caught'))]), ('expr', V('va'))])
    add([('try', [('var', 'va', ('call', ('dot', V('Json'), 'encode'), [N(1), N(2)]))], [('var', 'va', S('caught'))]), ('expr', V('va'))])
    # decoded containers are fresh and mutable; decode of an encoded alias structure duplicates the shared part
    add([('var', 'va', A(1)), ('var', 'vb', ('arr', [V('va'), V('va')])), ('var', 'vc', JD(JE(V('vb')))), ('expr', ('call', ('dot', ('idx', V('vc'), N(0)), 'add'), [N(2)])), ('expr', ('arr', [V('va'), V('vb'), V('vc')]))])
    # the Json namespace is frozen
    add([('try', [('set', '=', ('dot', V('Json'), 'encode'), N(1))], [('var', 'va', S('caught'))]), ('expr', ('arr', [V('va'), ('dot', C('typeof', ('dot', V('Json'), 'encode')), 'name'), ('dot', V('Json'), 'nosuch')]))])
    def val(d):
        x = rnd.random()
        if d <= 0 or x < 0.45:
            return rnd.choice([N(rnd.randint(-50, 50)), S(rnd.choice(STRS)), ('bool', rnd.random() < 0.5), ('null',), ('num', '0.5', 1, 1), ('num', '2.25', 9, 2)])
        if x < 0.75: return ('arr', [val(d - 1) for _ in range(rnd.randint(0, 3))])
        return ('dict', [(k, val(d - 1)) for k in rnd.sample(KEYS + ['k d', 'Ka'], rnd.randint(0, 3))])
    for _ in range(n):
        v = val(3)
        add([('var', 'va', v), ('var', 'vb', JE(V('va'))), ('try', [('var', 'vc', JD(V('vb')))], [('var', 'vc', S('caught'))]), ('expr', ('arr', [V('vb'), V('vc')]))])
    return cs


def fam_order(rnd, n):
    """every n-ary / left-recursive grammar rule whose fold direction or evaluation order is observable, each with >= 3 elements
    and probes that record the order: else-if chains (0-4 branches, with/without else, overlapping conditions, conditions and
    bodies with side effects, nested, as expression values), argument lists, array and dictionary literal items, `||` / `&&`
    chains, statement lists, use() lists, parameter lists, indexer/call chains, right-nested ternaries, same-operator chains"""
    cs = []
    add = lambda stmts: cs.append(mk_case(stmts, 'order'))
    # fp(i, v): records i in the log array vl and returns v
    PRE = [('var', 'vl', ('arr', [])), ('func', 'fp', ['pi', 'pv'], [('vl', None)], [('expr', ('call', ('dot', V('vl'), 'add'), [V('pi')])), ('ret', V('pv'))])]
    P = lambda i, v: C('fp', N(i) if isinstance(i, int) else S(i), v)
    LOG = lambda tag: ('expr', ('call', ('dot', V('vl'), 'add'), [S(tag)]))
    B = lambda b: ('bool', b)
    # ---- else-if chains: threshold ladders over several inputs (several conditions hold at once)
    for k in range(0, 5):
        for with_else in (True, False):
            branches = [(('bin', '<', V('vx'), N(10 * (i + 1))), [('set', '=', V('vr'), S('b%d' % i))]) for i in range(k + 1)]
            chain = ('ifchain', branches, [('set', '=', V('vr'), S('else'))] if with_else else None)
            body = [('var', 'vr', S('none')), ('expr', chain), ('expr', ('call', ('dot', V('va'), 'add'), [V('vr')]))]
            add([('var', 'va', ('arr', [])), ('for', 'vx', None, A(5, 15, 25, 35, 45, 55), body), ('expr', V('va'))])
            # the same ladder written from the widest to the narrowest condition (the first one that holds wins)
            branches2 = [(('bin', '<', V('vx'), N(10 * (k + 1 - i))), [('set', '=', V('vr'), S('b%d' % i))]) for i in range(k + 1)]
            add([('var', 'va', ('arr', [])), ('for', 'vx', None, A(5, 15, 25, 35, 45, 55),
                 [('var', 'vr', S('none')), ('expr', ('ifchain', branches2, [('set', '=', V('vr'), S('else'))] if with_else else None)), ('expr', ('call', ('dot', V('va'), 'add'), [V('vr')]))]), ('expr', V('va'))])
    # ---- else-if chains: every truth assignment of up to 4 probed conditions; conditions and bodies log their evaluation
    import itertools
    for k in range(1, 5):
        combos = list(itertools.product([False, True], repeat=k))
        if len(combos) > 8: combos = rnd.sample(combos, 8) + [tuple([False] + [True] * (k - 1)), tuple([False] * k)]
        for tv in combos:
            for with_else in (True, False):
                branches = [(P(i + 1, B(tv[i])), [LOG('B%d' % (i + 1))]) for i in range(k)]
                add(PRE + [('expr', ('ifchain', branches, [LOG('E')] if with_else else None)), ('expr', V('vl'))])
    # chain as an expression value; nested chains (in a body, in the final else, in a condition)
    for tv in itertools.product([False, True], repeat=3):
        chain = ('ifchain', [(P(1, B(tv[0])), [('expr', S('A'))]), (P(2, B(tv[1])), [('expr', S('B'))]), (P(3, B(tv[2])), [('expr', S('C'))])], [('expr', S('D'))])
        add(PRE + [('var', 'vr', chain), ('expr', ('arr', [V('vr'), V('vl')]))])
        chain2 = ('ifchain', [(P(1, B(tv[0])), [('expr', S('A'))]), (P(2, B(tv[1])), [('expr', S('B'))]), (P(3, B(tv[2])), [('expr', S('C'))])], None)
        add(PRE + [('var', 'vr', chain2), ('expr', ('arr', [V('vr'), V('vl')]))])
        inner = ('ifchain', [(P('i1', B(tv[1])), [LOG('IB1')]), (P('i2', B(tv[2])), [LOG('IB2')]), (P('i3', B(True)), [LOG('IB3')])], [LOG('IE')])
        add(PRE + [('expr', ('ifchain', [(P(1, B(tv[0])), [('expr', inner)]), (P(2, B(tv[1])), [LOG('B2')]), (P(3, B(tv[2])), [('expr', inner)])], [('expr', inner)])), ('expr', V('vl'))])
        add(PRE + [('expr', ('ifchain', [(('ifchain', [(P(1, B(tv[0])), [('expr', B(False))]), (P(2, B(tv[1])), [('expr', B(True))]), (P(3, B(tv[2])), [('expr', B(False))])], [('expr', B(True))]), [LOG('T')]),
                                         (P(4, B(tv[2])), [LOG('B4')]), (P(5, B(tv[1])), [LOG('B5')])], [LOG('E')])), ('expr', V('vl'))])
    # chains inside a function with return in the branches
    for x in (5, 15, 25, 35):
        add([('func', 'fa', ['px'], [], [('expr', ('ifchain', [(('bin', '<', V('px'), N(10)), [('ret', S('a'))]), (('bin', '<', V('px'), N(20)), [('ret', S('b'))]), (('bin', '<', V('px'), N(30)), [('ret', S('c'))])], None)), ('ret', S('z'))]),
             ('expr', C('fa', N(x)))])
    # ---- argument lists, array items, dictionary items, parameter lists (positions and evaluation order)
    vals = [S('a'), S('b'), S('c'), S('d'), S('e')]
    for k in (3, 4, 5):
        params = ['p%d' % i for i in range(k)]
        add(PRE + [('func', 'fa', params, [], [('ret', ('arr', [V(p_) for p_ in params]))]), ('var', 'vr', C('fa', *[P(i + 1, vals[i]) for i in range(k)])), ('expr', ('arr', [V('vr'), V('vl')]))])
        add(PRE + [('var', 'vr', ('arr', [P(i + 1, vals[i]) for i in range(k)])), ('expr', ('arr', [V('vr'), V('vl')]))])
        keys = ['kc', 'ka', 'ke', 'kb', 'kd'][:k]
        add(PRE + [('var', 'vr', ('dict', [(keys[i], P(i + 1, vals[i])) for i in range(k)])), ('expr', ('arr', [V('vr'), V('vl')]))])
        add(PRE + [('var', 'vr', ('lam', params, [], ('arr', [V(p_) for p_ in reversed(params)]))), ('expr', ('arr', [('call', V('vr'), [P(i + 1, vals[i]) for i in range(k)]), V('vl')]))])
        add(PRE + [('var', 'vr', C('union', *[('arr', [P(i + 1, N(k - i))]) for i in range(k)])), ('expr', ('arr', [V('vr'), V('vl')]))])
    add([('var', 'vr', ('dict', [('ka', N(1)), ('kb', ('bin', '+', ('dot', ('this',), 'ka'), N(1))), ('ka', ('bin', '+', ('dot', ('this',), 'kb'), N(10))), ('kc', ('dot', ('this',), 'ka'))])), ('expr', V('vr'))])
    # ---- || and && chains (left associative, short circuit), mixed
    for k in (3, 4):
        for tv in itertools.product([False, True], repeat=k):
            falsy = [N(0), S(''), ('null',), B(False)]
            truthy = [N(7), S('t'), ('arr', [N(1)]), B(True)]
            ops = [P(i + 1, truthy[i] if tv[i] else falsy[i]) for i in range(k)]
            for op in ('||', '&&'):
                e = ops[0]
                for o in ops[1:]:
                    e = ('bin', op, e, o)
                add(PRE + [('var', 'vr', e), ('expr', ('arr', [V('vr'), V('vl')]))])
            e = ('bin', '||', ('bin', '&&', ops[0], ops[1]), ops[2]) if k == 3 else ('bin', '||', ('bin', '&&', ops[0], ops[1]), ('bin', '&&', ops[2], ops[3]))
            add(PRE + [('var', 'vr', e), ('expr', ('arr', [V('vr'), V('vl')]))])
            e = ('bin', '&&', ops[0], ('bin', '||', ops[1], ops[2]))
            add(PRE + [('var', 'vr', e), ('expr', ('arr', [V('vr'), V('vl')]))])
    # ---- statement lists (top level, block, function body, lambda body, namespace body): order and last value
    sl = [LOG('s1'), LOG('s2'), LOG('s3'), LOG('s4')]
    add(PRE + sl + [('expr', V('vl'))])
    add(PRE + [('if', B(True), sl, None), ('while', ('bin', '<', C('len', V('vl')), N(8)), sl), ('expr', V('vl'))])
    add(PRE + [('func', 'fa', [], [('vl', None)], sl + [('expr', S('last'))]), ('expr', ('arr', [C('fa'), V('vl')]))])
    add(PRE + [('var', 'fa', ('lam0', sl + [('expr', S('last'))])), ('try', [('var', 'vr', C('fa'))], [('var', 'vr', S('caught'))]), ('expr', ('arr', [V('vr'), V('vl')]))])
    add(PRE + [('set', '=', ('dot', ('globals',), 'gl'), V('vl')), ('namespace', 'Nx', [('expr', ('call', ('dot', V('gl'), 'add'), [S('n%d' % i)])) for i in range(1, 4)] + [('set', '=', V('ka'), C('len', V('gl')))]), ('expr', ('arr', [V('vl'), ('dot', V('Nx'), 'ka')]))])
    # ---- use() lists: evaluated in key order whatever the textual order; the first occurrence of a name wins
    for names in (['vc', 'va', 'vb'], ['vb', 'vc', 'va', 'vd'], ['va', 'vb', 'va'], ['vd', 'vd', 'va', 'vc', 'vb']):
        uses = [(nm, P(i + 1, vals[i])) for i, nm in enumerate(names)]
        add(PRE + [('var', 'fa', ('fn', [], uses, [('ret', ('arr', [('dot', ('locals',), nm) for nm in sorted(set(names))]))])), ('expr', ('arr', [C('fa'), V('vl')]))])
    # ---- indexer, call and method chains
    add([('var', 'va', ('dict', [('ka', ('dict', [('kb', ('dict', [('kc', ('arr', [N(1), ('arr', [N(2), ('arr', [N(3), N(4)])])]))]))]))])),
         ('expr', ('arr', [('idx', ('idx', ('idx', ('dot', ('dot', ('dot', V('va'), 'ka'), 'kb'), 'kc'), N(1)), N(1)), N(0)), ('dot', ('idx', ('dot', V('va'), 'ka'), S('kb')), 'kc')]))])
    add([('var', 'fa', ('fn', ['pa'], [], [('ret', ('fn', ['pb'], [('pa', None)], [('ret', ('fn', ['pc'], [('pa', None), ('pb', None)], [('ret', ('arr', [V('pa'), V('pb'), V('pc')]))]))]))])),
         ('expr', ('call', ('call', ('call', V('fa'), [N(1)]), [N(2)]), [N(3)]))])
    add([('expr', ('call', ('dot', ('call', ('dot', ('call', ('dot', A(3, 1, 2), 'sort'), []), 'reverse'), []), 'join'), [S('-')]))])
    # ---- right-nested ternaries, same-operator chains of non-commutative operators
    for tv in itertools.product([False, True], repeat=3):
        add(PRE + [('var', 'vr', ('tern', P(1, B(tv[0])), P('a', S('A')), ('tern', P(2, B(tv[1])), P('b', S('B')), ('tern', P(3, B(tv[2])), P('c', S('C')), P('d', S('D')))))), ('expr', ('arr', [V('vr'), V('vl')]))])
    for op in ('-', '/', '%', '<<', '>>', '+'):
        xs = {'-': (100, 30, 20, 5), '/': (256, 8, 4, 2), '%': (1000, 300, 70, 9), '<<': (1, 2, 3, 1), '>>': (4096, 2, 3, 1), '+': (1, 2, 3, 4)}[op]
        e = N(xs[0])
        for x in xs[1:]:
            e = ('bin', op, e, N(x))
        add([('expr', e)])
        add(PRE + [('var', 'vr', ('bin', op, ('bin', op, P(1, N(xs[0])), P(2, N(xs[1]))), P(3, N(xs[2])))), ('expr', ('arr', [V('vr'), V('vl')]))])
    add([('expr', ('bin', '+', ('bin', '+', ('bin', '+', S('a'), N(1)), N(2)), S('b')))])
    add([('expr', ('bin', '+', ('bin', '+', N(1), N(2)), ('bin', '+', S('a'), ('bin', '+', N(1), N(2)))))])
    # ---- random chains
    for _ in range(n):
        k = rnd.randint(2, 4)
        tv = [rnd.random() < 0.5 for _i in range(k + 1)]
        def body(tag, d):
            if d > 0 and rnd.random() < 0.3:
                return [('expr', ('ifchain', [(P(tag + 'c%d' % j, B(rnd.random() < 0.5)), body(tag + str(j), d - 1)) for j in range(rnd.randint(2, 3))], body(tag + 'e', 0) if rnd.random() < 0.6 else None))]
            return [LOG(tag)] + ([('set', '=', ('dot', ('this',), 'kt'), S(tag))] if rnd.random() < 0.3 else [])
        chain = ('ifchain', [(P(i, B(tv[i])), body('B%d' % i, 1)) for i in range(k + 1)], body('E', 1) if rnd.random() < 0.6 else None)
        add(PRE + [('expr', chain), ('expr', V('vl'))])
    return cs


# ----------------------------------------------------------------------------- loops whose body changes what is being iterated
M = lambda obj, meth, *args: ('call', ('dot', obj, meth), list(args))
ST = lambda e: ('expr', e)
IF = lambda c, body: ('if', c, body, None)
LEN = lambda t: M(t, 'len')

ARR_MUTS = ['add', 'rm-cur', 'rm-first', 'rm-last', 'replace', 'replace-next', 'clear', 'clear-refill', 'rebind-empty', 'rebind-other', 'rebind-null']
DICT_MUTS = ['add-after', 'add-before', 'add-fixed', 'rm-cur', 'rm-later', 'rm-earlier', 'replace-cur', 'replace-later', 'clear', 'clear-refill',
             'rebind-empty', 'rebind-other', 'rebind-null']
ARR_LOOPS = ['for-arr', 'for-range-index', 'while-len', 'while-nonempty', 'map', 'filter', 'any', 'all', 'reduce']
DICT_LOOPS = ['for-kv', 'for-keys', 'for-keys-fn', 'while-dict', 'keys-map']
SPECIAL_LOOPS = ['for-locals', 'for-this', 'for-globals', 'for-ns']
VIAS = ['direct', 'alias', 'func', 'global']
WHENS = ['always', 'first', 'second', 'on-key']


def lm_arr_mut(mut, T, n, rebind):
    """statements mutating the ARRAY denoted by T (n = expression for the iteration counter, 1-based inside the body)"""
    if mut == 'add': return [IF(('bin', '<', LEN(T), N(8)), [ST(M(T, 'add', ('bin', '+', n, N(10))))])]
    if mut == 'rm-cur': return [IF(('bin', '<', ('bin', '-', n, N(1)), LEN(T)), [ST(M(T, 'remove', ('bin', '-', n, N(1))))])]
    if mut == 'rm-first': return [IF(('bin', '>', LEN(T), N(0)), [ST(M(T, 'remove', N(0)))])]
    if mut == 'rm-last': return [IF(('bin', '>', LEN(T), N(0)), [ST(M(T, 'remove', ('bin', '-', LEN(T), N(1))))])]
    if mut == 'replace': return [IF(('bin', '>', LEN(T), N(2)), [('set', '=', ('idx', T, N(2)), ('bin', '+', S('r'), n))])]
    if mut == 'replace-next': return [IF(('bin', '<', n, LEN(T)), [ST(M(T, 'set', n, ('bin', '+', S('nx'), n)))])]
    if mut == 'clear': return [ST(M(T, 'clear'))]
    if mut == 'clear-refill': return [ST(M(T, 'clear')), ('for', 'vi', None, C('range', N(12)), [ST(M(T, 'add', ('bin', '+', V('vi'), N(100))))])]
    if mut == 'rebind-empty': return [('set', '=', rebind, ('arr', []))]
    if mut == 'rebind-other': return [('set', '=', rebind, A(7, 8, 9, 10, 11, 12))]
    if mut == 'rebind-null': return [('set', '=', rebind, ('null',))]
    raise ValueError(mut)


def lm_dict_mut(mut, T, n, key, rebind, keys=('ka', 'kb', 'kc'), has_clear=True):
    """statements mutating the DICTIONARY / namespace denoted by T (key = expression for the current key)"""
    ka, kb, kc = keys
    small = ('bin', '<', LEN(T), N(8)) if has_clear else ('bin', '<', n, N(6))      # Namespace has len()? keep it independent of it
    if mut == 'add-after': return [IF(small, [('set', '=', ('idx', T, ('bin', '+', key, S('z'))), n)])]          # sorts after the current key
    if mut == 'add-before': return [IF(small, [('set', '=', ('idx', T, ('bin', '+', S('0'), key)), n)])]         # sorts before every key
    if mut == 'add-fixed': return [('set', '=', ('idx', T, S(kc + 'q')), n), ('set', '=', ('idx', T, S('a0')), n)]
    if mut == 'rm-cur': return [ST(M(T, 'remove', key))]
    if mut == 'rm-later': return [ST(M(T, 'remove', S(kc)))]
    if mut == 'rm-earlier': return [ST(M(T, 'remove', S(ka)))]
    if mut == 'replace-cur': return [('set', '=', ('idx', T, key), ('bin', '+', S('rc'), n))]
    if mut == 'replace-later': return [('set', '=', ('idx', T, S(kc)), ('bin', '+', S('rl'), n))]
    if mut == 'clear': return [ST(M(T, 'clear'))]
    if mut == 'clear-refill': return [ST(M(T, 'clear')), ('set', '=', ('idx', T, S(kb)), S('nb')), ('set', '=', ('idx', T, S(kc + 'r')), S('nr'))]
    if mut == 'rebind-empty': return [('set', '=', rebind, ('dict', []))]
    if mut == 'rebind-other': return [('set', '=', rebind, ('dict', [('kb', S('ob')), ('kz', S('oz'))]))]
    if mut == 'rebind-null': return [('set', '=', rebind, ('null',))]
    raise ValueError(mut)


def lm_when(when, n, key, stmts):
    if when == 'always': return stmts
    if when == 'first': return [IF(('bin', '==', n, N(1)), stmts)]
    if when == 'second': return [IF(('bin', '==', n, N(2)), stmts)]
    return [IF(('bin', '==', key, S('kb')) if key is not None else ('bin', '==', n, N(3)), stmts)]


def lm_program(loop, mut, via, when, pos, mut2=None):
    """one program: <loop construct> over a container x <mutation of that container> applied <via> x <when> x before/after the
    order-observable log entry.  Every body counts its iterations (`n` / `cn[0]`) and leaves the loop after 30 of them, so that
    an implementation that keeps visiting what the body adds still terminates - with a different count."""
    isarr = loop in ARR_LOOPS
    callback = loop in ('map', 'filter', 'any', 'all', 'reduce', 'keys-map')
    pre = [('var', 'va', A(1, 2, 3, 4) if isarr else ('dict', [('ka', N(1)), ('kb', N(2)), ('kc', N(3))])), ('var', 'log', ('arr', []))]
    # the iteration counter: a plain local, or (for callbacks, whose closure copies captured scalars) a one-element array
    if callback:
        pre.append(('var', 'cn', ('arr', [N(0)])))
        n = ('idx', V('cn'), N(0))
        bump = ('set', '+=', ('idx', V('cn'), N(0)), N(1))
    else:
        pre.append(('var', 'n', N(0)))
        n = V('n')
        bump = ('set', '+=', V('n'), N(1))
    # how the body reaches the container
    uses = [('va', None), ('log', None), ('cn', None)]
    if via == 'direct': T = V('va')
    elif via == 'alias':
        pre.append(('var', 'vb', V('va'))); T = V('vb'); uses.append(('vb', None))
    elif via == 'global':
        pre.append(('set', '=', ('dot', ('globals',), 'gc'), V('va'))); T = ('dot', ('globals',), 'gc')
    else:
        T = V('va')
    item = V('vx') if isarr else None
    key = None if isarr else V('vk')
    def muts(m, tgt, nn, kk, rebind):
        return lm_arr_mut(m, tgt, nn, rebind) if isarr else lm_dict_mut(m, tgt, nn, kk, rebind)
    if via == 'func':
        # the mutation lives in a function that captured the container (a reference: same object) and gets counter / key as arguments;
        # a rebind inside it only changes the callee's own local
        fbody = muts(mut, V('va'), V('pn'), V('pk'), V('va')) + (muts(mut2, V('va'), V('pn'), V('pk'), V('va')) if mut2 else [])
        pre.append(('var', 'fm', ('fn', ['pn', 'pk'], [('va', None)], fbody)))
        uses.append(('fm', None))
        mstmts = [ST(('call', V('fm'), [n, key if key is not None else N(0)]))]
    else:
        mstmts = muts(mut, T, n, key, V('va')) + (muts(mut2, T, n, key, V('va')) if mut2 else [])
    mstmts = lm_when(when, n, key, mstmts)
    guard = IF(('bin', '>', n, N(30)), [('break',)])
    def body(logentry, extra_pre=(), extra_post=()):
        b = [bump] + ([] if callback else [guard]) + list(extra_pre)
        b += (mstmts + [logentry]) if pos == 'before' else ([logentry] + mstmts)
        return b + list(extra_post)
    logx = ST(M(V('log'), 'add', V('vx')))
    logkv = ST(M(V('log'), 'add', ('arr', [V('vk'), V('vv')])))
    post = []
    if loop == 'for-arr':
        main = [('for', 'vx', None, V('va'), body(logx))]
    elif loop == 'for-range-index':
        main = [('for', 'vi', None, C('range', LEN(V('va'))), body(ST(M(V('log'), 'add', ('tern', ('bin', '<', V('vi'), LEN(V('va'))), ('idx', V('va'), V('vi')), S('gone'))))))]
    elif loop == 'while-len':
        main = [('var', 'vj', N(0)), ('while', ('bin', '<', V('vj'), LEN(V('va'))), body(logx, extra_pre=[('var', 'vx', ('idx', V('va'), V('vj'))), ('set', '+=', V('vj'), N(1))]))]
    elif loop == 'while-nonempty':
        main = [('while', ('bin', '>', LEN(V('va')), N(0)), body(logx, extra_pre=[('var', 'vx', ('idx', V('va'), N(0)))],
                                                                  extra_post=[IF(('bin', '>', LEN(V('va')), N(0)), [ST(M(V('va'), 'remove', N(0)))])]))]
    elif loop in ('map', 'filter', 'any', 'all'):
        ret = {'map': ('bin', '+', S('m'), n), 'filter': ('bin', '!=', ('bin', '%', n, N(2)), N(0)), 'any': ('bool', False), 'all': ('bool', True)}[loop]
        fn = ('fn', ['vx'], uses, body(logx) + [('ret', ret)])
        main = [('var', 'vr', M(V('va'), loop, fn))]
        post = [V('vr')]
    elif loop == 'reduce':
        fn = ('fn', ['pacc', 'vx'], uses, body(logx) + [('ret', ('bin', '+', V('pacc'), N(1)))])
        main = [('var', 'vr', M(V('va'), 'reduce', fn))]
        post = [V('vr')]
    elif loop == 'for-kv':
        main = [('for', 'vk', 'vv', V('va'), body(logkv))]
    elif loop in ('for-keys', 'for-keys-fn'):
        coll = M(V('va'), 'keys') if loop == 'for-keys' else C('keys', V('va'))
        main = [('for', 'vk', None, coll, body(ST(M(V('log'), 'add', ('arr', [V('vk'), ('idx', V('va'), V('vk'))])))))]
    elif loop == 'while-dict':
        main = [('while', ('bin', '>', LEN(V('va')), N(0)), body(logkv, extra_pre=[('var', 'vk', ('idx', M(V('va'), 'keys'), N(0))), ('var', 'vv', ('idx', V('va'), V('vk')))],
                                                                extra_post=[ST(M(V('va'), 'remove', V('vk')))]))]
    elif loop == 'keys-map':
        fn = ('fn', ['vk'], uses, body(ST(M(V('log'), 'add', ('arr', [V('vk'), ('idx', V('va'), V('vk'))])))) + [('ret', ('bin', '+', V('vk'), n))])
        main = [('var', 'vr', M(M(V('va'), 'keys'), 'map', fn))]
        post = [V('vr')]
    else:
        raise ValueError(loop)
    if mut in ('rebind-null',) or mut2 in ('rebind-null',) or loop in ('while-len', 'while-nonempty', 'while-dict'):
        # a loop whose condition / body dereferences the rebound variable ends in a script error: catch it, the log tells how far it got
        main = [('try', main, [ST(M(V('log'), 'add', S('caught')))])]
    fin = ('expr', ('arr', [n, V('log'), V('va')] + post))
    stmts = pre + main + [fin]
    if callback:
        # closures see only what they capture
        names = set()
        def walk(x):
            if isinstance(x, tuple):
                if x and x[0] == 'var' and len(x) == 2 and isinstance(x[1], str): names.add(x[1])
                for y in x: walk(y)
            elif isinstance(x, list):
                for y in x: walk(y)
        walk(fn[3])
        fn_uses = [(u, None) for u in ('va', 'vb', 'log', 'cn', 'fm') if u in names]
        fn2 = (fn[0], fn[1], fn_uses, fn[3])
        stmts = [replace_node(s, fn, fn2) for s in stmts]
    return stmts


def replace_node(x, old, new):
    if x is old: return new
    if isinstance(x, tuple): return tuple(replace_node(y, old, new) for y in x)
    if isinstance(x, list): return [replace_node(y, old, new) for y in x]
    return x


def lm_special(loop, mut, when, pos):
    """for (k => v in locals / this / globals / a namespace block) whose body changes that very container"""
    if loop == 'for-locals':
        T = ('locals',); keys = ('ka', 'kb', 'kc')
        pre = [('var', k, N(i + 1)) for i, k in enumerate(keys)]
    elif loop == 'for-this':
        T = ('this',); keys = ('ka', 'kb', 'kc')
        pre = [('set', '=', ('dot', ('this',), k), N(i + 1)) for i, k in enumerate(keys)]
    elif loop == 'for-globals':
        T = ('globals',); keys = ('zza', 'zzb', 'zzc')
        pre = [('set', '=', ('dot', ('globals',), k), N(i + 1)) for i, k in enumerate(keys)]
    else:
        T = V('Nx'); keys = ('ka', 'kb', 'kc')
        pre = [('namespace', 'Nx', [('set', '=', V(k), N(i + 1)) for i, k in enumerate(keys)])]
    pre += [('var', 'log', ('arr', [])), ('var', 'n', N(0))]
    n = V('n')
    isns = loop in ('for-globals', 'for-ns')
    if mut in ('clear', 'clear-refill') and isns:
        return None           # Namespace has no clear(); (and nothing may ever empty the real globals)
    m = lm_dict_mut(mut, T, n, V('vk'), None, keys, has_clear=not isns)
    if loop == 'for-ns':
        m = [('try', m, [ST(M(V('log'), 'add', S('refused')))])]       # every member of a namespace block is a constant
    m = lm_when(when, n, None, m) if when != 'on-key' else [IF(('bin', '==', V('vk'), S(keys[1])), m)]
    # log scalars with their value, anything else (the log itself when iterating locals...) by key only
    scalar = ('bin', '||', ('bin', '==', C('typeof', V('vv')), V('Number')), ('bin', '==', C('typeof', V('vv')), V('String')))
    logkv = ('if', scalar, [ST(M(V('log'), 'add', ('arr', [V('vk'), V('vv')])))], [ST(M(V('log'), 'add', V('vk')))])
    body = [('set', '+=', n, N(1)), IF(('bin', '>', n, N(30)), [('break',)])] + ((m + [logkv]) if pos == 'before' else ([logkv] + m))
    if loop == 'for-globals':
        # the real globals hold the whole standard library: only the program's own entries are looked at (and counted)
        body = [IF(('bin', '==', M(V('vk'), 'substr', N(0), N(2)), S('zz')), body)]
    main = [('try', [('for', 'vk', 'vv', T, body)], [('var', 'vc', S('caught'))])]
    fin_keys = ('call', ('dot', M(T, 'keys'), 'filter'), [('lam1', 'pk', ('bin', '==', M(V('pk'), 'substr', N(0), N(2)), S('zz')))]) if loop == 'for-globals' else M(T, 'keys')
    fin = ('expr', ('arr', [('dot', ('locals',), 'n'), ('dot', ('locals',), 'log'), ('dot', ('locals',), 'vc'), fin_keys]))
    return pre + main + [fin]


def fam_loop_mutates(rnd, n_random, full=False):
    """loop-mutates-iterated: every loop construct x every way the body can change what is being iterated (see lm_program),
    each on the main thread, a 512 KiB thread and a coroutine stack"""
    cs = []
    seen = set()
    def add(stmts, loop, mut, via, when):
        if stmts is None: return
        stmts = legalize(stmts)
        src = src_prog(stmts)
        if src in seen: return
        seen.add(src)
        ast = hx(sx_prog(stmts))
        for mode in ('main', 'thread', 'coro'):
            cs.append({'lines': ['dsl_eval ast=%s src=%s mode=%s' % (ast, hx(src), mode)],
                       'tags': {'family': 'loop-mutates-iterated', 'src': src, 'nodes': count_nodes(stmts), 'loop': loop, 'mut': mut, 'via': via, 'when': when, 'mode': mode}})
    for loops, mutl in ((ARR_LOOPS, ARR_MUTS), (DICT_LOOPS, DICT_MUTS)):
        for loop in loops:
            for mut in mutl:
                for via in VIAS:
                    combos = [(w, p) for w in WHENS for p in ('before', 'after')]
                    if not full: combos = rnd.sample(combos, 2)
                    for when, pos in combos:
                        add(lm_program(loop, mut, via, when, pos), loop, mut, via, when)
    for loop in SPECIAL_LOOPS:
        for mut in DICT_MUTS:
            if mut.startswith('rebind'): continue
            combos = [(w, p) for w in WHENS for p in ('before', 'after')]
            if not full: combos = rnd.sample(combos, 3)
            for when, pos in combos:
                add(lm_special(loop, mut, when, pos), loop, mut, 'direct', when)
    # untouched baselines (the count and order of a loop whose body changes nothing, incl. `for (k => v in locals)`, which binds
    # its own loop variables into the dictionary it walks)
    add([('var', 'ka', N(1)), ('var', 'kb', N(2)), ('var', 'n', N(0)), ('for', 'vk', 'vv', ('locals',), [('set', '+=', V('n'), N(1))]), ('expr', V('n'))], 'for-locals', 'none', 'direct', 'always')
    add([('var', 'ka', N(1)), ('var', 'zz', N(2)), ('var', 'n', N(0)), ('var', 'log', ('arr', [])), ('for', 'kk', 'zv', ('locals',), [('set', '+=', V('n'), N(1)), ST(M(V('log'), 'add', V('kk')))]), ('expr', ('arr', [V('n'), V('log')]))],
        'for-locals', 'none', 'direct', 'always')
    add([('var', 'va', ('dict', [('ka', N(1))])), ('var', 'n', N(0)), ('for', 'vk', 'vv', V('va'), [('set', '+=', V('n'), N(1)), IF(('bin', '>', V('n'), N(50)), [('break',)]), ('set', '=', ('idx', V('va'), ('bin', '+', V('vk'), S('a'))), V('n'))]),
         ('expr', ('arr', [V('n'), LEN(V('va'))]))], 'for-kv', 'add-after', 'direct', 'always')
    # random: two mutations in one body
    for _ in range(n_random):
        if rnd.random() < 0.5:
            loop, mutl = rnd.choice(ARR_LOOPS), ARR_MUTS
        else:
            loop, mutl = rnd.choice(DICT_LOOPS), DICT_MUTS
        m1, m2 = rnd.choice(mutl), rnd.choice(mutl)
        via, when = rnd.choice(VIAS), rnd.choice(WHENS)
        add(lm_program(loop, m1, via, when, rnd.choice(['before', 'after']), m2), loop, m1 + '+' + m2, via, when)
    return cs


def lm_inject(rnd, stmts, state):
    """rewrite the outermost for / while loops of a statement list (recursing into if / try / function bodies): the iterated
    collection is bound to a variable first, an iteration counter with an emergency exit is added, and one or two container
    mutations of THAT collection are inserted at random positions of the body"""
    out = []
    for s in stmts:
        t = s[0]
        if t == 'for' and rnd.random() < 0.9:
            state['n'] += 1
            q, c = 'vq%d' % state['n'], 'vn%d' % state['n']
            isarr = s[2] is None
            if s[3][0] == 'var' and rnd.random() < 0.7:
                T = s[3]
            else:
                out.append(('var', q, s[3])); T = V(q)
            out.append(('var', c, N(0)))
            body = list(s[4])
            for _ in range(rnd.randint(1, 2)):
                if isarr: m = lm_arr_mut(rnd.choice(ARR_MUTS), T, V(c), T)
                else: m = lm_dict_mut(rnd.choice(DICT_MUTS), T, V(c), V(s[1]), T)
                m = lm_when(rnd.choice(WHENS[:3]), V(c), None, m)
                p = rnd.randint(0, len(body))
                body[p:p] = m
            body = [('set', '+=', V(c), N(1)), IF(('bin', '>', V(c), N(30)), [('break',)])] + body
            out.append(('for', s[1], s[2], T, body))
            state['hit'] += 1
        elif t == 'while' and state.get('containers') and rnd.random() < 0.7:
            name, isarr = rnd.choice(state['containers'])
            state['n'] += 1
            c = 'vn%d' % state['n']
            out.append(('var', c, N(0)))
            body = list(s[2])
            m = lm_arr_mut(rnd.choice(ARR_MUTS), V(name), V(c), V(name)) if isarr else lm_dict_mut(rnd.choice(DICT_MUTS), V(name), V(c), S(rnd.choice(KEYS)), V(name))
            p = rnd.randint(0, len(body))
            body[p:p] = m
            cond = s[1]
            if rnd.random() < 0.5:      # a container condition next to the counter
                cond = ('bin', '&&', cond, ('bin', '<', C('len', V(name)), N(rnd.randint(2, 9))))
            body = [('set', '+=', V(c), N(1)), IF(('bin', '>', V(c), N(30)), [('break',)])] + body
            out.append(('while', cond, body))
            state['hit'] += 1
        elif t == 'if':
            els = s[3]
            if isinstance(els, list): els = lm_inject(rnd, els, state)
            out.append(('if', s[1], lm_inject(rnd, s[2], state), els))
        elif t == 'try':
            out.append(('try', lm_inject(rnd, s[1], state), lm_inject(rnd, s[2], state)))
        elif t == 'func':
            out.append(('func', s[1], s[2], s[3], lm_inject(rnd, s[4], dict(state, containers=[]))))
        else:
            if t == 'var' and s[2][0] in ('arr', 'dict') and not state.get('nested'):
                state.setdefault('containers', []).append((s[1], s[2][0] == 'arr'))
            out.append(s)
    return out


def fam_loop_hostile(rnd, n):
    """hostile loop stream: valid random programs with loops, into whose loop bodies mutations of the iterated container are
    inserted; still inside the modelled language, so the full observation is compared (on a random stack)"""
    cand = []
    tries = 0
    while len(cand) < 6 * n and tries < 240 * n:
        tries += 1
        try:
            prog = random_program(rnd)
        except RecursionError:
            continue
        text = src_prog(prog)
        if 'for (' not in text and 'while (' not in text:
            continue
        state = {'n': 0, 'hit': 0, 'containers': []}
        prog2 = legalize(lm_inject(rnd, prog, state))
        if not state['hit']:
            continue
        src = src_prog(prog2)
        # the small stacks only for programs without function definitions: a recursion that is stopped by the 300-level limit on the main
        # thread exhausts the 256 KiB coroutine stack first (recorded finding coroutine-stack-overflow, reproduced by its own tagged inputs)
        mode = rnd.choice(['main', 'thread', 'coro']) if ('function' not in src and '{{' not in src and '=>' not in re.sub(r'for \(\w+ => \w+ in', '', src)) else 'main'
        cand.append({'lines': ['dsl_eval ast=%s src=%s mode=%s' % (hx(sx_prog(prog2)), hx(src), mode)],
                     'tags': {'family': 'loop-mutated-random', 'src': src, 'nodes': count_nodes(prog2), 'mode': mode}})
    # prefer the programs in which (by the model) a rewritten top-level loop ran at least twice: most random programs stop with a
    # script error before they reach their loop
    res = model_run(cand)
    if res is None:
        return cand[:n]
    ran, rest = [], []
    for i, c in enumerate(cand):
        loc = ''.join(l for l in res[i] if l.startswith('locals '))
        hit = any(int(x) >= 2 for x in re.findall(r'"vn\d+":(\d+)', loc))
        c['tags']['loop_ran'] = hit
        (ran if hit else rest).append(c)
    return (ran[:n - n // 8] + rest)[:n]


# ----------------------------------------------------------------------------- error-then-retry
def q(s): return esc_str(s)


# natives with per-call state are the target: [succeeding calls], [failing calls] per group; a failing call must fail EVERY time
RETRY_GROUPS = {
    'regex': (
        ['regex(%s, %s)' % (q(p), q(t)) for p, t in (('^Hel', 'Hello'), ('^Hel', 'World'), ('l+o$', 'Hello'), ('[0-9]+', 'abc'), ('(a|b)c', 'xbc'), ('.', 'x'), ('^$', ''))]
        + ['regex("^a", ["ab", "ac"])', 'regex("^a", ["ab", "xc"], MatchAny)', 'regex("^a", ["xb", "xc"], MatchAny)'],
        ['regex(%s, %s)' % (q(p), q(t)) for p in ('(Hel', 'Hel)', '((a)', '(a))', '[a-', '[abc', 'a[', '[z-a]', '[[:foo:]]', 'a{2,1}', '*a', '+', '?', 'a**', 'a{1}{2}{', '(?', '(?<x', '(?P<n>a)(?P<n>b)',
                                                  '\\', 'a\\', '(' * 40, '(' * 3000 + 'a', 'a' * 4000 + '(', '[' + 'a-' * 2000, '(a' * 500 + ')' * 499)
         for t in ('Hello', 'a')]
        + ['regex("(Hel", ["Hello", "x"])', 'regex("[a-", ["a"], MatchAny)', 'regex("^a", { })', 'regex("^a")', 'regex()']),
    'cidr_match': (
        ['cidr_match("10.0.0.0/8", "10.1.2.3")', 'cidr_match("10.0.0.0/8", "11.1.2.3")', 'cidr_match("10.0.0.0", "10.1.2.3")', 'cidr_match("192.168.0.0/16", ["192.168.1.1", "10.0.0.1"], MatchAny)', 'cidr_match("::1/128", "::1")'],
        ['cidr_match("10.0.0.0/99", "10.1.2.3")', 'cidr_match("nonsense", "10.1.2.3")', 'cidr_match("10.0.0.0/x", "10.1.2.3")', 'cidr_match("/8", "10.1.2.3")',
         'cidr_match("10.0.0.0/8")', 'cidr_match()', 'cidr_match("::1/999", "::1")']),
    'math': (
        ['Math.sqrt(4)', 'Math.pow(2, 10)', 'Math.max(1, 7, 3)', 'Math.min(4, 2)', 'Math.floor(2.5)', 'Math.abs(-3)', 'Math.round(2.5)', 'Math.isnan(1)', 'Math.sign(-2)'],
        ['Math.sqrt("x")', 'Math.pow(2)', 'Math.round("a")', 'Math.floor([ ])', 'Math.abs({ })', 'Math.sqrt()', 'Math.nosuch(1)', 'Math.max("a", 1)', 'Math.exp("1x")']),
    'datetime': (
        ['DateTime(2020, 1, 2).format("%Y")', 'DateTime(86400).to_string().len() > 0', 'typeof(DateTime(2020, 1, 2, 3, 4, 5)).name', 'DateTime(0).value'],
        ['DateTime("x")', 'DateTime(1, 2)', 'DateTime(2020, 1, 2).format()', 'DateTime(2020, 1, 2, 3, 4)', 'DateTime([ ])', 'DateTime(1).nosuch()']),
    'json': (
        ['Json.decode("[1,2]")', 'Json.decode("{\\"a\\":[true,null]}")', 'Json.decode("\\"x\\"")', 'Json.decode(" 7 ")', 'Json.encode([1, "a"])'],
        ['Json.decode("[1,")', 'Json.decode("{\\"a\\":}")', 'Json.decode("")', 'Json.decode("nul")', 'Json.decode("[1 2]")', 'Json.decode("{\\"a\\" 1}")', 'Json.decode("\\"abc")', 'Json.decode("[" + "[" * 5000)',
         'Json.decode("01")', 'Json.decode("[1]x")', 'Json.decode()', 'Json.encode()']),
    'objects': (
        ['get_object(Host, "nosuch")', 'get_objects(Host).len()', 'get_object(Service, "a!b")', 'get_host("nosuch")', 'get_service("a", "b")', 'get_objects(CheckCommand).len() >= 0'],
        ['get_objects(5)', 'get_object(Host)', 'get_objects("NoSuchType")', 'get_objects()', 'get_object()', 'get_objects(nosuchtype)', 'get_host()', 'get_service("a")', 'get_objects(Number)']),
    'misc-native': (
        ['escape_shell_arg("a b")', 'basename("/a/b")', 'dirname("/a/b")', 'parse_performance_data("a=1")  != null', 'string(5)', 'len(5)', '"abc".substr(1, 9)', 'null.x.y', 'regex("x{99999999999}", "a")', 'number("7")', 'bool("x")', 'len([1, 2])', 'range(3)', 'keys({ a = 1 })',
         'typeof(1).name', 'match("a*", "abc")', 'union([2, 1], [1])', 'intersection([1, 2], [2])', '"abc".substr(1, 1)', '[3, 1].sort()', '"a,b".split(",")', '({ a = 1 }).get("a")'],
        ['escape_shell_arg()', 'basename()', 'parse_performance_data("=")', 'number("x")', 'number([1])', 'range()', 'range(1, 2, 3, 4)', 'keys(5)', 'match("a")', 'union(5)', 'intersection(1)',
         '"abc".substr(10)', '[1].get(5)', '[1].remove(3)', '1 / 0', '5 % 0', 'nosuchvar.foo', 'nosuchfn(1)', '[1] <= [2]', '({ }) + 1', 'String(1, 2)', 'typeof()', '*null', '*5',
         '"x".nosuch()', '[3, "a", { }].sort()', '({ }).get()', 'Number("1x")', '~"a"', '"a" << 1', 'getenv()', 'log()']),
}


def fam_error_retry(rnd, n_random):
    """error-then-retry: inside ONE case, in one environment and on one stack: A (succeeds), B (fails), B, B, A, B compiled anew, a loop
    that evaluates B three times under try/except, A - identical expressions must have identical outcomes (B an error every time, A the same
    value every time).  Natives that are only followed as outcome classes and modelled ones alike; B in the same group as A (a call that left
    state behind in the native) and across groups."""
    cs = []
    seen = set()
    def add(a, b, tag, modes):
        loop = 'var log = [ ]\nfor (vi in range(3)) { try { log.add(%s) } except { log.add("error") } }\nlog\n' % b
        for mode in modes:
            key = (a, b, mode)
            if key in seen: continue
            seen.add(key)
            cs.append({'lines': ['dsl_retry a=%s b=%s loop=%s mode=%s tag=%s wa=value wb=error' % (hx(a + '\n'), hx(b + '\n'), hx(loop), mode, tag)],
                       'tags': {'family': 'error-then-retry', 'src': ('A: %s\nB: %s' % (a, b))[:300], 'group': tag, 'mode': mode}})
    allmodes = ('main', 'thread', 'coro')
    for g, (oks, bads) in RETRY_GROUPS.items():
        # every failing call once after a succeeding call of the same group (main stack), a rotating third of them on the small stacks too
        for i, b in enumerate(bads):
            a = oks[i % len(oks)]
            add(a, b, g, ('main',))
            add(oks[(i + 1) % len(oks)], b, g, (allmodes[1 + (i + rnd.randint(0, 1)) % 2],))
    groups = sorted(RETRY_GROUPS)
    for _ in range(n_random):
        ga = rnd.choice(groups)
        gb = ga if rnd.random() < 0.6 else rnd.choice(groups)
        add(rnd.choice(RETRY_GROUPS[ga][0]), rnd.choice(RETRY_GROUPS[gb][1]), gb if ga == gb else ga + '+' + gb, (rnd.choice(allmodes),))
    return cs


NEVER_VALID = ['$', '@@', '`']      # characters that are no terminal of the grammar at all (the lexer hands them through as themselves)
CLOSERS = {')': '(', ']': '[', '}': '{'}


def pending_openers(prefix):
    """bracket stack after the given text of ONE flat statement line (no string literals, comments or blocks on it)"""
    stack = []
    for ch in prefix:
        if ch in '([{':
            stack.append(ch)
        elif ch in ')]}':
            if stack and stack[-1] == CLOSERS[ch]:
                stack.pop()
            else:
                return None      # not a line this rule understands
    return stack


def fam_syntax(rnd, n):
    """A valid program with one stray token inserted at a token boundary of a top-level statement line; the expected error
    position is the stray token itself.  Soundness of that expectation (grammar-aware rule, not a tolerance):
    the text before the stray token is a prefix of a valid program, so the parser cannot fail earlier; it fails AT the token iff
    no valid program continues with it.  That holds (a) for characters that are not terminals of the grammar at all, anywhere;
    (b) for a closer `)` `]` `}` only where NO opener is pending: the candidate line is a complete top-level statement (all lines
    before it are complete statements, a newline ends a statement outside parentheses), and the bracket stack of the line's prefix is
    empty.  A closer inside `[ ... ,` would legally end the array (trailing commas are allowed) and move the error to a later
    token - such positions are never used."""
    cases = []
    tries = 0
    while len(cases) < n and tries < n * 20:
        tries += 1
        stmts = random_program(rnd)
        lines = src_prog(stmts).split('\n')[:-1]
        if len(lines) < 2:
            continue
        li = rnd.randrange(1, len(lines))     # line 1 has 0-based columns in DebugInfo (see notes), lines >= 2 are 1-based
        line = lines[li]
        if '"' in line or '{' in line or '(' in line or '#' in line or '//' in line or '/*' in line:
            continue     # flat statements only: no strings, blocks, calls/lambdas/grouping, comments
        if pending_openers(line) != []:
            continue     # the untouched line must be balanced
        toks = [m.start() for m in re.finditer(r'(?<= )\S', line)]
        if not toks:
            continue
        pos = rnd.choice(toks)
        stack = pending_openers(line[:pos])
        if stack is None:
            continue
        if rnd.random() < 0.65:
            bad = rnd.choice(NEVER_VALID)
        else:
            bad = rnd.choice(list(CLOSERS))
            if stack:
                continue     # an opener is pending here: a closer could be (part of) a valid continuation
        lines[li] = line[:pos] + bad + ' ' + line[pos:]
        src = '\n'.join(lines) + '\n'
        cases.append({'lines': ['dsl_syntax src=%s line=%d col=%d' % (hx(src), li + 1, pos + 1)],
                      'tags': {'family': 'syntax-position', 'src': src, 'stray': bad, 'pending': ''.join(stack)}})
    return cases


def fam_hostile(rnd, n_mut, n_rand):
    cases = []
    # calibrated on the unchanged tree (3/3 stable, see notes/C15.md): which inputs overflow the 256 KiB coroutine stack
    # although they stay below (or are stopped by) the 300-level depth limit, and the recorded crash reproducers
    CRASHES = {('nest:dict:200', 'coro'), ('nest:leftdeep:20000', 'coro'), ('nest:dots:20000', 'coro'), ('nest:index:20000', 'coro'),
               ('recursion:plain', 'coro'), ('recursion:selfapply', 'coro')}
    def add(src, tag, modes=('main', 'thread', 'coro'), iso=False, want=None, show=None, bad=None, sb=False):
        if isinstance(src, str): src = src.encode('latin-1', 'replace')
        for m in modes:
            crash = (tag, m) in CRASHES or (tag.startswith('known:') and bad is None)
            opts = ' iso=1' if (iso or m == 'coro') else ''
            if sb: opts += ' sb=1'
            if crash: opts += ' expect=crash'
            elif bad is not None: opts += ' want=x show=1 bad=' + hx(bad)
            elif want: opts += ' want=' + want + (' show=' + hx(show) if show is not None else '')
            cases.append({'lines': ['dsl_hostile src=%s mode=%s tag=%s%s' % (hx(src), m, tag, opts)],
                          'tags': {'family': 'hostile-' + tag.split(':')[0], 'src': src.decode('latin-1')[:200]}})
    # deep nesting for the parser and the recursive evaluator
    for n in (200, 20000):
        t = ':%d' % n
        add('(' * n + '1' + ')' * n, 'nest:paren' + t)
        add('[' * n + ']' * n, 'nest:bracket' + t)
        add('!' * n + '1', 'nest:not' + t)
        add('-' * n + '1', 'nest:minus' + t)
        add('1' + '+1' * n, 'nest:leftdeep' + t)
        add('{ a = ' * n + '1' + ' }' * n, 'nest:dict' + t)
        add('(' * n, 'nest:unclosed' + t)
        add(')' * n, 'nest:closers' + t, ('main',))
        add('f(' * n + ')' * n, 'nest:calls' + t)
        add('x => ' * n + '1', 'nest:lambda' + t)
        add('if (1) { ' * min(n, 5000) + '1' + ' }' * min(n, 5000), 'nest:if' + t)
        add('a' + '.a' * n, 'nest:dots' + t)
        add('a' + '[0]' * n, 'nest:index' + t)
    add('function f(n) { f(n + 1) }\nf(0)\n', 'recursion:plain')
    add('function f(n) { return [f(n + 1)] }\nf(0)\n', 'recursion:array')
    add('var f = function(g) { g(g) }\nf(f)\n', 'recursion:selfapply')
    add('var a = [1,2,3]\na.map(x => a.map(y => a.map(z => z)))\n', 'recursion:map')
    add('var s = "a"\nfor (i in range(18)) { s += s }\ns.len()\n', 'size:string', ('main',))
    # recorded findings outside the model's language (Json.encode) or with undefined behaviour (iterator invalidation)
    add('var a = []\na.add(a)\nJson.encode(a)\n', 'known:cyclic-json', ('main', 'coro'), True)
    add('var d = {}\nd.x = d\nJson.encode(d)\n', 'known:cyclic-json', ('thread',), True)
    # `*e = v`, `*e += v`, `(*e)(..)`, `(*e).k = v` with e == null: a script error since fix 45d9f22 (before it
    # DerefExpression::GetReference dereferenced a null Reference::Ptr); Ref/Deref are not in the model, the outcome class is
    # checked here (want=value|error)
    for src in ('var x = null\n*x = 1\n', '*this.kc = 1\n', 'var x = null\n*x += 1\n', 'var x = null\n(*x)(1)\n', 'var x = null\n(*x).a = 1\n'):
        add(src, 'deref:null', want='error')
    for src, want in (('*null\n', 'error'), ('var x = 5\n*x = 1\n', 'error'), ('var x = []\n*x = 1\n', 'error'),
                      ('var v = 1\nvar p = &v\n*p = 2\nv\n', 'value'), ('var v = 1\nvar p = &v\n(*p)(1)\n', 'error'),
                      ('var d = { a = 1 }\nvar p = &d\n(*p).a = 2\n*p\n', 'value'), ('var v = 3\nvar p = &v\n*p += 4\nv\n', 'value')):
        add(src, 'deref:neighbour', want=want)
    # `using null` + a lookup that reaches the imports: a script error since fix 9625736 (before: null Object::Ptr dereferenced), on every stack
    add('using null\nfoo\n', 'fixed:null-import', ('main', 'thread', 'coro'), True, want='error')
    add('var d = {}\nusing d.x\nlen("a")\n', 'fixed:null-import', ('main',), True, want='error')
    add('using null\nkz = 1\n', 'fixed:null-import', ('main',), True, want='error')
    for src, want, show in (('using null\n1 + 2\n', 'value', '3'), ('var a = 4\nusing null\na\n', 'value', '4'), ('using 5\nfoo\n', 'error', None), ('using [ ]\nfoo\n', 'error', None),
                            ('var d = { foo = 7 }\nusing d\nusing null\nfoo\n', 'value', '7')):
        add(src, 'using:neighbour', ('main', 'coro'), want=want, show=show)
    # Array#freeze / Dictionary#freeze with a null `this` (through Function#call / #callv) and Function#callv with a null argument array: script
    # errors since fixes af1f2c3 / 79ebf08 (before: null pointers dereferenced).  call/callv/freeze are not in the Gallina model: outcome classes only.
    for src in ('[].freeze.call(null)\n', '{}.freeze.call(null)\n', '[].freeze.callv(null, [])\n'):
        add(src, 'fixed:freeze-null-this', ('main', 'coro'), True, want='error')
    for src in ('len.callv(null, null)\n', '[].len.callv(1, null)\n'):
        add(src, 'fixed:callv-null-args', ('main', 'coro'), True, want='error')
    for src, want, show in (('[].freeze.call(5)\n', 'error', None), ('[].len.call(null)\n', 'error', None), ('[3, 1].sort.call(null)\n', 'error', None), ('{}.keys.call(null)\n', 'error', None),
                            ('var f = [].freeze\nf()\n', 'error', None), ('[].freeze.call()\n', 'error', None), ('len.callv(null, ["abc"])\n', 'value', '3'), ('len.call(null, "abc")\n', 'value', '3'),
                            ('len.callv(null, 5)\n', 'error', None), ('len.callv(null)\n', 'error', None), ('"a".len.call(null)\n', 'value', '0'), ('var a = [1]\na.freeze()\na.add(2)\n', 'error', None),
                            ('var a = [2, 1]\na.freeze()\na.sort()\n', 'value', '[1,2]'), ('var x = 1\n(&x).get.call(null)\n', 'error', None)):
        add(src, 'nullthis:neighbour', ('main', 'coro'), want=want, show=show)
    # intersection() with three or more arguments where a later array is longer than the running result: right since fix b5e2da1 (before it the
    # running result doubled as input and was padded with nulls: [-5,null], [null], a spurious script error)
    for src, show in (('intersection([-5], [-5], [-5, 0, 7])\n', '[-5]'), ('intersection([1], [2], [0, 5])\n', '[]'), ('intersection(["a"], ["a"], ["a", "b"])\n', '["a"]')):
        add(src, 'fixed:isect-alias', ('main',), want='value', show=show)
    for src, show in (('intersection([3], [3], [1, 2, 3])\n', '[3]'), ('intersection([1, 2, 3], [3, 2, 1], [2, 3])\n', '[2,3]'), ('intersection([5, 1], [1, 5], [5], [5])\n', '[5]'),
                      ('intersection([1, 2], [1, 2], null)\n', '[1,2]'), ('intersection([1, 2])\n', '[]'), ('union([2, 1], [3, 1], null)\n', '[1,2,3]')):
        add(src, 'isect:neighbour', ('main',), want='value', show=show)
    # the new constructs under a sandboxed frame (as API filters are evaluated): definitions are refused, reads are fine
    for src, want, show in (('const Cx = 5\n', 'error', None), ('namespace Nq { a = 1 }\n', 'error', None), ('var x = 1\n', 'error', None), ('typeof(1) == Number\n', 'value', 'true'),
                            ('match("a*", "abc")\n', 'value', 'true'), ('union([2, 1], [1])\n', 'value', '[1,2]'), ('Json.decode("[1]")\n', 'value', '[1]'), ('&this\n', 'error', None),
                            ('using { a = 1 }\na\n', 'error', None), ('Json.encode([1, { }])\n', 'value', '"[1,{}]"'), ('Json.encode([1, { a = 1 }])\n', 'error', None), ('*null\n', 'error', None), ('intersection([1], [1])\n', 'value', '[1]')):
        add(src, 'sandbox:new', ('main',), want=want, show=show, sb=True)
    # loops whose body FREEZES the iterated container, and Array#sort with a comparator that changes the array (freeze and user
    # comparators are not in the Gallina model: expected values from the code - Array/Dictionary::Freeze make every later Set/Add/
    # Remove/Clear throw, reads and the loops' own key snapshot / index test are unaffected; `for (k => v in locals)` binds its loop
    # variables with Dictionary::Set, which a frozen locals dictionary refuses at the next turn; sort works on a shallow clone)
    for src, show in (
            ('var a = [1, 2, 3]\nvar log = []\ntry { for (x in a) { log.add(x); a.freeze(); a.add(9) } } except { log.add("caught") }\n[log, a]\n', '[[1,"caught"],[1,2,3]]'),
            ('var a = [1, 2, 3]\nvar log = []\nfor (x in a) { log.add(x); a.freeze() }\n[log, a]\n', '[[1,2,3],[1,2,3]]'),
            ('var d = { a = 1, b = 2 }\nvar log = []\ntry { for (k => v in d) { log.add([k, v]); d.freeze(); d.c = 3 } } except { log.add("caught") }\n[log, d]\n', '[[["a",1],"caught"],{"a":1,"b":2}]'),
            ('var d = { a = 1, b = 2 }\nvar log = []\ntry { for (k => v in d) { log.add([k, v]); d.freeze(); d.remove(k) } } except { log.add("caught") }\n[log, d]\n', '[[["a",1],"caught"],{"a":1,"b":2}]'),
            ('var d = { a = 1, b = 2 }\nvar log = []\nfor (k => v in d) { log.add([k, v]); d.freeze() }\n[log, d]\n', '[[["a",1],["b",2]],{"a":1,"b":2}]'),
            ('var d = { a = 1, b = 2 }\nd.freeze()\nvar log = []\nfor (k => v in d) { log.add(k) }\nlog\n', '["a","b"]'),
            ('var log = []\nthis.a = 1\nthis.b = 2\ntry { for (k => v in this) { log.add(k); this.freeze(); this.c = 3 } } except { log.add("caught") }\nlog\n', '["a","caught"]'),
            ('var log = []\nvar a = 1\ntry { for (k => v in locals) { log.add(k); locals.freeze() } } except { log.add("caught") }\nlog\n', '["a","caught"]'),
            ('var a = [1, 2, 3]\nvar n = 0\nwhile (a.len() > 0) { n += 1; a.freeze(); try { a.remove(0) } except { break } }\n[n, a]\n', '[1,[1,2,3]]'),
            ('var a = [1, 2, 3]\nvar log = []\ntry { a.map(function(x) use(a, log) { log.add(x); a.freeze(); a.add(4); return x }) } except { log.add("caught") }\n[log, a]\n', '[[1,"caught"],[1,2,3]]'),
            ('var a = [1, 2, 3]\nvar log = []\nvar r = a.filter(function(x) use(a, log) { log.add(x); a.freeze(); return true })\n[log, a, r]\n', '[[1,2,3],[1,2,3],[1,2,3]]'),
            ('var a = [1, 2, 3]\nvar r = a.reduce(function(x, y) use(a) { a.freeze(); return x + y })\n[a, r]\n', '[[1,2,3],6]'),
            ('var a = [3, 1, 2]\nvar n = [0]\nvar r = a.sort(function(x, y) use(a, n) { n[0] += 1; if (a.len() < 5) { a.add(9) }; return x < y })\n[a, r, n[0] > 1]\n', '[[3,1,2,9,9],[1,2,3],true]'),
            ('var a = [3, 1, 2]\nvar r = a.sort(function(x, y) use(a) { a.clear(); return x < y })\n[a, r]\n', '[[],[1,2,3]]'),
            ('var a = [3, 1, 2]\nvar r = a.sort(function(x, y) use(a) { a = null; return x > y })\n[a, r]\n', '[[3,1,2],[3,2,1]]')):
        add(src, 'loopmut:freeze-sort', want='value' if show is not None else 'error', show=show)
    # mutated programs
    done = 0
    while done < n_mut:
        text = src_prog(random_program(rnd))
        if 'while' in text or 'for (' in text:
            continue      # a mutation could turn a bounded loop into an endless one, which is legal behaviour
        done += 1
        src = bytearray(text.encode('latin-1'))
        for _ in range(rnd.randint(1, 4)):
            c = rnd.random()
            p = rnd.randrange(len(src) + 1)
            if c < 0.3 and src: del src[min(p, len(src) - 1)]
            elif c < 0.6: src.insert(p, rnd.choice(b'(){}[]"\\$@!=<>&|+-*/%^~?:;,.\n\t 0123456789ae{{}}'))
            elif c < 0.8 and src: src[min(p, len(src) - 1)] = rnd.randrange(256)
            else:
                q = rnd.randrange(len(src) + 1)
                src[p:p] = src[min(p, q):max(p, q)][:40]
        add(bytes(src), 'mutated', (rnd.choice(['main', 'thread', 'coro']),))
    kw = [b'var ', b'function ', b'if (', b'else ', b' in ', b'=> ', b'use(', b'{{{', b'}}}', b'{{', b'}}', b'/*', b'*/', b'//', b'#',
          b'"', b'\\', b'\n', b'0x', b'1e9', b'5m', b'.5', b'object ', b'apply ', b'import ', b'include ', b'<a>', b'!in ', b'return ', b'throw ', b'try ', b'except ',
          b'namespace ', b'using ', b'const ', b'library ', b'typeof(', b'union(', b'intersection(', b'match(', b'Json.encode(', b'Json.decode(', b'MatchAny', b'Number', b'String(', b'.get()', b'.set(', b'current_line', b'debugger', b'&', b'*', b'null', b'this', b'locals', b'globals', b'template ', b'assign where ']
    for _ in range(n_rand):
        if rnd.random() < 0.5:
            src = bytes(rnd.randrange(256) for _ in range(rnd.randint(1, 60)))
        else:
            src = b''.join(rnd.choice(kw) if rnd.random() < 0.7 else bytes([rnd.randrange(32, 127)]) for _ in range(rnd.randint(1, 25)))
        if b'include' in src or b'library' in src or b'debugger' in src or b'object' in src or b'template' in src or b'apply' in src:
            src = src.replace(b'include', b'inclde').replace(b'library', b'librry').replace(b'debugger', b'debuger').replace(b'object', b'objct').replace(b'template', b'templte').replace(b'apply', b'aply')
        add(src, 'random', (rnd.choice(['main', 'thread', 'coro']),))
    return cases


# ----------------------------------------------------------------------------- screening with the extracted model
DROP = ('abort:domain', 'abort:fuel')


def model_run(ev):
    """run the extracted model over dsl_eval cases: {index in ev: model lines}; None when vmodel has not been built yet"""
    if not ev or not os.path.exists(core.VMODEL):
        return None
    wd = tempfile.mkdtemp(prefix='c15scr_', dir=core.B)
    saved = [c.get('id') for c in ev]
    try:
        for i, c in enumerate(ev):
            c['id'] = i + 1
        shards = core.shard(ev, core.NPROC)
        import concurrent.futures as cf
        res = {}
        with cf.ThreadPoolExecutor(core.NPROC) as ex:
            for r in ex.map(lambda a: core.run_model_shard(([], a[1], wd, a[0], 120)), enumerate(shards)):
                res.update(r)
        return {i: res.get(i + 1, ['MODEL-ERROR']) for i in range(len(ev))}
    finally:
        for c, sid in zip(ev, saved):
            if sid is None: c.pop('id', None)
            else: c['id'] = sid
        import shutil
        shutil.rmtree(wd, ignore_errors=True)


def screen(cases):
    """drop dsl_eval cases whose MODEL result leaves the exact domain (inexact numbers, unmodelled conversions, loop budget)"""
    ev = [c for c in cases if c['lines'][0].startswith('dsl_eval')]
    res = model_run(ev)
    if res is None:
        return cases, 0
    bad = set()
    for i, c in enumerate(ev):
        ls = res[i]
        if any(l.startswith('MODEL-ERROR') for l in ls) or any(l[4:] in DROP for l in ls if l.startswith('res ')):
            bad.add(id(c))
    return [c for c in cases if id(c) not in bad], len(bad)


_last_dropped = [0]


def generate(seed, tier):
    rnd = random.Random(seed)
    n_rand = {'quick': 2500, 'thorough': 30000, 'search': 6000}.get(tier, 2500)
    cases = []
    cases += fam_operator_matrix()
    cases += fam_precedence(rnd)
    cases += fam_short_circuit()
    cases += fam_scoping()
    cases += fam_depth()
    cases += fam_findings()
    cases += fam_callback_resize()
    cases += fam_closure_state(rnd, {'quick': 400, 'thorough': 4000, 'search': 800}.get(tier, 400))
    cases += fam_types()
    cases += fam_sets(rnd, {'quick': 300, 'thorough': 3000, 'search': 600}.get(tier, 300))
    cases += fam_match(rnd, {'quick': 150, 'thorough': 1500, 'search': 300}.get(tier, 150))
    cases += fam_refs(rnd, {'quick': 200, 'thorough': 2000, 'search': 400}.get(tier, 200))
    cases += fam_namespaces(rnd, {'quick': 150, 'thorough': 1500, 'search': 300}.get(tier, 150))
    cases += fam_json(rnd, {'quick': 150, 'thorough': 1500, 'search': 300}.get(tier, 150))
    cases += fam_order(rnd, {'quick': 150, 'thorough': 1500, 'search': 300}.get(tier, 150))
    cases += fam_loop_mutates(rnd, {'quick': 300, 'thorough': 3000, 'search': 600}.get(tier, 300), full=(tier == 'thorough'))
    cases += fam_loop_hostile(rnd, {'quick': 400, 'thorough': 4000, 'search': 800}.get(tier, 400))
    for _ in range(n_rand):
        try:
            cases.append(mk_case(random_program(rnd), 'random-program'))
        except RecursionError:
            pass
    cases, dropped = screen(cases)
    _last_dropped[0] = dropped
    cases += fam_syntax(rnd, {'quick': 150, 'thorough': 1500, 'search': 300}.get(tier, 150))
    cases += fam_error_retry(rnd, {'quick': 300, 'thorough': 3000, 'search': 600}.get(tier, 300))
    cases += fam_hostile(rnd, {'quick': 300, 'thorough': 4000, 'search': 600}.get(tier, 300), {'quick': 300, 'thorough': 4000, 'search': 600}.get(tier, 300))
    return cases


def canon(lines):
    return ['CRASH' if l.startswith('CRASH') else l for l in lines]


def nontrivial(case, impl_lines):
    t = case.get('tags', {})
    if not case['lines'][0].startswith('dsl_eval'):
        return False
    return t.get('nodes', 0) >= 3 and not any(l == 'res syntax' for l in impl_lines)


def classify(case, detail, impl_lines):
    """known-finding keys are returned ONLY for a crash that the model (or the reproducer's tag) attributes to that class"""
    if 'crash' in detail:
        if 'model=abort:cycle' in detail: return 'cyclic-traversal'
        if 'tag=known:cyclic-json' in detail: return 'cyclic-traversal'
        if 'hostile' in detail:
            m = re.search(r'tag=(\S+)', detail)
            tag = m.group(1) if m else 'hostile'
            if 'mode=coro' in detail and (tag.startswith('nest:') or tag.startswith('recursion:')):
                return 'coroutine-stack-overflow'
            return 'crash-' + tag.split(':')[0]
        return 'crash'
    if 'nondeterministic' in detail: return 'nondeterministic'
    if 'syntax-error-location' in detail: return 'syntax-location'
    if 'hostile-outcome' in detail: return 'hostile-outcome'
    if 'value-mismatch' in detail: return 'value-mismatch'
    return 'other'


def keep_line(l):
    return True


def extra_stats(cases, impl):
    import collections
    res = collections.Counter()
    for c in cases:
        ls = impl.get(c.get('id'), [])
        for l in ls:
            if l.startswith('res '):
                v = l[4:]
                res['result_' + ('error' if v == 'error' else 'syntax' if v == 'syntax' else 'value')] += 1
            elif l.startswith('CRASH'):
                res['crash_lines'] += 1
            elif l.startswith('hostile'):
                res['hostile_ok'] += 1
            elif l.startswith('retry ok'):
                res['error_then_retry_consistent'] += 1
            elif l.startswith('syntax '):
                res['syntax_located'] += 1
    res['dropped_outside_exact_domain'] = _last_dropped[0]
    res['closure_called_twice_after_assigning_captured'] = sum(1 for c in cases if c.get('tags', {}).get('closure_assign_multi'))
    lm = [c.get('tags', {}) for c in cases if c.get('tags', {}).get('family') == 'loop-mutates-iterated' and c.get('tags', {}).get('mode') == 'main']
    res['loop_mutates_programs'] = len(lm)
    res['loop_mutates_constructs'] = len(set(t.get('loop') for t in lm))
    res['loop_mutates_construct_x_mutation_x_via'] = len(set((t.get('loop'), t.get('mut'), t.get('via')) for t in lm))
    res['loop_mutated_random_programs'] = sum(1 for c in cases if c.get('tags', {}).get('family') == 'loop-mutated-random')
    res['loop_mutated_random_loop_ran_twice'] = sum(1 for c in cases if c.get('tags', {}).get('loop_ran'))
    res['closure_state_programs'] = sum(1 for c in cases if c.get('tags', {}).get('family') == 'closure-state')
    kw = {'typeof': 'typeof(', 'union': 'union(', 'intersection': 'intersection(', 'match': 'match(', 'ref': '&', 'const': 'const ', 'namespace': 'namespace ', 'using': 'using ', 'json': 'Json.',
          'else_if_chain2': None}
    for k, pat in kw.items():
        if pat is None:
            res['programs_with_' + k] = sum(1 for c in cases if c.get('tags', {}).get('src', '').count(' else if (') >= 2 and c['lines'][0].startswith('dsl_eval'))
        else:
            res['programs_with_' + k] = sum(1 for c in cases if pat in c.get('tags', {}).get('src', '') and c['lines'][0].startswith('dsl_eval'))
    return dict(res)
