"""C12 - replay log.  Generators for the correspondence run (real ApiListener vs extracted model)."""
import os, re, hashlib, random

PID = 'C12'
# the search for a failing input after a broken proof / correspondence is capped (brief C12b): one targeted round first (see generate)
os.environ.setdefault('VERIF_SEARCH_S', '60')
HEADER = []
T0 = 2000000000
RULE = ('random histories of relay (strictly increasing whole-second virtual times; secobj in every zone of a 6-zone tree, zone objects, none) / '
        'disconnect / reconnect+ReplayLog / rotate (incl. twice per second) / clean and crash restart of the sender / log::SetLogPosition from the peer / '
        'incoming message with timestamp / ApiTimerHandler, over 6 endpoints with log_duration in {0,-1,30,600,3600,86400}; '
        'small two-file logs cut at EVERY byte offset of either file, then replayed (thorough: also 4-file logs with 23 entries, every offset of every file); reconnects in which the peer\'s own replay emission (same code, same situation) is handled before ours starts; bytes overwritten at sampled offsets with sampled values '
        '(length header, terminator, structure, message text, timestamp digits); '
        'size-boundaries: one entry of an exact byte length 64 KiB-1/64 KiB/64 KiB+1, 1 MiB-1/1 MiB/1 MiB+1, 4 MiB (thorough: 4095..4097, 8192, 9999/10000, 99999/100000, 128 KiB+-1, 999999/1000000, 2 MiB, 4 MiB+-1, 9999999/10000000; payload bytes x, quote, backslash), '
        'or ending at an exact file offset k*64 KiB, placed first / in the middle / last in a rotated file or in current, small entries around it and in the other file, optional acknowledgement + clean-up + second outage; '
        'big-history: random histories with several entries of 4 KiB .. 1.1 MiB (thorough .. 4 MiB); big-truncate: a file cut right before / inside / right after a large entry; '
        'nonmonotone-clock: relays within one clock reading and with the clock stepped back by 1 s .. 1 h, rotations in the same second and right after the step, acknowledgement + clean-up; '
        'two-endpoint-zones: the two endpoints of a child zone (a1, a2) or one of them and the HA peer of the local zone (m2), both away while 1-3 events for the zone are logged, one returns and is replayed to, '
        '1-4 steps of messages ARRIVING from the returned endpoint / from the HA peer with an originZone member (MessageHandler -> handler -> SyncRelayMessage with that origin), local relays, clean-up, rotation, disconnect/reconnect, '
        'restart, then the other returns; GetConnected/GetLocalLogPosition of all 6 endpoints observed before and after every relay (local or arriving); 5 % of the steps of random-history are arriving messages as well. '
        'non-trivial = at least one persisted event and one replay that delivered something; distinct = distinct script text')
TRUSTED = ['model: coq/Replay/RlBytes.v, RlModel.v (transcription of ApiListener::PersistMessage/RotateLogFile/OpenLogFile/ReplayLog/ApiTimerHandler/'
           'SyncRelayMessage/RelayMessageOne, JsonRpcConnection::MessageHandler timestamp filter, SetLogPositionHandler, NetString::ReadStringFromStream); '
           'RlCompact.v is PROVED to refine it (C12_record_model_*), so it adds nothing here; RlOrigin.v: the origin tests of RelayMessageOne and the origin MessageHandler builds '
           '(its endpoint loop is PROVED equal to the loop translated from /repo on every run: C12_src_relay_endpoint_iter_origin_model)',
           'log entry payload: tiny concrete encoding = the bytes JsonEncode emits for PersistMessage\'s dictionary; strict decoder for that shape only '
           '(JsonDecode accepts more; the generator keeps corrupting bytes to values on which both agree, see notes/C12.md)',
           'tools/facts_c12.py: recognisers of the size limits (netstring reader digits / colon window / maxMessageLength test, what ReplayLog passes, what PersistMessage writes) and of the forms of ReplayLog/RotateLogFile',
           'hook H1 (virtual clock) in lib/base/utility.cpp; harness constructs ApiListener/JsonRpcConnection without PKI/sockets and reads the outgoing queue']
ASSUMPTIONS = ['the sender\'s clock advances before every relay (rl_hclocked, premise of C12_replayed; its boundary is the recorded finding nonincreasing-timestamps-not-replayed, family nonmonotone-clock)',
               'every persisted entry is shorter than 10^9 bytes and has a timestamp below 10^15 s (rl_hsized over the regenerated limits; necessary: C12_read_limit_hides); the run covers entries up to 16 MiB',
               'no event is relayed while the peer is syncing (statement speaks about disconnected peers)',
               'StreamReadContext::FillFromStream delivers the whole file over successive calls (whole-file buffer in the model); exercised with files up to 16 MiB and frames ending at 4 KiB / 64 KiB chunk boundaries',
               'the local endpoint is the routing master of its zone (the configuration of the harness: its name sorts first); messages are locally generated or arrive from a connected endpoint '
               '(origin = that endpoint, origin zone = its zone, or for the HA peer the zone its originZone member names)']

SECS = ['-', 'op', 'om', 'oa', 'ob', 'oc', 'og', 'za', 'zb', 'zm', 'zg', 'oa', 'ob', 'om']
DURS = [0, -1, 30, 600, 3600, 86400, 86400, 600]
TYPE_NAME = {'o': 'CheckCommand', 'z': 'Zone'}


def enc_entry(ts, sec, mid):
    msg = '{"jsonrpc":"2.0","method":"vf::ev","params":{"id":%d},"ts":%d}' % (mid, ts)
    s = '{"message":"' + msg.replace('\\', '\\\\').replace('"', '\\"') + '"'
    if sec != '-':
        s += ',"secobj":{"name":"rl-%s","type":"%s"}' % (sec, TYPE_NAME[sec[0]])
    s += ',"timestamp":%d}' % ts
    return '%d:%s,' % (len(s), s)


def gen_history(rnd, n):
    t = T0
    durs = [rnd.choice(DURS) for _ in range(6)]
    lines = ['now %d' % t, 'rl_init dur=' + ','.join(map(str, durs))]
    mid = 0
    stamps = [t]
    conn = set()
    for _ in range(n):
        r = rnd.random()
        if r < 0.38:
            t += rnd.choice((1, 1, 1, 2, 5, 30, 200))
            mid += 1
            lines += ['now %d' % t, 'rl_relay sec=%s id=%d' % (rnd.choice(SECS), mid)]
            stamps.append(t)
        elif r < 0.52:
            t += rnd.choice((0, 0, 1, 3, 20))
            e = rnd.choice((1, 2, 3, 3, 4, 4, 5, 6))
            lines += ['now %d' % t, 'rl_ls', 'rl_conn e=%d%s' % (e, ' mirror=1' if rnd.random() < 0.12 else ''), 'rl_ls']
            conn.add(e)
        elif r < 0.62:
            e = rnd.choice((1, 2, 3, 4, 5, 6))
            lines += ['rl_disc e=%d' % e]
            conn.discard(e)
        elif r < 0.70:
            t += rnd.choice((0, 0, 1, 5))
            lines += ['now %d' % t, 'rl_rotate', 'rl_ls']
        elif r < 0.75:
            t += rnd.choice((0, 1, 5))
            lines += ['now %d' % t, 'rl_ls', 'rl_restart clean=%d' % rnd.randint(0, 1), 'rl_ls']
            conn.clear()
        elif r < 0.84:
            e = rnd.choice(sorted(conn)) if conn and rnd.random() < 0.8 else rnd.randint(1, 6)
            p = rnd.choice(stamps) + rnd.choice((0, 0, 1, -1, 2))
            lines += ['rl_ack e=%d p=%d' % (e, p), 'rl_ls']
        elif r < 0.88:
            e = rnd.choice(sorted(conn)) if conn and rnd.random() < 0.8 else rnd.randint(1, 6)
            ts = rnd.choice(stamps) + rnd.choice((0, 0, 1, -1, 7))
            lines += ['rl_ls', 'rl_recv e=%d ts=%d' % (e, ts), 'rl_ls']
        elif r < 0.93:
            # a message arrives from an endpoint and is relayed on (it stamps an event: the clock advances first)
            e = rnd.choice(sorted(conn)) if conn and rnd.random() < 0.9 else rnd.randint(1, 6)
            t += rnd.choice((1, 1, 2, 5))
            mid += 1
            ts = t if rnd.random() < 0.8 else rnd.choice(stamps) + rnd.choice((0, 1, -1))
            oz = ' oz=' + rnd.choice(FROM_OZ) if e == 1 and rnd.random() < 0.7 else ''
            lines += ['now %d' % t, 'rl_from e=%d ts=%d sec=%s id=%d%s' % (e, ts, rnd.choice(SECS), mid, oz), 'rl_ls']
            stamps.append(t)
        else:
            t += rnd.choice((0, 5, 10, 40, 700, 4000))
            lines += ['now %d' % t, 'rl_ls', 'rl_timer', 'rl_ls']
    return lines


FROM_OZ = ['za', 'za', 'zb', 'zp', 'zm', 'zc', 'zg']


def gen_two_endpoint(rnd, cases, n):
    """two-endpoint-zones (brief C12b): zone za has the endpoints a1 (3) and a2 (4), the local zone has the HA peer m2 (1).
    Both endpoints of a pair are away while events for their zone are logged; one returns and is replayed to; messages
    ARRIVE from the returned one (relay with origin = that endpoint / its zone) and from the HA peer (originZone member)
    while the other is still away; acknowledgements, clean-up, rotations, a restart in between; then the other returns.
    Observed: every endpoint's position before/after each arriving message, and what each returning endpoint is replayed."""
    for k in range(n):
        t = T0
        durs = [rnd.choice((86400, 86400, 3600, 600, -1)) for _ in range(6)]
        if rnd.random() < 0.1:
            durs[rnd.choice((0, 2, 3))] = 0
        lines = ['now %d' % t, 'rl_init dur=' + ','.join(map(str, durs))]
        mid = 0
        stamps = []
        pair = rnd.choice(((3, 4), (4, 3), (3, 4), (4, 3), (1, 3), (1, 4), (3, 1), (4, 1)))    # (first back, second back)
        first, second = pair
        secs_pair = ('oa', 'oa', 'za', 'oc', 'om', '-', 'og', 'zm', 'ob')

        def relay(cnt):
            nonlocal t, mid, lines
            for _ in range(cnt):
                t += rnd.choice((1, 1, 2, 7))
                mid += 1
                lines += ['now %d' % t, 'rl_relay sec=%s id=%d' % (rnd.choice(secs_pair), mid)]
                stamps.append(t)

        def arrive(e, cnt):
            nonlocal t, mid, lines
            for _ in range(cnt):
                t += rnd.choice((1, 1, 2, 5))
                mid += 1
                ts = t if rnd.random() < 0.85 else rnd.choice(stamps or [t]) + rnd.choice((0, -1, 1))
                oz = ''
                if e == 1 and rnd.random() < 0.75:
                    oz = ' oz=' + rnd.choice(FROM_OZ)
                lines += ['now %d' % t, 'rl_from e=%d ts=%d sec=%s id=%d%s' % (e, ts, rnd.choice(secs_pair), mid, oz)]
                stamps.append(t)
                if rnd.random() < 0.3:
                    lines += ['rl_ls']

        # sometimes a third party is connected all along (parent p1, the HA peer, the other child zone)
        for e in rnd.sample((1, 2, 5), rnd.choice((0, 0, 1, 2))):
            if e not in pair:
                lines += ['rl_conn e=%d' % e]
        # both away, events for the zone are logged
        relay(rnd.choice((1, 2, 3)))
        if rnd.random() < 0.25:
            t += 2
            lines += ['now %d' % t, 'rl_rotate']
            relay(rnd.choice((0, 1, 2)))
        # the first one returns and is replayed to
        t += rnd.choice((1, 3, 15))
        lines += ['now %d' % t] + (['rl_ls'] if rnd.random() < 0.5 else []) + ['rl_conn e=%d' % first] + (['rl_ls'] if rnd.random() < 0.5 else [])
        if rnd.random() < 0.4:
            lines += ['rl_ack e=%d p=%d' % (first, rnd.choice(stamps) + rnd.choice((0, 0, 1)))]
        # ... and sends us messages while the second is still away; the HA peer may forward some as well
        steps = rnd.choice((1, 2, 3, 4))
        for _ in range(steps):
            r = rnd.random()
            if r < 0.6:
                arrive(first, rnd.choice((1, 1, 2)))
            elif r < 0.75:
                relay(1)
            elif r < 0.85 and 1 not in pair:
                lines += ['rl_conn e=1']
                arrive(1, rnd.choice((1, 2)))
            elif r < 0.92:
                t += rnd.choice((5, 40, 700))
                lines += ['now %d' % t, 'rl_ls', 'rl_timer', 'rl_ls']
            elif r < 0.96:
                t += 1
                lines += ['now %d' % t, 'rl_rotate']
            else:
                lines += ['rl_disc e=%d' % first]
                relay(1)
                t += 1
                lines += ['now %d' % t, 'rl_conn e=%d' % first]
        if rnd.random() < 0.08:
            t += 1
            lines += ['now %d' % t, 'rl_restart clean=%d' % rnd.randint(0, 1)]
        elif rnd.random() < 0.2:
            lines += ['rl_disc e=%d' % first]
        # the second one returns: it is owed everything above the position IT confirmed
        t += rnd.choice((1, 2, 10))
        lines += ['now %d' % t] + (['rl_ls'] if rnd.random() < 0.4 else []) + ['rl_conn e=%d' % second, 'rl_ls']
        if rnd.random() < 0.3:
            arrive(second, 1)
            lines += ['rl_ls']
        cases.append({'lines': lines, 'tags': {'family': 'two-endpoint-zones', 'pair': '%d-%d' % pair}})


def small_log(rnd, n1, n2, durs='3600,3600,3600,3600,3600,3600'):
    """n1 entries in a rotated file, n2 in current; -> (lines, file name, bytes of file, bytes of current, end time)"""
    t = T0
    lines = ['now %d' % t, 'rl_init dur=' + durs]
    mid = 0
    b1 = b2 = ''
    for i in range(n1):
        t += rnd.choice((1, 2, 7))
        mid += 1
        sec = rnd.choice(SECS)
        lines += ['now %d' % t, 'rl_relay sec=%s id=%d' % (sec, mid)]
        b1 += enc_entry(t, sec, mid)
    name = t + 1
    t += 3
    lines += ['now %d' % t, 'rl_rotate']
    for i in range(n2):
        t += rnd.choice((1, 2, 7))
        mid += 1
        sec = rnd.choice(SECS)
        lines += ['now %d' % t, 'rl_relay sec=%s id=%d' % (sec, mid)]
        b2 += enc_entry(t, sec, mid)
    return lines, name, b1, b2, t


def gen_trunc(rnd, cases, nlogs):
    for _ in range(nlogs):
        n1, n2 = rnd.choice(((2, 1), (1, 2), (3, 1), (2, 2)))
        base, name, b1, b2, t = small_log(rnd, n1, n2)
        e = rnd.choice((1, 2, 3, 5))
        for (f, b) in ((str(name), b1), ('cur', b2)):
            for k in range(len(b) + 1):
                lines = base + ['now %d' % (t + 2), 'rl_ls', 'rl_trunc f=%s k=%d' % (f, k), 'rl_ls', 'rl_conn e=%d' % e, 'rl_ls']
                cases.append({'lines': lines, 'tags': {'family': 'truncate-every-offset'}})


def gen_trunc_big(rnd, cases, nlogs):
    """>= 3 rotated files + current, >= 20 entries, EVERY byte offset of EVERY file"""
    for _ in range(nlogs):
        t = T0
        lines = ['now %d' % t, 'rl_init dur=86400,86400,86400,86400,86400,86400']
        mid = 0
        files = []
        for nf in (7, 7, 6, 3):
            b = ''
            for i in range(nf):
                t += rnd.choice((1, 2, 7))
                mid += 1
                sec = rnd.choice(SECS)
                lines += ['now %d' % t, 'rl_relay sec=%s id=%d' % (sec, mid)]
                b += enc_entry(t, sec, mid)
            if len(files) < 3:
                files.append((str(t + 1), b))
                t += 3
                lines += ['now %d' % t, 'rl_rotate']
            else:
                files.append(('cur', b))
        e = rnd.choice((1, 2, 3, 5))
        for (f, b) in files:
            for k in range(len(b) + 1):
                cases.append({'lines': lines + ['now %d' % (t + 2), 'rl_ls', 'rl_trunc f=%s k=%d' % (f, k), 'rl_ls', 'rl_conn e=%d' % e, 'rl_ls'],
                              'tags': {'family': 'truncate-every-offset-big'}})


def gen_mirror(rnd, cases, n):
    """both nodes kept a log for each other; the peer's replay (same code) is handled before ours starts"""
    for _ in range(n):
        n1, n2 = rnd.choice(((2, 1), (1, 2), (3, 1), (2, 2), (1, 0), (0, 2)))
        base, name, b1, b2, t = small_log(rnd, n1, n2)
        e = rnd.choice((1, 2, 3, 5))
        pre = []
        if rnd.random() < 0.4:   # an earlier honest confirmation
            pre = ['rl_conn e=%d' % e, 'rl_ack e=%d p=%d' % (e, T0 + rnd.randint(1, 4)), 'rl_disc e=%d' % e]
        cases.append({'lines': base + pre + ['now %d' % (t + rnd.choice((2, 15, 60))), 'rl_ls', 'rl_conn e=%d mirror=1' % e, 'rl_ls'],
                      'tags': {'family': 'mirror-setlogposition'}})


def byte_choices(rnd, orig):
    """replacement values on which the strict decoder of the model and JsonDecode agree (see notes)"""
    c = chr(orig)
    if c.isdigit():
        return [ord(x) for x in '0123456789' if x != c] + [ord('X')]
    return [ord('X'), ord('0'), ord('7')]


KEYRE = None


def key_positions(b):
    """offsets strictly inside the quotes of the five key names of a persisted entry (JsonDecode accepts a renamed key, the strict decoder does not)"""
    import re
    pos = set()
    for m in re.finditer(r'(?<!\\)"(message|secobj|name|type|timestamp)":', b):
        pos.update(range(m.start() + 1, m.end() - 2))
    return pos


def gen_corrupt_any(rnd, cases, nlogs, per_log):
    """arbitrary byte at arbitrary offset: compared through the oracle only (canon() blanks the delivered list)"""
    for _ in range(nlogs):
        n1, n2 = rnd.choice(((2, 1), (2, 2), (3, 1)))
        base, name, b1, b2, t = small_log(rnd, n1, n2)
        e = rnd.choice((1, 2, 3, 5))
        for _ in range(per_log):
            f, b = rnd.choice(((str(name), b1), (str(name), b1), ('cur', b2)))
            k = rnd.randrange(len(b))
            v = rnd.choice((rnd.randrange(256), rnd.randrange(32, 127), ord(rnd.choice('0123456789,:"{}\\ \n'))))
            lines = base + ['now %d' % (t + 2), 'rl_ls', 'rl_corrupt f=%s k=%d b=%d lax=1' % (f, k, v), 'rl_ls', 'rl_conn e=%d' % e, 'rl_ls']
            cases.append({'lines': lines, 'tags': {'family': 'corrupt-any-byte'}})


def canon(lines):
    """after an arbitrary-byte corruption the delivered list is compared by the oracle (intact entries), not literally"""
    out, lax = [], False
    for l in lines:
        if l == 'rl_corrupt lax':
            lax = True
        if lax and l.startswith('rl_conn '):
            l = l.split(' out=')[0] + ' out=*'
        out.append(l)
    return out


def gen_corrupt(rnd, cases, nlogs, per_log):
    for _ in range(nlogs):
        n1, n2 = rnd.choice(((2, 1), (2, 2), (3, 1)))
        base, name, b1, b2, t = small_log(rnd, n1, n2)
        e = rnd.choice((1, 2, 3, 5))
        for _ in range(per_log):
            f, b = rnd.choice(((str(name), b1), (str(name), b1), ('cur', b2)))
            # aim: length header, frame terminator, timestamp digits, message text, anywhere
            firstlen = b.index(':')
            tspos = b.rindex('"timestamp":') + len('"timestamp":')
            k = rnd.choice((rnd.randrange(0, firstlen + 1), rnd.randrange(len(b)), rnd.randrange(len(b)),
                            tspos + rnd.randrange(10), b.index('"timestamp":') + 12 + rnd.randrange(10), len(b) - 1,
                            b.index(',', firstlen + int(b[:firstlen])) if False else rnd.randrange(len(b))))
            if k in key_positions(b):
                k = tspos + rnd.randrange(10)
            v = rnd.choice(byte_choices(rnd, ord(b[k])))
            lines = base + ['now %d' % (t + 2), 'rl_ls', 'rl_corrupt f=%s k=%d b=%d' % (f, k, v), 'rl_ls', 'rl_conn e=%d' % e, 'rl_ls']
            cases.append({'lines': lines, 'tags': {'family': 'corrupt-sampled'}})


ESC = {'"': 2, '\\': 2}


def enc_entry_len(ts, sec, mid, n, c):
    """byte length of the entry PersistMessage writes for an event with a pad member of n bytes c (n < 0: none)"""
    if n < 0:
        e = enc_entry(ts, sec, mid)
        return int(e[:e.index(':')])
    msg = '{"jsonrpc":"2.0","method":"vf::ev","params":{"id":%d,"pad":""},"ts":%d}' % (mid, ts)
    s = '{"message":"' + msg.replace('\\', '\\\\').replace('"', '\\"') + '"'
    if sec != '-':
        s += ',"secobj":{"name":"rl-%s","type":"%s"}' % (sec, TYPE_NAME[sec[0]])
    s += ',"timestamp":%d}' % ts
    k = ESC.get(c, 1)
    return len(s) + n * k * k      # escaped once in the message text, once more in the entry


def frame_len(n):
    return len(str(n)) + 1 + n + 1


SIZES_QUICK = [65535, 65536, 65537, 1048575, 1048576, 1048577]
SIZES_MORE = [4095, 4096, 4097, 8192, 9999, 10000, 99999, 100000, 131071, 131072, 131073, 999999, 1000000,
              2097152, 4194303, 4194304, 4194305, 9999999, 10000000]


def gen_sizes(rnd, cases, tier):
    """one large entry of an exact byte length (the netstring length prefix), or ending at an exact file offset, at the
    boundaries of the reader: 4096 (one Read of StreamReadContext::FillFromStream), 64 KiB (one FillFromStream call),
    1 MiB (the limit for anonymous JSON-RPC peers), 4 MiB, changes of the number of digits of the length prefix;
    first / in the middle / last in its file; in a rotated file or in current; small entries around it and in the other file"""
    sizes = list(SIZES_QUICK)
    if tier != 'quick':
        sizes += SIZES_MORE
    plans = []
    for S in sizes:
        for pos in ('first', 'middle', 'last'):
            for where in ('rotated', 'current'):
                plans.append((S, pos, where, 'entry', 'x'))
    if tier == 'quick':
        plans.append((4194304, 'middle', 'rotated', 'entry', 'x'))
        plans.append((1048576, 'middle', 'current', 'entry', '"'))
        plans.append((65536, 'first', 'rotated', 'offset', 'x'))
        plans.append((65536 * 3, 'middle', 'current', 'offset', 'x'))
        plans.append((1048576, 'last', 'rotated', 'offset', '\\'))
    else:
        for S in (65536, 131072, 1048576, 4194304):
            for d in (-1, 0, 1):
                for pos in ('first', 'middle', 'last'):
                    plans.append((S + d, pos, rnd.choice(('rotated', 'current')), 'offset', 'x'))
        for S in (65536, 1048576, 4194304):
            for c in ('"', '\\'):
                for pos in ('first', 'middle', 'last'):
                    plans.append((S + rnd.choice((-3, 0, 1)), pos, rnd.choice(('rotated', 'current')), 'entry', c))
    for (S, pos, where, mode, c) in plans:
        t = T0
        lines = ['now %d' % t, 'rl_init dur=86400,86400,86400,86400,86400,86400']
        mid = 0
        npre = {'first': 0, 'middle': rnd.choice((1, 2, 3)), 'last': rnd.choice((1, 2))}[pos]
        npost = {'first': rnd.choice((1, 2)), 'middle': rnd.choice((1, 2, 3)), 'last': 0}[pos]
        nother = rnd.choice((1, 2))
        e = rnd.choice((1, 1, 2, 3, 5))

        def small(k):
            nonlocal t, mid, lines
            off = 0
            for _ in range(k):
                t += rnd.choice((1, 2, 7))
                mid += 1
                sec = rnd.choice(SECS)
                pn = rnd.choice((-1, -1, 0, 1, 17, 300))
                pad = '' if pn < 0 else ' pad=R%dx%02x' % (pn, ord(rnd.choice('xy "\\')))
                lines += ['now %d' % t, 'rl_relay sec=%s id=%d%s' % (sec, mid, pad)]
                pc = chr(int(pad[-2:], 16)) if pad else 'x'
                off += frame_len(enc_entry_len(t, sec, mid, pn, pc))
            return off

        def big(before):
            nonlocal t, mid, lines
            t += rnd.choice((1, 2, 7))
            mid += 1
            sec = rnd.choice({3: ('-', 'oa'), 5: ('-', 'ob')}.get(e, ('-', 'om', 'oa', 'ob', 'zm')))     # one the endpoint may see
            k = ESC.get(c, 1) ** 2
            base = enc_entry_len(t, sec, mid, 0, c)
            if mode == 'entry':
                n = max(0, (S - base) // k)
            else:
                # the frame ends at file offset S (or as close below it as the escaping allows)
                n = max(0, (S - before - base - 2 - len(str(S))) // k)
                while n > 0 and before + frame_len(base + n * k) > S:
                    n -= 1
                while before + frame_len(base + (n + 1) * k) <= S:
                    n += 1
            lines += ['now %d' % t, 'rl_relay sec=%s id=%d pad=R%dx%02x' % (sec, mid, n, ord(c))]

        if where == 'current':
            small(nother)
            t += 3
            lines += ['now %d' % t, 'rl_rotate']
        off = small(npre)
        big(off)
        small(npost)
        if where == 'rotated':
            t += 3
            lines += ['now %d' % t, 'rl_rotate']
            small(nother)
        t += rnd.choice((2, 15))
        lines += ['now %d' % t, 'rl_ls', 'rl_conn e=%d' % e, 'rl_ls']
        if rnd.random() < 0.4:
            # the peer confirms, clean-up, a second outage with further events, a second replay
            t += 5
            lines += ['rl_ack e=%d p=%d' % (e, t - 5), 'rl_disc e=%d' % e, 'now %d' % t, 'rl_ls', 'rl_timer', 'rl_ls']
            small(2)
            t += 2
            lines += ['now %d' % t, 'rl_ls', 'rl_conn e=%d' % e, 'rl_ls']
        cases.append({'lines': lines, 'tags': {'family': 'size-boundaries', 'size': S, 'mode': mode, 'pos': pos, 'where': where}})


def gen_big_history(rnd, cases, n, tier):
    """histories with several large entries (restarts, rotations, acknowledgements, clean-up in between)"""
    for _ in range(n):
        t = T0
        durs = [rnd.choice((-1, 600, 3600, 86400)) for _ in range(6)]
        lines = ['now %d' % t, 'rl_init dur=' + ','.join(map(str, durs))]
        mid = 0
        conn = set()
        for _ in range(rnd.choice((8, 14, 20))):
            r = rnd.random()
            if r < 0.5:
                t += rnd.choice((1, 1, 2, 5, 30))
                mid += 1
                pn = rnd.choice((-1, -1, 0, 100, 4096, 4097, 65400, 65536, 70000, 300000, 1048400, 1048576, 1100000) if tier == 'quick'
                                else (-1, 0, 4096, 65400, 65536, 1048400, 1048576, 1100000, 2500000, 4194304))
                pad = '' if pn < 0 else ' pad=R%dx%02x' % (pn, ord(rnd.choice('xxxz "\\')))
                lines += ['now %d' % t, 'rl_relay sec=%s id=%d%s' % (rnd.choice(SECS), mid, pad)]
            elif r < 0.68:
                t += rnd.choice((0, 1, 3, 20))
                e = rnd.choice((1, 2, 3, 4, 5, 6))
                lines += ['now %d' % t, 'rl_ls', 'rl_conn e=%d' % e, 'rl_ls']
                conn.add(e)
            elif r < 0.76:
                e = rnd.choice((1, 2, 3, 4, 5, 6))
                lines += ['rl_disc e=%d' % e]
                conn.discard(e)
            elif r < 0.86:
                t += rnd.choice((0, 1, 5))
                lines += ['now %d' % t, 'rl_rotate', 'rl_ls']
            elif r < 0.92:
                t += rnd.choice((0, 1, 5))
                lines += ['now %d' % t, 'rl_ls', 'rl_restart clean=%d' % rnd.randint(0, 1), 'rl_ls']
                conn.clear()
            else:
                t += rnd.choice((5, 40, 700))
                if conn:
                    e = rnd.choice(sorted(conn))
                    lines += ['rl_ack e=%d p=%d' % (e, t - rnd.choice((1, 30)))]
                lines += ['now %d' % t, 'rl_ls', 'rl_timer', 'rl_ls']
        e = rnd.choice((1, 2, 3, 5))
        t += 2
        lines += ['now %d' % t, 'rl_ls', 'rl_conn e=%d' % e, 'rl_ls']
        cases.append({'lines': lines, 'tags': {'family': 'big-history'}})


def gen_big_trunc(rnd, cases, n):
    """a file with a large entry cut inside / right before / right after the large entry: the entries before the cut and
    the other file are replayed"""
    for _ in range(n):
        t = T0
        lines = ['now %d' % t, 'rl_init dur=86400,86400,86400,86400,86400,86400']
        mid = 0
        off = []
        pos = 0
        S = rnd.choice((70000, 200000, 1048576, 1500000))
        for i in range(4):
            t += rnd.choice((1, 2))
            mid += 1
            sec = rnd.choice(('-', 'om', 'oa'))
            pn = S if i == 2 else -1
            lines += ['now %d' % t, 'rl_relay sec=%s id=%d%s' % (sec, mid, '' if pn < 0 else ' pad=R%dx78' % pn)]
            pos += frame_len(enc_entry_len(t, sec, mid, pn, 'x'))
            off.append(pos)
        name = t + 1
        incur = rnd.random() < 0.5
        if not incur:
            t += 3
            lines += ['now %d' % t, 'rl_rotate']
            for i in range(2):
                t += 1
                mid += 1
                lines += ['now %d' % t, 'rl_relay sec=- id=%d' % mid]
        k = rnd.choice((off[1] - 1, off[1], off[1] + 1, off[1] + 8, off[1] + 65536, (off[1] + off[2]) // 2, off[2] - 1, off[2], off[2] + 1, off[3] - 1))
        k = max(0, min(k, off[3]))
        e = rnd.choice((1, 3, 5))
        lines += ['now %d' % (t + 2), 'rl_trunc f=%s k=%d' % ('cur' if incur else str(name), k), 'rl_conn e=%d' % e]
        cases.append({'lines': lines, 'tags': {'family': 'big-truncate'}})


def gen_nonmonotone(rnd, cases, n):
    """boundary of the premise 'strictly increasing timestamps / file named later than its entries': the sender's clock does
    not advance between two relays (equal timestamps), steps back by 1 s .. 1 h, rotations in the same second (denied:
    'never overwrite') and right after a step back (file named earlier than an entry in it), acknowledgement + clean-up"""
    for _ in range(n):
        t = T0 + 1000
        lines = ['now %d' % t, 'rl_init dur=86400,86400,86400,86400,86400,86400']
        mid = 0
        e = rnd.choice((1, 1, 2, 3, 5))
        stamps = []
        bad = False
        for i in range(rnd.choice((2, 3, 4, 6))):
            dt = rnd.choice((0, 0, -1, -1, -5, -100, -3600, 1, 1, 2, 7))
            if i == 0:
                dt = rnd.choice((1, 5))
            if dt <= 0:
                bad = True
            t += dt
            mid += 1
            lines += ['now %d' % t, 'rl_relay sec=%s id=%d' % (rnd.choice(('-', '-', 'om', 'oa', 'ob', 'zm')), mid)]
            stamps.append(t)
            r = rnd.random()
            if r < 0.25:
                lines += ['rl_rotate', 'rl_ls']
                if rnd.random() < 0.5:
                    lines += ['rl_rotate', 'rl_ls']          # twice in the same second: denied
            elif r < 0.32:
                lines += ['rl_ls', 'rl_restart clean=%d' % rnd.randint(0, 1), 'rl_ls']
        if not bad:
            mid += 1
            lines += ['rl_relay sec=- id=%d' % mid]     # same clock reading as the previous event
            stamps.append(t)
        t = max(stamps) + rnd.choice((1, 3, 20))
        lines += ['now %d' % t, 'rl_ls', 'rl_conn e=%d' % e, 'rl_ls']
        if rnd.random() < 0.5:
            p = rnd.choice(stamps) + rnd.choice((0, 1, -1))
            t += 5
            lines += ['rl_ack e=%d p=%d' % (e, p), 'rl_disc e=%d' % e, 'now %d' % t, 'rl_ls', 'rl_timer', 'rl_ls']
            mid += 1
            t += 1
            lines += ['now %d' % t, 'rl_relay sec=- id=%d' % mid, 'now %d' % (t + 2), 'rl_ls', 'rl_conn e=%d' % e, 'rl_ls']
        cases.append({'lines': lines, 'tags': {'family': 'nonmonotone-clock'}})


FACT_PINS = {
    # sha1 of the comment-stripped text of the regenerated fact files for the pinned source (which areas a changed fact concerns)
    'Facts_fn_relay.v': ('relay', None),
    'Facts_c12.v': ('limits', None),
    'Facts_fn_replay.v': ('replay', None),
}
FAMILY_AREA = {'two-endpoint-zones': 'relay', 'random-history': 'relay', 'size-boundaries': 'limits', 'big-history': 'limits', 'big-truncate': 'limits',
               'mirror-setlogposition': 'replay', 'nonmonotone-clock': 'replay', 'truncate-every-offset': 'replay', 'corrupt-sampled': 'replay',
               'corrupt-any-byte': 'replay'}


PINS_FILE = os.path.join(os.path.dirname(os.path.abspath(__file__)), 'p_c12_pins.json')


def fact_digest(name):
    try:
        from . import core
        txt = open(os.path.join(core.COQ, 'Facts', name)).read()
    except Exception:
        return None
    txt = re.sub(r'\(\*.*?\*\)', '', txt, flags=re.S)
    return hashlib.sha1(' '.join(txt.split()).encode()).hexdigest()


def changed_areas():
    """areas of the model whose regenerated source facts differ from the forms pinned in vlib/p_c12_pins.json
    (written by `python3 -m vlib.p_c12 --pin` on the unchanged tree; a stale pin only changes the ORDER of the search population)"""
    import json
    try:
        pins = json.load(open(PINS_FILE))
    except Exception:
        return set()
    ch = set()
    for name, (area, _) in FACT_PINS.items():
        d = fact_digest(name)
        if d is not None and name in pins and pins[name] != d:
            ch.add(area)
    return ch


def generate(seed, tier):
    rnd = random.Random(seed)
    cases = []
    if tier == 'search' and seed // 1000 == 1:
        # first round of the capped search after a broken proof / correspondence: a small targeted population, the families that
        # concern the area whose source facts changed first (a few seconds instead of a full round)
        gen_two_endpoint(rnd, cases, 300)
        gen_sizes(rnd, cases, 'quick')
        gen_mirror(rnd, cases, 100)
        gen_nonmonotone(rnd, cases, 100)
        gen_big_trunc(rnd, cases, 10)
        for i in range(300):
            cases.append({'lines': gen_history(rnd, rnd.choice((8, 15, 30))), 'tags': {'family': 'random-history'}})
        ch = changed_areas()
        cases.sort(key=lambda c: 0 if FAMILY_AREA.get(c['tags']['family']) in ch else 1)    # stable: generation order otherwise
        return cases
    gen_two_endpoint(rnd, cases, {'quick': 300, 'thorough': 3000, 'search': 600}.get(tier, 300))
    nh = {'quick': 1500, 'thorough': 12000, 'search': 2000}.get(tier, 1500)
    for i in range(nh):
        cases.append({'lines': gen_history(rnd, rnd.choice((8, 15, 30, 60))), 'tags': {'family': 'random-history'}})
    gen_trunc(rnd, cases, {'quick': 3, 'thorough': 20, 'search': 4}.get(tier, 3))
    if tier == 'thorough':
        gen_trunc_big(rnd, cases, 2)
    gen_mirror(rnd, cases, {'quick': 150, 'thorough': 1000, 'search': 300}.get(tier, 150))
    gen_corrupt(rnd, cases, {'quick': 40, 'thorough': 300, 'search': 80}.get(tier, 40), 25)
    gen_corrupt_any(rnd, cases, {'quick': 30, 'thorough': 200, 'search': 60}.get(tier, 30), 25)
    gen_sizes(rnd, cases, 'quick' if tier in ('quick', 'search') else tier)
    gen_big_history(rnd, cases, {'quick': 40, 'thorough': 300, 'search': 60}.get(tier, 40), 'quick' if tier in ('quick', 'search') else tier)
    gen_big_trunc(rnd, cases, {'quick': 20, 'thorough': 150, 'search': 30}.get(tier, 20))
    gen_nonmonotone(rnd, cases, {'quick': 150, 'thorough': 1500, 'search': 300}.get(tier, 150))
    return cases


def nontrivial(case, impl_lines):
    return any(l.startswith('rl_relay logged=1') for l in impl_lines) and any(l.startswith('rl_conn') and 'out=M' in l for l in impl_lines)


def classify(case, detail, impl_lines):
    if 'crash' in detail:
        return 'crash'
    return detail.split()[0] if detail else 'unclassified'


def keep_line(l):
    return l.startswith('rl_init') or l.startswith('now')


def extra_stats(cases, impl):
    st = {'persisted': 0, 'not_persisted': 0, 'replays': 0, 'replayed_messages': 0, 'setlogposition_in_replay': 0, 'truncations': 0, 'corruptions': 0,
          'relays_with_pad': 0, 'largest_pad': 0, 'pads_ge_64KiB': 0, 'pads_ge_1MiB': 0, 'largest_replayed_message': 0, 'replayed_messages_ge_1MiB': 0,
          'largest_log_file': 0, 'size_boundary_targets': {}, 'nonmonotone_relays': 0,
          'arriving_messages': 0, 'arriving_accepted': 0, 'arriving_persisted': 0, 'arriving_with_originZone': 0, 'arriving_while_zone_mate_away': 0,
          'relays_moving_a_connected_position': 0, 'two_endpoint_pairs': {}}
    for c in cases:
        last = None
        tnow = None
        for l in c['lines']:
            if l.startswith('rl_trunc'): st['truncations'] += 1
            if l.startswith('rl_corrupt'): st['corruptions'] += 1
            if l.startswith('now '):
                tnow = int(l.split()[1])
            if l.startswith('rl_init'):
                last = None
            if l.startswith('rl_relay'):
                if last is not None and tnow is not None and tnow <= last:
                    st['nonmonotone_relays'] += 1
                last = tnow
                if ' pad=R' in l:
                    n = int(l.split(' pad=R')[1].split('x')[0])
                    st['relays_with_pad'] += 1
                    st['largest_pad'] = max(st['largest_pad'], n)
                    if n >= 65536 - 400: st['pads_ge_64KiB'] += 1
                    if n >= 1048576 - 400: st['pads_ge_1MiB'] += 1
        tg = c.get('tags', {})
        if tg.get('family') == 'two-endpoint-zones':
            st['two_endpoint_pairs'][tg['pair']] = st['two_endpoint_pairs'].get(tg['pair'], 0) + 1
        for l in c['lines']:
            if l.startswith('rl_from') and ' oz=' in l:
                st['arriving_with_originZone'] += 1
        if tg.get('family') == 'size-boundaries':
            k = '%s:%d' % (tg['mode'], tg['size'])
            st['size_boundary_targets'][k] = st['size_boundary_targets'].get(k, 0) + 1
        for l in impl.get(c['id'], []):
            if l.startswith('rl_relay') or l.startswith('rl_from'):
                tk = dict(x.split('=', 1) for x in l.split()[1:] if '=' in x)
                if tk.get('pos0') != tk.get('pos'):
                    st['relays_moving_a_connected_position'] += 1
                if l.startswith('rl_from'):
                    st['arriving_messages'] += 1
                    st['arriving_accepted'] += tk.get('accepted') == '1'
                    st['arriving_persisted'] += tk.get('logged') == '1'
                    cn = tk.get('conn', '')
                    if len(cn) >= 4 and tk.get('e') in ('3', '4') and cn[2:4] in ('10', '01'):
                        st['arriving_while_zone_mate_away'] += 1
            if l.startswith('rl_relay logged=1'): st['persisted'] += 1
            elif l.startswith('rl_relay'): st['not_persisted'] += 1
            elif l.startswith('rl_conn'):
                st['replays'] += 1
                for it in l.split(' out=')[-1].split(','):
                    if it.startswith('M'):
                        st['replayed_messages'] += 1
                        try:
                            n = int(it[1:].split(':')[0])
                        except ValueError:
                            continue
                        st['largest_replayed_message'] = max(st['largest_replayed_message'], n)
                        if n >= 1048576: st['replayed_messages_ge_1MiB'] += 1
                    elif it.startswith('P'):
                        st['setlogposition_in_replay'] += 1
            elif l.startswith('rl_ls files='):
                for f in l.split()[1][6:].split(','):
                    if ':' in f:
                        st['largest_log_file'] = max(st['largest_log_file'], int(f.split(':')[1]))
                st['largest_log_file'] = max(st['largest_log_file'], int(l.split(' cur=')[1].split()[0]))
    return st


if __name__ == '__main__':
    import sys, json
    if '--pin' in sys.argv:
        json.dump({n: fact_digest(n) for n in FACT_PINS}, open(PINS_FILE, 'w'), indent=1, sort_keys=True)
        print(open(PINS_FILE).read())
    else:
        print(sorted(changed_areas()))
